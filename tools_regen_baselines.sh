#!/bin/bash
# Regenerates every committed ratchet baseline from /repo's current tree (a reviewed step: run it only after a
# legitimate change of /repo, e.g. a fix commit, then review `git diff baselines/` and commit).
set -e
cd /verif/checker && GOFLAGS=-mod=vendor GOPROXY=off GOWORK=off go build -o /verif/bin/gbverif ./cmd/gbverif
for pair in bounds:bounds switch:switches call:calls errexit:errexits cond:conds readguard:readguard write:writes callarg:callargs slicebound:slicebounds storeconst:storeconsts provenance:provenance loop:loops; do
  hook=${pair%%:*}; file=${pair##*:}
  /verif/bin/gbverif debug $hook-baseline 2>/dev/null | sed -n '/BASELINE-BEGIN/,$p' | tail -n +2 > /tmp/$file.json.new
  python3 -c "import json,sys;json.load(open('/tmp/$file.json.new'))"
  mv /tmp/$file.json.new /verif/baselines/$file.json
  echo "baselines/$file.json regenerated"
done
