#!/bin/bash
# runs every registered check on /repo's working tree (quick tier unless $1 given); prints one line per check
tier=${1:-quick}
rc=0
for p in $(/verif/bin/gbverif list | awk '{print $1}'); do
  /verif/bin/gbverif check $p --tier $tier 2>&1 | grep -E "^(VIOLATION|C[0-9]+ tier)" || true
  [ ${PIPESTATUS[0]} -ne 0 ] && rc=1
done
exit $rc
