#!/usr/bin/env python3
"""Regenerates /verif/MANIFEST.json from the table below (run after adding a check)."""
import json, subprocess
props = [json.loads(l) for l in open('/verif/properties.jsonl')]
base = json.load(open('/root/.vp/BASELINE.json'))['cmd']
ids = subprocess.check_output(['/verif/bin/gbverif', 'list']).decode().split()
claimed = {
 # id: (technique, level text, design ref, note)
 'C01': ('lock-discipline + send/bookkeeping pairing (must-hold dataflow, dominance rules on SSA)', 'structural necessary conditions of export consistency', '§4 C01'),
 'C02': ('guarded-by / requires-lock must-hold analysis + who-may-write census', 'locking and writer-confinement of the RIB structures', '§4 C02'),
 'C03': ('comparator-chain extraction and per-stage mirror-symmetry check on SSA paths', 'shape of the decision process: order, polarity, antisymmetry of every stage', '§4 C03'),
 'C04': ('decode-side allocation completeness, table agreement, receiver-purity taint analysis, codec field symmetry', 'structural necessary conditions of the round trip', '§4 C04'),
 'C05': ('interprocedural taint analysis: decoder input immutability', 'one clause of the statement (caller buffer unmodified); crash-freedom not decided', '§4 C05'),
 'C06': ('RFC 7606 class table comparison, strongest-wins guard rule, enum-domain evaluation of the validation gate', 'containment disciplines of malformed UPDATE handling', '§4 C06'),
 'C07': ('FSM transition extraction from state handlers vs RFC 4271 table; guard/dominance rules', 'transition relation and message gates, no timing', '§4 C07'),
 'C08': ('dataflow shape rules on the negotiation code', 'shape of min/intersection/complement computations', '§4 C08'),
 'C09': ('copy-on-write ownership analysis (shared-attribute taint, fresh-path provenance)', 'the non-interference clause of export rewriting', '§4 C09'),
 'C10': ('ownership analysis over policy actions; table completeness for condition/action types', 'non-interference clause and converter completeness', '§4 C10'),
 'C11': ('guard rules on the packers (byte-equality before cage reuse, shared size constants)', 'structural conditions of packing', '§4 C11'),
 'C12': ('enum-domain guard on loss-reason classification; guard/dominance rules', 'which reasons may become graceful; no timing', '§4 C12'),
 'C13': ('cache-coherence rule: every edit of a pattern list reaches the matcher rebuild', 'edit/rebuild pairing only', '§4 C13'),
 'C14': ('producer/consumer placement rules for AS4_PATH/AS4_AGGREGATOR; ownership of edited messages', 'placement only', '§4 C14'),
 'C15': ('single-export-pipeline and lock-discipline rules', 'structural conditions only', '§4 C15'),
 'C16': ('requires-lock analysis of ROA table mutators; RTR dispatch completeness', 'structural conditions only', '§4 C16'),
 'C17': ('guard rules (import test dominates localisation), index-update pairing', 'structural conditions only', '§4 C17'),
 'C18': ('factory/type-switch agreement and field symmetry of API converters', 'no native type or field is dropped by a conversion direction', '§4 C18'),
 'C19': ('taint analysis (input immutability), splitter same-value len guard, decode-side allocation completeness', 'structural conditions of the auxiliary codecs', '§4 C19'),
 'C20': ('interprocedural lock analysis: lock-order graph acyclicity, guarded-by must-hold table, re-entry and wait rules; receiver-purity taint analysis', 'the locking disciplines race- and deadlock-freedom rest on', '§4 C20'),
}
na_reasons = {}
try:
    na_reasons = json.load(open('/verif/not_applicable.json'))
except Exception:
    pass
checks, na = [], []
for p in props:
    i = p['id']
    if i in ids and i not in na_reasons:
        tech, lvl, ref = claimed[i]
        checks.append({
            'property_id': i,
            'quick_cmd': f'/verif/bin/gbverif check {i} --tier quick',
            'thorough_cmd': f'/verif/bin/gbverif check {i} --tier thorough',
            'evidence_file': f'/verif/evidence/{i}.json',
            'replay_cmd_template': f'/verif/bin/gbverif replay {{path}}',
            'engine': 'gbverif',
            'level_claimed': {'category': 'other',
                'text': 'static analysis of /repo\'s type-checked source (go/packages + go/ssa + VTA call graph), all paths of the program text: ' + lvl + '. Partial by design: the behavioural property as a whole is not decided; evidence.coverage.explanation / not_decided name the clause.',
                'design_ref': 'DESIGN.md ' + ref},
            'level_note': 'trusts go/types, go/ssa, the VTA call graph (over-approximate), the absence of reflection/unsafe on the analysed paths, and the RFC tables embedded in the checker; reviewed exceptions are listed in the evidence with their reasons',
            'technique': 'static analysis: ' + tech,
        })
    else:
        na.append({'property_id': i, 'reason': na_reasons.get(i, 'static check for this property not built yet in this session; planned structural clause in DESIGN.md §4 ' + i)})
m = {'version': 1,
 'setup_cmd': 'cd /verif/checker && GOFLAGS=-mod=vendor GOPROXY=off GOWORK=off go build -o /verif/bin/gbverif ./cmd/gbverif',
 'hooks': {'guard': 'verif', 'enable': 'none: the checks analyse /repo\'s source (go/packages + go/ssa); nothing is instrumented or executed', 'baseline_off_cmd': base, 'source_commits': [], 'add_only': True},
 'engines': [{'name': 'gbverif', 'path': '/verif/checker', 'serves_properties': [c['property_id'] for c in checks], 'kind_free_text': 'repository-specific static analyser (Go, x/tools v0.29.0 vendored): lock analysis, ownership/taint analysis, table/dispatch completeness, guard/dominance rules'}],
 'checks': checks, 'not_applicable': na,
 'notes': 'Static analysis only. Every check loads /repo\'s working tree afresh. Genuine defects found are in known_findings.json (fixed ones carry the fix: commit).'}
json.dump(m, open('/verif/MANIFEST.json', 'w'), indent=1)
print('claimed', [c['property_id'] for c in checks]); print('n/a', [n['property_id'] for n in na])
