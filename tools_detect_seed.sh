#!/bin/bash
# usage: tools_detect_seed.sh <seed-id> [prop ...]  — applies the seeded patch to /repo, runs the checks, undoes it, writes meta.json
id=$1; shift
d=/verif/seeded/$id
prop=$(jq -r .property $d/agent_meta.json)
props="$@"; [ -z "$props" ] && props=$prop
# a scratch worktree of /repo HEAD (removed by the caller when the batch is done), so that /repo stays untouched
R=${DETECT_REPO:-/tmp/detect_repo}
if [ ! -d $R ]; then git -C /repo worktree add --detach $R HEAD -q || exit 2; fi
cd $R
git checkout -q --detach $(git -C /repo rev-parse HEAD) && git checkout -- . && git clean -fdq
git apply $d/patch.diff || { echo "patch does not apply"; exit 2; }
DV=${DETECT_VERIF:-/tmp/detect_verif}; mkdir -p $DV; cp /verif/known_findings.json $DV/; : > $d/detect.log
for p in $props; do
  VERIF_REPO=$R VERIF_DIR=$DV ${GBVERIF:-/verif/bin/gbverif} check $p 2>&1 | grep -E "^(VIOLATION|KNOWN-FINDING|C[0-9]+ tier)" | sed "s#$DV#/verif#" >> $d/detect.log
done
git checkout -- .
n=$(grep -c "^VIOLATION" $d/detect.log)
python3 - "$id" "$n" <<'PY'
import json,sys,re
id,n=sys.argv[1],int(sys.argv[2])
d='/verif/seeded/'+id
am=json.load(open(d+'/agent_meta.json'))
confirm=open(d+'/confirm.log').read()
rules=sorted(set(re.findall(r'rule=(\S+)',open(d+'/detect.log').read())))
meta={'id':id,'property':am.get('property'),'summary':am.get('summary'),'needs_to_manifest':am.get('needs'),
 'demo':{'dir':am.get('demo_dir'),'cmd':am.get('demo_cmd')},
 'confirmed':'RESULT confirmed' in confirm,
 'what_i_ran':'tools_confirm_seed.sh: fresh worktree of /repo HEAD under /tmp/confirm; patch applied; demo fails; full suite (unshare -n) passes; patch removed; demo passes. tools_detect_seed.sh: patch applied to a scratch worktree of /repo HEAD, gbverif check run there (VERIF_REPO), patch undone.',
 'detected':n>0,'detected_by_rules':rules}
json.dump(meta,open(d+'/meta.json','w'),indent=1)
print(id,'detected' if n>0 else 'MISSED',rules)
PY
