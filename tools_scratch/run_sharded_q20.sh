#!/bin/bash
# all patches listed in shard?.txt against ${H:-/verif}, six worktrees in parallel, quiet output
rm -f /tmp/benign/shard*.log
i=0
for r in /tmp/dbg_repo /tmp/dbg2_repo /tmp/dbg3_repo /tmp/dbg4_repo /tmp/dbg5_repo /tmp/dbg6_repo; do
  /tmp/benign/run_q20.sh ${H:-/verif} $r $(cat /tmp/benign/shard$i.txt) > /tmp/benign/shard$i.log 2>&1 &
  i=$((i+1))
done
wait
cat /tmp/benign/shard?.log > /tmp/benign/final5.log
grep -c "^== " /tmp/benign/final5.log
grep "^== " /tmp/benign/final5.log | grep -v ": 0 violations"
grep "^VIOLATION" /tmp/benign/final5.log | cut -c1-300 | sort -u | head -40
