#!/bin/bash
# usage: confirm_list.sh id...   (sequential)
cd /verif
for s in "$@"; do ./tools_confirm_seed.sh $s; done
