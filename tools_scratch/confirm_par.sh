#!/bin/bash
# usage: confirm_par.sh <nshards> id...   (parallel confirmation, then detection)
n=$1; shift
ids=("$@")
for ((k=0;k<n;k++)); do
  ( for ((i=k;i<${#ids[@]};i+=n)); do /verif/tools_confirm_seed.sh ${ids[$i]}; done ) > /tmp/confirm_par_$k.log 2>&1 &
done
wait
for s in "${ids[@]}"; do echo "$s $(grep RESULT /verif/seeded/$s/confirm.log | tail -1)"; done
