#!/bin/bash
# usage: prompt2.sh <n> <prop ids...>
n=$1; shift
where=$(python3 - "$@" <<'PY'
import json,sys
want=set(sys.argv[1:])
for l in open('/verif/properties.jsonl'):
    p=json.loads(l)
    if p['id'] in want:
        for k in ('state','mechanism'):
            for m in p['anchors'].get(k,[]):
                print('- '+m['where']+'  ('+m['name']+')')
PY
)
cat <<EOT
You are a maintainer of the Go project osrg/gobgp (a BGP daemon) doing routine, behaviour-preserving maintenance. Your scratch git worktree is /tmp/benign/B$n (work ONLY there; never touch /repo or /verif, and do not read anything under /verif). Environment for every shell call: \`export GOFLAGS=-mod=mod GOPROXY=off GOWORK=off\` (no network; do NOT set GOTOOLCHAIN or GOSUMDB). Build: \`go build ./...\`. Tests bind fixed TCP ports and other people run suites concurrently, so ALWAYS run pkg/server tests and the full suite inside a private network namespace: \`unshare -n sh -c 'ip link set lo up && go test -vet=off -count=1 -timeout 25m ./...'\` (~4 min). NEVER use \`git stash\`; to get a clean tree use \`git -C /tmp/benign/B$n checkout -- . && git -C /tmp/benign/B$n clean -fdq\`.

Task: produce 8 DIFFERENT, independent, realistic maintenance changes to non-test source, each INSIDE one of the functions / code areas listed below (these are the core mechanisms of the daemon; pick different ones):
$where

Every change must leave the observable behaviour of gobgp EXACTLY unchanged for every input and every schedule (same messages, same state, same errors, same locking discipline, same copies vs shares) — the pull requests that get merged with "no functional change". Use these kinds, varying them (at least six different kinds among the eight, and at least two of (p), two of (q), one of (n) and one of (h)):
 (a) extract a block of one of these functions into a new helper function or method (the function then calls the helper at the same point);
 (b) inline a small helper/closure into its only caller, or turn a closure into a named function/method;
 (c) hoist a repeated pure expression / getter call into a local, or name a literal with a constant;
 (d) restructure control flow with identical semantics: if/else chain <-> switch, invert a condition and swap branches, replace nested ifs by guard clauses with early continue/return keeping exactly the same paths, merge two identical branches;
 (e) rename parameters, locals, receivers (not functions or types), improve comments, add debug logging (slog Debug) that has no side effects;
 (f) replace a hand-written loop by an equivalent slices/maps call or vice versa; preallocate a slice; simplify a boolean expression to an equivalent one;
 (h) add a provably redundant fast path or nil/empty check (e.g. \`if len(x) == 0 { return }\` in front of a loop over x that would do nothing, an early \`continue\` for a case the following code ignores anyway) — it must not change behaviour for any input;
 (i) replace direct reads of a struct field by an existing accessor method that returns exactly that field (or the reverse), or read a field once into a local instead of several times;
 (j) split a compound condition into nested ifs, merge nested ifs into one condition, or move a condition that is common to both arms outward — with identical truth table and evaluation order of side-effecting operands;
 (k) change the FORM of a defensive copy without removing it (make+copy <-> slices.Clone <-> append([]T(nil), xs...), maps.Clone <-> a copying loop), move an assignment to a struct field into a small setter/helper that is called at the same point, or build a struct with a composite literal instead of field-by-field assignment (same values, same order of side-effecting operands);
 (l) change the FORM of a constant or of an error construction without changing its value: replace a numeric/string literal argument by the existing named constant with the same value (or the reverse), write a constant as an equivalent constant expression (\`4\` -> \`net.IPv4len\`, \`0x40\` -> the named flag), replace \`make([]byte, 4)\` by a fixed array sliced (\`var b [4]byte; ... b[:]\`) where the buffer does not escape, build an error through a small local helper or a pre-declared variable instead of inline (SAME error type, code, subcode, data and text), change \`fmt.Errorf\` with no verbs <-> \`errors.New\`;
 (m) turn a function literal passed as a callback into a method value or named function (or the reverse), or thread a value through a new parameter of a private helper instead of a captured variable;
 (n) work INSIDE a function literal (e.g. the closure handed to s.mgmtOperation in an API method of pkg/server/server.go, a callback literal, a deferred or immediately-invoked literal): apply one of the kinds above to its body (guard clause, hoisted getter, split/merged condition, extracted helper called at the same point), rename its parameters or the local that holds it, add a second small literal with a different purpose to the same function (e.g. a deferred debug log), or reorder two literals' declarations when nothing depends on the order;
 (o) change the FORM of a sub-slice expression on a byte buffer in a decoder/parser without changing the octets it denotes: \`data[a:b]\` <-> \`data[a:][:b-a]\` <-> \`rest := data[a:]; rest[:b-a]\`, hoist \`body := data[hdr:end]\` into a local used later, replace \`x[n:len(x)]\` by \`x[n:]\`, cut once (\`value := data[:length]\`) and then pass \`value[2:]\` instead of \`data[2:length]\`, or obtain the sub-slice from a new tiny private helper that returns it;
 (p) rewrite an INTEGER comparison against a constant (or of len()/cap() against a constant) into an equivalent one: \`x > 4\` <-> \`x >= 5\`, \`x <= 3\` <-> \`x < 4\`, \`len(xs) == 0\` <-> \`len(xs) < 1\`, \`n != 0\` <-> \`n > 0\` for an UNSIGNED n, \`!(a < 5)\` <-> \`a >= 5\`, swap the operands with the mirrored operator; possibly combined with naming the constant;
 (q) behaviour-preserving maintenance in the concurrency plumbing of pkg/server: bfd_server.go / bfd_peer.go (the BFD server loop, bfdPeer.loop, Stop, resetPeer), the watcher type (loop, notify, Stop) in server.go, and the FSM state functions opensent / openconfirm / established in fsm.go (the reader goroutine start, the deferred wait, the collision-resolution branches): extract a block into a helper called at the same point, rename locals, turn an if/else chain into a switch, hoist a repeated load into a local — WITHOUT changing which goroutine does what, what is closed where, what is waited for, or the order of sends/closes;
 (g) reorder two adjacent statements ONLY when they are provably independent (e.g. two local pure computations), or reorder function declarations within a file.
Keep the names of existing functions, methods and types unchanged. Be careful that each change is REALLY equivalent: do not reorder side-effecting calls whose order could matter, do not change which lock is held where, do not change what is cloned vs shared, do not change the values of conditions for any input. Each change should touch 5–40 lines.

For each change k (1..8):
 1. From a clean worktree make the change; \`go build ./...\` and \`go vet ./<pkg>\` must pass; run the tests of the touched package (in the netns for pkg/server).
 2. Save it: \`mkdir -p /tmp/benign/out/B$n-k && git diff > /tmp/benign/out/B$n-k/patch.diff\`, and write /tmp/benign/out/B$n-k/note.txt: one paragraph saying what was changed (file, function, kind a–g) and why it is behaviour-preserving.
 3. Return to a clean tree before the next change.
After all eight, apply all patches together if they do not conflict (otherwise in groups) and run the full suite once in the netns to confirm it passes; say so in your reply. Leave the worktree clean. Reply with a one-line summary per change. Do not commit anything.
EOT
