#!/bin/bash
H=$1; R=$2; shift 2
export GOFLAGS=-mod=mod GOPROXY=off GOWORK=off
V=/tmp/benign_verif_$(basename $R); mkdir -p $V; cp /verif/known_findings.json $V/
for b in "$@"; do
  cd $R && git checkout -q -- . && git clean -fdq
  git apply /verif/benign/$b/patch.diff 2>/dev/null || { echo "== $b: noapply"; continue; }
  out=$(VERIF_HOME=$H VERIF_REPO=$R VERIF_DIR=$V $H/bin/gbverif debug only-read-ratchet 2>&1 | grep -E '^VIOLATION|^panic|goroutine ' | sed 's/replay=[^ ]* //' | cut -c1-400)
  echo "== $b: $(echo "$out" | grep -c VIOLATION) violations"
  [ -n "$out" ] && echo "$out" | sort -u
  cd $R && git checkout -q -- .
done
