#!/bin/bash
# usage: detect_sharded.sh  — all seeds in /verif/seeded, 5 shards
cd /verif/seeded
ids=($(ls | grep "^C"))
rm -f /tmp/detect_shard*.log
for k in 0 1 2 3 4; do
  (
    for ((i=k; i<${#ids[@]}; i+=5)); do
      DETECT_REPO=/tmp/detect_repo$k DETECT_VERIF=/tmp/detect_verif$k /verif/tools_detect_seed.sh ${ids[$i]}
    done
  ) > /tmp/detect_shard$k.log 2>&1 &
done
wait
cat /tmp/detect_shard?.log | sort > /tmp/detect_final.log
grep -c detected /tmp/detect_final.log
grep MISSED /tmp/detect_final.log | awk '{print $1}' | tr '\n' ' '
