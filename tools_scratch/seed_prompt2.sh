#!/bin/bash
# usage: prompt2.sh C03 b [n]
id=$1; sfx=$2; n=${3:-2}
prev=$(for m in /verif/seeded/$id-*/agent_meta.json; do [ -f $m ] && jq -r '"- " + (.summary|gsub("\\s+";" ")|.[0:400])' $m; done)
cat <<EOF
You are helping test a verification framework by playing the role of a developer who introduces a subtle regression into the Go project osrg/gobgp (a BGP daemon).

Your scratch git worktree of the project is /tmp/seed/$id-$sfx (work ONLY there; never touch /repo or /verif, and do not read anything under /verif). Environment for every shell call: \`export GOFLAGS=-mod=mod GOPROXY=off GOWORK=off\` (there is no network; do NOT set GOTOOLCHAIN or GOSUMDB). Build: \`go build ./...\`. Other people run test suites on this machine at the same time and the tests bind fixed TCP ports, so ALWAYS run tests of pkg/server, and the full suite, inside a private network namespace: full suite (takes ~4 minutes, use a long timeout): \`unshare -n sh -c 'ip link set lo up && go test -vet=off -count=1 -timeout 25m ./...'\`. NEVER use \`git stash\` (the stash is shared between all worktrees of this repository); to get back to a clean tree use \`git -C /tmp/seed/$id-$sfx checkout -- . && git -C /tmp/seed/$id-$sfx clean -fdq\`, and to re-apply your change use \`git apply\` on your saved patch file.

The semantic property that should hold for gobgp:

$(cat /tmp/seed/$id.txt)

Task: produce $n DIFFERENT, independent changes to gobgp's non-test source, each of which BREAKS this property while the project still compiles and the ENTIRE existing test suite still passes (unedited). Make them realistic — the kind of slip a developer could make in a refactor, optimisation or feature change (a dropped call, a wrong lock or missing lock, a swapped order, a condition off by one case, an aliasing bug, a table entry gone, a guard weakened, a copy replaced by a share, a check moved after the use), located in the code this property depends on. Prefer changes that need something specific to manifest (a particular interleaving, a crash or fault at a particular point, a multi-step sequence of operations, an unusual input, or two cooperating sites that each look fine alone), NOT ones ordinary use would expose at once. Each change should be small (a few lines, possibly in two places). Make the $n changes differ in kind and location from each other AND from these changes that other people have already made for this property (do not repeat them or close variants of them; pick different functions/mechanisms):
$prev

For each change k (1..$n):
 1. Starting from a clean worktree, make the change and save it with \`git diff > /tmp/seed/out/$id-$sfx-k/patch.diff\` (mkdir -p the directory first; the patch must contain ONLY the change to non-test source, not the demonstration).
 2. Write a demonstration: a Go test file (new _test.go file placed in the relevant package; save a copy as /tmp/seed/out/$id-$sfx-k/demo_test.go) that FAILS with the change applied and PASSES on the unchanged tree. Verify both directions yourself. If it needs -race or a specific -count to manifest, say so.
 3. Run the full existing suite with the change applied (without your demo file) and confirm every package passes. If a test fails, the change is not acceptable — revise it.
 4. Write /tmp/seed/out/$id-$sfx-k/meta.json with fields: property ("$id"), summary (what was changed, file and function, and why it breaks the property), needs (what it takes to manifest), demo_dir (package dir for the demo test, relative to repo root, e.g. "pkg/server"), demo_cmd (exactly of the form: go test -vet=off -count=1 -run 'TestName' ./pkg/dir/ — add -race only if needed), suite_result (what you ran and saw).
When finished, leave the worktree clean and reply with a short summary per change: files/functions touched, why it breaks the property, how the demo shows it. Do not commit anything.
EOF
