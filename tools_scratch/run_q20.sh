#!/bin/bash
# usage: run_q.sh <home> <worktree> ids...  — quiet variant: one line per patch plus distinct violations (no known findings)
H=$1; R=$2; shift 2
V=/tmp/benign_verif_$(basename $R); mkdir -p $V; cp /verif/known_findings.json $V/
for b in "$@"; do
  cd $R && git checkout -q -- . && git clean -fdq
  git apply /tmp/benign/out/$b/patch.diff 2>/dev/null || { echo "== $b: noapply"; continue; }
  out=$(VERIF_REPO=$R VERIF_DIR=$V $H/bin/gbverif check C20 2>&1 | grep -E '^VIOLATION|^panic:|checker panic' | sed 's/replay=[^ ]* //' | cut -c1-420)
  echo "== $b: $(echo "$out" | grep -c VIOLATION) violations"
  [ -n "$out" ] && echo "$out" | sed 's/property=C[0-9]* //' | sort -u
  cd $R && git checkout -q -- .
done
