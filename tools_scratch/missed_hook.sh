#!/bin/bash
export GOFLAGS=-mod=mod GOPROXY=off GOWORK=off
R=/tmp/dbg7_repo
cd $R
for m in /verif/seeded/*/meta.json; do
  d=$(dirname $m); id=$(basename $d)
  [ "$(jq -r .detected $m)" = "true" ] && continue
  git checkout -q -- . ; git clean -fdq
  git apply $d/patch.diff 2>/dev/null || { echo "== $id noapply"; continue; }
  out=$(VERIF_HOME=/tmp/vh5 VERIF_REPO=$R /tmp/vh5/bin/gbverif debug only-read-ratchet 2>&1 | grep -E '^VIOLATION|^panic' | cut -c1-300)
  echo "== $id: $(echo "$out" | grep -c VIOLATION)"
  [ -n "$out" ] && echo "$out"
  git checkout -q -- .
done
echo DONE
