#!/bin/bash
H=${H:-/tmp/vh1}
rm -f /tmp/benign/shard*.log
i=0
for r in /tmp/dbg_repo /tmp/dbg2_repo /tmp/dbg3_repo /tmp/dbg4_repo /tmp/dbg5_repo /tmp/dbg6_repo /tmp/dbg8_repo; do
  git -C $r checkout -q -- .; git -C $r clean -fdq
  /tmp/benign/run1.sh $H $r $(cat /tmp/benign/shard$i.txt) > /tmp/benign/shard$i.log 2>&1 &
  i=$((i+1))
done
wait
cat /tmp/benign/shard?.log > /tmp/benign/final.log
echo DONE >> /tmp/benign/final.log
