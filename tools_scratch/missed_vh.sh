#!/bin/bash
# usage: missed_vh.sh <home>: every seed recorded as missed, against its own property, with a side install
H=$1; R=/tmp/detect_repo0; V=/tmp/detect_verif0; mkdir -p $V; cp /verif/known_findings.json $V/
cd /verif/seeded
for id in $(python3 -c "
import json,glob
for m in sorted(glob.glob('C*/meta.json')):
    d=json.load(open(m))
    if not d['detected']: print(d['id'])"); do
  p=${id%%-*}
  cd $R && git checkout -q -- . && git apply /verif/seeded/$id/patch.diff || { echo "$id noapply"; continue; }
  out=$(VERIF_REPO=$R VERIF_DIR=$V $H/bin/gbverif check $p 2>&1 | grep -E '^VIOLATION' | grep -o 'rule=[^ ]*' | sort -u | tr '\n' ' ')
  echo "$id ${out:-MISSED}"
  git checkout -q -- .
done
