#!/usr/bin/env python3
"""Regenerates the generated blocks of DESIGN.md from evidence/*.json and seeded/*/meta.json:
   §0 Summary, the seeded-changes table in §8.6, Appendix C (rule catalogue)."""
import json,glob,re,os
D='/verif/DESIGN.md'
d=open(D).read()
ev=[json.load(open(f)) for f in sorted(glob.glob('/verif/evidence/C*.json'))]
# ---- §0
i=d.index('## 0. Summary'); j=d.index('-'*81,i)
rows=[]
for e in ev:
    cov=e['coverage']
    rules=', '.join('`%s`'%r['rule'] for r in cov['rules'] if not r['rule'].startswith('T.'))
    rows.append('### %s\n\n*Decides* — %s\n\n*Not decided* — %s\n\n*Rules* — %s\n'%(e['property_id'],cov['explanation'].strip(),cov['not_decided'].strip(),rules))
head=d[i:d.index('### C01',i)]
d=d[:i]+head+'\n'.join(rows)+'''
Evidence lists obligations = rule instances enumerated on the run, discharged =
instances that satisfied the rule, sample obligations (function, construct, rule),
the rules with their non-vacuity floors, reviewed exceptions used, known findings
matched, and (thorough tier) the build contexts and positive controls.

'''+d[j:]
# ---- Appendix C
i=d.index('## Appendix C'); j=d.index('-'*81,i)
out=['## Appendix C — catalogue of armed rules (generated from `evidence/*.json`)\n']
for e in ev:
    out.append('#### %s'%e['property_id'])
    for r in e['coverage']['rules']:
        out.append('- `%s` (instances %d, floor %d): %s'%(r['rule'],r['instances'],r['min_instances'],r['decides']))
    out.append('')
d=d[:i]+'\n'.join(out)+'\n'+d[j:]
# ---- seeds table
notes={}
nf='/verif/seeded/notes.json'
if os.path.exists(nf): notes=json.load(open(nf))
i=d.index('| seed | change | result | note |'); j=d.index('\n\n',i)
rows=['| seed | change | result | note |','|------|--------|--------|------|']
n=c=0
for m in sorted(glob.glob('/verif/seeded/*/meta.json')):
    s=json.load(open(m)); n+=1
    what=re.sub(r'\s+',' ',s.get('summary') or '')[:170].replace('|','\\|')
    if s['detected']:
        c+=1; det='**caught** by '+', '.join('`%s`'%r for r in s['detected_by_rules'])
    else: det='**not caught**'
    rows.append('| %s | %s… | %s | %s |'%(s['id'],what,det,notes.get(s['id'],'')))
d=d[:i]+'\n'.join(rows)+d[j:]
d=re.sub(r'`meta.json`\. \d+ of \d+ are caught','`meta.json`. %d of %d are caught'%(c,n),d)
open(D,'w').write(d)
print('regenerated: %d properties, %d/%d seeds caught'%(len(ev),c,n))
