// C07 triage, item (A): OpenConfirm + unexpected message must yield
// NOTIFICATION <Finite State Machine Error (5), subcode 2> (RFC 4271 8.2.2
// OpenConfirm "any other event"; RFC 6608 section 3/4), then Idle.
//
// This file belongs in pkg/server (package server); it reuses
// makePeerAndHandler/cleanPeerAndHandler/open() from fsm_test.go.
// Copy it to pkg/server/c07a_demo_test.go and run (tests in this package open
// sockets, so use a private netns):
//
//   export GOFLAGS=-mod=mod GOPROXY=off GOWORK=off
//   unshare -n sh -c 'ip link set lo up && go test -vet=off -count=1 -v -run TestC07A ./pkg/server/'

package server

import (
	"bytes"
	"context"
	"encoding/binary"
	"io"
	"net"
	"testing"
	"time"

	"github.com/osrg/gobgp/v4/pkg/packet/bgp"
)

// c07aWire is one net.Pipe. The handler under test owns 'local'; the test
// writes BGP messages into 'remote' and a collector goroutine records every
// byte gobgp writes until gobgp closes the connection (EOF), so "what was
// sent before the close" is known exactly, without sleeps.
type c07aWire struct {
	local, remote net.Conn
	closed        chan struct{}
	buf           bytes.Buffer
}

func newC07aWire() *c07aWire {
	l, r := net.Pipe()
	w := &c07aWire{local: l, remote: r, closed: make(chan struct{})}
	go func() {
		defer close(w.closed)
		_, _ = io.Copy(&w.buf, r)
	}()
	return w
}

// sent blocks until gobgp has closed its end, then returns the messages gobgp
// wrote on the connection before closing it.
func (w *c07aWire) sent(t *testing.T) []*bgp.BGPMessage {
	t.Helper()
	select {
	case <-w.closed:
	case <-time.After(5 * time.Second):
		t.Fatalf("gobgp did not close the connection")
	}
	var out []*bgp.BGPMessage
	b := w.buf.Bytes()
	for len(b) >= bgp.BGP_HEADER_LENGTH {
		l := int(binary.BigEndian.Uint16(b[16:18]))
		m, err := bgp.ParseBGPMessage(b[:l])
		if err != nil {
			t.Fatalf("gobgp sent an unparsable message: %v", err)
		}
		out = append(out, m)
		b = b[l:]
	}
	return out
}

func c07aTypeName(typ uint8) string {
	switch typ {
	case bgp.BGP_MSG_OPEN:
		return "OPEN"
	case bgp.BGP_MSG_UPDATE:
		return "UPDATE"
	case bgp.BGP_MSG_NOTIFICATION:
		return "NOTIFICATION"
	case bgp.BGP_MSG_KEEPALIVE:
		return "KEEPALIVE"
	case bgp.BGP_MSG_ROUTE_REFRESH:
		return "ROUTE-REFRESH"
	}
	return "?"
}

func TestC07A_OpenConfirmUnexpectedMessage(t *testing.T) {
	cases := []struct {
		name string
		msg  *bgp.BGPMessage
		// wantNotif=false is the control: a NOTIFICATION received in
		// OpenConfirm must NOT be answered with a NOTIFICATION.
		wantNotif bool
	}{
		{"UPDATE", bgp.NewBGPUpdateMessage(nil, nil, nil), true},
		{"second-OPEN", open(), true},
		{"ROUTE-REFRESH", bgp.NewBGPRouteRefreshMessage(bgp.AFI_IP, 0, bgp.SAFI_UNICAST), true},
		{"control-NOTIFICATION", bgp.NewBGPNotificationMessage(bgp.BGP_ERROR_CEASE, bgp.BGP_ERROR_SUB_ADMINISTRATIVE_SHUTDOWN, nil), false},
	}
	for _, tc := range cases {
		t.Run(tc.name, func(t *testing.T) {
			w := newC07aWire()
			p, h := makePeerAndHandler(w.local)
			t.Cleanup(func() { cleanPeerAndHandler(p, h) })
			// NegotiatedHoldTime == 0: no hold timer and no keepalive
			// ticker, so the only event is the message fed below.

			raw, err := tc.msg.Serialize()
			if err != nil {
				t.Fatal(err)
			}
			go func() { _, _ = w.remote.Write(raw) }()

			ctx, cancel := context.WithTimeout(context.Background(), 5*time.Second)
			defer cancel()
			state, reason := h.openconfirm(ctx)
			sent := w.sent(t)

			t.Logf("fed in OpenConfirm: %s (type %d); next state %s, reason %v; gobgp sent %d message(s) before closing",
				c07aTypeName(tc.msg.Header.Type), tc.msg.Header.Type, state, reason, len(sent))
			for i, m := range sent {
				t.Logf("  sent[%d]: %s %+v", i, c07aTypeName(m.Header.Type), m.Body)
			}

			if state != bgp.BGP_FSM_IDLE {
				t.Errorf("next state = %s, RFC 4271 8.2.2 prescribes Idle", state)
			}
			if !tc.wantNotif {
				if len(sent) != 0 {
					t.Errorf("nothing must be sent in reply to a NOTIFICATION, got %d message(s)", len(sent))
				}
				return
			}
			if len(sent) != 1 || sent[0].Header.Type != bgp.BGP_MSG_NOTIFICATION {
				t.Fatalf("RFC 4271 8.2.2 / RFC 6608: want exactly one NOTIFICATION(code 5 FSM Error, subcode 2) before the close; gobgp sent %d message(s) and just dropped the connection", len(sent))
			}
			n := sent[0].Body.(*bgp.BGPNotification)
			if n.ErrorCode != bgp.BGP_ERROR_FSM_ERROR || n.ErrorSubcode != bgp.BGP_ERROR_SUB_RECEIVE_UNEXPECTED_MESSAGE_IN_OPENCONFIRM_STATE {
				t.Errorf("NOTIFICATION code/subcode = %d/%d, want 5/2", n.ErrorCode, n.ErrorSubcode)
			}
			// RFC 6608 section 4: Data is the 1-octet type of the unexpected message.
			if !bytes.Equal(n.Data, []byte{tc.msg.Header.Type}) {
				t.Errorf("NOTIFICATION data = %v, want [%d] (type of the unexpected message, RFC 6608 s.4)", n.Data, tc.msg.Header.Type)
			}
		})
	}
}
