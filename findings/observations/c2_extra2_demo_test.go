package server

import (
	"context"
	"os"
	"testing"
	"time"

	"github.com/stretchr/testify/require"
	"google.golang.org/grpc"
	"google.golang.org/grpc/credentials/insecure"

	"github.com/osrg/gobgp/v4/api"
)

// Extra finding in the function of claim 10: (*Vrf).ToGlobalPath selects the
// NLRI type by the path's family and asserts it without comma-ok
// (nlri.(*bgp.EVPNNLRI), nlri.(*bgp.FlowSpecNLRI), ...). UnmarshalNLRI does
// not tie the NLRI kind to the family for every kind (a plain IP prefix is
// accepted with any family), so an AddPath request with a vrf_id, family
// l2vpn-evpn and a prefix NLRI reaches the assertion with an *IPAddrPrefix
// and panics in the server's main goroutine.
func TestC2Extra2AddPathVrfFamilyNlriMismatchPanicsDaemon(t *testing.T) {
	dir, err := os.MkdirTemp("", "gobgp-c2-extra2-*")
	require.NoError(t, err)
	t.Cleanup(func() { _ = os.RemoveAll(dir) })
	addr := "unix://" + dir + "/gobgp.sock"

	s := NewBgpServer(GrpcListenAddress(addr))
	go s.Serve()
	defer s.Stop()
	require.NoError(t, s.StartBgp(context.Background(), &api.StartBgpRequest{
		Global: &api.Global{Asn: 65001, RouterId: "1.1.1.1", ListenPort: -1},
	}))
	require.Eventually(t, func() bool {
		_, err := os.Stat(dir + "/gobgp.sock")
		return err == nil
	}, 2*time.Second, 10*time.Millisecond)
	conn, err := grpc.NewClient(addr, grpc.WithTransportCredentials(insecure.NewCredentials()))
	require.NoError(t, err)
	t.Cleanup(func() { _ = conn.Close() })
	client := api.NewGoBgpServiceClient(conn)

	ctx, cancel := context.WithTimeout(context.Background(), 5*time.Second)
	defer cancel()

	rd := &api.RouteDistinguisher{Rd: &api.RouteDistinguisher_TwoOctetAsn{TwoOctetAsn: &api.RouteDistinguisherTwoOctetASN{Admin: 65001, Assigned: 1}}}
	rt := &api.RouteTarget{Rt: &api.RouteTarget_TwoOctetAsSpecific{TwoOctetAsSpecific: &api.TwoOctetAsSpecificExtended{IsTransitive: true, SubType: 2, Asn: 65001, LocalAdmin: 1}}}
	_, err = client.AddVrf(ctx, &api.AddVrfRequest{Vrf: &api.Vrf{Name: "vrf1", Id: 1, Rd: rd, ImportRt: []*api.RouteTarget{rt}, ExportRt: []*api.RouteTarget{rt}}})
	require.NoError(t, err)

	_, err = client.AddPath(ctx, &api.AddPathRequest{
		TableType: api.TableType_TABLE_TYPE_VRF,
		VrfId:     "vrf1",
		Path: &api.Path{
			Family: &api.Family{Afi: api.Family_AFI_L2VPN, Safi: api.Family_SAFI_EVPN},
			Nlri:   &api.NLRI{Nlri: &api.NLRI_Prefix{Prefix: &api.IPAddressPrefix{Prefix: "10.0.0.0", PrefixLen: 24}}},
			Pattrs: []*api.Attribute{
				{Attr: &api.Attribute_Origin{Origin: &api.OriginAttribute{Origin: 0}}},
				{Attr: &api.Attribute_NextHop{NextHop: &api.NextHopAttribute{NextHop: "192.0.2.1"}}},
			},
		},
	})
	require.Error(t, err, "family l2vpn-evpn with an IP prefix NLRI must be refused with an error")
}
