// Copy to pkg/server/ and run (private network namespace, fixed TCP ports):
//   export GOFLAGS=-mod=mod GOPROXY=off GOWORK=off
//   unshare -n sh -c 'ip link set lo up && go test -vet=off -count=1 -timeout 10m -v -run TestExtra_AcceptQueuedWhileStopBgp ./pkg/server/'
// Fails against the unchanged code, passes with /tmp/audit_out/extra_stopbgp_accept_fix.diff.

package server

import (
	"context"
	"net"
	"testing"
	"time"

	"github.com/osrg/gobgp/v4/api"
	"github.com/osrg/gobgp/v4/pkg/config/oc"
)

// Not one of the seven claims, found while checking claims 5 and 7 (Serve /
// StopBgp).  After the StopBgp closure ran (all neighbors deleted, listeners
// closed, s.bgpConfig.Global zeroed, runningCancel called) the Serve loop does one
// more select.  If a connection is still queued in s.acceptCh, the select picks
// "conn := <-s.acceptCh" instead of "<-s.runningCtx.Done()" with probability 1/2.
// passConnToPeer then creates a brand-new dynamic neighbor (peerGroupMap is not
// cleared) on the stopped server: its FSM goroutine takes a shutdownWG slot that
// nobody will ever release (StopBgp's shutdownWG.Wait() would hang), and in fact
// it crashes the process first, because buildopen() returns nil for the zeroed
// router-id and active() dereferences it (fsm.go:1006).
//
// The connections are queued while the management goroutine is busy, which is what
// happens when a remote speaker (re)connects while StopBgp is deleting neighbors.
func TestExtra_AcceptQueuedWhileStopBgp(t *testing.T) {
	const port = 11179
	for attempt := 0; attempt < 20; attempt++ {
		s := NewBgpServer()
		go s.Serve()
		if err := s.StartBgp(context.Background(), &api.StartBgpRequest{Global: &api.Global{Asn: 1, RouterId: "1.1.1.1", ListenPort: port, ListenAddresses: []string{"127.0.0.1"}}}); err != nil {
			t.Fatal(err)
		}
		if err := s.mgmtOperation(func() error {
			return s.addPeerGroup(&oc.PeerGroup{Config: oc.PeerGroupConfig{PeerAs: 2, PeerGroupName: "g"}})
		}, true); err != nil {
			t.Fatal(err)
		}
		if err := s.AddDynamicNeighbor(context.Background(), &api.AddDynamicNeighborRequest{DynamicNeighbor: &api.DynamicNeighbor{Prefix: "127.0.0.0/24", PeerGroup: "g"}}); err != nil {
			t.Fatal(err)
		}
		// keep the management goroutine busy so that the connections stay queued in
		// s.acceptCh and StopBgp queues up behind them
		gate := make(chan struct{})
		started := make(chan struct{})
		go s.mgmtOperation(func() error { close(started); <-gate; return nil }, false) //nolint:errcheck
		<-started
		var conns []net.Conn
		for i := 0; i < 6; i++ {
			c, err := net.Dial("tcp", "127.0.0.1:11179")
			if err != nil {
				t.Fatal(err)
			}
			conns = append(conns, c)
		}
		time.Sleep(100 * time.Millisecond)
		done := make(chan error, 1)
		go func() { done <- s.StopBgp(context.Background(), &api.StopBgpRequest{}) }()
		time.Sleep(100 * time.Millisecond)
		close(gate)
		select {
		case err := <-done:
			if err != nil {
				t.Fatalf("attempt %d: StopBgp: %v", attempt, err)
			}
		case <-time.After(5 * time.Second):
			t.Fatalf("attempt %d: StopBgp did not return (FSM goroutine of a neighbor created after the stop holds shutdownWG)", attempt)
		}
		// give an FSM goroutine started after the stop the time to crash the process
		time.Sleep(100 * time.Millisecond)
		var left int
		s.shared.mu.Lock()
		left = len(s.neighborMap)
		s.shared.mu.Unlock()
		if left != 0 {
			t.Fatalf("attempt %d: %d neighbor(s) exist on the stopped server", attempt, left)
		}
		for _, c := range conns {
			c.Close()
		}
	}
}
