package server

import (
	"context"
	"os"
	"testing"
	"time"

	"github.com/stretchr/testify/require"
	"google.golang.org/grpc"
	"google.golang.org/grpc/credentials/insecure"

	"github.com/osrg/gobgp/v4/api"
)

// Extra finding (same defect class as claims 7/8, other call sites): the
// API -> native conversion in pkg/apiutil discards the error of constructors
// that return a concrete pointer type and assigns the (nil) result to an
// interface variable. The interface is then non-nil, the `== nil` guards do
// not fire, and the nil pointer is dereferenced later, either in the gRPC
// handler goroutine or in the server's main goroutine. Neither recovers, so
// one AddPath request from an API client terminates the daemon.
//
// Every sub-test sends one well-formed gRPC AddPath request and expects an
// error reply. Against the unchanged code the process panics instead.
// Select a single case with C2_EXTRA1_CASE=<name> to see each stack.
func TestC2Extra1AddPathRequestPanicsDaemon(t *testing.T) {
	dir, err := os.MkdirTemp("", "gobgp-c2-extra1-*")
	require.NoError(t, err)
	t.Cleanup(func() { _ = os.RemoveAll(dir) })
	addr := "unix://" + dir + "/gobgp.sock"

	s := NewBgpServer(GrpcListenAddress(addr))
	go s.Serve()
	defer s.Stop()
	require.NoError(t, s.StartBgp(context.Background(), &api.StartBgpRequest{
		Global: &api.Global{Asn: 65001, RouterId: "1.1.1.1", ListenPort: -1},
	}))
	require.Eventually(t, func() bool {
		_, err := os.Stat(dir + "/gobgp.sock")
		return err == nil
	}, 2*time.Second, 10*time.Millisecond)
	conn, err := grpc.NewClient(addr, grpc.WithTransportCredentials(insecure.NewCredentials()))
	require.NoError(t, err)
	t.Cleanup(func() { _ = conn.Close() })
	client := api.NewGoBgpServiceClient(conn)

	ipv4uc := &api.Family{Afi: api.Family_AFI_IP, Safi: api.Family_SAFI_UNICAST}
	origin := &api.Attribute{Attr: &api.Attribute_Origin{Origin: &api.OriginAttribute{Origin: 0}}}
	nexthop := &api.Attribute{Attr: &api.Attribute_NextHop{NextHop: &api.NextHopAttribute{NextHop: "192.0.2.1"}}}
	prefix := &api.NLRI{Nlri: &api.NLRI_Prefix{Prefix: &api.IPAddressPrefix{Prefix: "10.0.0.0", PrefixLen: 24}}}

	cases := []struct {
		name string
		path *api.Path
	}{
		{
			// NewIPv4AddressSpecificExtended refuses an IPv6 address; the error is dropped
			// (pkg/apiutil/attribute.go, unmarshalExComm) and a nil *IPv4AddressSpecificExtended
			// is stored in the attribute.
			name: "extcomm-ipv4-specific-with-ipv6-address",
			path: &api.Path{Family: ipv4uc, Nlri: prefix, Pattrs: []*api.Attribute{origin, nexthop, {
				Attr: &api.Attribute_ExtendedCommunities{ExtendedCommunities: &api.ExtendedCommunitiesAttribute{
					Communities: []*api.ExtendedCommunity{{Extcom: &api.ExtendedCommunity_Ipv4AddressSpecific{
						Ipv4AddressSpecific: &api.IPv4AddressSpecificExtended{IsTransitive: true, SubType: 2, Address: "2001:db8::1", LocalAdmin: 1},
					}}},
				}},
			}}},
		},
		{
			// NewIPv6AddressSpecificExtended refuses an IPv4 address; same pattern.
			name: "ip6extcomm-ipv6-specific-with-ipv4-address",
			path: &api.Path{Family: ipv4uc, Nlri: prefix, Pattrs: []*api.Attribute{origin, nexthop, {
				Attr: &api.Attribute_Ip6ExtendedCommunities{Ip6ExtendedCommunities: &api.IP6ExtendedCommunitiesAttribute{
					Communities: []*api.IP6ExtendedCommunitiesAttribute_Community{{Extcom: &api.IP6ExtendedCommunitiesAttribute_Community_Ipv6AddressSpecific{
						Ipv6AddressSpecific: &api.IPv6AddressSpecificExtended{IsTransitive: true, SubType: 2, Address: "192.0.2.9", LocalAdmin: 1},
					}}},
				}},
			}}},
		},
		{
			// NewSRPolicy refuses a non SR-policy family; UnmarshalNLRI drops the error and
			// returns a non-nil bgp.NLRI holding a nil *SRPolicyNLRI.
			name: "nlri-srpolicy-with-ipv4-unicast-family",
			path: &api.Path{Family: ipv4uc, Pattrs: []*api.Attribute{origin, nexthop},
				Nlri: &api.NLRI{Nlri: &api.NLRI_SrPolicy{SrPolicy: &api.SRPolicyNLRI{Length: 96, Distinguisher: 1, Color: 1, Endpoint: []byte{10, 0, 0, 1}}}}},
		},
		{
			// NewFlowSpecUnicast refuses a non flowspec family; same pattern.
			name: "nlri-flowspec-with-ipv4-unicast-family",
			path: &api.Path{Family: ipv4uc, Pattrs: []*api.Attribute{origin, nexthop},
				Nlri: &api.NLRI{Nlri: &api.NLRI_FlowSpec{FlowSpec: &api.FlowSpecNLRI{Rules: []*api.FlowSpecRule{{
					Rule: &api.FlowSpecRule_IpPrefix{IpPrefix: &api.FlowSpecIPPrefix{Type: 1, PrefixLen: 24, Prefix: "10.0.0.0"}},
				}}}}}},
		},
		{
			// A flowspec prefix component whose length does not fit the address:
			// UnmarshalFlowSpecRules feeds it to netip.MustParsePrefix, which panics
			// in the gRPC handler goroutine.
			name: "flowspec-rule-prefix-length-33",
			path: &api.Path{Family: &api.Family{Afi: api.Family_AFI_IP, Safi: api.Family_SAFI_FLOW_SPEC_UNICAST}, Pattrs: []*api.Attribute{origin},
				Nlri: &api.NLRI{Nlri: &api.NLRI_FlowSpec{FlowSpec: &api.FlowSpecNLRI{Rules: []*api.FlowSpecRule{{
					Rule: &api.FlowSpecRule_IpPrefix{IpPrefix: &api.FlowSpecIPPrefix{Type: 1, PrefixLen: 33, Prefix: "10.0.0.0"}},
				}}}}}},
		},
	}

	only := os.Getenv("C2_EXTRA1_CASE")
	for _, c := range cases {
		if only != "" && only != c.name {
			continue
		}
		t.Run(c.name, func(t *testing.T) {
			ctx, cancel := context.WithTimeout(context.Background(), 5*time.Second)
			defer cancel()
			_, err := client.AddPath(ctx, &api.AddPathRequest{TableType: api.TableType_TABLE_TYPE_GLOBAL, Path: c.path})
			if err == nil {
				// The route was accepted with a nil element inside; reading the
				// table back (gobgp global rib) is enough to hit it.
				stream, lerr := client.ListPath(ctx, &api.ListPathRequest{TableType: api.TableType_TABLE_TYPE_GLOBAL, Family: ipv4uc})
				for lerr == nil {
					_, lerr = stream.Recv()
				}
			}
			require.Error(t, err, "the request is invalid and must be refused with an error")
		})
	}
}
