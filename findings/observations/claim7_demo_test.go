// Copy to pkg/server/ and run (private network namespace, fixed TCP ports):
//   export GOFLAGS=-mod=mod GOPROXY=off GOWORK=off
//   unshare -n sh -c 'ip link set lo up && go test -vet=off -count=1 -timeout 10m -v -run TestClaim7_ ./pkg/server/'
// Fails against the unchanged code, passes with /tmp/audit_out/claim7_fix.diff.

package server

import (
	"context"
	"errors"
	"io"
	"net"
	"net/netip"
	"os"
	"runtime"
	"strings"
	"testing"
	"time"

	"github.com/osrg/gobgp/v4/api"
	"github.com/osrg/gobgp/v4/pkg/packet/bgp"
)

// Claim 7 (outgoing connection manager, peer deletion / StopBgp).
//
// outgoingConnManager.run hands a connection that completed the OPEN exchange to
// the FSM goroutine with a plain "ch <- outgoingConn{...}" on fsm.outgoingConnCh
// (capacity 1) and returns.  The FSM goroutine only looks at that channel in
// active() and opensent().  The manager is NOT stopped when the FSM falls back to
// IDLE for an ordinary reason (only for admin-down / graceful restart), so it can
// deliver a connection while the FSM sits in IDLE (or OPENCONFIRM/ESTABLISHED).
// When the peer is then deleted (or the server stopped), loop() drains
// fsm.connCh and closes fsm.conn, but nobody drains fsm.outgoingConnCh: the
// established TCP connection parked there is never closed.

func claim7Open(t *testing.T) []byte {
	t.Helper()
	caps := []bgp.ParameterCapabilityInterface{
		bgp.NewCapMultiProtocol(bgp.RF_IPv4_UC),
		bgp.NewCapFourOctetASNumber(2),
	}
	m, err := bgp.NewBGPOpenMessage(2, 90, netip.MustParseAddr("2.2.2.2"),
		[]bgp.OptionParameterInterface{bgp.NewOptionParameterCapability(caps)})
	if err != nil {
		t.Fatal(err)
	}
	b, err := m.Serialize()
	if err != nil {
		t.Fatal(err)
	}
	return b
}

func claim7ReadMsg(t *testing.T, c net.Conn) *bgp.BGPMessage {
	t.Helper()
	_ = c.SetReadDeadline(time.Now().Add(10 * time.Second))
	hdr := make([]byte, bgp.BGP_HEADER_LENGTH)
	if _, err := io.ReadFull(c, hdr); err != nil {
		t.Fatalf("reading BGP header: %v", err)
	}
	h := &bgp.BGPHeader{}
	if err := h.DecodeFromBytes(hdr); err != nil {
		t.Fatal(err)
	}
	body := make([]byte, int(h.Len)-bgp.BGP_HEADER_LENGTH)
	if _, err := io.ReadFull(c, body); err != nil {
		t.Fatalf("reading BGP body: %v", err)
	}
	m, err := bgp.ParseBGPBody(h, body)
	if err != nil {
		t.Fatal(err)
	}
	return m
}

func TestClaim7_OutgoingConnLeakedOnPeerDeletion(t *testing.T) {
	ctx := context.Background()
	const localPort, remotePort = 11479, 11480

	// the remote speaker
	rl, err := net.Listen("tcp", "127.0.0.1:11480")
	if err != nil {
		t.Fatal(err)
	}
	defer rl.Close()

	s := runNewServer(t, 1, "1.1.1.1", localPort)
	if err := s.AddPeer(ctx, &api.AddPeerRequest{Peer: &api.Peer{
		Conf:      &api.PeerConf{NeighborAddress: "127.0.0.1", PeerAsn: 2},
		Transport: &api.Transport{RemotePort: remotePort},
		Timers:    &api.Timers{Config: &api.TimersConfig{ConnectRetry: 1}},
	}}); err != nil {
		t.Fatal(err)
	}
	key := netip.MustParseAddr("127.0.0.1")
	var p *peer
	_ = s.mgmtOperation(func() error { p = s.neighborMap[key]; return nil }, false)

	// 1. the remote connects first and hangs up without sending an OPEN:
	//    ACTIVE -> OPENSENT -> IDLE (read failed).  idle hold time is 5s; the outgoing
	//    connection manager started in ACTIVE keeps running.
	waitState := func(want bgp.FSMState) {
		t.Helper()
		deadline := time.Now().Add(5 * time.Second)
		for p.State() != want {
			if time.Now().After(deadline) {
				t.Fatalf("peer state %s, want %s", p.State(), want)
			}
			time.Sleep(5 * time.Millisecond)
		}
	}
	waitState(bgp.BGP_FSM_ACTIVE)
	in, err := net.Dial("tcp", "127.0.0.1:11479")
	if err != nil {
		t.Fatal(err)
	}
	waitState(bgp.BGP_FSM_OPENSENT)
	in.Close()
	waitState(bgp.BGP_FSM_IDLE)

	// 2. the manager connects to the remote (first attempt after 1.5-2s) and the
	//    OPEN exchange succeeds while the FSM is in IDLE
	_ = rl.(*net.TCPListener).SetDeadline(time.Now().Add(10 * time.Second))
	out, err := rl.Accept()
	if err != nil {
		t.Fatalf("the outgoing connection manager did not connect: %v", err)
	}
	defer out.Close()
	if m := claim7ReadMsg(t, out); m.Header.Type != bgp.BGP_MSG_OPEN {
		t.Fatalf("expected OPEN, got %d", m.Header.Type)
	}
	if _, err := out.Write(claim7Open(t)); err != nil {
		t.Fatal(err)
	}
	deadline := time.Now().Add(3 * time.Second)
	for len(p.fsm.outgoingConnCh) == 0 {
		if time.Now().After(deadline) {
			t.Fatalf("connection was not handed over (state %s)", p.State())
		}
		time.Sleep(5 * time.Millisecond)
	}
	if st := p.State(); st != bgp.BGP_FSM_IDLE {
		t.Fatalf("test timing: FSM already left IDLE (%s)", st)
	}

	// 3. delete the peer, then stop the whole server
	if err := s.DeletePeer(ctx, &api.DeletePeerRequest{Address: "127.0.0.1"}); err != nil {
		t.Fatal(err)
	}
	stopped := make(chan error, 1)
	go func() { stopped <- s.StopBgp(ctx, &api.StopBgpRequest{}) }()
	select {
	case err := <-stopped:
		if err != nil {
			t.Fatal(err)
		}
	case <-time.After(10 * time.Second):
		t.Fatal("StopBgp did not return")
	}

	// 4. all goroutines of the peer are gone and the server is stopped, so the
	//    remote must see its connection closed.
	_ = out.SetReadDeadline(time.Now().Add(3 * time.Second))
	buf := make([]byte, 4096)
	for {
		_, err := out.Read(buf)
		if err == nil {
			continue // a NOTIFICATION would be fine, too
		}
		if errors.Is(err, os.ErrDeadlineExceeded) {
			t.Fatalf("peer deleted and server stopped, but the outgoing connection %s -> %s is still open (parked in fsm.outgoingConnCh, len=%d, and never closed)",
				out.RemoteAddr(), out.LocalAddr(), len(p.fsm.outgoingConnCh))
		}
		break // EOF / reset: closed as it should be
	}
}

// The deadlock behind the leak: the goroutine that Waits for the manager
// (outgoingConnManager.stop(), called by the FSM goroutine from loop() after an
// admin-down / graceful-restart and from opensent()) is the only receiver of
// fsm.outgoingConnCh, on which the manager may be blocked.  That needs a full
// channel while a manager is alive, which happens as soon as two managers run:
// active() starts a second one ("the manager was stopped, restart it",
// fsm.go:1021) whenever the keepalive on a delivered connection fails - but if
// that connection was a stale one (parked while the FSM was in IDLE, see above),
// the manager started a moment earlier on entry to active() is still running.
//
// Schedule (R = remote speaker, all of it ordinary peer traffic plus one
// DisablePeer):
//  1. R connects, hangs up: ACTIVE -> OPENSENT -> IDLE; manager A keeps running
//  2. A connects to R, OPEN exchange, parks conn X in outgoingConnCh, exits;
//     R resets that connection
//  3. idle hold timer: IDLE -> ACTIVE; A is finished so manager B is started;
//     X is taken from the channel, keepalive fails, manager C is started too
//  4. B and C both connect to R and send their OPEN (both in OPENSENT)
//  5. R connects, the session establishes over this passive connection
//     (opensent() stops the manager only when it is in CONNECT state)
//  6. R answers the OPENs of B and C: the first hand-over fills the channel,
//     the second blocks in "ch <- outgoingConn{...}" forever
//  7. DisablePeer: established() returns fsmAdminDown, loop() calls
//     fsm.outgoingConnMgr.stop() -> wg.Wait() for C, which waits for the FSM
//     goroutine to receive: the FSM goroutine is dead-locked, the peer stays
//     ESTABLISHED/"admin down" forever, and StopBgp never returns because the
//     FSM goroutine holds a shutdownWG slot.
//
// Whether B or C is the one that blocks depends on their random connect timers;
// the FSM only waits for C, so the test retries until C is the blocked one (each
// attempt has probability 1/2; the other half still leaks B and its connection).
func TestClaim7_StopWaitsForManagerBlockedOnFSMGoroutine(t *testing.T) {
	ctx := context.Background()
	const localPort, remotePort = 11481, 11482
	open := claim7Open(t)
	keepalive, _ := bgp.NewBGPKeepAliveMessage().Serialize()

	for attempt := 1; attempt <= 8; attempt++ {
		rl, err := net.Listen("tcp", "127.0.0.1:11482")
		if err != nil {
			t.Fatal(err)
		}
		accept := func(d time.Duration) net.Conn {
			_ = rl.(*net.TCPListener).SetDeadline(time.Now().Add(d))
			c, err := rl.Accept()
			if err != nil {
				return nil
			}
			return c
		}
		s := runNewServer(t, 1, "1.1.1.1", localPort)
		if err := s.AddPeer(ctx, &api.AddPeerRequest{Peer: &api.Peer{
			Conf:      &api.PeerConf{NeighborAddress: "127.0.0.1", PeerAsn: 2},
			Transport: &api.Transport{RemotePort: remotePort},
			Timers:    &api.Timers{Config: &api.TimersConfig{ConnectRetry: 1}},
		}}); err != nil {
			t.Fatal(err)
		}
		var p *peer
		_ = s.mgmtOperation(func() error { p = s.neighborMap[netip.MustParseAddr("127.0.0.1")]; return nil }, false)
		waitState := func(want bgp.FSMState, d time.Duration) bool {
			deadline := time.Now().Add(d)
			for p.State() != want {
				if time.Now().After(deadline) {
					return false
				}
				time.Sleep(5 * time.Millisecond)
			}
			return true
		}
		must := func(ok bool, msg string) {
			t.Helper()
			if !ok {
				t.Fatalf("attempt %d: %s (state %s)", attempt, msg, p.State())
			}
		}

		// 1.
		must(waitState(bgp.BGP_FSM_ACTIVE, 5*time.Second), "not ACTIVE")
		in, err := net.Dial("tcp", "127.0.0.1:11481")
		if err != nil {
			t.Fatal(err)
		}
		must(waitState(bgp.BGP_FSM_OPENSENT, 5*time.Second), "not OPENSENT")
		in.Close()
		must(waitState(bgp.BGP_FSM_IDLE, 5*time.Second), "not IDLE")

		// 2.
		o1 := accept(10 * time.Second)
		must(o1 != nil, "manager A did not connect")
		claim7ReadMsg(t, o1)
		_, _ = o1.Write(open)
		deadline := time.Now().Add(3 * time.Second)
		for len(p.fsm.outgoingConnCh) == 0 && time.Now().Before(deadline) {
			time.Sleep(5 * time.Millisecond)
		}
		must(len(p.fsm.outgoingConnCh) == 1 && p.State() == bgp.BGP_FSM_IDLE, "no connection parked while IDLE")
		_ = o1.(*net.TCPConn).SetLinger(0)
		o1.Close() // RST

		// 3.
		must(waitState(bgp.BGP_FSM_ACTIVE, 10*time.Second), "idle hold timer did not expire")

		// 4.
		o2 := accept(5 * time.Second)
		must(o2 != nil, "no manager connected after the idle hold time")
		claim7ReadMsg(t, o2)
		o3 := accept(4 * time.Second)
		if o3 == nil {
			// fixed code: the stale connection does not make active() start a second manager
			t.Logf("attempt %d: only one outgoing connection manager is running; nothing to dead-lock", attempt)
			o2.Close()
			rl.Close()
			stopBgpOrFail(t, s, attempt)
			return
		}
		claim7ReadMsg(t, o3)
		time.Sleep(100 * time.Millisecond) // both managers are in OPENSENT now
		must(p.State() == bgp.BGP_FSM_ACTIVE, "FSM left ACTIVE")
		mgrC := p.fsm.outgoingConnMgr

		// 5.
		in2, err := net.Dial("tcp", "127.0.0.1:11481")
		if err != nil {
			t.Fatal(err)
		}
		claim7ReadMsg(t, in2) // OPEN
		_, _ = in2.Write(open)
		claim7ReadMsg(t, in2) // KEEPALIVE
		_, _ = in2.Write(keepalive)
		must(waitState(bgp.BGP_FSM_ESTABLISHED, 5*time.Second), "not ESTABLISHED")
		go func() { _, _ = io.Copy(io.Discard, in2) }()

		// 6.
		_, _ = o2.Write(open)
		deadline = time.Now().Add(3 * time.Second)
		for len(p.fsm.outgoingConnCh) == 0 && time.Now().Before(deadline) {
			time.Sleep(5 * time.Millisecond)
		}
		must(len(p.fsm.outgoingConnCh) == 1, "first hand-over did not happen")
		time.Sleep(100 * time.Millisecond) // let the manager that handed over run its deferred cancel()
		_, _ = o3.Write(open)
		time.Sleep(300 * time.Millisecond) // the other manager is now blocked in "ch <- outgoingConn{...}"
		cBlocked := mgrC.ctx.Err() == nil && p.fsm.outgoingConnMgr == mgrC
		t.Logf("attempt %d: two managers ran concurrently; current manager (C) is the blocked one: %v", attempt, cBlocked)

		// 7.
		if err := s.DisablePeer(ctx, &api.DisablePeerRequest{Address: "127.0.0.1"}); err != nil {
			t.Fatal(err)
		}
		wentIdle := waitState(bgp.BGP_FSM_IDLE, 5*time.Second)
		if !wentIdle {
			t.Errorf("attempt %d: peer is still %s 5s after DisablePeer: FSM goroutine is stuck\n%s", attempt, p.State(), claim7Stacks("outgoingConnManager"))
		}
		stopBgpOrFail(t, s, attempt)
		if !wentIdle {
			return
		}
		for _, c := range []net.Conn{o2, o3, in2} {
			c.Close()
		}
		rl.Close()
	}
	t.Log("the current manager never was the blocked one")
}

func stopBgpOrFail(t *testing.T, s *BgpServer, attempt int) {
	t.Helper()
	stopped := make(chan error, 1)
	go func() { stopped <- s.StopBgp(context.Background(), &api.StopBgpRequest{}) }()
	select {
	case <-stopped:
	case <-time.After(10 * time.Second):
		t.Fatalf("attempt %d: StopBgp did not return within 10s: the FSM goroutine never releases its shutdownWG slot\n%s", attempt, claim7Stacks("outgoingConnManager"))
	}
}

func claim7Stacks(substr string) string {
	buf := make([]byte, 1<<20)
	buf = buf[:runtime.Stack(buf, true)]
	var out []string
	for _, g := range strings.Split(string(buf), "\n\n") {
		if strings.Contains(g, substr) {
			out = append(out, g)
		}
	}
	return strings.Join(out, "\n\n")
}
