package server

import (
	"context"
	"os"
	"testing"
	"time"

	"github.com/stretchr/testify/require"
	"google.golang.org/grpc"
	"google.golang.org/grpc/credentials/insecure"

	"github.com/osrg/gobgp/v4/api"
)

// Extra finding next to claim 8 (SRPolicyNLRI.Len discards the error of
// Serialize): (*SRPolicyNLRI).Serialize never returns an error, it panics.
// It sizes its buffer with `make([]byte, 1+s.Length)` in uint8 and then
// writes 9 fixed octets. The decoder only produces Length 12 or 24, but
// NewSRPolicy (the API path) stores uint8(length/8) for any length:
//   - length 0 (the protobuf default when the client leaves it out) or any
//     length below 64 bits  -> slice bounds out of range in Serialize,
//   - length 2040..2047 bits -> 1+255 wraps to 0, index out of range.
//
// Serialize is reached through Len() from NewPathAttributeMpReachNLRI inside
// the server's main goroutine, so one AddPath request stops the daemon.
func TestC2Extra3AddPathSRPolicyLengthPanicsDaemon(t *testing.T) {
	dir, err := os.MkdirTemp("", "gobgp-c2-extra3-*")
	require.NoError(t, err)
	t.Cleanup(func() { _ = os.RemoveAll(dir) })
	addr := "unix://" + dir + "/gobgp.sock"

	s := NewBgpServer(GrpcListenAddress(addr))
	go s.Serve()
	defer s.Stop()
	require.NoError(t, s.StartBgp(context.Background(), &api.StartBgpRequest{
		Global: &api.Global{Asn: 65001, RouterId: "1.1.1.1", ListenPort: -1},
	}))
	require.Eventually(t, func() bool {
		_, err := os.Stat(dir + "/gobgp.sock")
		return err == nil
	}, 2*time.Second, 10*time.Millisecond)
	conn, err := grpc.NewClient(addr, grpc.WithTransportCredentials(insecure.NewCredentials()))
	require.NoError(t, err)
	t.Cleanup(func() { _ = conn.Close() })
	client := api.NewGoBgpServiceClient(conn)

	only := os.Getenv("C2_EXTRA3_LENGTH")
	for _, c := range []struct {
		name   string
		length uint32
	}{
		{"0", 0},       // field left out by the client
		{"2040", 2040}, // uint8(2040/8) == 255, 1+255 wraps to 0
	} {
		if only != "" && only != c.name {
			continue
		}
		t.Run("length-"+c.name, func(t *testing.T) {
			ctx, cancel := context.WithTimeout(context.Background(), 5*time.Second)
			defer cancel()
			_, err := client.AddPath(ctx, &api.AddPathRequest{
				TableType: api.TableType_TABLE_TYPE_GLOBAL,
				Path: &api.Path{
					Family: &api.Family{Afi: api.Family_AFI_IP, Safi: api.Family_SAFI_SR_POLICY},
					Nlri: &api.NLRI{Nlri: &api.NLRI_SrPolicy{SrPolicy: &api.SRPolicyNLRI{
						Length: c.length, Distinguisher: 1, Color: 100, Endpoint: []byte{203, 0, 113, 42},
					}}},
					Pattrs: []*api.Attribute{
						{Attr: &api.Attribute_Origin{Origin: &api.OriginAttribute{Origin: 0}}},
						{Attr: &api.Attribute_NextHop{NextHop: &api.NextHopAttribute{NextHop: "192.0.2.1"}}},
					},
				},
			})
			require.Error(t, err, "an SR policy NLRI length other than 96/192 bits must be refused with an error")
		})
	}
}
