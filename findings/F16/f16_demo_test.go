package server

import (
	"context"
	"net/netip"
	"testing"
	"time"

	"github.com/stretchr/testify/require"

	"github.com/osrg/gobgp/v4/api"
	"github.com/osrg/gobgp/v4/internal/pkg/table"
	"github.com/osrg/gobgp/v4/pkg/packet/bgp"
)

// F16: addNeighbor accepts ipv4-flowspec / ipv6-flowspec for a VRF-enslaved neighbor, the export side
// (prePolicyFilterpath, ToLocal) converts FlowSpec-VPN routes back for such a neighbor, and
// Vrf.ToGlobalPath converts API-originated FlowSpec routes — but Path.ToGlobal, used for routes
// RECEIVED from the VRF neighbor, has no FlowSpec case and returns the route unchanged. The route
// then enters the global ipv4-flowspec table without RD and export route targets: it leaks to
// every non-VRF flowspec peer and no VRF can import it.
func TestF16FlowSpecFromVrfNeighborIsExportedWithRdAndTargets(t *testing.T) {
	s := runNewServer(t, 1, "1.1.1.1", 10179)
	defer s.StopBgp(context.Background(), &api.StopBgpRequest{})
	addVrf(t, s, "vrf1", "111:111", []string{"111:111"}, []string{"111:111"}, 1)

	err := s.AddPeer(context.Background(), &api.AddPeerRequest{Peer: &api.Peer{
		Conf:      &api.PeerConf{NeighborAddress: "10.9.9.9", PeerAsn: 2, Vrf: "vrf1"},
		Transport: &api.Transport{PassiveMode: true},
		AfiSafis: []*api.AfiSafi{
			{Config: &api.AfiSafiConfig{Family: &api.Family{Afi: api.Family_AFI_IP, Safi: api.Family_SAFI_UNICAST}, Enabled: true}},
			{Config: &api.AfiSafiConfig{Family: &api.Family{Afi: api.Family_AFI_IP, Safi: api.Family_SAFI_FLOW_SPEC_UNICAST}, Enabled: true}},
		},
	}})
	require.NoError(t, err, "flowspec is an accepted family for a VRF-enslaved neighbor")

	src := &table.PeerInfo{AS: 2, LocalAS: 1, Address: netip.MustParseAddr("10.9.9.9"), ID: netip.MustParseAddr("9.9.9.9"), LocalID: netip.MustParseAddr("1.1.1.1")}
	nh, _ := bgp.NewPathAttributeNextHop(netip.MustParseAddr("10.9.9.9"))
	base := []bgp.PathAttributeInterface{
		bgp.NewPathAttributeOrigin(0),
		bgp.NewPathAttributeAsPath([]bgp.AsPathParamInterface{bgp.NewAs4PathParam(bgp.BGP_ASPATH_ATTR_TYPE_SEQ, []uint32{2})}),
		nh,
	}
	// control: a unicast route from the VRF neighbor
	ucNlri, _ := bgp.NewIPAddrPrefix(netip.MustParsePrefix("10.1.0.0/24"))
	uc := table.NewPath(bgp.RF_IPv4_UC, src, bgp.PathNLRI{NLRI: ucNlri}, false, base, time.Now(), false)
	// the flowspec route from the VRF neighbor
	dst, _ := bgp.NewIPAddrPrefix(netip.MustParsePrefix("10.2.0.0/24"))
	fsNlri, err := bgp.NewFlowSpecUnicast(bgp.RF_FS_IPv4_UC, []bgp.FlowSpecComponentInterface{bgp.NewFlowSpecDestinationPrefix(dst)})
	require.NoError(t, err)
	mp, err := bgp.NewPathAttributeMpReachNLRI(bgp.RF_FS_IPv4_UC, []bgp.PathNLRI{{NLRI: fsNlri}}, netip.Addr{})
	require.NoError(t, err)
	fsAttrs := append(append([]bgp.PathAttributeInterface{}, base[:2]...), mp)
	fs := table.NewPath(bgp.RF_FS_IPv4_UC, src, bgp.PathNLRI{NLRI: fsNlri}, false, fsAttrs, time.Now(), false)

	require.NoError(t, s.mgmtOperation(func() error {
		peer := s.neighborMap[netip.MustParseAddr("10.9.9.9")]
		s.propagateUpdate(peer, []*table.Path{uc, fs})
		return nil
	}, true))

	count := func(f bgp.Family) []*table.Path {
		return s.globalRib.GetPathList(table.GLOBAL_RIB_NAME, 0, []bgp.Family{f})
	}
	hasRT := func(p *table.Path) bool {
		for _, ec := range p.GetExtCommunities() {
			if ec.String() == "111:111" {
				return true
			}
		}
		return false
	}
	// control behaves as C17 states
	require.Len(t, count(bgp.RF_IPv4_UC), 0, "control: unicast route of a VRF neighbor must not appear in the global unicast table")
	vpn := count(bgp.RF_IPv4_VPN)
	require.Len(t, vpn, 1, "control: unicast route of a VRF neighbor is exported as a VPN route")
	require.True(t, hasRT(vpn[0]), "control: exported with the VRF's export route target")

	// the flowspec route must be treated the same way
	if leaked := count(bgp.RF_FS_IPv4_UC); len(leaked) != 0 {
		t.Errorf("flowspec route received from a neighbor in vrf1 was installed in the GLOBAL ipv4-flowspec table (%d path(s), ext-communities %v): it carries neither the VRF's RD nor its export route targets", len(leaked), leaked[0].GetExtCommunities())
	}
	fsvpn := count(bgp.RF_FS_IPv4_VPN)
	if len(fsvpn) != 1 {
		t.Fatalf("flowspec route received from a neighbor in vrf1 was not exported as an ipv4-flowspec-vpn route (found %d)", len(fsvpn))
	}
	require.True(t, hasRT(fsvpn[0]), "exported flowspec-vpn route must carry the VRF's export route target")
	require.Contains(t, fsvpn[0].GetNlri().String(), "111:111", "exported flowspec-vpn route must carry the VRF's RD")
}
