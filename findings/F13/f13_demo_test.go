package bgp

import "testing"

// An EVPN I-PMSI route (type 9) can be built and serialised but the decoder had no row for it.
func TestF13EVPNIPMSIRoundTrip(t *testing.T) {
	rd, _ := ParseRouteDistinguisher("100:1")
	ec, _ := ParseExtendedCommunity(EC_SUBTYPE_ROUTE_TARGET, "65000:100")
	n := NewEVPNIPMSIRoute(rd, 7, ec)
	buf, err := n.Serialize()
	if err != nil {
		t.Fatal(err)
	}
	got, err := NLRIFromSlice(RF_EVPN, buf)
	if err != nil {
		t.Fatalf("decoding what we serialised: %v", err)
	}
	if got.String() != n.String() {
		t.Fatalf("round trip: got %s want %s", got, n)
	}
}
