package table

import (
	"net/netip"
	"testing"
	"time"

	"github.com/osrg/gobgp/v4/pkg/packet/bgp"
)

// F25 (C11): an IPv4-unicast route whose attributes alone exceed the session's message limit must be
// skipped without disturbing the sender or the other routes. On the unfixed tree packerV4.pack computes a
// negative NLRI budget and panics in make() ("makeslice: cap out of range"); with a budget of exactly
// zero it silently drops the route together with nothing reported.
func TestF25OversizeIPv4RouteDoesNotCrashPacker(t *testing.T) {
	mk := func(prefix string, ncomm int) *Path {
		comms := make([]uint32, ncomm)
		for i := range comms {
			comms[i] = uint32(65000<<16 | i)
		}
		nh, _ := bgp.NewPathAttributeNextHop(netip.MustParseAddr("192.0.2.1"))
		attrs := []bgp.PathAttributeInterface{
			bgp.NewPathAttributeOrigin(0),
			bgp.NewPathAttributeAsPath([]bgp.AsPathParamInterface{bgp.NewAs4PathParam(2, []uint32{65001})}),
			nh,
			bgp.NewPathAttributeCommunities(comms),
		}
		nlri, _ := bgp.NewIPAddrPrefix(netip.MustParsePrefix(prefix))
		return NewPath(bgp.RF_IPv4_UC, nil, bgp.PathNLRI{NLRI: nlri}, false, attrs, time.Now(), false)
	}
	big := mk("10.0.0.0/24", 1100) // ~4400 octets of COMMUNITIES: cannot fit a 4096-octet UPDATE
	small := mk("10.0.1.0/24", 1)
	var msgs []*bgp.BGPMessage
	func() {
		defer func() {
			if e := recover(); e != nil {
				t.Fatalf("packing panicked: %v", e)
			}
		}()
		msgs = CreateUpdateMsgFromPaths([]*Path{big, small})
	}()
	// the small route must still be delivered in a message that fits
	delivered := false
	for _, m := range msgs {
		b, err := m.Serialize()
		if err != nil {
			continue // oversize: the sender skips and reports it
		}
		if len(b) > 4096 {
			t.Fatalf("message of %d octets", len(b))
		}
		for _, n := range m.Body.(*bgp.BGPUpdate).NLRI {
			if n.NLRI.String() == "10.0.1.0/24" {
				delivered = true
			}
		}
	}
	if !delivered {
		t.Fatalf("the ordinary route was lost")
	}
}
