package table

import (
	"net/netip"
	"testing"
	"time"

	"github.com/osrg/gobgp/v4/pkg/config/oc"
	"github.com/osrg/gobgp/v4/pkg/packet/bgp"

	"github.com/stretchr/testify/assert"
	"github.com/stretchr/testify/require"
)

// AddDefinedSet(set, replace=true) on a name that installed statements
// already refer to must change what those statements match, not only what
// GetDefinedSet reports.

func f26Path(t *testing.T, neighbor, prefix string, extra ...bgp.PathAttributeInterface) *Path {
	t.Helper()
	return f26PathAS(t, neighbor, prefix, 65001, extra...)
}

func f26PathAS(t *testing.T, neighbor, prefix string, as uint16, extra ...bgp.PathAttributeInterface) *Path {
	t.Helper()
	peer := &PeerInfo{AS: uint32(as), Address: netip.MustParseAddr(neighbor)}
	nexthop, err := bgp.NewPathAttributeNextHop(netip.MustParseAddr(neighbor))
	require.NoError(t, err)
	attrs := []bgp.PathAttributeInterface{
		bgp.NewPathAttributeOrigin(0),
		bgp.NewPathAttributeAsPath([]bgp.AsPathParamInterface{bgp.NewAsPathParam(2, []uint16{as})}),
		nexthop,
	}
	attrs = append(attrs, extra...)
	nlri, err := bgp.NewIPAddrPrefix(netip.MustParsePrefix(prefix))
	require.NoError(t, err)
	msg := bgp.NewBGPUpdateMessage(nil, attrs, []bgp.PathNLRI{{NLRI: nlri}})
	return ProcessMessage(msg, peer, time.Now(), false)[0]
}

// f26Policy loads the defined sets plus one policy "pd" with one statement
// that rejects whatever the given conditions match, and assigns it as the
// global import policy with default accept.
func f26Policy(t *testing.T, ds oc.DefinedSets, c oc.Conditions) *RoutingPolicy {
	t.Helper()
	st := oc.Statement{
		Name:       "st",
		Conditions: c,
		Actions:    oc.Actions{RouteDisposition: oc.ROUTE_DISPOSITION_REJECT_ROUTE},
	}
	r := NewRoutingPolicy(logger)
	require.NoError(t, r.reload(createRoutingPolicy(ds, createPolicyDefinition("pd", st))))
	require.NoError(t, r.AddPolicyAssignment(GLOBAL_RIB_NAME, POLICY_DIRECTION_IMPORT,
		[]*oc.PolicyDefinition{{Name: "pd"}}, ROUTE_TYPE_ACCEPT))
	return r
}

func f26Rejected(r *RoutingPolicy, p *Path) bool {
	return r.ApplyPolicy(GLOBAL_RIB_NAME, POLICY_DIRECTION_IMPORT, p, nil) == nil
}

func TestF26ReplacePrefixSetInUse(t *testing.T) {
	r := f26Policy(t,
		oc.DefinedSets{PrefixSets: []oc.PrefixSet{createPrefixSet("ps", "10.10.0.0/16", "16..24")}},
		oc.Conditions{MatchPrefixSet: oc.MatchPrefixSet{PrefixSet: "ps"}})

	oldRoute := f26Path(t, "10.0.0.1", "10.10.1.0/24")
	newRoute := f26Path(t, "10.0.0.1", "192.168.1.0/24")
	require.True(t, f26Rejected(r, oldRoute))
	require.False(t, f26Rejected(r, newRoute))

	ps, err := NewPrefixSet(createPrefixSet("ps", "192.168.0.0/16", "16..24"))
	require.NoError(t, err)
	require.NoError(t, r.AddDefinedSet(ps, true))

	// (a) read back: the new contents
	got, err := r.GetDefinedSet(DEFINED_TYPE_PREFIX, "ps")
	require.NoError(t, err)
	require.Len(t, got.PrefixSets, 1)
	require.Len(t, got.PrefixSets[0].PrefixList, 1)
	assert.Equal(t, "192.168.0.0/16", got.PrefixSets[0].PrefixList[0].IpPrefix.String())

	// (b) evaluation must agree with what was read back
	assert.False(t, f26Rejected(r, oldRoute), "10.10.1.0/24 is still rejected by the replaced prefix-set contents")
	assert.True(t, f26Rejected(r, newRoute), "192.168.1.0/24 is not rejected by the new prefix-set contents")

	// the replaced set is still the one that is in use
	assert.Error(t, r.DeleteDefinedSet(ps, true))
}

func TestF26ReplacePrefixSetInUseOtherFamily(t *testing.T) {
	r := f26Policy(t,
		oc.DefinedSets{PrefixSets: []oc.PrefixSet{createPrefixSet("ps", "10.10.0.0/16", "16..24")}},
		oc.Conditions{MatchPrefixSet: oc.MatchPrefixSet{PrefixSet: "ps"}})

	v4 := f26Path(t, "10.0.0.1", "10.10.1.0/24")
	require.True(t, f26Rejected(r, v4))

	ps, err := NewPrefixSet(createPrefixSet("ps", "2001:db8::/32", "32..64"))
	require.NoError(t, err)
	require.NoError(t, r.AddDefinedSet(ps, true))

	c := r.policyMap["pd"].Statements[0].Conditions[0].(*PrefixCondition)
	assert.Equal(t, bgp.RF_IPv6_UC, c.set.family)
	assert.False(t, f26Rejected(r, v4))
}

func TestF26ReplaceCommunitySetInUse(t *testing.T) {
	cond := oc.Conditions{}
	cond.BgpConditions.MatchCommunitySet.CommunitySet = "cs"
	r := f26Policy(t,
		oc.DefinedSets{BgpDefinedSets: oc.BgpDefinedSets{CommunitySets: []oc.CommunitySet{
			{CommunitySetName: "cs", CommunityList: []string{"65001:100"}},
		}}},
		cond)

	oldRoute := f26Path(t, "10.0.0.1", "10.10.1.0/24",
		bgp.NewPathAttributeCommunities([]uint32{stringToCommunityValue("65001:100")}))
	newRoute := f26Path(t, "10.0.0.1", "10.10.2.0/24",
		bgp.NewPathAttributeCommunities([]uint32{stringToCommunityValue("65001:200")}))
	require.True(t, f26Rejected(r, oldRoute))
	require.False(t, f26Rejected(r, newRoute))

	cs, err := NewCommunitySet(oc.CommunitySet{CommunitySetName: "cs", CommunityList: []string{"65001:200"}})
	require.NoError(t, err)
	require.NoError(t, r.AddDefinedSet(cs, true))

	got, err := r.GetDefinedSet(DEFINED_TYPE_COMMUNITY, "cs")
	require.NoError(t, err)
	require.Len(t, got.BgpDefinedSets.CommunitySets, 1)
	assert.Equal(t, []string{"^65001:200$"}, got.BgpDefinedSets.CommunitySets[0].CommunityList)

	assert.False(t, f26Rejected(r, oldRoute), "community 65001:100 is still rejected by the replaced community-set contents")
	assert.True(t, f26Rejected(r, newRoute), "community 65001:200 is not rejected by the new community-set contents")
}

func TestF26ReplaceNeighborSetInUse(t *testing.T) {
	r := f26Policy(t,
		oc.DefinedSets{NeighborSets: []oc.NeighborSet{createNeighborSet("ns", "10.0.0.1")}},
		oc.Conditions{MatchNeighborSet: oc.MatchNeighborSet{NeighborSet: "ns"}})

	oldRoute := f26Path(t, "10.0.0.1", "10.10.1.0/24")
	newRoute := f26Path(t, "10.0.0.2", "10.10.2.0/24")
	require.True(t, f26Rejected(r, oldRoute))
	require.False(t, f26Rejected(r, newRoute))

	ns, err := NewNeighborSet(createNeighborSet("ns", "10.0.0.2"))
	require.NoError(t, err)
	require.NoError(t, r.AddDefinedSet(ns, true))

	got, err := r.GetDefinedSet(DEFINED_TYPE_NEIGHBOR, "ns")
	require.NoError(t, err)
	require.Len(t, got.NeighborSets, 1)
	assert.Equal(t, []string{"10.0.0.2/32"}, got.NeighborSets[0].NeighborInfoList)

	assert.False(t, f26Rejected(r, oldRoute), "neighbor 10.0.0.1 is still rejected by the replaced neighbor-set contents")
	assert.True(t, f26Rejected(r, newRoute), "neighbor 10.0.0.2 is not rejected by the new neighbor-set contents")
}

func TestF26ReplaceAsPathSetInUse(t *testing.T) {
	cond := oc.Conditions{}
	cond.BgpConditions.MatchAsPathSet.AsPathSet = "as"
	r := f26Policy(t,
		oc.DefinedSets{BgpDefinedSets: oc.BgpDefinedSets{AsPathSets: []oc.AsPathSet{
			// one single-AS matcher and one regexp, to cover both lists
			{AsPathSetName: "as", AsPathList: []string{"^65001_", "^6500[1]$"}},
		}}},
		cond)

	oldRoute := f26PathAS(t, "10.0.0.1", "10.10.1.0/24", 65001)
	newRoute := f26PathAS(t, "10.0.0.1", "10.10.2.0/24", 65002)
	require.True(t, f26Rejected(r, oldRoute))
	require.False(t, f26Rejected(r, newRoute))

	as, err := NewAsPathSet(oc.AsPathSet{AsPathSetName: "as", AsPathList: []string{"^65002_"}})
	require.NoError(t, err)
	require.NoError(t, r.AddDefinedSet(as, true))

	got, err := r.GetDefinedSet(DEFINED_TYPE_AS_PATH, "as")
	require.NoError(t, err)
	require.Len(t, got.BgpDefinedSets.AsPathSets, 1)
	assert.Equal(t, []string{"^65002_"}, got.BgpDefinedSets.AsPathSets[0].AsPathList)

	assert.False(t, f26Rejected(r, oldRoute), "AS path 65001 is still rejected by the replaced as-path-set contents")
	assert.True(t, f26Rejected(r, newRoute), "AS path 65002 is not rejected by the new as-path-set contents")
}

func TestF26ReplaceExtCommunitySetInUse(t *testing.T) {
	cond := oc.Conditions{}
	cond.BgpConditions.MatchExtCommunitySet.ExtCommunitySet = "ec"
	r := f26Policy(t,
		oc.DefinedSets{BgpDefinedSets: oc.BgpDefinedSets{ExtCommunitySets: []oc.ExtCommunitySet{
			{ExtCommunitySetName: "ec", ExtCommunityList: []string{"rt:65001:100"}},
		}}},
		cond)

	ec := func(subtype bgp.ExtendedCommunityAttrSubType, local uint32) bgp.PathAttributeInterface {
		return bgp.NewPathAttributeExtendedCommunities([]bgp.ExtendedCommunityInterface{
			bgp.NewTwoOctetAsSpecificExtended(subtype, 65001, local, true),
		})
	}
	oldRoute := f26Path(t, "10.0.0.1", "10.10.1.0/24", ec(bgp.EC_SUBTYPE_ROUTE_TARGET, 100))
	// differs in the sub-type as well, so that the sub-type list must follow
	newRoute := f26Path(t, "10.0.0.1", "10.10.2.0/24", ec(bgp.EC_SUBTYPE_ROUTE_ORIGIN, 200))
	require.True(t, f26Rejected(r, oldRoute))
	require.False(t, f26Rejected(r, newRoute))

	s, err := NewExtCommunitySet(oc.ExtCommunitySet{ExtCommunitySetName: "ec", ExtCommunityList: []string{"soo:65001:200"}})
	require.NoError(t, err)
	require.NoError(t, r.AddDefinedSet(s, true))

	got, err := r.GetDefinedSet(DEFINED_TYPE_EXT_COMMUNITY, "ec")
	require.NoError(t, err)
	require.Len(t, got.BgpDefinedSets.ExtCommunitySets, 1)
	assert.Equal(t, []string{"soo:^65001:200$"}, got.BgpDefinedSets.ExtCommunitySets[0].ExtCommunityList)

	assert.False(t, f26Rejected(r, oldRoute), "rt:65001:100 is still rejected by the replaced ext-community-set contents")
	assert.True(t, f26Rejected(r, newRoute), "soo:65001:200 is not rejected by the new ext-community-set contents")
}

func TestF26ReplaceLargeCommunitySetInUse(t *testing.T) {
	cond := oc.Conditions{}
	cond.BgpConditions.MatchLargeCommunitySet.LargeCommunitySet = "lc"
	r := f26Policy(t,
		oc.DefinedSets{BgpDefinedSets: oc.BgpDefinedSets{LargeCommunitySets: []oc.LargeCommunitySet{
			{LargeCommunitySetName: "lc", LargeCommunityList: []string{"65001:1:1"}},
		}}},
		cond)

	lc := func(d uint32) bgp.PathAttributeInterface {
		return bgp.NewPathAttributeLargeCommunities([]*bgp.LargeCommunity{bgp.NewLargeCommunity(65001, d, d)})
	}
	oldRoute := f26Path(t, "10.0.0.1", "10.10.1.0/24", lc(1))
	newRoute := f26Path(t, "10.0.0.1", "10.10.2.0/24", lc(2))
	require.True(t, f26Rejected(r, oldRoute))
	require.False(t, f26Rejected(r, newRoute))

	s, err := NewLargeCommunitySet(oc.LargeCommunitySet{LargeCommunitySetName: "lc", LargeCommunityList: []string{"65001:2:2"}})
	require.NoError(t, err)
	require.NoError(t, r.AddDefinedSet(s, true))

	got, err := r.GetDefinedSet(DEFINED_TYPE_LARGE_COMMUNITY, "lc")
	require.NoError(t, err)
	require.Len(t, got.BgpDefinedSets.LargeCommunitySets, 1)
	assert.Equal(t, []string{"^65001:2:2$"}, got.BgpDefinedSets.LargeCommunitySets[0].LargeCommunityList)

	assert.False(t, f26Rejected(r, oldRoute), "65001:1:1 is still rejected by the replaced large-community-set contents")
	assert.True(t, f26Rejected(r, newRoute), "65001:2:2 is not rejected by the new large-community-set contents")
}

// Replace on a name that does not exist yet, and on one that no statement
// uses, keeps working as an insert / overwrite.
func TestF26ReplaceUnusedOrAbsent(t *testing.T) {
	r := NewRoutingPolicy(logger)
	require.NoError(t, r.reload(oc.RoutingPolicy{}))

	ns, err := NewNeighborSet(createNeighborSet("ns", "10.0.0.1"))
	require.NoError(t, err)
	require.NoError(t, r.AddDefinedSet(ns, true))
	ns2, err := NewNeighborSet(createNeighborSet("ns", "10.0.0.2"))
	require.NoError(t, err)
	require.NoError(t, r.AddDefinedSet(ns2, true))

	got, err := r.GetDefinedSet(DEFINED_TYPE_NEIGHBOR, "ns")
	require.NoError(t, err)
	require.Len(t, got.NeighborSets, 1)
	assert.Equal(t, []string{"10.0.0.2/32"}, got.NeighborSets[0].NeighborInfoList)
}
