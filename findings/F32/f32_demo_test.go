package server

import (
	"context"
	"net/netip"
	"sort"
	"testing"
	"time"

	"github.com/stretchr/testify/require"

	"github.com/osrg/gobgp/v4/api"
	"github.com/osrg/gobgp/v4/pkg/apiutil"
	"github.com/osrg/gobgp/v4/pkg/packet/bgp"
)

// Claim 12 demo: listing the Adj-RIB-Out of a neighbor (a read-only API
// request) must not modify the routes stored in the global RIB.
//
// An API client adds the same prefix twice with no_implicit_withdraw (both
// routes stay in the global RIB, same source, same path id, equal
// attributes, different age). For a neighbor that negotiated ADD-PATH send,
// adjRibOutForListPath feeds both into a scratch AdjRib; they collide on
// (destination, path id), AdjRib.Update takes the replaced-entry branch and
// copies the timestamp of the first onto the second, which is (or shares its
// origin info with) the route stored in the global RIB.
func TestC2Claim12ListAdjOutRewritesGlobalRibAge(t *testing.T) {
	ctx, cancel := context.WithTimeout(context.Background(), 60*time.Second)
	defer cancel()

	s1 := runNewServer(t, 65001, "1.1.1.1", 11791)
	s2 := runNewServer(t, 65002, "2.2.2.2", 11792)
	defer s1.StopBgp(context.Background(), &api.StopBgpRequest{}) //nolint:errcheck
	defer s2.StopBgp(context.Background(), &api.StopBgpRequest{}) //nolint:errcheck

	family := &api.Family{Afi: api.Family_AFI_IP, Safi: api.Family_SAFI_UNICAST}
	// s1 -> s2: active side, sends up to 8 paths per prefix.
	require.NoError(t, s1.AddPeer(ctx, &api.AddPeerRequest{Peer: &api.Peer{
		Conf:      &api.PeerConf{NeighborAddress: "127.0.0.1", PeerAsn: 65002},
		Transport: &api.Transport{RemotePort: 11792},
		Timers:    &api.Timers{Config: &api.TimersConfig{ConnectRetry: 1, IdleHoldTimeAfterReset: 1}},
		AfiSafis: []*api.AfiSafi{{
			Config:   &api.AfiSafiConfig{Family: family, Enabled: true},
			AddPaths: &api.AddPaths{Config: &api.AddPathsConfig{SendMax: 8}},
		}},
	}}))
	// s2 -> s1: passive side, accepts additional paths.
	require.NoError(t, s2.AddPeer(ctx, &api.AddPeerRequest{Peer: &api.Peer{
		Conf:      &api.PeerConf{NeighborAddress: "127.0.0.1", PeerAsn: 65001},
		Transport: &api.Transport{RemotePort: 11791, PassiveMode: true},
		Timers:    &api.Timers{Config: &api.TimersConfig{ConnectRetry: 1, IdleHoldTimeAfterReset: 1}},
		AfiSafis: []*api.AfiSafi{{
			Config:   &api.AfiSafiConfig{Family: family, Enabled: true},
			AddPaths: &api.AddPaths{Config: &api.AddPathsConfig{Receive: true}},
		}},
	}}))
	require.NoError(t, waitEstablished(t, ctx, s1, s2))

	add := func(age int64) {
		nlri, err := bgp.NewIPAddrPrefix(netip.MustParsePrefix("10.10.0.0/24"))
		require.NoError(t, err)
		nh, err := bgp.NewPathAttributeNextHop(netip.MustParseAddr("192.0.2.1"))
		require.NoError(t, err)
		_, err = s1.AddPath(apiutil.AddPathRequest{Paths: []*apiutil.Path{{
			Family:             bgp.RF_IPv4_UC,
			Nlri:               nlri,
			Age:                age,
			NoImplicitWithdraw: true,
			Attrs: []bgp.PathAttributeInterface{
				bgp.NewPathAttributeOrigin(0),
				nh,
			},
		}}})
		require.NoError(t, err)
	}
	add(1000)
	add(2000)

	globalAges := func() []int64 {
		var ages []int64
		err := s1.ListPath(apiutil.ListPathRequest{
			TableType: api.TableType_TABLE_TYPE_GLOBAL,
			Family:    bgp.RF_IPv4_UC,
		}, func(_ bgp.NLRI, paths []*apiutil.Path) {
			for _, p := range paths {
				ages = append(ages, p.Age)
			}
		})
		require.NoError(t, err)
		sort.Slice(ages, func(i, j int) bool { return ages[i] < ages[j] })
		return ages
	}

	before := globalAges()
	require.Equal(t, []int64{1000, 2000}, before, "both API routes are stored in the global RIB")

	for _, enableFiltered := range []bool{false, true} {
		// read-only request: show what is advertised to 127.0.0.1
		err := s1.ListPath(apiutil.ListPathRequest{
			TableType:      api.TableType_TABLE_TYPE_ADJ_OUT,
			Name:           "127.0.0.1",
			Family:         bgp.RF_IPv4_UC,
			EnableFiltered: enableFiltered,
		}, func(bgp.NLRI, []*apiutil.Path) {})
		require.NoError(t, err)

		after := globalAges()
		require.Equalf(t, before, after,
			"listing adj-rib-out (enableFiltered=%v) rewrote the age of a route stored in the global RIB", enableFiltered)
	}
}
