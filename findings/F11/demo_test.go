// C07 triage, item (C): an OPEN received in Established state must yield
// NOTIFICATION <Finite State Machine Error (5), subcode 3> and a transition to
// Idle (RFC 6608 section 4: "If a BGP speaker receives an unexpected message
// (e.g., OPEN message) on a session in Established state, it MUST send ... a
// NOTIFICATION ... Finite State Machine Error ... Receive Unexpected Message
// in Established State"; RFC 4271 8.2.2).
//
// This file belongs in pkg/server (package server); it reuses
// makePeerAndHandler/cleanPeerAndHandler/open() from fsm_test.go.
// Copy it to pkg/server/c07c_demo_test.go and run (tests in this package open
// sockets, so use a private netns):
//
//   export GOFLAGS=-mod=mod GOPROXY=off GOWORK=off
//   unshare -n sh -c 'ip link set lo up && go test -vet=off -count=1 -v -run TestC07C ./pkg/server/'

package server

import (
	"bytes"
	"context"
	"encoding/binary"
	"io"
	"net"
	"sync"
	"testing"
	"time"

	"github.com/osrg/gobgp/v4/pkg/packet/bgp"
)

// c07cWire: the handler under test owns 'local'; the test writes into
// 'remote'; a collector records every byte gobgp writes until gobgp closes the
// connection (EOF).
type c07cWire struct {
	local, remote net.Conn
	closed        chan struct{}
	buf           bytes.Buffer
}

func newC07cWire() *c07cWire {
	l, r := net.Pipe()
	w := &c07cWire{local: l, remote: r, closed: make(chan struct{})}
	go func() {
		defer close(w.closed)
		_, _ = io.Copy(&w.buf, r)
	}()
	return w
}

func (w *c07cWire) sent(t *testing.T) []*bgp.BGPMessage {
	t.Helper()
	select {
	case <-w.closed:
	case <-time.After(5 * time.Second):
		t.Fatalf("gobgp did not close the connection")
	}
	var out []*bgp.BGPMessage
	b := w.buf.Bytes()
	for len(b) >= bgp.BGP_HEADER_LENGTH {
		l := int(binary.BigEndian.Uint16(b[16:18]))
		m, err := bgp.ParseBGPMessage(b[:l])
		if err != nil {
			t.Fatalf("gobgp sent an unparsable message: %v", err)
		}
		out = append(out, m)
		b = b[l:]
	}
	return out
}

func TestC07C_EstablishedUnexpectedOpen(t *testing.T) {
	w := newC07cWire()
	p, h := makePeerAndHandler(w.local)
	t.Cleanup(func() { cleanPeerAndHandler(p, h) })
	// NegotiatedHoldTime == 0: no hold timer, no keepalive ticker, so gobgp
	// writes nothing on its own and the only events are the messages fed below.

	// Record what the receive loop hands to the server as a legitimate
	// session message.
	var mu sync.Mutex
	var delivered []uint8
	h.callback = func(m *fsmMsg) {
		if bm, ok := m.MsgData.(*bgp.BGPMessage); ok && m.MsgType == fsmMsgBGPMessage {
			mu.Lock()
			delivered = append(delivered, bm.Header.Type)
			mu.Unlock()
		}
	}

	type result struct {
		state  bgp.FSMState
		reason *fsmStateReason
	}
	ctx, cancel := context.WithCancel(context.Background())
	defer cancel()
	done := make(chan result, 1)
	go func() {
		s, r := h.established(ctx)
		done <- result{s, r}
	}()

	// 1. Feed an OPEN in Established. net.Pipe is synchronous: Write returns
	//    once the receive loop has read the whole message.
	openRaw, _ := open().Serialize()
	if _, err := w.remote.Write(openRaw); err != nil {
		t.Fatalf("feeding OPEN: %v", err)
	}
	// 2. Probe with a KEEPALIVE. If the OPEN tore the session down (as
	//    prescribed) nobody reads it and the write fails when gobgp closes the
	//    connection. If it is consumed, the receive loop has finished with the
	//    OPEN and simply carried on: the session survived.
	kaRaw, _ := bgp.NewBGPKeepAliveMessage().Serialize()
	_ = w.remote.SetWriteDeadline(time.Now().Add(5 * time.Second))
	_, kaErr := w.remote.Write(kaRaw)

	var res *result
	if kaErr != nil {
		// gobgp closed the connection: the handler is on its way out.
		select {
		case r := <-done:
			res = &r
		case <-time.After(5 * time.Second):
		}
	}
	// kaErr == nil: the probe was consumed, the session is alive and nothing
	// more will ever happen; stop the handler so that the connection closes.
	stillEstablished := res == nil
	cancel()
	if res == nil {
		<-done
	}
	sent := w.sent(t)

	mu.Lock()
	t.Logf("fed in Established: OPEN (type 1), then KEEPALIVE as a liveness probe (probe write error: %v)", kaErr)
	t.Logf("message types handed to the server callback as session traffic: %v", delivered)
	mu.Unlock()
	if stillEstablished {
		t.Logf("handler still in Established after the OPEN (had to cancel it); gobgp sent %d message(s)", len(sent))
	} else {
		t.Logf("handler left Established: next state %s, reason %v; gobgp sent %d message(s)", res.state, res.reason, len(sent))
	}
	for i, m := range sent {
		t.Logf("  sent[%d]: type %d %+v", i, m.Header.Type, m.Body)
	}

	if stillEstablished {
		t.Errorf("OPEN in Established was ignored: the session stays Established (the following KEEPALIVE was accepted); RFC 6608 s.4 / RFC 4271 8.2.2 prescribe NOTIFICATION 5/3 and Idle")
	} else if res.state != bgp.BGP_FSM_IDLE {
		t.Errorf("next state = %s, want Idle", res.state)
	}
	if len(sent) != 1 || sent[0].Header.Type != bgp.BGP_MSG_NOTIFICATION {
		t.Fatalf("want exactly one NOTIFICATION(code 5 FSM Error, subcode 3); gobgp sent %d message(s)", len(sent))
	}
	n := sent[0].Body.(*bgp.BGPNotification)
	if n.ErrorCode != bgp.BGP_ERROR_FSM_ERROR || n.ErrorSubcode != bgp.BGP_ERROR_SUB_RECEIVE_UNEXPECTED_MESSAGE_IN_ESTABLISHED_STATE {
		t.Errorf("NOTIFICATION code/subcode = %d/%d, want 5/3", n.ErrorCode, n.ErrorSubcode)
	}
	if !bytes.Equal(n.Data, []byte{bgp.BGP_MSG_OPEN}) {
		t.Errorf("NOTIFICATION data = %v, want [1] (type of the unexpected message, RFC 6608 s.4)", n.Data)
	}
	mu.Lock()
	defer mu.Unlock()
	for _, typ := range delivered {
		if typ == bgp.BGP_MSG_OPEN {
			t.Errorf("the OPEN was handed to the server callback as ordinary session traffic")
		}
	}
}

// Informational companion (passes on the unchanged tree): an UPDATE received in
// OpenSent IS answered with FSM Error subcode 1 and Idle, as prescribed. The
// only nit is that the Data field is empty whereas RFC 6608 s.4 says it carries
// the 1-octet type of the unexpected message; that is logged, not asserted.
func TestC07C_OpenSentUnexpectedUpdate_Info(t *testing.T) {
	w := newC07cWire()
	p, h := makePeerAndHandler(w.local)
	t.Cleanup(func() { cleanPeerAndHandler(p, h) })

	raw, _ := bgp.NewBGPUpdateMessage(nil, nil, nil).Serialize()
	go func() { _, _ = w.remote.Write(raw) }()

	ctx, cancel := context.WithTimeout(context.Background(), 5*time.Second)
	defer cancel()
	state, reason := h.opensent(ctx)
	sent := w.sent(t)
	t.Logf("fed in OpenSent: UPDATE (type 2); next state %s, reason %v; gobgp sent %d message(s)", state, reason, len(sent))
	if state != bgp.BGP_FSM_IDLE {
		t.Errorf("next state = %s, want Idle", state)
	}
	if len(sent) != 1 || sent[0].Header.Type != bgp.BGP_MSG_NOTIFICATION {
		t.Fatalf("want one NOTIFICATION, got %d message(s)", len(sent))
	}
	n := sent[0].Body.(*bgp.BGPNotification)
	t.Logf("  sent[0]: NOTIFICATION code %d subcode %d data %v (RFC 6608 s.4 data would be [2])", n.ErrorCode, n.ErrorSubcode, n.Data)
	if n.ErrorCode != bgp.BGP_ERROR_FSM_ERROR || n.ErrorSubcode != bgp.BGP_ERROR_SUB_RECEIVE_UNEXPECTED_MESSAGE_IN_OPENSENT_STATE {
		t.Errorf("NOTIFICATION code/subcode = %d/%d, want 5/1", n.ErrorCode, n.ErrorSubcode)
	}
}
