package server

import (
	"context"
	"encoding/binary"
	"io"
	"net"
	"net/netip"
	"strconv"
	"testing"
	"time"

	"github.com/osrg/gobgp/v4/api"
	"github.com/osrg/gobgp/v4/pkg/apiutil"
	"github.com/osrg/gobgp/v4/pkg/packet/bgp"
)

// R4: newWatchEventPeer (server.go:989) reads peer.fsm.recvOpen after it has
// released peer.fsm.lock, while the peer's FSM goroutine assigns fsm.recvOpen
// under fsm.lock in opensent() (fsm.go:1537).
//
// newWatchEventPeer is called for every configured peer, whatever its state,
// from the management operation behind WatchEvent(..., WatchPeer()) (and the
// WatchEvent gRPC with the peer option). The FSM goroutine does not need
// s.shared.mu to go from "OPEN sent" to "OPEN received", so holding the
// management lock does not protect the read.
//
// The test plays the remote BGP speaker by hand so that the order is fixed:
// gobgp sends its OPEN and sits in OPENSENT; the test registers a peer watcher
// (the unlocked read); only then does the remote side send its OPEN (the write).
func TestRaceR4NewWatchEventPeerVsOpensent(t *testing.T) {
	// find a free port for gobgp to listen on
	tmp, err := net.Listen("tcp", "127.0.0.1:0")
	if err != nil {
		t.Fatal(err)
	}
	port := tmp.Addr().(*net.TCPAddr).Port
	tmp.Close()

	s := NewBgpServer()
	go s.Serve()
	if err := s.StartBgp(context.Background(), &api.StartBgpRequest{
		Global: &api.Global{Asn: 65001, RouterId: "1.1.1.1", ListenPort: int32(port), ListenAddresses: []string{"127.0.0.1"}},
	}); err != nil {
		t.Fatal(err)
	}
	defer s.StopBgp(context.Background(), &api.StopBgpRequest{})

	if err := s.AddPeer(context.Background(), &api.AddPeerRequest{Peer: &api.Peer{
		Conf:      &api.PeerConf{NeighborAddress: "127.0.0.1", PeerAsn: 65002},
		Transport: &api.Transport{PassiveMode: true},
	}}); err != nil {
		t.Fatal(err)
	}

	waitState := func(want api.PeerState_SessionState) {
		t.Helper()
		deadline := time.Now().Add(10 * time.Second)
		for time.Now().Before(deadline) {
			var got api.PeerState_SessionState
			_ = s.ListPeer(context.Background(), &api.ListPeerRequest{}, func(p *api.Peer) {
				got = p.State.SessionState
			})
			if got == want {
				return
			}
			time.Sleep(10 * time.Millisecond)
		}
		t.Fatalf("peer did not reach %v", want)
	}
	waitState(api.PeerState_SESSION_STATE_ACTIVE)

	// the remote speaker connects; gobgp (passive) answers with its OPEN
	conn, err := net.Dial("tcp", net.JoinHostPort("127.0.0.1", strconv.Itoa(port)))
	if err != nil {
		t.Fatal(err)
	}
	defer conn.Close()
	_ = conn.SetReadDeadline(time.Now().Add(10 * time.Second))
	hdr := make([]byte, bgp.BGP_HEADER_LENGTH)
	if _, err := io.ReadFull(conn, hdr); err != nil {
		t.Fatal(err)
	}
	if hdr[18] != bgp.BGP_MSG_OPEN {
		t.Fatalf("expected OPEN, got message type %d", hdr[18])
	}
	if _, err := io.ReadFull(conn, make([]byte, int(binary.BigEndian.Uint16(hdr[16:18]))-bgp.BGP_HEADER_LENGTH)); err != nil {
		t.Fatal(err)
	}
	waitState(api.PeerState_SESSION_STATE_OPENSENT)
	time.Sleep(50 * time.Millisecond) // FSM goroutine is now parked in opensent()

	open, err := bgp.NewBGPOpenMessage(bgp.AS_TRANS, 90, netip.MustParseAddr("2.2.2.2"),
		[]bgp.OptionParameterInterface{bgp.NewOptionParameterCapability([]bgp.ParameterCapabilityInterface{
			bgp.NewCapMultiProtocol(bgp.RF_IPv4_UC),
			bgp.NewCapFourOctetASNumber(65002),
		})})
	if err != nil {
		t.Fatal(err)
	}
	buf, err := open.Serialize()
	if err != nil {
		t.Fatal(err)
	}

	// The remote speaker sends its OPEN 300ms from now, i.e. after the watcher
	// below has been registered: the FSM goroutine then stores it in
	// fsm.recvOpen (fsm.go:1537).
	//
	// This must not be done by a goroutine that has synchronized with the
	// Serve goroutine after the read (such as this one, once WatchEvent has
	// returned): under the race detector every write(2) "happens before" every
	// later read(2) (syscall.ioSync), so the in-process TCP connection would
	// hand an ordering to the FSM goroutine that two real routers do not have.
	go func() {
		time.Sleep(300 * time.Millisecond)
		_, _ = conn.Write(buf)
	}()

	// Register a peer watcher: watch() -> newWatchEventPeer() reads
	// peer.fsm.recvOpen without fsm.lock (server.go:989).
	reached := make(chan struct{}, 1)
	ctx, cancel := context.WithCancel(context.Background())
	defer cancel()
	if err := s.WatchEvent(ctx, WatchEventMessageCallbacks{
		OnPeerUpdate: func(ev *apiutil.WatchEventMessage_PeerEvent, _ time.Time) {
			if ev.Type == apiutil.PEER_EVENT_STATE && ev.Peer.State.SessionState >= bgp.BGP_FSM_OPENCONFIRM {
				select {
				case reached <- struct{}{}:
				default:
				}
			}
		},
	}, WatchPeer()); err != nil {
		t.Fatal(err)
	}

	select {
	case <-reached:
	case <-time.After(10 * time.Second):
		t.Fatal("peer did not reach OPENCONFIRM")
	}
}
