package bgp

import (
	"encoding/json"
	"testing"
)

// F28 (C05): a message that ParseBGPMessage hands back together with a treat-as-withdraw class error must be
// printable and re-serialisable. A PMSI_TUNNEL attribute shorter than 5 octets fails to decode with such an error
// but stays in the attribute list; on the unfixed tree its TunnelID is nil and String / MarshalJSON / Serialize of
// the message panic.
func TestF28ShortPmsiTunnelAttributeIsRenderable(t *testing.T) {
	attrs := []byte{
		0x40, 0x01, 0x01, 0x00, // ORIGIN IGP
		0x40, 0x02, 0x00, // empty AS_PATH
		0x40, 0x03, 0x04, 192, 0, 2, 1, // NEXT_HOP
		0xc0, 22, 0x03, 0x00, 0x06, 0x00, // PMSI_TUNNEL, optional transitive, 3 octets: too short
	}
	body := []byte{0x00, 0x00, byte(len(attrs) >> 8), byte(len(attrs))}
	body = append(body, attrs...)
	body = append(body, 24, 10, 0, 0) // NLRI 10.0.0.0/24
	msgLen := 19 + len(body)
	raw := make([]byte, 16, msgLen)
	for i := range raw {
		raw[i] = 0xff
	}
	raw = append(raw, byte(msgLen>>8), byte(msgLen), BGP_MSG_UPDATE)
	raw = append(raw, body...)

	msg, err := ParseBGPMessage(raw)
	if msg == nil {
		t.Skipf("the parser returned no message (err=%v): nothing to render", err)
	}
	if err == nil {
		t.Fatalf("a 3-octet PMSI_TUNNEL attribute was accepted")
	}
	defer func() {
		if r := recover(); r != nil {
			t.Fatalf("rendering the returned message panicked: %v", r)
		}
	}()
	for _, a := range msg.Body.(*BGPUpdate).PathAttributes {
		_ = a.String()
		if _, jerr := json.Marshal(a); jerr != nil {
			t.Logf("json: %v", jerr)
		}
		_, _ = a.Serialize()
		_ = a.Len()
	}
	_, _ = json.Marshal(msg.Body)
	_, _ = msg.Serialize()
}
