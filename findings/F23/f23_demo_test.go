package server

// Belongs in pkg/server. Run (needs a private netns):
//   unshare -n sh -c 'ip link set lo up && go test -vet=off -count=1 -run TestF23 ./pkg/server/'
//
// F23: a policy statement with an origin condition (Conditions.Origin) added through the API must be
// listed back with the same condition. ListPolicy (table.toStatementApi) fills Conditions.Origin from
// the statement's *action* (SetRouteOrigin) instead of its condition (OriginEq); ListStatement
// (server.toStatementApi) does not fill it at all.

import (
	"context"
	"testing"

	"github.com/stretchr/testify/require"

	"github.com/osrg/gobgp/v4/api"
)

func TestF23OriginConditionListedBack(t *testing.T) {
	s := runNewServer(t, 1, "1.1.1.1", 10179)
	defer s.StopBgp(context.Background(), &api.StopBgpRequest{})
	st := &api.Statement{
		Name:       "st-origin",
		Conditions: &api.Conditions{Origin: api.OriginType_ORIGIN_TYPE_EGP},
		Actions:    &api.Actions{RouteAction: api.RouteAction_ROUTE_ACTION_ACCEPT},
	}
	require.NoError(t, s.AddPolicy(context.Background(), &api.AddPolicyRequest{Policy: &api.Policy{Name: "p-origin", Statements: []*api.Statement{st}}}))

	var viaPolicy *api.Statement
	require.NoError(t, s.ListPolicy(context.Background(), &api.ListPolicyRequest{Name: "p-origin"}, func(p *api.Policy) {
		viaPolicy = p.Statements[0]
	}))
	require.NotNil(t, viaPolicy)
	var viaStatement *api.Statement
	require.NoError(t, s.ListStatement(context.Background(), &api.ListStatementRequest{Name: "st-origin"}, func(x *api.Statement) {
		viaStatement = x
	}))
	require.NotNil(t, viaStatement)

	if got := viaPolicy.Conditions.GetOrigin(); got != api.OriginType_ORIGIN_TYPE_EGP {
		t.Errorf("ListPolicy: origin condition EGP is listed back as %v", got)
	}
	if got := viaStatement.Conditions.GetOrigin(); got != api.OriginType_ORIGIN_TYPE_EGP {
		t.Errorf("ListStatement: origin condition EGP is listed back as %v", got)
	}
}
