package bgp

import (
	"bytes"
	"testing"
)

func TestF21UnknownRDRoundTrip(t *testing.T) {
	in := []byte{0x00, 0x07, 1, 2, 3, 4, 5, 6}
	rd := GetRouteDistinguisher(in)
	out, err := rd.Serialize()
	if err != nil {
		t.Fatal(err)
	}
	if !bytes.Equal(in, out) {
		t.Fatalf("unknown-type RD does not re-serialise to the bytes it was decoded from: in=%x out=%x", in, out)
	}
}
