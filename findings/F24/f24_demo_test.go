package bgp

// Belongs in pkg/packet/bgp. Run: go test -vet=off -count=1 -run TestF24 ./pkg/packet/bgp/
//
// F24: a VPLS NLRI whose length field is 12 (the BGP-AD form) is accepted by the decoder
// ("not supported yet" -> return nil) with its route distinguisher left nil, while Len() still
// reports 19. The UPDATE is handed on as valid; the first Serialize / String / MarshalJSON of the
// route dereferences the nil RD and panics: one UPDATE from a peer that negotiated l2vpn-vpls
// takes the daemon down.

import (
	"net/netip"
	"testing"
)

func TestF24VPLSBgpAdNLRIDoesNotCrash(t *testing.T) {
	nlri := []byte{0x00, 12, // length 12: BGP-AD
		0, 0, 0, 100, 0, 0, 0, 1, // RD
		192, 0, 2, 1, // PE address
		0, 0, 0, 0, 0} // padding so that the 19 octets Len() claims are present
	mp := []byte{0x80 | 0x10, byte(BGP_ATTR_TYPE_MP_REACH_NLRI), 0, 0}
	body := []byte{0, 25, 65, 4}
	body = append(body, netip.MustParseAddr("192.0.2.2").AsSlice()...)
	body = append(body, 0)
	body = append(body, nlri...)
	mp[2], mp[3] = byte(len(body)>>8), byte(len(body))
	mp = append(mp, body...)
	origin := []byte{0x40, 1, 1, 0}
	aspath := []byte{0x40, 2, 0}
	attrs := append(append(origin, aspath...), mp...)
	upd := []byte{0, 0, byte(len(attrs) >> 8), byte(len(attrs))}
	upd = append(upd, attrs...)
	hdr := make([]byte, 19)
	for i := 0; i < 16; i++ {
		hdr[i] = 0xff
	}
	total := 19 + len(upd)
	hdr[16], hdr[17], hdr[18] = byte(total>>8), byte(total), BGP_MSG_UPDATE
	msg, err := ParseBGPMessage(append(hdr, upd...))
	if err != nil {
		return // refusing the message is fine
	}
	defer func() {
		if r := recover(); r != nil {
			t.Fatalf("the decoder accepted the UPDATE, then re-serialising it panics: %v", r)
		}
	}()
	if _, err := msg.Serialize(); err != nil {
		t.Logf("serialize error (acceptable): %v", err)
	}
	for _, a := range msg.Body.(*BGPUpdate).PathAttributes {
		_ = a.String()
	}
}
