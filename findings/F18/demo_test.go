// Belongs in: pkg/packet/mrt/  (package mrt; copy as pkg/packet/mrt/mrt_c19_demo_test.go)
//
// Run:
//   export GOFLAGS=-mod=mod GOPROXY=off GOWORK=off
//   go test -vet=off -count=1 -run TestC19MrtRibSubtypeRoundTrip ./pkg/packet/mrt/
//
// Property: a TABLE_DUMP_V2 RIB record written by gobgp (NewMRTMessage +
// NewRib + Serialize, with the subtype that pkg/server/mrt.go chooses for the
// family) must parse back through ParseHeader/ParseBody to the same content.
//
// RFC 6396 4.3.2/4.3.3: the AFI-specific subtypes (RIB_IPV4_UNICAST,
// RIB_IPV4_MULTICAST, RIB_IPV6_UNICAST, RIB_IPV6_MULTICAST and *_ADDPATH) have
// NO AFI/SAFI fields; only RIB_GENERIC / RIB_GENERIC_ADDPATH carry them.
// parseRib implements exactly that; (*Rib).Serialize does the opposite.

package mrt

import (
	"bytes"
	"fmt"
	"net/netip"
	"testing"
	"time"

	"github.com/stretchr/testify/require"

	"github.com/osrg/gobgp/v4/pkg/packet/bgp"
)

// same mapping as the `subtype` closure in pkg/server/mrt.go (*mrtWriter).dumpTable
func c19Subtype(f bgp.Family, isAddPath bool) MRTSubTypeTableDumpv2 {
	t := RIB_GENERIC
	switch f {
	case bgp.RF_IPv4_UC:
		t = RIB_IPV4_UNICAST
	case bgp.RF_IPv4_MC:
		t = RIB_IPV4_MULTICAST
	case bgp.RF_IPv6_UC:
		t = RIB_IPV6_UNICAST
	case bgp.RF_IPv6_MC:
		t = RIB_IPV6_MULTICAST
	}
	if isAddPath {
		t += 6
	}
	return t
}

func TestC19MrtRibSubtypeRoundTrip(t *testing.T) {
	v4, _ := bgp.NewIPAddrPrefix(netip.MustParsePrefix("192.168.0.0/24"))
	v6, _ := bgp.NewIPAddrPrefix(netip.MustParsePrefix("2001:db8:1::/48"))
	rd := bgp.NewRouteDistinguisherTwoOctetAS(65000, 100)
	vpn4, err := bgp.NewLabeledVPNIPAddrPrefix(netip.MustParsePrefix("10.1.0.0/16"), *bgp.NewMPLSLabelStack(100), rd)
	require.NoError(t, err)
	evpn, err := bgp.NewEVPNMulticastEthernetTagRoute(rd, 7, netip.MustParseAddr("10.0.0.9"))
	require.NoError(t, err)

	cases := []struct {
		family bgp.Family
		nlri   bgp.NLRI
		nh     string
	}{
		{bgp.RF_IPv4_UC, v4, "10.0.0.1"},    // AFI-specific subtype, passes on the unchanged tree
		{bgp.RF_IPv4_MC, v4, "10.0.0.1"},    // AFI-specific subtype
		{bgp.RF_IPv6_UC, v6, "2001:db8::1"}, // AFI-specific subtype
		{bgp.RF_IPv6_MC, v6, "2001:db8::1"}, // AFI-specific subtype
		{bgp.RF_IPv4_VPN, vpn4, "10.0.0.1"}, // RIB_GENERIC
		{bgp.RF_EVPN, evpn, "10.0.0.1"},     // RIB_GENERIC
	}

	for _, tc := range cases {
		for _, addPath := range []bool{false, true} {
			st := c19Subtype(tc.family, addPath)
			t.Run(fmt.Sprintf("%s/subtype=%d", tc.family, st), func(t *testing.T) {
				var attrs []bgp.PathAttributeInterface
				attrs = append(attrs, bgp.NewPathAttributeOrigin(0))
				attrs = append(attrs, bgp.NewPathAttributeAsPath([]bgp.AsPathParamInterface{bgp.NewAs4PathParam(2, []uint32{65001})}))
				if tc.family == bgp.RF_IPv4_UC {
					nh, _ := bgp.NewPathAttributeNextHop(netip.MustParseAddr(tc.nh))
					attrs = append(attrs, nh)
				} else {
					mp, err := bgp.NewPathAttributeMpReachNLRI(tc.family, []bgp.PathNLRI{{NLRI: tc.nlri}}, netip.MustParseAddr(tc.nh))
					require.NoError(t, err)
					attrs = append(attrs, mp)
				}
				pathID := uint32(0)
				if addPath {
					pathID = 42
				}
				e := NewRibEntry(3, 1700000000, pathID, attrs, addPath)
				rib := NewRib(11, tc.family, tc.nlri, []*RibEntry{e})
				msg, err := NewMRTMessage(time.Unix(1700000000, 0), TABLE_DUMPv2, st, rib)
				require.NoError(t, err)
				wire, err := msg.Serialize()
				require.NoError(t, err)
				t.Logf("wire body: % x", wire[MRT_COMMON_HEADER_LEN:])

				h, err := ParseHeader(wire[:MRT_COMMON_HEADER_LEN])
				require.NoError(t, err)
				got, err := ParseBody(wire[MRT_COMMON_HEADER_LEN:], h)
				require.NoErrorf(t, err, "gobgp cannot parse its own RIB record (family %s, subtype %d)", tc.family, st)

				r2, ok := got.Body.(*Rib)
				require.True(t, ok)
				require.Equal(t, uint32(11), r2.SequenceNumber)
				require.Equal(t, tc.family, r2.Family, "Rib.Family after parsing")
				require.Equal(t, tc.nlri.String(), r2.Prefix.String(), "prefix")
				require.Len(t, r2.Entries, 1)
				require.Equal(t, uint16(3), r2.Entries[0].PeerIndex)
				require.Equal(t, uint32(1700000000), r2.Entries[0].OriginatedTime)
				require.Equal(t, pathID, r2.Entries[0].PathIdentifier)
				require.Len(t, r2.Entries[0].PathAttributes, len(attrs))

				again, err := got.Serialize()
				require.NoError(t, err)
				require.Truef(t, bytes.Equal(wire, again), "re-serialised record differs\n wrote : % x\n reread: % x", wire, again)
			})
		}
	}
}
