// Copy to pkg/server/ and run (private network namespace, fixed TCP ports):
//   export GOFLAGS=-mod=mod GOPROXY=off GOWORK=off
//   unshare -n sh -c 'ip link set lo up && go test -vet=off -count=1 -timeout 10m -v -run TestClaim2_ ./pkg/server/'
// Fails against the unchanged code, passes with /tmp/audit_out/claim2_fix.diff.

package server

import (
	"context"
	"net"
	"net/netip"
	"testing"
	"time"

	"github.com/osrg/gobgp/v4/api"
	"github.com/osrg/gobgp/v4/pkg/config/oc"
	"github.com/osrg/gobgp/v4/pkg/packet/bgp"
)

// Claim 2 says the send on fsm.deconfiguredNotification in deleteNeighbor cannot
// block because a neighbor is deleted at most once.  That relies on stopNeighbor
// removing the peer from s.neighborMap, but stopNeighbor derives the map key from
// peer.ID() (= pConf.State.NeighborAddress), which handleFSMMessage overwrites with
// Config.NeighborAddress when a state change happens while the peer is admin-down
// ("clear counter" block).  Whenever Config.NeighborAddress differs from the address
// the peer is keyed by, stopNeighbor misses the entry (or panics), the stopped peer
// stays in the map, and the next deletion writes to the full, never drained channel.

func waitPeerID(t *testing.T, s *BgpServer, key netip.Addr, want string) {
	t.Helper()
	deadline := time.Now().Add(5 * time.Second)
	for time.Now().Before(deadline) {
		got := ""
		_ = s.mgmtOperation(func() error {
			if p, ok := s.neighborMap[key]; ok {
				got = p.ID()
			}
			return nil
		}, false)
		if got == want {
			return
		}
		time.Sleep(20 * time.Millisecond)
	}
	t.Fatalf("peer keyed by %s never got ID %q", key, want)
}

// Second DeletePeer blocks the management goroutine forever (with sharedData.mu
// write-locked), i.e. every later API call hangs.
func TestClaim2_SecondDeleteBlocksManagementGoroutine(t *testing.T) {
	s := NewBgpServer()
	go s.Serve()
	if err := s.StartBgp(context.Background(), &api.StartBgpRequest{Global: &api.Global{Asn: 1, RouterId: "1.1.1.1", ListenPort: -1}}); err != nil {
		t.Fatal(err)
	}
	// The API lets the caller pass State.NeighborAddress; ExtractNeighborAddress
	// prefers it, so the peer is keyed (and identified) by 10.0.0.2.
	if err := s.AddPeer(context.Background(), &api.AddPeerRequest{Peer: &api.Peer{
		Conf:  &api.PeerConf{NeighborAddress: "10.0.0.1", PeerAsn: 2},
		State: &api.PeerState{NeighborAddress: "10.0.0.2"},
	}}); err != nil {
		t.Fatal(err)
	}
	key := netip.MustParseAddr("10.0.0.2")
	waitPeerID(t, s, key, "10.0.0.2")
	// wait until the FSM left IDLE (idle hold time is 0 for a new peer) so that the
	// admin-down produces a state change
	deadline := time.Now().Add(5 * time.Second)
	for {
		var st bgp.FSMState
		_ = s.mgmtOperation(func() error { st = s.neighborMap[key].State(); return nil }, false)
		if st != bgp.BGP_FSM_IDLE {
			break
		}
		if time.Now().After(deadline) {
			break
		}
		time.Sleep(20 * time.Millisecond)
	}
	if err := s.DisablePeer(context.Background(), &api.DisablePeerRequest{Address: "10.0.0.2"}); err != nil {
		t.Fatal(err)
	}
	// ACTIVE -> IDLE(admin down): handleFSMMessage resets State.NeighborAddress to
	// Config.NeighborAddress (fsm.state is stored after the callback returned)
	deadline = time.Now().Add(5 * time.Second)
	for {
		var st bgp.FSMState
		var id string
		_ = s.mgmtOperation(func() error { st = s.neighborMap[key].State(); id = s.neighborMap[key].ID(); return nil }, false)
		if st == bgp.BGP_FSM_IDLE {
			t.Logf("peer keyed by 10.0.0.2 now has ID %q", id)
			break
		}
		if time.Now().After(deadline) {
			t.Fatal("peer did not go to IDLE after DisablePeer")
		}
		time.Sleep(20 * time.Millisecond)
	}

	if err := s.DeletePeer(context.Background(), &api.DeletePeerRequest{Address: "10.0.0.2"}); err != nil {
		t.Fatalf("first delete: %v", err)
	}
	done := make(chan error, 1)
	go func() { done <- s.DeletePeer(context.Background(), &api.DeletePeerRequest{Address: "10.0.0.2"}) }()
	select {
	case err := <-done:
		if err == nil {
			t.Fatalf("second delete of the same neighbor succeeded; it is still in neighborMap")
		}
		t.Logf("second delete returned: %v", err)
	case <-time.After(3 * time.Second):
		t.Fatalf("second DeletePeer never returned: management goroutine is blocked in deleteNeighbor on fsm.deconfiguredNotification (capacity 1, never drained) while holding sharedData.mu")
	}
	_ = s.StopBgp(context.Background(), &api.StopBgpRequest{})
}

// Same root cause with a configuration every user can have: for a dynamic (or
// unnumbered-interface) neighbor Config.NeighborAddress is empty, so after
// "disable" peer.ID() is "invalid IP" and stopNeighbor's netip.MustParseAddr
// panics on the management goroutine: DeletePeer/StopBgp crash the daemon.
func TestClaim2_DeleteDisabledDynamicNeighbor(t *testing.T) {
	s := NewBgpServer()
	go s.Serve()
	const port = 11279
	if err := s.StartBgp(context.Background(), &api.StartBgpRequest{Global: &api.Global{Asn: 1, RouterId: "1.1.1.1", ListenPort: port, ListenAddresses: []string{"127.0.0.1"}}}); err != nil {
		t.Fatal(err)
	}
	if err := s.mgmtOperation(func() error {
		return s.addPeerGroup(&oc.PeerGroup{Config: oc.PeerGroupConfig{PeerAs: 2, PeerGroupName: "g"}})
	}, true); err != nil {
		t.Fatal(err)
	}
	if err := s.AddDynamicNeighbor(context.Background(), &api.AddDynamicNeighborRequest{DynamicNeighbor: &api.DynamicNeighbor{Prefix: "127.0.0.0/24", PeerGroup: "g"}}); err != nil {
		t.Fatal(err)
	}
	c, err := net.Dial("tcp", "127.0.0.1:11279")
	if err != nil {
		t.Fatal(err)
	}
	defer c.Close()
	key := netip.MustParseAddr("127.0.0.1")
	waitPeerID(t, s, key, "127.0.0.1") // dynamic peer exists (OPENSENT, waiting for our OPEN)
	time.Sleep(200 * time.Millisecond)
	if err := s.DisablePeer(context.Background(), &api.DisablePeerRequest{Address: "127.0.0.1"}); err != nil {
		t.Fatal(err)
	}
	time.Sleep(500 * time.Millisecond) // OPENSENT -> IDLE(admin down) state change is handled
	var id string
	_ = s.mgmtOperation(func() error { id = s.neighborMap[key].ID(); return nil }, false)
	if id != "127.0.0.1" {
		t.Errorf("peer.ID() changed from 127.0.0.1 to %q after disable", id)
	}
	// panics in stopNeighbor (netip.MustParseAddr("invalid IP")) with the unfixed code
	if err := s.DeletePeer(context.Background(), &api.DeletePeerRequest{Address: "127.0.0.1"}); err != nil {
		t.Fatalf("delete: %v", err)
	}
	_ = s.StopBgp(context.Background(), &api.StopBgpRequest{})
}
