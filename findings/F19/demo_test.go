// Belongs in: pkg/zebra/  (package zebra; copy as pkg/zebra/zapi_c19_demo_test.go)
//
// Run:
//   export GOFLAGS=-mod=mod GOPROXY=off GOWORK=off
//   go test -vet=off -count=1 -run TestC19IPRouteBody ./pkg/zebra/
//
// Property: what IPRouteBody.serialize writes for a given (ZAPI version,
// software) must be read back by IPRouteBody.decodeFromBytes for the same
// (version, software) to the same content.
//
// Failing input: ZAPI 6 / "frr7.5", Message = NEXTHOP|METRIC|0x200.
// For frr7.5 gobgp itself gives raw bit 0x200 a meaning: Nexthop.encode /
// decodeNexthops treat it as messageSRTE (per-nexthop srte_color) and
// MessageFlag.string prints it as "SRTE".  But messageOpaque.ToEach(6, frr7.5)
// is also 0x200 (0x400>>1), and serialize() has no "frr >= 8" guard on the
// opaque block while decodeFromBytes() has one.

package zebra

import (
	"bytes"
	"net/netip"
	"syscall"
	"testing"

	"github.com/stretchr/testify/require"
)

func c19RouteBody(msg MessageFlag) *IPRouteBody {
	return &IPRouteBody{
		API:     RouteAdd,
		Type:    RouteBGP,
		Safi:    SafiUnicast,
		Message: msg,
		Prefix: Prefix{
			Family:    syscall.AF_INET,
			PrefixLen: 24,
			Prefix:    netip.MustParseAddr("192.168.100.0"),
		},
		Nexthops: []Nexthop{{
			Type:      nexthopTypeIPv4IFIndex,
			Gate:      netip.MustParseAddr("10.0.0.1"),
			Ifindex:   1,
			srteColor: 100,
		}},
		Metric: 10,
	}
}

func c19RoundTrip(t *testing.T, v uint8, softwareName string, msg MessageFlag) {
	t.Helper()
	sw := NewSoftware(v, softwareName)
	in := c19RouteBody(msg)
	wire, err := in.serialize(v, sw)
	require.NoError(t, err)
	t.Logf("zapi v%d %s message=%#x (%s): serialize wrote %d bytes", v, sw.string(), uint32(msg), msg.string(v, sw), len(wire))

	out := &IPRouteBody{API: RouteAdd}
	err = out.decodeFromBytes(wire, v, sw)
	require.NoErrorf(t, err, "gobgp cannot parse its own IPRouteBody (v%d %s message=%#x, %d bytes on the wire)", v, sw.string(), uint32(msg), len(wire))

	require.Equal(t, in.Message, out.Message)
	require.Equal(t, in.Prefix, out.Prefix)
	require.Equal(t, in.Metric, out.Metric)
	require.Len(t, out.Nexthops, 1)
	require.Equal(t, in.Nexthops[0].Gate, out.Nexthops[0].Gate)
	require.Equal(t, in.Nexthops[0].Ifindex, out.Nexthops[0].Ifindex)
	if msg&messageSRTE > 0 {
		require.Equal(t, in.Nexthops[0].srteColor, out.Nexthops[0].srteColor)
	}

	again, err := out.serialize(v, sw)
	require.NoError(t, err)
	require.Truef(t, bytes.Equal(wire, again), "re-serialised body differs:\n wrote : % x\n reread: % x", wire, again)
}

// Control: same body without bit 0x200 round-trips on the unchanged tree.
func TestC19IPRouteBodyFrr75Control(t *testing.T) {
	c19RoundTrip(t, 6, "frr7.5", MessageNexthop|MessageMetric)
}

// Defect: bit 0x200 on frr7.5 -> 2+1024 byte opaque block is written that the
// decoder (guarded by software.version >= 8) never consumes.
func TestC19IPRouteBodyFrr75Bit0x200(t *testing.T) {
	sw := NewSoftware(6, "frr7.5")
	require.Equal(t, "frr", sw.name)
	require.Equal(t, 7.5, sw.version)
	require.Equal(t, MessageFlag(0x200), messageOpaque.ToEach(6, sw))

	c19RoundTrip(t, 6, "frr7.5", MessageNexthop|MessageMetric|0x200)
}

// The decoder accepts a (short) frr7.5 body that has bit 0x200 set; writing
// that parsed body back must give the bytes that were read, not +1026 bytes.
func TestC19IPRouteBodyFrr75ParseThenWrite(t *testing.T) {
	sw := NewSoftware(6, "frr7.5")
	// body as gobgp's decoder for frr7.5 understands it: no opaque block
	ref := c19RouteBody(MessageNexthop | MessageMetric)
	wire, err := ref.serialize(6, sw)
	require.NoError(t, err)
	// set raw message bit 0x200 (message is the 32-bit field at offset 7) and
	// append the per-nexthop srte_color the nexthop codec then expects ...
	withSRTE := c19RouteBody(MessageNexthop | MessageMetric | 0x200)
	nh := withSRTE.Nexthops[0].encode(6, sw, nexthopProcessFlagForIPRouteBody(6, sw, false), withSRTE.Message, withSRTE.Flags)
	plain := ref.Nexthops[0].encode(6, sw, nexthopProcessFlagForIPRouteBody(6, sw, false), ref.Message, ref.Flags)
	i := bytes.Index(wire, plain)
	require.Greater(t, i, 0)
	msgbuf := append([]byte{}, wire[:i]...)
	msgbuf = append(msgbuf, nh...)
	msgbuf = append(msgbuf, wire[i+len(plain):]...)
	msgbuf[9] |= 0x02 // 0x200 in the big-endian 32-bit message field at [7:11]

	got := &IPRouteBody{API: RouteAdd}
	require.NoError(t, got.decodeFromBytes(msgbuf, 6, sw), "decoder accepts this frr7.5 body")
	require.Equal(t, MessageNexthop|MessageMetric|0x200, got.Message)
	require.Equal(t, uint32(100), got.Nexthops[0].srteColor)

	back, err := got.serialize(6, sw)
	require.NoError(t, err)
	require.Equalf(t, len(msgbuf), len(back), "parse->write changed the message length (extra %d bytes)", len(back)-len(msgbuf))
	require.True(t, bytes.Equal(msgbuf, back))
}
