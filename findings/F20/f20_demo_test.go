package zebra

// Belongs in pkg/zebra. Run: go test -vet=off -count=1 -run TestF20 ./pkg/zebra/
//
// F20: bit 0x40 of the ZAPI message flags means MESSAGE_LABEL up to FRR 7.2 and
// MESSAGE_BACKUP_NEXTHOPS from FRR 7.4. IPRouteBody.serialize writes the backup nexthop block only
// under "version == 6 && frr >= 7.4", but IPRouteBody.decodeFromBytes tests the bit without any
// version condition: a labelled route for ZAPI 5 / FRR <= 7.2 (what gobgp itself sends for
// MPLS-VPN routes) is written without the block and then cannot be parsed back.

import (
	"net/netip"
	"syscall"
	"testing"

	"github.com/stretchr/testify/require"
)

func TestF20LabelledRouteRoundTripBeforeFrr74(t *testing.T) {
	for _, tc := range []struct {
		version  uint8
		software string
	}{{5, "frr5"}, {6, "frr6"}, {6, "frr7"}, {6, "frr7.2"}} {
		sw := NewSoftware(tc.version, tc.software)
		b := &IPRouteBody{
			Type:    RouteBGP,
			Flags:   0,
			Message: MessageNexthop | MessageLabel | MessageMetric,
			Safi:    SafiUnicast,
			Prefix:  Prefix{Family: syscall.AF_INET, PrefixLen: 24, Prefix: netip.MustParseAddr("10.1.2.0")},
			Nexthops: []Nexthop{{
				Type:       nexthopTypeIPv4,
				Gate:       netip.MustParseAddr("192.0.2.1"),
				LabelNum:   1,
				MplsLabels: []uint32{100},
			}},
			Metric: 7,
		}
		buf, err := b.serialize(tc.version, sw)
		require.NoError(t, err)
		got := &IPRouteBody{API: RouteAdd.ToEach(tc.version, sw)}
		err = got.decodeFromBytes(buf, tc.version, sw)
		require.NoError(t, err, "v%d %s: gobgp cannot parse the labelled route it has just written (%d bytes)", tc.version, tc.software, len(buf))
		require.Equal(t, uint32(7), got.Metric)
		require.Len(t, got.Nexthops, 1)
		require.Equal(t, []uint32{100}, got.Nexthops[0].MplsLabels)
		require.Empty(t, got.backupNexthops)
	}
}
