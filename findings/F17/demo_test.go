// Belongs in: pkg/server/  (package server; copy as pkg/server/mrt_c19_demo_test.go)
//
// Run (offline sandbox, needs a private netns because the package opens sockets):
//   export GOFLAGS=-mod=mod GOPROXY=off GOWORK=off
//   unshare -n sh -c 'ip link set lo up && go test -vet=off -count=1 -run TestC19MrtDumpTableLocalRoute ./pkg/server/'
//
// Property: whatever (*mrtWriter).dumpTable writes must parse back with
// pkg/packet/mrt's own parser to the same content.
//
// Failing input: a global RIB containing one locally-originated route
// (added through AddPath with no peer => source == table.localSource, whose
// Address is the zero netip.Addr{}, NOT 0.0.0.0).

package server

import (
	"bytes"
	"context"
	"net/netip"
	"testing"
	"time"

	"github.com/stretchr/testify/require"

	"github.com/osrg/gobgp/v4/api"
	"github.com/osrg/gobgp/v4/pkg/apiutil"
	"github.com/osrg/gobgp/v4/pkg/config/oc"
	"github.com/osrg/gobgp/v4/pkg/packet/bgp"
	"github.com/osrg/gobgp/v4/pkg/packet/mrt"
)

func c19StartServer(t *testing.T) *BgpServer {
	t.Helper()
	s := NewBgpServer()
	go s.Serve()
	err := s.StartBgp(context.Background(), &api.StartBgpRequest{
		Global: &api.Global{Asn: 65000, RouterId: "1.1.1.1", ListenPort: -1},
	})
	require.NoError(t, err)
	t.Cleanup(func() { s.StopBgp(context.Background(), &api.StopBgpRequest{}) })
	return s
}

func c19AddV4(t *testing.T, s *BgpServer, prefix string, peerAS uint32, peerID, peerAddr string) {
	t.Helper()
	nh, _ := bgp.NewPathAttributeNextHop(netip.MustParseAddr("10.0.0.1"))
	attrs := []bgp.PathAttributeInterface{bgp.NewPathAttributeOrigin(0), nh}
	nlri, _ := bgp.NewIPAddrPrefix(netip.MustParsePrefix(prefix))
	ap, err := apiutil.NewPath(bgp.RF_IPv4_UC, nlri, false, attrs, time.Unix(1700000000, 0))
	require.NoError(t, err)
	p := mustApi2apiutilPath(ap)
	if peerAS != 0 {
		p.PeerASN = peerAS
		p.PeerID = netip.MustParseAddr(peerID)
		p.PeerAddress = netip.MustParseAddr(peerAddr)
	}
	_, err = s.AddPath(apiutil.AddPathRequest{Paths: []*apiutil.Path{p}})
	require.NoError(t, err)
}

// c19DumpAndReparse runs dumpTable, serialises every message exactly the way
// mrtWriter.loop/writeToFile does, and feeds the bytes back to the MRT parser.
func c19DumpAndReparse(t *testing.T, s *BgpServer) (*mrt.PeerIndexTable, []*mrt.Rib) {
	t.Helper()
	m := &mrtWriter{s: s, c: &oc.MrtConfig{DumpType: oc.MRT_TYPE_TABLE}}
	msgs := m.dumpTable()
	require.NotEmpty(t, msgs)

	var pit *mrt.PeerIndexTable
	var ribs []*mrt.Rib
	for i, msg := range msgs {
		buf, err := msg.Serialize()
		require.NoError(t, err)
		h, err := mrt.ParseHeader(buf[:mrt.MRT_COMMON_HEADER_LEN])
		require.NoError(t, err)
		body := buf[mrt.MRT_COMMON_HEADER_LEN:]
		parsed, err := mrt.ParseBody(body, h)
		require.NoErrorf(t, err, "msg #%d (type %d subtype %d) written by dumpTable is unparsable; body=% x",
			i, h.Type, h.SubType, body)
		// What the parser understood must re-encode to the very same bytes,
		// i.e. the parser consumed the record the way the writer laid it out.
		again, err := parsed.Serialize()
		require.NoError(t, err)
		require.Truef(t, bytes.Equal(buf, again), "msg #%d does not round-trip\n wrote : % x\n reread: % x", i, buf, again)
		switch b := parsed.Body.(type) {
		case *mrt.PeerIndexTable:
			pit = b
		case *mrt.Rib:
			ribs = append(ribs, b)
		}
	}
	require.NotNil(t, pit)
	return pit, ribs
}

// Only a locally originated route in the table.
func TestC19MrtDumpTableLocalRouteOnly(t *testing.T) {
	s := c19StartServer(t)
	c19AddV4(t, s, "10.10.0.0/24", 0, "", "")

	pit, ribs := c19DumpAndReparse(t, s)
	require.Len(t, pit.Peers, 1)
	require.Len(t, ribs, 1)
	// dummy peer record for locally generated routes: 0.0.0.0 / 0.0.0.0 / AS 0
	require.Equal(t, netip.IPv4Unspecified(), pit.Peers[0].IpAddress)
	require.Equal(t, netip.IPv4Unspecified(), pit.Peers[0].BgpId)
	require.Equal(t, uint32(0), pit.Peers[0].AS)
}

// A local route plus a route learnt from a peer; two local routes must share
// one peer index entry and every RIB entry must point at the right peer.
func TestC19MrtDumpTableLocalRouteAndPeerRoute(t *testing.T) {
	s := c19StartServer(t)
	c19AddV4(t, s, "10.10.0.0/24", 0, "", "")
	c19AddV4(t, s, "10.11.0.0/24", 0, "", "")
	c19AddV4(t, s, "10.20.0.0/24", 65001, "2.2.2.2", "10.0.0.2")

	pit, ribs := c19DumpAndReparse(t, s)
	require.Len(t, pit.Peers, 2, "one dummy local peer + one real peer: %v", pit.Peers)
	require.Len(t, ribs, 3)
	for _, r := range ribs {
		require.Len(t, r.Entries, 1)
		idx := int(r.Entries[0].PeerIndex)
		require.Less(t, idx, len(pit.Peers), "RIB %s references peer index outside PEER_INDEX_TABLE", r.Prefix)
		want := netip.IPv4Unspecified()
		if r.Prefix.String() == "10.20.0.0/24" {
			want = netip.MustParseAddr("10.0.0.2")
		}
		require.Equal(t, want, pit.Peers[idx].IpAddress, "RIB %s -> peer #%d", r.Prefix, idx)
	}
}
