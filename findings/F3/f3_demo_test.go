package server

import (
	"testing"

	"github.com/osrg/gobgp/v4/pkg/apiutil"
)

func TestF3DeletePathBeforeStart(t *testing.T) {
	s := NewBgpServer()
	go s.Serve()
	defer s.Stop()
	defer func() {
		if r := recover(); r != nil {
			t.Fatalf("panic: %v", r)
		}
	}()
	err := s.DeletePath(apiutil.DeletePathRequest{VRFID: "v1"})
	if err == nil {
		t.Fatal("expected error")
	}
	_, err = s.AddPath(apiutil.AddPathRequest{VRFID: "v1", Paths: []*apiutil.Path{{}}})
	if err == nil {
		t.Fatal("expected error")
	}
}
