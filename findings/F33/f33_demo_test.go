package server

import (
	"context"
	"net/netip"
	"sort"
	"testing"

	"github.com/stretchr/testify/require"

	"github.com/osrg/gobgp/v4/api"
	"github.com/osrg/gobgp/v4/pkg/apiutil"
	"github.com/osrg/gobgp/v4/pkg/packet/bgp"
)

// Claim 10 demo: (*Vrf).ToGlobalPath writes the VRF's RD into the NLRI object
// it is handed (EVPN and MUP families). With the Go-native API
// (BgpServer.AddPath) that object is the caller's; the first AddPath stores
// it in the global RIB as is, so a second AddPath of the same NLRI value into
// another VRF rewrites the RD of the route that is already stored.
func TestC2Claim10ToGlobalPathRewritesStoredNLRI(t *testing.T) {
	s := runNewServer(t, 65001, "1.1.1.1", -1)
	defer s.StopBgp(context.Background(), &api.StopBgpRequest{}) //nolint:errcheck

	addVrf(t, s, "vrf1", "65001:1", []string{"65001:1"}, []string{"65001:1"}, 1)
	addVrf(t, s, "vrf2", "65001:2", []string{"65001:2"}, []string{"65001:2"}, 2)

	// one EVPN MAC/IP advertisement, to be exported from both VRFs
	nlri, err := bgp.NewEVPNMacIPAdvertisementRoute(
		bgp.NewRouteDistinguisherTwoOctetAS(0, 0),
		bgp.EthernetSegmentIdentifier{Type: bgp.ESI_ARBITRARY, Value: make([]byte, 9)},
		10, "00:11:22:33:44:55", netip.MustParseAddr("10.0.0.1"), []uint32{100})
	require.NoError(t, err)

	add := func(vrf string) {
		mp, err := bgp.NewPathAttributeMpReachNLRI(bgp.RF_EVPN, []bgp.PathNLRI{{NLRI: nlri}}, netip.MustParseAddr("192.0.2.1"))
		require.NoError(t, err)
		_, err = s.AddPath(apiutil.AddPathRequest{VRFID: vrf, Paths: []*apiutil.Path{{
			Family: bgp.RF_EVPN,
			Nlri:   nlri,
			Attrs:  []bgp.PathAttributeInterface{bgp.NewPathAttributeOrigin(0), mp},
		}}})
		require.NoError(t, err)
	}
	storedRDs := func() []string {
		var rds []string
		err := s.ListPath(apiutil.ListPathRequest{
			TableType: api.TableType_TABLE_TYPE_GLOBAL,
			Family:    bgp.RF_EVPN,
		}, func(_ bgp.NLRI, paths []*apiutil.Path) {
			for _, p := range paths {
				r := p.Nlri.(*bgp.EVPNNLRI).RouteTypeData.(*bgp.EVPNMacIPAdvertisementRoute)
				rds = append(rds, r.RD.String())
			}
		})
		require.NoError(t, err)
		sort.Strings(rds)
		return rds
	}

	add("vrf1")
	require.Equal(t, []string{"65001:1"}, storedRDs())

	add("vrf2")
	require.Equal(t, []string{"65001:1", "65001:2"}, storedRDs(),
		"adding the route to vrf2 rewrote the RD of the route already stored for vrf1")
}
