package server

import (
	"context"
	"fmt"
	"net/netip"
	"runtime"
	"strings"
	"testing"
	"time"

	"github.com/osrg/gobgp/v4/api"
	"github.com/osrg/gobgp/v4/pkg/packet/bfd"
)

func demoBGoroutines(subs ...string) []string {
	buf := make([]byte, 1<<20)
	buf = buf[:runtime.Stack(buf, true)]
	var out []string
next:
	for _, g := range strings.Split(string(buf), "\n\n") {
		for _, s := range subs {
			if !strings.Contains(g, s) {
				continue next
			}
		}
		out = append(out, g)
	}
	return out
}

// StopBgp deletes every neighbor inside ONE management operation. Each
// deletion calls bfdServer.DeletePeer, a blocking send on a 1-slot channel.
// If at that moment the BFD sessions go down (the remote signals AdminDown,
// or the detection time expires, e.g. because the link to a group of peers
// failed - the very situation in which an operator stops or reconfigures the
// daemon), the BFD peer loops are inside BgpServer.ResetPeer, i.e. they wait
// for the management goroutine. The BFD server loop waits for the first such
// BFD peer loop (bfdPeer.Stop), the channel fills up, and the management
// goroutine waits for the BFD server loop: a cycle.
//
// The interleaving is made deterministic by holding the read side of
// s.shared.mu for a moment, as any API reader or handleFSMMessage does: the
// Serve goroutine has then already taken the StopBgp operation from mgmtCh
// but has not yet started to run it.
func TestDemoB_StopBgpWhileBfdSessionsGoDown(t *testing.T) {
	const nPeers = 3

	s := NewBgpServer()
	go s.Serve()
	if err := s.StartBgp(context.Background(), &api.StartBgpRequest{Global: &api.Global{
		Asn: 65001, RouterId: "1.1.1.1", ListenPort: -1,
	}}); err != nil {
		t.Fatal(err)
	}
	addrs := make([]netip.Addr, 0, nPeers)
	for i := range nPeers {
		a := netip.MustParseAddr(fmt.Sprintf("127.0.0.%d", 11+i))
		addrs = append(addrs, a)
		if err := s.AddPeer(context.Background(), &api.AddPeerRequest{Peer: &api.Peer{
			Conf:      &api.PeerConf{NeighborAddress: a.String(), PeerAsn: 65002},
			Transport: &api.Transport{PassiveMode: true},
			Bfd:       &api.BfdPeerConfig{Enabled: true, Port: 47841, DetectionMultiplier: 3, DesiredMinimumTxInterval: 1000000, RequiredMinimumReceive: 1000000},
		}}); err != nil {
			t.Fatal(err)
		}
	}

	waitFor := func(what string, f func() bool) {
		t.Helper()
		deadline := time.Now().Add(5 * time.Second)
		for !f() {
			if time.Now().After(deadline) {
				t.Fatalf("timeout waiting for %s", what)
			}
			time.Sleep(5 * time.Millisecond)
		}
	}
	bfdPeerOf := func(a netip.Addr) *bfdPeer {
		s.bfdServer.peersMutex.RLock()
		defer s.bfdServer.peersMutex.RUnlock()
		return s.bfdServer.peers[a]
	}
	stateOf := func(a netip.Addr) api.BfdSessionState {
		return api.BfdSessionState(bfdPeerOf(a).state.Load())
	}

	// bring the BFD sessions up by feeding the packets a remote system would
	// send (bfdPeer.Rx is what bfdServer.serverLoop calls for every packet)
	for i, a := range addrs {
		waitFor("BFD peer "+a.String(), func() bool { return bfdPeerOf(a) != nil })
		bp := bfdPeerOf(a)
		remoteDisc := uint32(1000 + i)
		waitFor("BFD INIT", func() bool {
			bp.Rx(&bfd.BFDHeader{Version: 1, State: bfd.StateDown, DetectTimeMultiplier: 3, MyDiscriminator: remoteDisc,
				DesiredMinTxInterval: 1000000, RequiredMinRxInterval: 1000000})
			return stateOf(a) == api.BfdSessionState_BFD_SESSION_STATE_INIT
		})
		waitFor("BFD UP", func() bool {
			bp.Rx(&bfd.BFDHeader{Version: 1, State: bfd.StateUp, DetectTimeMultiplier: 3, MyDiscriminator: remoteDisc,
				YourDiscriminator: bp.myDiscriminator, DesiredMinTxInterval: 1000000, RequiredMinRxInterval: 1000000})
			return stateOf(a) == api.BfdSessionState_BFD_SESSION_STATE_UP
		})
	}

	// a reader holds s.shared.mu for a moment ...
	s.shared.mu.RLock()
	locked := true
	defer func() {
		if locked {
			s.shared.mu.RUnlock()
		}
	}()

	// ... StopBgp is requested: Serve takes the operation and waits for the lock ...
	done := make(chan error, 1)
	go func() { done <- s.StopBgp(context.Background(), &api.StopBgpRequest{}) }()
	waitFor("Serve to pick up StopBgp", func() bool {
		return len(demoBGoroutines("(*BgpServer).Serve", "(*RWMutex).Lock")) == 1
	})

	// ... and the remote systems signal that their BFD sessions go down
	for i, a := range addrs {
		bp := bfdPeerOf(a)
		if !bp.Rx(&bfd.BFDHeader{Version: 1, State: bfd.StateAdminDown, DetectTimeMultiplier: 3, MyDiscriminator: uint32(1000 + i),
			YourDiscriminator: bp.myDiscriminator, DesiredMinTxInterval: 1000000, RequiredMinRxInterval: 1000000}) {
			t.Fatalf("BFD packet for %v dropped", a)
		}
	}
	waitFor("the BFD peer loops to call ResetPeer", func() bool {
		return len(demoBGoroutines("(*bfdPeer).resetPeer", "(*BgpServer).mgmtOperation")) == nPeers
	})

	// the reader is done
	s.shared.mu.RUnlock()
	locked = false

	select {
	case err := <-done:
		if err != nil {
			t.Fatal(err)
		}
	case <-time.After(5 * time.Second):
		t.Fatalf("StopBgp did not return within 5s; the goroutines in the cycle:\n%s",
			strings.Join(append(append(
				demoBGoroutines("(*BgpServer).Serve"),
				demoBGoroutines("(*bfdServer).loop")...),
				demoBGoroutines("(*bfdPeer).loop")...), "\n\n"))
	}

	stopped := make(chan struct{})
	go func() { s.bfdServer.Stop(); close(stopped) }()
	select {
	case <-stopped:
	case <-time.After(5 * time.Second):
		t.Fatalf("bfdServer.Stop did not return within 5s")
	}
	if g := demoBGoroutines("(*bfdPeer)."); len(g) != 0 {
		// goroutines of resetPeer may need a moment to notice
		time.Sleep(500 * time.Millisecond)
		if g = demoBGoroutines("(*bfdPeer)."); len(g) != 0 {
			t.Fatalf("BFD peer goroutines left behind:\n%s", strings.Join(g, "\n\n"))
		}
	}
}
