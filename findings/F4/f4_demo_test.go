package mrt

import "testing"

// SplitMrt must decide from the bytes it was given (len), not from whatever lies in the
// spare capacity behind them: here the same 5 input bytes give "need more data" or an
// error depending on a stale byte beyond len(data).
func TestF4SplitMrtReadsBeyondLen(t *testing.T) {
	backing := make([]byte, 16)
	backing[5] = byte(BGP4MP_ET) // stale byte, not part of the input
	data := backing[:5]
	adv, tok, err := SplitMrt(data, false)
	if adv != 0 || tok != nil || err != nil {
		t.Fatalf("SplitMrt(%d bytes) = advance %d, token %v, err %v; want 0, nil, nil (need more data)", len(data), adv, tok, err)
	}
}
