package server

import (
	"context"
	"testing"
	"time"

	"github.com/osrg/gobgp/v4/api"
	"github.com/osrg/gobgp/v4/pkg/apiutil"
	"github.com/osrg/gobgp/v4/pkg/packet/bgp"
)

// R1: ListPath reads s.bgpConfig.Global.UseMultiplePaths.Config.Enabled after
// it has left the management operation (no lock held), while StopBgp (and
// StartBgp) assign s.bgpConfig.Global from the Serve goroutine.
//
// The unlocked read is only reached for the 2nd..Nth path of a destination, so
// the test installs two paths (different path identifiers) for one prefix.
func TestRaceR1ListPathVsStopBgp(t *testing.T) {
	s := NewBgpServer()
	go s.Serve()
	if err := s.StartBgp(context.Background(), &api.StartBgpRequest{
		Global: &api.Global{Asn: 1, RouterId: "1.1.1.1", ListenPort: -1},
	}); err != nil {
		t.Fatal(err)
	}

	family := bgp.NewFamily(bgp.AFI_IP, bgp.SAFI_UNICAST)
	attrs := []*api.Attribute{
		{Attr: &api.Attribute_Origin{Origin: &api.OriginAttribute{Origin: 0}}},
		{Attr: &api.Attribute_NextHop{NextHop: &api.NextHopAttribute{NextHop: "10.0.0.1"}}},
	}
	for _, id := range []uint32{1, 2} {
		p := &api.Path{
			Family: &api.Family{Afi: api.Family_AFI_IP, Safi: api.Family_SAFI_UNICAST},
			Nlri: &api.NLRI{Nlri: &api.NLRI_Prefix{Prefix: &api.IPAddressPrefix{
				Prefix: "10.1.0.0", PrefixLen: 24,
			}}},
			Pattrs:     attrs,
			Identifier: id,
		}
		if _, err := s.AddPath(apiutil.AddPathRequest{Paths: []*apiutil.Path{mustApi2apiutilPath(p)}}); err != nil {
			t.Fatal(err)
		}
	}

	listed := make(chan struct{}, 1)
	done := make(chan struct{})
	go func() {
		defer close(done)
		for {
			n := 0
			err := s.ListPath(apiutil.ListPathRequest{
				TableType: api.TableType_TABLE_TYPE_GLOBAL,
				Family:    family,
			}, func(_ bgp.NLRI, paths []*apiutil.Path) { n += len(paths) })
			if err != nil {
				return // server stopped
			}
			if n != 2 {
				t.Errorf("expected 2 paths, got %d", n)
				return
			}
			select {
			case listed <- struct{}{}:
			default:
			}
		}
	}()

	<-listed
	time.Sleep(20 * time.Millisecond)
	if err := s.StopBgp(context.Background(), &api.StopBgpRequest{}); err != nil {
		t.Fatal(err)
	}
	<-done
}
