package server

import (
	"context"
	"encoding/binary"
	"io"
	"log/slog"
	"net"
	"testing"
	"time"

	"github.com/osrg/gobgp/v4/api"
)

// R2: (*bmpClient).loop reads b.s.bgpConfig.Global.Config.{As,RouterId} from
// the BMP client goroutine with no lock held (bmp.go:205-206, 251-252, 302),
// while StopBgp (and StartBgp) assign s.bgpConfig.Global from the Serve
// goroutine. StopBgp does not stop the BMP clients, so the client goroutine
// outlives the write.

// pauseHandler is a slog.Handler that sleeps (without any synchronization, so
// that no happens-before edge is introduced) when a given message is logged.
// It is only used to hold the BMP client goroutine between its b.s.watch()
// call and the unlocked read at bmp.go:205 long enough for StopBgp to run.
type pauseHandler struct {
	msg   string
	pause time.Duration
	hit   chan struct{}
}

func (h *pauseHandler) Enabled(context.Context, slog.Level) bool { return true }
func (h *pauseHandler) WithAttrs([]slog.Attr) slog.Handler       { return h }
func (h *pauseHandler) WithGroup(string) slog.Handler            { return h }
func (h *pauseHandler) Handle(_ context.Context, r slog.Record) error {
	if r.Message == h.msg {
		select {
		case h.hit <- struct{}{}:
		default:
		}
		time.Sleep(h.pause)
	}
	return nil
}

func readBMPMessages(t *testing.T, conn net.Conn, n int) {
	t.Helper()
	_ = conn.SetReadDeadline(time.Now().Add(5 * time.Second))
	for i := 0; i < n; i++ {
		hdr := make([]byte, 6) // version(1) length(4) type(1)
		if _, err := io.ReadFull(conn, hdr); err != nil {
			t.Fatal(err)
		}
		body := make([]byte, binary.BigEndian.Uint32(hdr[1:5])-6)
		if _, err := io.ReadFull(conn, body); err != nil {
			t.Fatal(err)
		}
		t.Logf("BMP message type %d, %d bytes", hdr[5], len(hdr)+len(body))
	}
	_ = conn.SetReadDeadline(time.Time{})
}

func startServerWithBMPStation(t *testing.T, opts ...ServerOption) (*BgpServer, net.Listener) {
	t.Helper()
	// fake BMP station
	l, err := net.Listen("tcp", "127.0.0.1:0")
	if err != nil {
		t.Fatal(err)
	}
	s := NewBgpServer(opts...)
	go s.Serve()
	if err := s.StartBgp(context.Background(), &api.StartBgpRequest{
		Global: &api.Global{Asn: 65001, RouterId: "1.1.1.1", ListenPort: -1},
	}); err != nil {
		t.Fatal(err)
	}
	// local-rib monitoring makes the client send the RFC 9069 Loc-RIB Peer Up,
	// whose arguments are read from s.bgpConfig (bmp.go:205-206).
	if err := s.AddBmp(context.Background(), &api.AddBmpRequest{
		Address: "127.0.0.1",
		Port:    uint32(l.Addr().(*net.TCPAddr).Port),
		Policy:  api.AddBmpRequest_MONITORING_POLICY_LOCAL,
	}); err != nil {
		t.Fatal(err)
	}
	return s, l
}

// Reports bmp.go:205/206 (Loc-RIB Peer Up arguments) vs the write in StartBgp
// (server.go:2678).
//
// The client goroutine is held (plain sleep in the log handler, no
// synchronization) right after b.s.watch() returned and before line 205 is
// evaluated; the writer runs in that window. StartBgp is used as the writer
// here only because it leaves a valid router-id behind, so the process
// survives; see TestR2CrashBmpPeerUpAfterStopBgp for the StopBgp flavour.
func TestRaceR2BmpLine205VsStartBgp(t *testing.T) {
	h := &pauseHandler{msg: "statistics reports disabled", pause: 500 * time.Millisecond, hit: make(chan struct{}, 1)}
	s, l := startServerWithBMPStation(t, LoggerOption(slog.New(h), nil))
	defer l.Close()

	conn, err := l.Accept()
	if err != nil {
		t.Fatal(err)
	}
	defer conn.Close()

	select {
	case <-h.hit: // client is past b.s.watch(), sleeping in front of line 205
	case <-time.After(5 * time.Second):
		t.Fatal("bmp client did not reach the watch point")
	}
	if err := s.StartBgp(context.Background(), &api.StartBgpRequest{
		Global: &api.Global{Asn: 65002, RouterId: "2.2.2.2", ListenPort: -1},
	}); err != nil {
		t.Fatal(err)
	}
	// Initiation, then Loc-RIB Peer Up built from the concurrently written config
	readBMPMessages(t, conn, 2)

	if err := s.StopBgp(context.Background(), &api.StopBgpRequest{}); err != nil {
		t.Fatal(err)
	}
	for _, c := range s.bmpManager.clientMap {
		c.Stop()
	}
	_, _ = io.Copy(io.Discard, conn) // until the client closes the connection
}

// Same race with no test hook at all and StopBgp as the writer
// (server.go:2216): by the time the station has received the Loc-RIB Peer Up
// the client has done its unlocked reads; nothing orders them against the
// write in StopBgp. The detector names the most recent read of the field,
// which is the second unlocked site of the same loop (bmp.go:251/252, the
// initial best-path event), instead of line 205.
func TestRaceR2BmpLoopVsStopBgp(t *testing.T) {
	s, l := startServerWithBMPStation(t)
	defer l.Close()

	conn, err := l.Accept()
	if err != nil {
		t.Fatal(err)
	}
	defer conn.Close()
	readBMPMessages(t, conn, 2)

	if err := s.StopBgp(context.Background(), &api.StopBgpRequest{}); err != nil {
		t.Fatal(err)
	}

	for _, c := range s.bmpManager.clientMap {
		c.Stop()
	}
	_, _ = io.Copy(io.Discard, conn)
}

// Consequence of the race (deliberately NOT matched by -run TestRaceR2): when
// StopBgp clears s.bgpConfig.Global between the client's b.s.watch() and line
// 205, bmpLocRIBPeerUp is called with a zero router-id, NewBGPOpenMessage
// fails, its error is dropped, and Serialize dereferences the nil OPEN: the
// whole process panics (after the detector has printed bmp.go:205 vs
// server.go:2216). With the unmodified source this test kills the test binary.
func TestR2CrashBmpPeerUpAfterStopBgp(t *testing.T) {
	h := &pauseHandler{msg: "statistics reports disabled", pause: 500 * time.Millisecond, hit: make(chan struct{}, 1)}
	s, l := startServerWithBMPStation(t, LoggerOption(slog.New(h), nil))
	defer l.Close()

	conn, err := l.Accept()
	if err != nil {
		t.Fatal(err)
	}
	defer conn.Close()

	select {
	case <-h.hit:
	case <-time.After(5 * time.Second):
		t.Fatal("bmp client did not reach the watch point")
	}
	if err := s.StopBgp(context.Background(), &api.StopBgpRequest{}); err != nil {
		t.Fatal(err)
	}
	readBMPMessages(t, conn, 2)

	for _, c := range s.bmpManager.clientMap {
		c.Stop()
	}
	_, _ = io.Copy(io.Discard, conn)
}
