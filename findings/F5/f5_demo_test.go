package apiutil

import (
	"testing"

	api "github.com/osrg/gobgp/v4/api"
	"github.com/osrg/gobgp/v4/pkg/packet/bgp"
)

// place in pkg/apiutil; go test -vet=off -run TestF5 ./pkg/apiutil/
// Native values the decoders can produce (or API values the service accepts) that the converters have no case for.
func TestF5ConversionGaps(t *testing.T) {
	t.Run("EVPN I-PMSI native→API", func(t *testing.T) {
		rd, _ := bgp.ParseRouteDistinguisher("100:1")
		ec, _ := bgp.ParseExtendedCommunity(bgp.EC_SUBTYPE_ROUTE_TARGET, "65000:100")
		n := bgp.NewEVPNIPMSIRoute(rd, 7, ec)
		if a, err := MarshalNLRI(n); err != nil || a == nil || a.GetNlri() == nil {
			t.Errorf("does not convert: %v %v", a, err)
		}
	})
	t.Run("EVPN I-PMSI API→native", func(t *testing.T) {
		an := &api.NLRI{Nlri: &api.NLRI_EvpnIPmsi{EvpnIPmsi: &api.EVPNIPMSIRoute{
			Rd:   &api.RouteDistinguisher{Rd: &api.RouteDistinguisher_TwoOctetAsn{TwoOctetAsn: &api.RouteDistinguisherTwoOctetASN{Admin: 100, Assigned: 1}}},
			EthernetTag: 7,
		}}}
		n, err := UnmarshalNLRI(bgp.RF_EVPN, an)
		if err != nil || n == nil {
			t.Errorf("does not convert: %v %v", n, err)
		}
	})
	t.Run("Layer2Attributes extended community (RFC 4761)", func(t *testing.T) {
		ec, err := bgp.ParseExtended([]byte{byte(bgp.EC_TYPE_EVPN), byte(bgp.EC_SUBTYPE_L2_ATTRIBUTES), 0x00, 0x00, 0x05, 0xdc, 0x00, 0x00})
		if err != nil {
			t.Fatal(err)
		}
		if _, ok := ec.(*bgp.Layer2AttributesExtended); !ok {
			t.Skipf("parsed as %T", ec)
		}
		a, err := NewExtendedCommunitiesAttributeFromNative(bgp.NewPathAttributeExtendedCommunities([]bgp.ExtendedCommunityInterface{ec}))
		if err != nil || len(a.GetCommunities()) != 1 {
			t.Errorf("lost in native→API conversion: %v", err)
		}
	})
	t.Run("unknown FlowSpec component", func(t *testing.T) {
		rules, err := MarshalFlowSpecRules([]bgp.FlowSpecComponentInterface{&bgp.FlowSpecUnknown{Value: []byte{200, 1, 2}}})
		if err != nil || len(rules) != 1 || rules[0].GetRule() == nil {
			t.Errorf("dropped: %v %v", rules, err)
		}
	})
	t.Run("unknown route distinguisher type", func(t *testing.T) {
		rd := bgp.GetRouteDistinguisher([]byte{0, 9, 1, 2, 3, 4, 5, 6})
		if _, err := MarshalRD(rd); err != nil {
			t.Errorf("%T does not convert: %v", rd, err)
		}
	})
}
