// Copy to pkg/server/ and run (private network namespace, fixed TCP ports):
//   export GOFLAGS=-mod=mod GOPROXY=off GOWORK=off
//   unshare -n sh -c 'ip link set lo up && go test -race -vet=off -count=1 -timeout 10m -v -run TestClaim6_ ./pkg/server/'
// Fails against the unchanged code, passes with /tmp/audit_out/claim6_fix.diff.

package server

import (
	"context"
	"io"
	"net"
	"sync"
	"testing"
	"time"

	"github.com/osrg/gobgp/v4/api"
	"github.com/osrg/gobgp/v4/pkg/config/oc"
)

// Claim 6: "toConfig reads fsm.recvOpen without fsm.lock, which is fine because it
// is guarded by State()==ESTABLISHED".  The guard does protect the *pointer*, but
// toConfig does not merely read the message: it calls recvOpen.Serialize(), and
// BGPOpen.Serialize / OptionParameterCapability.Serialize / Cap*.Serialize WRITE
// into the message (msg.OptParamLen, o.ParamLen, c.CapLen, c.CapValue = buf).
// The very same *bgp.BGPMessage is handed out to the watchers by
// newWatchEventPeer (RecvOpen: peer.fsm.recvOpen) and the BMP client goroutine
// serializes it (bmpPeerUp -> BMPPeerUpNotification.Serialize ->
// ReceivedOpenMsg.Serialize) holding no lock at all.  So a ListPeer (toConfig on
// the management goroutine) concurrent with a BMP Peer Up is a write/write data
// race on the received OPEN message; neither sharedData.mu nor the
// State()==ESTABLISHED guard orders the two.
//
// Run with the race detector:
//
//	unshare -n sh -c 'ip link set lo up && go test -race -vet=off -count=1 -run TestClaim6_ ./pkg/server/'
func TestClaim6_ToConfigSerializeRacesWithBMPPeerUp(t *testing.T) {
	ctx := context.Background()
	s1 := runNewServer(t, 1, "1.1.1.1", 11379)
	defer s1.StopBgp(ctx, &api.StopBgpRequest{}) //nolint:errcheck
	s2 := runNewServer(t, 2, "2.2.2.2", -1)
	defer s2.StopBgp(ctx, &api.StopBgpRequest{}) //nolint:errcheck

	if err := peerTwoServers(t, ctx, s1, s2, []oc.AfiSafiType{oc.AFI_SAFI_TYPE_IPV4_UNICAST}, true); err != nil {
		t.Fatal(err)
	}
	w := newPeerStateWaiter(s1, api.PeerState_SESSION_STATE_ESTABLISHED)
	if err := peerTwoServers(t, ctx, s2, s1, []oc.AfiSafiType{oc.AFI_SAFI_TYPE_IPV4_UNICAST}, false); err != nil {
		t.Fatal(err)
	}
	w.Wait(t, 20*time.Second)

	// a BMP station that accepts and discards
	l, err := net.Listen("tcp", "127.0.0.1:11380")
	if err != nil {
		t.Fatal(err)
	}
	defer l.Close()
	go func() {
		for {
			c, err := l.Accept()
			if err != nil {
				return
			}
			go func() { _, _ = io.Copy(io.Discard, c); c.Close() }()
		}
	}()

	stop := make(chan struct{})
	var wg sync.WaitGroup
	wg.Add(1)
	go func() {
		defer wg.Done()
		for {
			select {
			case <-stop:
				return
			default:
			}
			// ListPeer -> toConfig -> peer.fsm.recvOpen.Serialize() on the management goroutine
			_ = s1.ListPeer(ctx, &api.ListPeerRequest{}, func(*api.Peer) {})
		}
	}()

	// every (re)connect of the BMP client registers a watcher; the INIT peer event
	// carries fsm.recvOpen and the BMP goroutine serializes it for the Peer Up message
	for i := 0; i < 5; i++ {
		if err := s1.AddBmp(ctx, &api.AddBmpRequest{Address: "127.0.0.1", Port: 11380, Policy: api.AddBmpRequest_MONITORING_POLICY_PRE}); err != nil {
			t.Fatal(err)
		}
		time.Sleep(300 * time.Millisecond)
		if err := s1.DeleteBmp(ctx, &api.DeleteBmpRequest{Address: "127.0.0.1", Port: 11380}); err != nil {
			t.Fatal(err)
		}
		time.Sleep(100 * time.Millisecond)
	}
	close(stop)
	wg.Wait()
}
