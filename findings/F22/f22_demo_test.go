package server

// Belongs in pkg/server. Run: go test -vet=off -count=1 -run TestF22 ./pkg/server/
//
// F22: neighbour / peer-group configuration accepted through the API must convert to the native
// form and back to an equal API value. newNeighborFromAPIStruct and newPeerGroupFromAPIStruct
// accept timers.config.minimum_advertisement_interval (and, for peer groups, conf.remove_private),
// but NewPeerFromConfigStruct / NewPeerGroupFromConfigStruct never write them back: ListPeer /
// ListPeerGroup report 0 / NONE for a value that was configured.

import (
	"testing"

	"github.com/stretchr/testify/require"

	"github.com/osrg/gobgp/v4/api"
	"github.com/osrg/gobgp/v4/pkg/config/oc"
)

func TestF22NeighborTimersRoundTripThroughAPI(t *testing.T) {
	in := &api.Peer{
		Conf:   &api.PeerConf{NeighborAddress: "10.0.0.1", PeerAsn: 65001},
		Timers: &api.Timers{Config: &api.TimersConfig{ConnectRetry: 7, HoldTime: 30, KeepaliveInterval: 10, MinimumAdvertisementInterval: 25, IdleHoldTimeAfterReset: 3}},
	}
	n, err := newNeighborFromAPIStruct(in)
	require.NoError(t, err)
	require.Equal(t, float64(25), n.Timers.Config.MinimumAdvertisementInterval, "accepted from the API")
	out := oc.NewPeerFromConfigStruct(n)
	require.Equal(t, in.Timers.Config.ConnectRetry, out.Timers.Config.ConnectRetry)
	require.Equal(t, in.Timers.Config.MinimumAdvertisementInterval, out.Timers.Config.MinimumAdvertisementInterval,
		"minimum_advertisement_interval configured through the API is not reported back")
}

func TestF22PeerGroupRoundTripThroughAPI(t *testing.T) {
	in := &api.PeerGroup{
		Conf:   &api.PeerGroupConf{PeerGroupName: "g1", PeerAsn: 65001, RemovePrivate: api.RemovePrivate_REMOVE_PRIVATE_REPLACE},
		Timers: &api.Timers{Config: &api.TimersConfig{HoldTime: 30, KeepaliveInterval: 10, MinimumAdvertisementInterval: 25}},
	}
	g, err := newPeerGroupFromAPIStruct(in)
	require.NoError(t, err)
	require.Equal(t, oc.REMOVE_PRIVATE_AS_OPTION_REPLACE, g.Config.RemovePrivateAs, "accepted from the API")
	out := oc.NewPeerGroupFromConfigStruct(g)
	require.Equal(t, in.Timers.Config.MinimumAdvertisementInterval, out.Timers.Config.MinimumAdvertisementInterval,
		"minimum_advertisement_interval configured through the API is not reported back")
	require.Equal(t, in.Conf.RemovePrivate, out.Conf.RemovePrivate, "remove_private configured through the API is not reported back")
}
