package table

import (
	"net/netip"
	"testing"
	"time"

	"github.com/osrg/gobgp/v4/pkg/packet/bgp"
)

// Two clones of one stored path each append a large community; with spare capacity in
// the shared attribute's slice the second append overwrites what the first clone sees.
func TestF1SetLargeCommunitiesAliasing(t *testing.T) {
	vals := make([]*bgp.LargeCommunity, 1, 4)
	vals[0] = &bgp.LargeCommunity{ASN: 1, LocalData1: 1, LocalData2: 1}
	nlri, _ := bgp.NewIPAddrPrefix(netip.MustParsePrefix("10.0.0.0/24"))
	attrs := []bgp.PathAttributeInterface{bgp.NewPathAttributeOrigin(0), bgp.NewPathAttributeLargeCommunities(vals)}
	stored := NewPath(bgp.RF_IPv4_UC, nil, bgp.PathNLRI{NLRI: nlri}, false, attrs, time.Now(), false)
	a := stored.Clone(false)
	b := stored.Clone(false)
	a.SetLargeCommunities([]*bgp.LargeCommunity{{ASN: 100, LocalData1: 1, LocalData2: 1}}, false)
	b.SetLargeCommunities([]*bgp.LargeCommunity{{ASN: 200, LocalData1: 2, LocalData2: 2}}, false)
	got := a.GetLargeCommunities()
	if len(got) != 2 || got[1].ASN != 100 {
		t.Fatalf("peer A's copy was altered by peer B's policy: %v", got)
	}
}
