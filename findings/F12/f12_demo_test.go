package bgp

import (
	"sync"
	"testing"
)

// A TUNNEL_ENCAP attribute is shared between the RIB and every peer's sender; serialising
// it from two goroutines races on TunnelEncapSubTLV.Length. Run with -race.
func TestF12TunnelEncapSerializeRace(t *testing.T) {
	sub := NewTunnelEncapSubTLVColor(10)
	tlv := NewTunnelEncapTLV(TUNNEL_TYPE_VXLAN, []TunnelEncapSubTLVInterface{sub})
	attr := NewPathAttributeTunnelEncap([]*TunnelEncapTLV{tlv})
	var wg sync.WaitGroup
	for i := 0; i < 2; i++ {
		wg.Add(1)
		go func() {
			defer wg.Done()
			for j := 0; j < 100; j++ {
				attr.Serialize()
			}
		}()
	}
	wg.Wait()
}
