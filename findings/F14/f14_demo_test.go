package bgp

import (
	"net/netip"
	"testing"
)

// The SRv6 Binding SID sub-TLV built by the API layer serialises under sub-TLV type 13, for
// which the decoder always builds a TunnelEncapSubTLVSRBSID: it never parses back to its type.
func TestF14SRv6BSIDRoundTrip(t *testing.T) {
	b, err := NewBSID(netip.MustParseAddr("2001:db8::1").AsSlice())
	if err != nil {
		t.Fatal(err)
	}
	sub := &TunnelEncapSubTLVSRv6BSID{
		TunnelEncapSubTLV: TunnelEncapSubTLV{Type: ENCAP_SUBTLV_TYPE_SRBINDING_SID, Length: uint16(2 + b.Len())},
		BSID:              b,
	}
	tlv := NewTunnelEncapTLV(TUNNEL_TYPE_SR_POLICY, []TunnelEncapSubTLVInterface{sub})
	buf, err := tlv.Serialize()
	if err != nil {
		t.Fatal(err)
	}
	got := &TunnelEncapTLV{}
	if err := got.DecodeFromBytes(buf); err != nil {
		t.Fatal(err)
	}
	if _, ok := got.Value[0].(*TunnelEncapSubTLVSRv6BSID); !ok {
		t.Fatalf("decoded as %T, want *TunnelEncapSubTLVSRv6BSID", got.Value[0])
	}
}
