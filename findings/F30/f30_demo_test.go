package server

import (
	"context"
	"fmt"
	"io"
	"net"
	"net/netip"
	"runtime"
	"strings"
	"testing"
	"time"

	"github.com/osrg/gobgp/v4/api"
	"github.com/osrg/gobgp/v4/pkg/packet/bgp"
)

func demoAllStacks() string {
	buf := make([]byte, 1<<20)
	return string(buf[:runtime.Stack(buf, true)])
}

// demoStacksMatching returns only the goroutine stacks that mention one of
// the given substrings, to keep failure messages readable.
func demoStacksMatching(subs ...string) string {
	var out []string
	for _, g := range strings.Split(demoAllStacks(), "\n\n") {
		for _, s := range subs {
			if strings.Contains(g, s) {
				out = append(out, g)
				break
			}
		}
	}
	return strings.Join(out, "\n\n")
}

// Unit-level demo. fsmHandler.opensent() runs with a passive (incoming)
// connection on which the remote never sends anything. The outgoing
// connection manager then hands over an outgoing connection whose OPEN was
// already received. opensent() must return OPENCONFIRM on the outgoing
// connection, and must not leave the incoming connection open.
func TestDemoA_OpensentCollisionSilentIncoming(t *testing.T) {
	incoming := NewMockConnection() // the remote side never writes
	outgoing := NewMockConnection()
	p, h := makePeerAndHandler(incoming)
	p.fsm.gConf.Config.RouterId = netip.MustParseAddr("1.1.1.1")
	p.fsm.outgoingConnMgr = &outgoingConnManager{fsm: p.fsm}
	p.fsm.outgoingConnMgr.state.Store(bgp.BGP_FSM_OPENSENT)
	t.Cleanup(func() {
		incoming.Close()
		outgoing.Close()
		h.outgoing.Close()
		p.fsm.outgoingCh.Close()
	})

	// what outgoingConnManager.run does once the OPEN was received on the
	// connection it dialed
	p.fsm.outgoingConnCh <- outgoingConn{conn: outgoing, open: open()}

	type result struct {
		state  bgp.FSMState
		reason *fsmStateReason
	}
	done := make(chan result, 1)
	go func() {
		s, r := h.opensent(context.Background())
		done <- result{s, r}
	}()

	select {
	case r := <-done:
		if r.state != bgp.BGP_FSM_OPENCONFIRM {
			t.Fatalf("unexpected next state %v (%v)", r.state, r.reason)
		}
		if p.fsm.conn != net.Conn(outgoing) {
			t.Fatalf("fsm.conn is not the outgoing connection")
		}
	case <-time.After(3 * time.Second):
		t.Fatalf("opensent() did not return within 3s after the outgoing connection won; "+
			"it waits for the reader of the abandoned incoming connection:\n%s",
			demoStacksMatching("opensent", "recvMessage"))
	}

	// the abandoned incoming connection must have been closed
	incoming.SetReadDeadline(time.Now().Add(time.Second))
	if _, err := incoming.Read(make([]byte, 1)); err != io.ErrClosedPipe {
		t.Fatalf("incoming connection was not closed (read error: %v)", err)
	}
}

// fakeSpeaker accepts one TCP connection, reads the OPEN, and answers with its
// own OPEN only once release is closed. Afterwards it answers nothing but
// keeps the connection open.
func demoFakeSpeaker(t *testing.T, l net.Listener, release <-chan struct{}, gotOpen chan<- struct{}) {
	conn, err := l.Accept()
	if err != nil {
		return
	}
	t.Cleanup(func() { conn.Close() })
	hdr := make([]byte, bgp.BGP_HEADER_LENGTH)
	if _, err := io.ReadFull(conn, hdr); err != nil {
		return
	}
	h := &bgp.BGPHeader{}
	if err := h.DecodeFromBytes(hdr); err != nil {
		return
	}
	if _, err := io.ReadFull(conn, make([]byte, int(h.Len)-bgp.BGP_HEADER_LENGTH)); err != nil {
		return
	}
	close(gotOpen)
	<-release
	m, _ := bgp.NewBGPOpenMessage(65002, 90, netip.MustParseAddr("2.2.2.2"),
		[]bgp.OptionParameterInterface{bgp.NewOptionParameterCapability(
			[]bgp.ParameterCapabilityInterface{bgp.NewCapFourOctetASNumber(65002)})})
	b, _ := m.Serialize()
	conn.Write(b)             //nolint:errcheck
	io.Copy(io.Discard, conn) //nolint:errcheck
}

// End-to-end demo over real TCP. The neighbor 127.0.0.1 connects to the
// daemon and stays silent, while it answers the OPEN on the connection the
// daemon dialed. The session must progress, and DeletePeer must leave neither
// the FSM goroutine nor the connections behind.
func TestDemoA_DeletePeerSilentIncoming(t *testing.T) {
	const listenPort = 10179

	fake, err := net.Listen("tcp", "127.0.0.1:0")
	if err != nil {
		t.Fatal(err)
	}
	defer fake.Close()
	fakePort := fake.Addr().(*net.TCPAddr).Port
	release := make(chan struct{})
	gotOpen := make(chan struct{})
	go demoFakeSpeaker(t, fake, release, gotOpen)

	s := NewBgpServer()
	go s.Serve()
	defer s.bfdServer.Stop()
	if err := s.StartBgp(context.Background(), &api.StartBgpRequest{Global: &api.Global{
		Asn: 65001, RouterId: "1.1.1.1", ListenPort: listenPort, ListenAddresses: []string{"127.0.0.1"},
	}}); err != nil {
		t.Fatal(err)
	}
	if err := s.AddPeer(context.Background(), &api.AddPeerRequest{Peer: &api.Peer{
		Conf:      &api.PeerConf{NeighborAddress: "127.0.0.1", PeerAsn: 65002},
		Transport: &api.Transport{RemotePort: uint32(fakePort)},
		Timers:    &api.Timers{Config: &api.TimersConfig{ConnectRetry: 2, IdleHoldTimeAfterReset: 3600}},
	}}); err != nil {
		t.Fatal(err)
	}

	peerState := func() bgp.FSMState {
		s.shared.mu.RLock()
		defer s.shared.mu.RUnlock()
		return s.neighborMap[netip.MustParseAddr("127.0.0.1")].fsm.state.Load()
	}
	waitFor := func(what string, d time.Duration, f func() bool) {
		t.Helper()
		deadline := time.Now().Add(d)
		for !f() {
			if time.Now().After(deadline) {
				t.Fatalf("timeout waiting for %s (state %v)", what, peerState())
			}
			time.Sleep(10 * time.Millisecond)
		}
	}

	// 1. the daemon dials the neighbor and sends its OPEN; the neighbor holds
	//    back its answer
	select {
	case <-gotOpen:
	case <-time.After(10 * time.Second):
		t.Fatal("the daemon never connected to the fake speaker")
	}
	if st := peerState(); st != bgp.BGP_FSM_ACTIVE {
		t.Fatalf("unexpected state %v", st)
	}

	// 2. the neighbor connects to the daemon and stays silent
	silent, err := net.Dial("tcp", fmt.Sprintf("127.0.0.1:%d", listenPort))
	if err != nil {
		t.Fatal(err)
	}
	defer silent.Close()
	waitFor("OPENSENT on the incoming connection", 5*time.Second, func() bool {
		return peerState() == bgp.BGP_FSM_OPENSENT
	})

	// 3. now the neighbor answers the OPEN on the connection the daemon
	//    dialed: the session must move on to OPENCONFIRM on that connection
	close(release)
	deadline := time.Now().Add(3 * time.Second)
	for peerState() != bgp.BGP_FSM_OPENCONFIRM && time.Now().Before(deadline) {
		time.Sleep(10 * time.Millisecond)
	}
	if st := peerState(); st != bgp.BGP_FSM_OPENCONFIRM {
		t.Errorf("the session is stuck in %v 3s after the OPEN arrived on the outgoing connection:\n%s",
			st, demoStacksMatching("opensent", "recvMessage"))
	}

	// 4. deleting the peer must stop its FSM goroutine and close both connections.
	//    (StopBgp would hide the problem: closing the listeners also closes every
	//    connection they accepted.)
	if err := s.DeletePeer(context.Background(), &api.DeletePeerRequest{Address: "127.0.0.1"}); err != nil {
		t.Fatal(err)
	}
	silent.SetReadDeadline(time.Now().Add(3 * time.Second)) //nolint:errcheck
	// reads the daemon's OPEN (and possibly a NOTIFICATION) until EOF
	if _, err := io.Copy(io.Discard, silent); err != nil {
		t.Errorf("3s after DeletePeer the daemon still holds the silent incoming connection open: %v", err)
	}
	deadline = time.Now().Add(3 * time.Second)
	for demoStacksMatching("fsmHandler).loop") != "" && time.Now().Before(deadline) {
		time.Sleep(10 * time.Millisecond)
	}
	if st := demoStacksMatching("fsmHandler).loop"); st != "" {
		t.Errorf("3s after DeletePeer the FSM goroutine of the deleted peer is still alive:\n%s", st)
	}

	done := make(chan error, 1)
	go func() { done <- s.StopBgp(context.Background(), &api.StopBgpRequest{}) }()
	select {
	case err := <-done:
		if err != nil {
			t.Fatal(err)
		}
	case <-time.After(5 * time.Second):
		t.Fatalf("StopBgp did not return within 5s:\n%s", demoStacksMatching("StopBgp", "opensent", "recvMessage"))
	}
}
