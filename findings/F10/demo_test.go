// C07 triage, item (B): when a connection collision is resolved in OpenSent,
// the losing connection must be closed by sending NOTIFICATION <Cease (6)>
// (RFC 4271 6.8: "closing the BGP connection (that results from the collision
// resolution procedure) is accomplished by sending the NOTIFICATION message
// with the Error Code Cease"; 8.2.2 Event 23 OpenCollisionDump), with subcode 7
// "Connection Collision Resolution" (RFC 4486 section 4).
//
// This file belongs in pkg/server (package server); it reuses
// makePeerAndHandler/cleanPeerAndHandler/open() from fsm_test.go.
// Copy it to pkg/server/c07b_demo_test.go and run (tests in this package open
// sockets, so use a private netns):
//
//   export GOFLAGS=-mod=mod GOPROXY=off GOWORK=off
//   unshare -n sh -c 'ip link set lo up && go test -vet=off -count=1 -v -run TestC07B ./pkg/server/'

package server

import (
	"bytes"
	"context"
	"encoding/binary"
	"io"
	"net"
	"net/netip"
	"sync/atomic"
	"testing"
	"time"

	"github.com/osrg/gobgp/v4/pkg/packet/bgp"
)

// c07bWire: gobgp owns 'local'; the test writes into 'remote'; a collector
// records every byte gobgp writes until 'local' is closed (EOF).
type c07bWire struct {
	name          string
	local, remote net.Conn
	closed        chan struct{}
	buf           bytes.Buffer
}

func newC07bWire(name string) *c07bWire {
	l, r := net.Pipe()
	w := &c07bWire{name: name, local: l, remote: r, closed: make(chan struct{})}
	go func() {
		defer close(w.closed)
		_, _ = io.Copy(&w.buf, r)
	}()
	return w
}

// isClosed reports whether gobgp has closed its end.
func (w *c07bWire) isClosed(d time.Duration) bool {
	select {
	case <-w.closed:
		return true
	case <-time.After(d):
		return false
	}
}

// sent must only be called after 'local' has been closed.
func (w *c07bWire) sent(t *testing.T) []*bgp.BGPMessage {
	t.Helper()
	<-w.closed
	var out []*bgp.BGPMessage
	b := w.buf.Bytes()
	for len(b) >= bgp.BGP_HEADER_LENGTH {
		l := int(binary.BigEndian.Uint16(b[16:18]))
		m, err := bgp.ParseBGPMessage(b[:l])
		if err != nil {
			t.Fatalf("gobgp sent an unparsable message on the %s connection: %v", w.name, err)
		}
		out = append(out, m)
		b = b[l:]
	}
	return out
}

func TestC07B_CollisionLoserGetsCease(t *testing.T) {
	// The peer's OPEN (open() in fsm_test.go) carries BGP Identifier 100.4.10.3.
	cases := []struct {
		name     string
		routerID string
		loser    string // which connection RFC 4271 6.8 says to close
	}{
		{"local-id-higher_incoming-loses", "200.0.0.1", "incoming"},
		{"local-id-lower_outgoing-loses", "1.1.1.1", "outgoing"},
	}
	for _, tc := range cases {
		t.Run(tc.name, func(t *testing.T) {
			in := newC07bWire("incoming")  // accepted connection, fsm.conn, in OpenSent
			out := newC07bWire("outgoing") // dialled connection on which the peer's OPEN was already received
			p, h := makePeerAndHandler(in.local)
			t.Cleanup(func() { cleanPeerAndHandler(p, h); in.local.Close(); out.local.Close() })
			p.fsm.gConf.Config.RouterId = netip.MustParseAddr(tc.routerID)
			mctx, mcancel := context.WithCancel(context.Background())
			defer mcancel()
			p.fsm.outgoingConnMgr = &outgoingConnManager{ctx: mctx, cancel: mcancel, fsm: p.fsm}
			p.fsm.outgoingConnMgr.state.Store(bgp.BGP_FSM_OPENSENT)

			// Make both collision inputs present before opensent() is allowed
			// to resolve: every path through opensent() takes fsm.lock right
			// after picking its first event and before looking for the second
			// one, so holding the lock until both are there makes the outcome
			// independent of select ordering.
			p.fsm.lock.Lock()
			p.fsm.outgoingConnCh <- outgoingConn{conn: out.local, open: open()}

			type result struct {
				state  bgp.FSMState
				reason *fsmStateReason
			}
			done := make(chan result, 1)
			ctx, cancel := context.WithTimeout(context.Background(), 10*time.Second)
			defer cancel()
			go func() {
				s, r := h.opensent(ctx)
				done <- result{s, r}
			}()

			raw, _ := open().Serialize()
			if _, err := in.remote.Write(raw); err != nil { // returns once gobgp has read it
				t.Fatalf("feeding OPEN on the incoming connection: %v", err)
			}
			for atomic.LoadUint64(&p.fsm.counterStats.Received.Open) == 0 {
				time.Sleep(time.Millisecond)
			}
			time.Sleep(50 * time.Millisecond) // let the reader goroutine post the parsed OPEN
			p.fsm.lock.Unlock()

			var res result
			select {
			case res = <-done:
			case <-time.After(10 * time.Second):
				t.Fatalf("opensent() did not return")
			}

			loser, winner := in, out
			if tc.loser == "outgoing" {
				loser, winner = out, in
			}
			t.Logf("local BGP ID %s vs peer 100.4.10.3; fed: OPEN on incoming conn while an outgoing conn with the peer's OPEN is pending", tc.routerID)
			t.Logf("opensent() -> %s (%v); RFC 4271 6.8 loser = %s connection", res.state, res.reason, loser.name)
			if res.state != bgp.BGP_FSM_OPENCONFIRM {
				t.Fatalf("next state = %s, want OpenConfirm on the surviving connection", res.state)
			}
			if p.fsm.conn != winner.local {
				t.Errorf("fsm kept the wrong connection")
			}
			if !loser.isClosed(2 * time.Second) {
				t.Fatalf("the %s connection was not closed", loser.name)
			}
			// close the survivor so that its collector terminates too
			winner.local.Close()
			lsent, wsent := loser.sent(t), winner.sent(t)
			t.Logf("gobgp sent on the closed (%s) connection: %d message(s)", loser.name, len(lsent))
			for i, m := range lsent {
				t.Logf("  loser[%d]: type %d %+v", i, m.Header.Type, m.Body)
			}
			t.Logf("gobgp sent on the surviving (%s) connection: %d message(s)", winner.name, len(wsent))
			for i, m := range wsent {
				t.Logf("  winner[%d]: type %d", i, m.Header.Type)
			}

			if len(wsent) != 1 || wsent[0].Header.Type != bgp.BGP_MSG_KEEPALIVE {
				t.Errorf("want exactly one KEEPALIVE on the surviving connection, got %d message(s)", len(wsent))
			}
			if len(lsent) != 1 || lsent[0].Header.Type != bgp.BGP_MSG_NOTIFICATION {
				t.Fatalf("RFC 4271 6.8 / RFC 4486: want NOTIFICATION(code 6 Cease, subcode 7 Connection Collision Resolution) on the %s connection before it is closed; gobgp sent %d message(s) and just dropped it", loser.name, len(lsent))
			}
			n := lsent[0].Body.(*bgp.BGPNotification)
			if n.ErrorCode != bgp.BGP_ERROR_CEASE || n.ErrorSubcode != bgp.BGP_ERROR_SUB_CONNECTION_COLLISION_RESOLUTION {
				t.Errorf("NOTIFICATION code/subcode = %d/%d, want 6/7", n.ErrorCode, n.ErrorSubcode)
			}
		})
	}
}
