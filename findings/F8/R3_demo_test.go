package server

import (
	"context"
	"io"
	"net"
	"strconv"
	"testing"
	"time"

	"github.com/osrg/gobgp/v4/api"
	"github.com/osrg/gobgp/v4/pkg/packet/rtr"
)

// R3: (*roaClient).softReset, when called from (*roaClient).established on the
// client's own goroutine, writes c.endOfData / c.pendingROAs (and
// c.state.RpkiMessages.RpkiSent.ResetQuery) with no lock, while the Serve
// goroutine writes the same fields under s.shared.mu.

func readResetQuery(t *testing.T, conn net.Conn) {
	t.Helper()
	_ = conn.SetReadDeadline(time.Now().Add(5 * time.Second))
	buf := make([]byte, rtr.RTR_MIN_LEN)
	if _, err := io.ReadFull(conn, buf); err != nil {
		t.Fatal(err)
	}
	if buf[1] != rtr.RTR_RESET_QUERY {
		t.Fatalf("expected Reset Query, got PDU type %d", buf[1])
	}
	_ = conn.SetReadDeadline(time.Time{})
}

// Variant A (public API only): the ResetRpki(soft) management operation runs
// (*roaClient).softReset on the Serve goroutine while the freshly spawned
// established() goroutine runs the same function ("gobgp rpki server X
// softreset" issued at the moment the RTR session (re)connects).
//
// The window is only a few microseconds wide: once established() has entered
// its first conn.Read, the fd mutex inside net.Conn orders it before any later
// conn.Write done by the Serve goroutine. The fake cache therefore drops every
// connection right after the Reset Query so that the client reconnects (and
// spawns a new established()) a few thousand times per second while another
// goroutine keeps issuing soft resets.
func TestRaceR3SoftResetVsResetRpkiAPI(t *testing.T) {
	l, err := net.Listen("tcp", "127.0.0.1:0")
	if err != nil {
		t.Fatal(err)
	}
	defer l.Close()
	port := uint32(l.Addr().(*net.TCPAddr).Port)

	s := NewBgpServer()
	go s.Serve()
	if err := s.StartBgp(context.Background(), &api.StartBgpRequest{
		Global: &api.Global{Asn: 65001, RouterId: "1.1.1.1", ListenPort: -1},
	}); err != nil {
		t.Fatal(err)
	}
	defer s.StopBgp(context.Background(), &api.StopBgpRequest{})

	// fake RTR cache: accept, read the Reset Query, hang up.
	go func() {
		for {
			c, err := l.Accept()
			if err != nil {
				return
			}
			buf := make([]byte, rtr.RTR_MIN_LEN)
			_ = c.SetReadDeadline(time.Now().Add(time.Second))
			_, _ = io.ReadFull(c, buf)
			c.Close()
		}
	}()

	if err := s.AddRpki(context.Background(), &api.AddRpkiRequest{Address: "127.0.0.1", Port: port}); err != nil {
		t.Fatal(err)
	}

	deadline := time.Now().Add(3 * time.Second)
	n := 0
	for time.Now().Before(deadline) {
		// errors (write on a connection the cache already closed) are expected
		_ = s.ResetRpki(context.Background(), &api.ResetRpkiRequest{Address: "127.0.0.1", Soft: true})
		n++
	}
	t.Logf("%d soft resets issued", n)

	if err := s.DeleteRpki(context.Background(), &api.DeleteRpkiRequest{
		Address: net.JoinHostPort("127.0.0.1", strconv.Itoa(int(port))),
	}); err != nil {
		t.Fatal(err)
	}
}

type slowROAEvents struct{}

func (slowROAEvents) Observe(op FSMOperation, _, _ time.Duration) {
	if op == FSMROAEvent {
		time.Sleep(5 * time.Millisecond)
	}
}

// Variant B: softReset (established goroutine) vs HandleROAEvent (Serve
// goroutine), the two sites named by the static analysis.
//
// Within one client object everything is ordered: Serve spawns established(),
// and only hears from it again through eventCh. But roaEvents are keyed by the
// "host:port" string, not by client object, and DeleteServer does not wait for
// the old client's goroutines. If a server is deleted and re-added, events
// still in flight from the OLD client's established() goroutine are applied to
// the NEW client by the Serve goroutine, concurrently with the new client's
// established() -> softReset().
//
// Event order arranged below (eventCh is unbuffered, blocked senders are
// served FIFO):
//  1. old established(): roaRTR (Cache Response)  - sent while Serve is busy
//  2. new tryConnect():  roaConnected              - sent while Serve is busy
//  3. old established(): roaDisconnected           - sent once 1. was received
//
// Serve handles 2. (go established() for the new client) and then immediately
// 3., whose handler writes client.endOfData / client.pendingROAs
// (rpki.go:174-175) while the new established() is in softReset
// (rpki.go:393-394).
//
// A timing hook (public ServerOption) makes the Serve goroutine idle for a few
// milliseconds after every ROA event; it contains no synchronization. Without
// it the race is still reported most of the time, but in some runs Serve wins
// by so much that handler 3. has already set client.conn = nil before the new
// established() looks at it (a race on client.conn instead), and softReset
// then skips its writes.
func TestRaceR3SoftResetVsHandleROAEvent(t *testing.T) {
	l, err := net.Listen("tcp", "127.0.0.1:0")
	if err != nil {
		t.Fatal(err)
	}
	defer l.Close()
	port := uint32(l.Addr().(*net.TCPAddr).Port)
	host := net.JoinHostPort("127.0.0.1", strconv.Itoa(int(port)))

	s := NewBgpServer(TimingHookOption(slowROAEvents{}))
	go s.Serve()
	if err := s.StartBgp(context.Background(), &api.StartBgpRequest{
		Global: &api.Global{Asn: 65001, RouterId: "1.1.1.1", ListenPort: -1},
	}); err != nil {
		t.Fatal(err)
	}
	defer s.StopBgp(context.Background(), &api.StopBgpRequest{})

	accepted := make(chan net.Conn, 4)
	go func() {
		for {
			c, err := l.Accept()
			if err != nil {
				return
			}
			accepted <- c
		}
	}()
	accept := func() net.Conn {
		select {
		case c := <-accepted:
			return c
		case <-time.After(5 * time.Second):
			t.Error("no connection from RTR client")
			return nil
		}
	}

	// first incarnation of the server: fully established
	if err := s.AddRpki(context.Background(), &api.AddRpkiRequest{Address: "127.0.0.1", Port: port}); err != nil {
		t.Fatal(err)
	}
	conn1 := accept()
	if conn1 == nil {
		t.FailNow()
	}
	defer conn1.Close()
	readResetQuery(t, conn1)

	cacheResponse, err := rtr.NewRTRCacheResponse(1).Serialize()
	if err != nil {
		t.Fatal(err)
	}

	// One slow management operation doing what DeleteRpki + AddRpki do. They
	// are squeezed into a single operation (and the Serve goroutine is kept
	// busy with sleeps) only to make the interleaving deterministic.
	var conn2 net.Conn
	err = s.mgmtOperation(func() error {
		// 1. the old established() reads this PDU and blocks handing it to us
		if _, err := conn1.Write(cacheResponse); err != nil {
			return err
		}
		time.Sleep(50 * time.Millisecond)
		if err := s.roaManager.DeleteServer(host); err != nil {
			return err
		}
		if err := s.roaManager.AddServer(host, 0); err != nil {
			return err
		}
		// 2. the new client's dialer connects and blocks handing us roaConnected
		conn2 = accept()
		time.Sleep(50 * time.Millisecond)
		return nil
	}, false)
	if err != nil {
		t.Fatal(err)
	}
	if conn2 == nil {
		t.FailNow()
	}
	defer conn2.Close()

	// the new established() is in / just past softReset
	readResetQuery(t, conn2)
	time.Sleep(200 * time.Millisecond)

	_ = s.DeleteRpki(context.Background(), &api.DeleteRpkiRequest{Address: host})
}
