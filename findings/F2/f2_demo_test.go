package bgp

import (
	"net/netip"
	"sync"
	"testing"
)

// Serialising one shared NLRI / TLV from two goroutines (two peers' senders) must not
// write the object. Run with -race.
func TestF2SerializeIsReadOnly(t *testing.T) {
	rd, _ := ParseRouteDistinguisher("100:1")
	r := &EVPNIPPrefixRoute{RD: rd, IPPrefix: netip.MustParseAddr("10.0.0.0"), IPPrefixLength: 24}
	fad := &LsTLVFlexAlgoDef{LsTLV: LsTLV{Type: LS_TLV_FLEX_ALGO_DEF}, Algorithm: 128}
	fapm := &LsTLVFADPrefixMetric{LsTLV: LsTLV{Type: LS_TLV_FAD_PREFIX_METRIC}, Algorithm: 128}
	var wg sync.WaitGroup
	for i := 0; i < 2; i++ {
		wg.Add(1)
		go func() {
			defer wg.Done()
			for j := 0; j < 100; j++ {
				r.Serialize()
				fad.Serialize()
				fapm.Serialize()
			}
		}()
	}
	wg.Wait()
	if r.GWIPAddress.IsValid() {
		t.Fatalf("Serialize changed the route: GWIPAddress=%v", r.GWIPAddress)
	}
}
