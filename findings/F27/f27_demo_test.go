package zebra

import (
	"net/netip"
	"syscall"
	"testing"
)

// F27 (C19): what RegisteredNexthop.serialize emits for ZAPI 6 / FRR >= 8.2 must parse back, with the module's own
// decoder, to the same registration. On the unfixed tree the SAFI is written over the resolve-via-default octet
// (buf[1:3] instead of buf[2:4]) and the prefix length goes to buf[3] instead of buf[6]: the decoder sees
// resolveViaDef 0, a SAFI that contains the prefix length, and an empty prefix.
func TestF27RegisteredNexthopRoundTripFrr82(t *testing.T) {
	for _, sw := range []Software{NewSoftware(6, "frr8.2"), NewSoftware(6, "frr8.1"), NewSoftware(6, "frr7.5")} {
		for _, fam := range []struct {
			af   uint16
			addr string
		}{{uint16(syscall.AF_INET), "192.0.2.1"}, {uint16(syscall.AF_INET6), "2001:db8::1"}} {
			in := &RegisteredNexthop{connected: 1, resolveViaDef: 1, Family: fam.af, Prefix: netip.MustParseAddr(fam.addr)}
			buf, err := in.serialize(6, sw)
			if err != nil {
				t.Fatalf("%v %s: %v", sw, fam.addr, err)
			}
			out := &RegisteredNexthop{}
			if err := out.decodeFromBytes(buf, 6, sw); err != nil {
				t.Fatalf("%v %s: decode: %v (% x)", sw, fam.addr, err, buf)
			}
			if out.connected != in.connected || out.Family != in.Family || out.Prefix != in.Prefix {
				t.Errorf("%v %s: sent connected=%d family=%d prefix=%s, parsed back connected=%d family=%d prefix=%s (% x)",
					sw, fam.addr, in.connected, in.Family, in.Prefix, out.connected, out.Family, out.Prefix, buf)
			}
			if sw.name == "frr" && sw.version >= 8.2 {
				if out.resolveViaDef != in.resolveViaDef || out.safi != uint16(SafiUnicast) {
					t.Errorf("%v %s: resolveViaDef %d -> %d, safi -> %d (% x)", sw, fam.addr, in.resolveViaDef, out.resolveViaDef, out.safi, buf)
				}
			}
		}
	}
}
