package server

import (
	"context"
	"sync"
	"testing"
	"time"

	"github.com/osrg/gobgp/v4/pkg/packet/bgp"
)

// An UPDATE with a malformed ATOMIC_AGGREGATE (attribute-discard class) that also lacks
// the mandatory ORIGIN must be treated as withdraw; the discard-class decoding error
// must not switch semantic validation off.
func TestF6DiscardDoesNotSkipValidation(t *testing.T) {
	raw := []byte{
		0xff, 0xff, 0xff, 0xff, 0xff, 0xff, 0xff, 0xff,
		0xff, 0xff, 0xff, 0xff, 0xff, 0xff, 0xff, 0xff, // marker
		0x00, 0x2d, // length: 45
		0x02,       // UPDATE
		0x00, 0x00, // withdrawn length
		0x00, 0x12, // total path attribute length: 18
		0x40, 0x02, 0x06, 0x02, 0x01, 0x00, 0x00, 0xfd, 0xe8, // AS_PATH: SEQ(65000) 4-octet
		0x40, 0x03, 0x04, 0x0a, 0x00, 0x00, 0x01, // NEXT_HOP 10.0.0.1
		0x40, 0x06, 0x01, 0x00, // ATOMIC_AGGREGATE with length 1 (malformed, must be 0)
		0x18, 0x0a, 0x01, 0x01, // NLRI 10.1.1.0/24
	}
	raw[17] = byte(len(raw))
	raw[22] = byte(len(raw) - 23 - 4)
	m := NewMockConnection()
	_, h := makePeerAndHandler(m)
	t.Cleanup(func() {
		h.outgoing.Close()
		h.fsm.outgoingCh.Close()
		h.fsm.conn.Close()
	})
	h.fsm.isTreatAsWithdraw = true
	h.fsm.isEBGP = true
	h.fsm.familyMap.Store(map[bgp.Family]bgp.BGPAddPathMode{bgp.RF_IPv4_UC: bgp.BGP_ADD_PATH_NONE})
	got := make(chan *fsmMsg, 1)
	h.callback = func(e *fsmMsg) { got <- e }
	ctx, cancel := context.WithCancel(context.Background())
	defer cancel()
	wg := &sync.WaitGroup{}
	wg.Add(1)
	go h.recvMessageloop(ctx, m.Conn, make(chan struct{}, 2), make(chan fsmStateReason, 2), wg)
	go m.remote.Write(raw)
	select {
	case e := <-got:
		if e.handling < bgp.ERROR_HANDLING_TREAT_AS_WITHDRAW {
			u := e.MsgData.(*bgp.BGPMessage).Body.(*bgp.BGPUpdate)
			t.Fatalf("UPDATE lacking ORIGIN reached the server with handling=%d, %d NLRI and %d attributes", e.handling, len(u.NLRI), len(u.PathAttributes))
		}
	case <-time.After(2 * time.Second):
		// a session reset (NOTIFICATION) is also an acceptable containment
		select {
		case <-h.fsm.notification:
		default:
			t.Fatal("no callback and no notification")
		}
	}
}
