// Package own implements engine E2: which memory a function may write, relative to
// a set of "shared" sources (a parameter, a receiver, or values returned by calls
// that hand out shared storage). It is a forward may-taint analysis on SSA with
// function summaries (writes-param, returns-alias), not a points-to analysis.
package own

import (
	"fmt"
	"go/token"
	"go/types"
	"sort"
	"strings"

	"golang.org/x/tools/go/ssa"

	"gbverif/ir"
)

// Sink is a write into shared memory.
type Sink struct {
	Fn    *ssa.Function
	Instr ssa.Instruction
	Kind  string   // store | map-update | append | copy | mutator:<callee> | via:<callee>
	Path  []string // call chain for via-sinks
	Field string   // field written, when known
	Root  *Sink    // the primitive write this via-sink leads to (nil for a primitive write)
	Target ssa.Value // the address stored to / the slice appended to, copied into or mutated (primitive writes)
}

// Origin returns the primitive write behind a sink.
func (s Sink) Origin() Sink {
	if s.Root != nil {
		return s.Root.Origin()
	}
	return s
}

// Escape is a store of shared memory into non-local memory (e.g. a decoded object's field).
type Escape struct {
	Fn    *ssa.Function
	Instr ssa.Instruction
	Field *types.Var
	Base  types.Type
	// Into: index of the parameter of the summarised function whose memory receives the pointer (-1: other memory)
	Into int
	// Rel: field path, inside the object parameter Into points to, of the cell that receives the pointer ("" = unknown/whole)
	Rel string
}

// relPath: addr as (parameter, field path below it); path "" when the address is reached through loads.
func relPath(fn *ssa.Function, addr ssa.Value) (int, string) {
	if p, ok := addr.(*ssa.Parameter); ok {
		return paramIndex(fn, p), ""
	}
	if base, pth := basePath(addr); base != nil {
		if p, ok := base.(*ssa.Parameter); ok {
			return paramIndex(fn, p), pth
		}
	}
	// reached through a load: the cell lies in a different object than the one the parameter points to
	return -1, ""
}

// rootParam: the parameter whose reachable memory address v lies in (nil if none).
func rootParam(v ssa.Value) *ssa.Parameter {
	for i := 0; i < 16; i++ {
		switch x := v.(type) {
		case *ssa.Parameter:
			return x
		case *ssa.FieldAddr:
			v = x.X
		case *ssa.IndexAddr:
			v = x.X
		case *ssa.UnOp:
			if x.Op != token.MUL {
				return nil
			}
			v = x.X
		case *ssa.Slice:
			v = x.X
		default:
			return nil
		}
	}
	return nil
}

func paramIndex(fn *ssa.Function, p *ssa.Parameter) int {
	if p == nil {
		return -1
	}
	for i, q := range fn.Params {
		if q == p {
			return i
		}
	}
	return -1
}

type kind uint8

const (
	none    kind = iota
	carrier      // struct/array value, or pointer to fresh memory, that contains shared pointers
	shared       // pointer-like value pointing into shared memory, or an address inside it
)

// pathSet: field paths (".3", ".0.1", "[]") of a fresh container that received shared pointers; nil = unknown (all).
type pathSet map[string]bool

func (p pathSet) sig() string {
	if p == nil {
		return "*"
	}
	var ks []string
	for k := range p {
		ks = append(ks, k)
	}
	sort.Strings(ks)
	return strings.Join(ks, "|")
}

func (p pathSet) clone() pathSet {
	if p == nil {
		return nil
	}
	o := pathSet{}
	for k := range p {
		o[k] = true
	}
	return o
}

type sumKey struct {
	fn  *ssa.Function
	idx int  // parameter index (receiver is 0 for methods); -1-i for free variable i
	psig string
	sig string
	k   kind // how the argument relates to shared memory: points into it, or is a fresh container of such pointers
}

type summary struct {
	done    bool
	busy    bool
	writes  []Sink
	alias   kind // shared: a result may point into the parameter's memory; carrier: a fresh object holding such pointers
	aliasAt []kind // the same, per result index
	pathsAt []pathSet // for carrier results: which field paths of the returned object hold shared pointers (nil = unknown)
	escapes []Escape
}

type Eng struct {
	P        *ir.Program
	sums     map[sumKey]*summary
	changed  bool
	// IgnoreField: writes to these fields are not sinks (e.g. caches declared benign)
	IgnoreField func(f *types.Var) bool
	// SharedResult: extra sources — a call whose result hands out shared storage
	MaxDepth int
	// StopAt: values of these types are not followed (they belong to a different ownership region)
	StopAt func(t types.Type) bool
	cur      *elemSet
	setRoot  func(*Sink)
	initCP   map[ssa.Value]pathSet
	lastPaths pathSet
	lastPathsKnown bool
	pathsOf  func(ssa.Value) (pathSet, bool)
	setTarget func(ssa.Value)
}

func New(p *ir.Program) *Eng {
	return &Eng{P: p, sums: map[sumKey]*summary{}, MaxDepth: 40}
}

func pointerLike(t types.Type) bool {
	switch u := t.Underlying().(type) {
	case *types.Pointer, *types.Slice, *types.Map, *types.Chan, *types.Interface, *types.Signature:
		return true
	case *types.Basic:
		return u.Kind() == types.UnsafePointer
	}
	return false
}

func aggregate(t types.Type) bool {
	switch t.Underlying().(type) {
	case *types.Struct, *types.Array, *types.Tuple:
		return true
	}
	return false
}

func kindFor(t types.Type) kind {
	if pointerLike(t) {
		return shared
	}
	if aggregate(t) {
		if containsPointer(t, 0) {
			return carrier
		}
	}
	return none
}

func containsPointer(t types.Type, d int) bool {
	if d > 6 {
		return true
	}
	switch u := t.Underlying().(type) {
	case *types.Struct:
		for i := 0; i < u.NumFields(); i++ {
			if pointerLike(u.Field(i).Type()) || containsPointer(u.Field(i).Type(), d+1) {
				return true
			}
		}
	case *types.Array:
		return pointerLike(u.Elem()) || containsPointer(u.Elem(), d+1)
	case *types.Tuple:
		for i := 0; i < u.Len(); i++ {
			if pointerLike(u.At(i).Type()) || containsPointer(u.At(i).Type(), d+1) {
				return true
			}
		}
	}
	return false
}

// WritesParam reports the writes fn may perform into memory reachable from parameter idx.
func (e *Eng) WritesParam(fn *ssa.Function, idx int) []Sink { return e.sum(fn, idx, 0, shared, nil).writes }

// ReturnsAlias reports whether a result of fn may alias memory reachable from parameter idx.
func (e *Eng) ReturnsAlias(fn *ssa.Function, idx int) bool { return e.sum(fn, idx, 0, shared, nil).alias == shared }

// Escapes reports stores of parameter-derived pointers into non-local memory.
func (e *Eng) Escapes(fn *ssa.Function, idx int) []Escape { return e.sum(fn, idx, 0, shared, nil).escapes }

func (e *Eng) sum(fn *ssa.Function, idx int, depth int, ak kind, el *elemSet) *summary {
	return e.sumP(fn, idx, depth, ak, el, nil)
}

// sumP: as sum, with the field paths of a carrier argument that hold shared pointers.
func (e *Eng) sumP(fn *ssa.Function, idx int, depth int, ak kind, el *elemSet, ps pathSet) *summary {
	psig := "*"
	if ak == carrier {
		psig = ps.sig()
	}
	k := sumKey{fn, idx, psig, el.sig(), ak}
	s := e.sums[k]
	if s == nil {
		s = &summary{}
		e.sums[k] = s
	}
	if s.done || s.busy || fn.Blocks == nil || depth > e.MaxDepth {
		return s
	}
	s.busy = true
	src := map[ssa.Value]kind{}
	if idx >= 0 {
		if idx < len(fn.Params) {
			if k := kindFor(fn.Params[idx].Type()); k != none {
				if ak == carrier {
					k = carrier
				}
				src[fn.Params[idx]] = k
			}
		}
	} else {
		fi := -1 - idx
		if fi < len(fn.FreeVars) {
			// a free variable is the address of the captured variable; its content may be shared
			src[fn.FreeVars[fi]] = carrier
		}
	}
	if el == nil && idx >= 0 && idx < len(fn.Params) {
		el = elemsOf(fn.Params[idx].Type())
	}
	var initCP map[ssa.Value]pathSet
	if ak == carrier && ps != nil && idx >= 0 && idx < len(fn.Params) {
		initCP = map[ssa.Value]pathSet{fn.Params[idx]: ps.clone()}
	}
	e.initCP = initCP
	res := e.run(fn, src, depth, el)
	s.writes, s.alias, s.escapes, s.aliasAt, s.pathsAt = res.sinks, res.retShared, res.escapes, res.retAt, res.retPaths
	s.busy = false
	s.done = true
	return s
}

type result struct {
	sinks     []Sink
	retShared kind
	retAt     []kind
	retPaths  []pathSet
	escapes   []Escape
	taint     map[ssa.Value]kind
}

// Analyze runs the taint analysis in fn from explicit source values.
func (e *Eng) Analyze(fn *ssa.Function, src map[ssa.Value]kind) []Sink {
	return e.run(fn, src, 0, nil).sinks
}

// Flow is the full outcome of an analysis from explicit sources.
type Flow struct {
	Sinks    []Sink
	Escapes  []Escape
	Returned bool // a value pointing INTO the shared region may be returned
	ReturnedFresh bool // a fresh container holding pointers into the region may be returned
}

// AnalyzeFlow: like AnalyzeShared but also reports returns.
func (e *Eng) AnalyzeFlow(fn *ssa.Function, vals []ssa.Value) Flow {
	src := map[ssa.Value]kind{}
	var el *elemSet
	for _, v := range vals {
		if k := kindFor(v.Type()); k != none {
			src[v] = k
		}
	}
	r := e.run(fn, src, 0, el)
	return Flow{Sinks: r.sinks, Escapes: r.escapes, Returned: r.retShared == shared, ReturnedFresh: r.retShared == carrier}
}

// Kind is exported for callers that provide explicit sources.
type Kind = kind

const (
	KindNone    = none
	KindCarrier = carrier
	KindShared  = shared
)

// AliasKind: how results of fn relate to memory reachable from parameter idx.
func (e *Eng) AliasKind(fn *ssa.Function, idx int) Kind { return e.sum(fn, idx, 0, shared, nil).alias }

// AnalyzeKinds runs from explicit (value → kind) sources.
func (e *Eng) AnalyzeKinds(fn *ssa.Function, src map[ssa.Value]Kind) Flow {
	r := e.run(fn, src, 0, nil)
	return Flow{Sinks: r.sinks, Escapes: r.escapes, Returned: r.retShared == shared, ReturnedFresh: r.retShared == carrier}
}

// AnalyzeShared: sources given as values that are themselves shared pointers/aggregates.
func (e *Eng) AnalyzeShared(fn *ssa.Function, vals []ssa.Value) ([]Sink, []Escape) {
	src := map[ssa.Value]kind{}
	for _, v := range vals {
		if k := kindFor(v.Type()); k != none {
			src[v] = k
		}
	}
	var el *elemSet
	for _, v := range vals {
		el = el.union(elemsOf(v.Type()))
	}
	r := e.run(fn, src, 0, el)
	return r.sinks, r.escapes
}

func (e *Eng) run(fn *ssa.Function, src map[ssa.Value]kind, depth int, el *elemSet) result {
	t := map[ssa.Value]kind{}
	for v, k := range src {
		t[v] = k
	}
	var res result
	if len(t) == 0 {
		return res
	}
	saved, savedRoot, savedTarget, savedPO := e.cur, e.setRoot, e.setTarget, e.pathsOf
	e.cur = el
	defer func() { e.cur, e.setRoot, e.setTarget, e.pathsOf = saved, savedRoot, savedTarget, savedPO }()
	// local allocs that hold carriers: tracked as carrier (address of local memory), with the
	// field paths that actually received shared pointers
	paths := map[*ssa.Alloc]map[string]bool{}
	pkind := map[*ssa.Alloc]map[string]kind{} // strongest kind stored at each path (shared if unknown)
	cp := map[ssa.Value]pathSet{} // non-alloc carrier pointers (parameters, call results): known shared field paths
	cpKnown := map[ssa.Value]bool{}
	for v, ps := range e.initCP {
		cp[v] = ps
		cpKnown[v] = true
	}
	e.initCP = nil
	// pathsOf: the shared field paths of the fresh container v points to (ok=false: unknown)
	pathsOf := func(v ssa.Value) (pathSet, bool) {
		if al, ok := v.(*ssa.Alloc); ok {
			return pathSet(paths[al]), true
		}
		if cpKnown[v] {
			return cp[v], true
		}
		return nil, false
	}
	isLocalAddr := func(v ssa.Value) bool { return rootAlloc(v) != nil }
	e.pathsOf = pathsOf
	set := func(v ssa.Value, k kind) bool {
		if k == none {
			return false
		}
		if old := t[v]; old == shared || old == k {
			return false
		}
		t[v] = k
		return true
	}
	get := func(v ssa.Value) kind { return t[v] }
	// loadKind: kind of a value of type ty loaded out of base
	loadKind := func(base ssa.Value, ty types.Type) kind {
		if e.StopAt != nil && e.StopAt(ty) {
			return none
		}
		k := kindFor(ty)
		if k == shared && get(base) == carrier && !el.canHold(ty) {
			return none
		}
		return k
	}
	changed := true
	for iter := 0; changed && iter < 50; iter++ {
		changed = false
		for _, b := range fn.Blocks {
			for _, in := range b.Instrs {
				switch x := in.(type) {
				case *ssa.FieldAddr:
					if k := get(x.X); k != none {
						// address inside shared memory stays shared; address inside a local carrier stays carrier
						changed = set(x, k) || changed
					}
				case *ssa.IndexAddr:
					if k := get(x.X); k != none {
						changed = set(x, k) || changed
					}
				case *ssa.Field:
					if get(x.X) != none {
						changed = set(x, loadKind(x.X, x.Type())) || changed
					}
				case *ssa.Index:
					if get(x.X) != none {
						changed = set(x, loadKind(x.X, x.Type())) || changed
					}
				case *ssa.UnOp:
					if x.Op == token.MUL && get(x.X) != none {
						if al, pth := addrPath(x.X); al != nil && get(al) == carrier && !pathCompat(paths[al], pth) {
							// this part of the local never received a shared pointer
							continue
						}
						if base, pth := basePath(x.X); base != nil && get(base) == carrier {
							if ps, ok := pathsOf(base); ok && !pathCompat(ps, pth) {
								continue // this field of the fresh container never received a shared pointer
							}
						}
						lk := loadKind(x.X, x.Type())
						if al, pth := addrPath(x.X); lk == shared && al != nil && get(al) == carrier {
							// every store that can have filled this cell stored a fresh container: the loaded
							// pointer points to fresh memory holding shared pointers, not to shared memory
							allCarrier, any := true, false
							for sp, sk := range pkind[al] {
								if strings.HasPrefix(pth, sp) || strings.HasPrefix(sp, pth) {
									any = true
									if sk != carrier {
										allCarrier = false
									}
								}
							}
							if any && allCarrier {
								lk = carrier
							}
						}
						changed = set(x, lk) || changed
					}
				case *ssa.Lookup:
					if get(x.X) != none {
						changed = set(x, kindFor(x.Type())) || changed
					}
				case *ssa.Phi:
					allKnown, any := true, false
					merged := pathSet{}
					for _, ed := range x.Edges {
						if k := get(ed); k != none {
							changed = set(x, k) || changed
							any = true
							if ps, ok := pathsOf(ed); ok {
								for p := range ps {
									merged[p] = true
								}
							} else {
								allKnown = false
							}
						}
					}
					if any && allKnown && get(x) == carrier {
						if !cpKnown[x] || len(cp[x]) != len(merged) {
							cp[x], cpKnown[x] = merged, true
							changed = true
						}
					}
				case *ssa.ChangeType:
					changed = set(x, get(x.X)) || changed
				case *ssa.ChangeInterface:
					changed = set(x, get(x.X)) || changed
				case *ssa.MakeInterface:
					changed = set(x, get(x.X)) || changed
				case *ssa.TypeAssert:
					if k := get(x.X); k != none {
						if x.CommaOk || k == carrier {
							changed = set(x, carrier) || changed
						} else {
							changed = set(x, kindFor(x.Type())) || changed
						}
					}
				case *ssa.Extract:
					if get(x.Tuple) != none {
						k := kindFor(x.Type())
						if ta, ok := x.Tuple.(*ssa.TypeAssert); ok && get(ta.X) == carrier && k == shared {
							k = carrier
						}
						if cl, ok := x.Tuple.(*ssa.Call); ok {
							ck := e.callResultAt(cl, get, depth, x.Index)
							if ck == none {
								k = none
							} else if ck == carrier && k == shared {
								k = carrier
								if !cpKnown[x] && e.lastPathsKnown {
									cp[x], cpKnown[x] = e.lastPaths.clone(), true
								}
							}
						}
						changed = set(x, k) || changed
					}
				case *ssa.Slice:
					if k := get(x.X); k != none {
						if _, isStr := x.X.Type().Underlying().(*types.Basic); !isStr {
							changed = set(x, shared) || changed
						}
					}
				case *ssa.SliceToArrayPointer:
					changed = set(x, get(x.X)) || changed
				case *ssa.Range:
					if get(x.X) != none {
						changed = set(x, carrier) || changed
					}
				case *ssa.Next:
					if get(x.Iter) != none {
						changed = set(x, carrier) || changed
					}
				case *ssa.Store:
					vk := get(x.Val)
					if vk != none {
						if base, pth := basePath(x.Addr); base != nil && get(base) == carrier && cpKnown[base] {
							if cp[base] == nil {
								cp[base] = pathSet{}
							}
							if !cp[base][pth] {
								cp[base][pth] = true
								changed = true
							}
						}
						if al, pth := addrPath(x.Addr); al != nil {
							// local memory now carries shared pointers (field-sensitive)
							if paths[al] == nil {
								paths[al] = map[string]bool{}
							}
							if !paths[al][pth] {
								paths[al][pth] = true
								changed = true
							}
							if pkind[al] == nil {
								pkind[al] = map[string]kind{}
							}
							if pkind[al][pth] < vk {
								pkind[al][pth] = vk
								changed = true
							}
							changed = set(al, carrier) || changed
							if x.Addr != ssa.Value(al) {
								changed = set(x.Addr, carrier) || changed
							}
						}
					}
				case *ssa.MakeClosure:
					for _, bnd := range x.Bindings {
						if get(bnd) != none {
							changed = set(x, shared) || changed
						}
					}
				case *ssa.Call:
					for _, et := range e.escapeTargets(x, get, depth) {
						tgt := et.v
						if al, pth := addrPath(tgt); al != nil {
							pth += et.rel
							if paths[al] == nil {
								paths[al] = map[string]bool{}
							}
							if !paths[al][pth] {
								paths[al][pth] = true
								changed = true
							}
							if pkind[al] == nil {
								pkind[al] = map[string]kind{}
							}
							pkind[al][pth] = shared
							changed = set(al, carrier) || changed
							if tgt != ssa.Value(al) {
								changed = set(tgt, carrier) || changed
							}
						}
					}
					if k := e.callResult(x, get, depth); k != none {
						if k == carrier && !cpKnown[x] {
							if ps, ok := e.lastPaths, e.lastPathsKnown; ok {
								cp[x], cpKnown[x] = ps.clone(), true
							}
						}
						changed = set(x, k) || changed
					}
				case *ssa.Convert:
					// []byte <-> string copies; pointer conversions keep identity
					if _, ok := x.Type().Underlying().(*types.Pointer); ok && get(x.X) != none {
						changed = set(x, shared) || changed
					}
				}
			}
		}
	}
	// sinks and escapes
	var retUnknown []bool
	var curRoot *Sink
	var curTarget ssa.Value
	addSink := func(in ssa.Instruction, kind string, path []string, field string) {
		res.sinks = append(res.sinks, Sink{Fn: fn, Instr: in, Kind: kind, Path: path, Field: field, Root: curRoot, Target: curTarget})
		curTarget = nil
	}
	e.setTarget = func(v ssa.Value) { curTarget = v }
	e.setRoot = func(r *Sink) { curRoot = r }
	for _, b := range fn.Blocks {
		for _, in := range b.Instrs {
			switch x := in.(type) {
			case *ssa.Store:
				ak := get(x.Addr)
				if ak == shared && !isLocalAddr(x.Addr) && el.cellOK(ir.Deref2(x.Addr.Type())) {
					f := fieldName(x.Addr)
					if e.IgnoreField != nil {
						if fv := fieldVar(x.Addr); fv != nil && e.IgnoreField(fv) {
							continue
						}
					}
					curTarget = x.Addr
					addSink(in, "store", nil, f)
				} else if get(x.Val) != none && !isLocalAddr(x.Addr) && ak == none {
					// shared pointer stored into other non-local memory: escape
					res.escapes = append(res.escapes, func() Escape {
						into, rel := relPath(fn, x.Addr)
						return Escape{Fn: fn, Instr: in, Field: fieldVar(x.Addr), Base: baseType(x.Addr), Into: into, Rel: rel}
					}())
				}
			case *ssa.MapUpdate:
				if get(x.Map) == shared {
					curTarget = x.Map
					addSink(in, "map-update", nil, "")
				} else if (get(x.Value) != none || get(x.Key) != none) && get(x.Map) == none {
					res.escapes = append(res.escapes, Escape{Fn: fn, Instr: in, Into: -1})
				}
			case *ssa.Send:
				if get(x.X) != none {
					res.escapes = append(res.escapes, Escape{Fn: fn, Instr: in, Into: -1})
				}
			case *ssa.Return:
				for i, r := range x.Results {
					k := get(r)
					if k == shared || (k == carrier && res.retShared == none) {
						res.retShared = k
					}
					for len(res.retAt) <= i {
						res.retAt = append(res.retAt, none)
					}
					if k > res.retAt[i] {
						res.retAt[i] = k
					}
					for len(res.retPaths) <= i {
						res.retPaths = append(res.retPaths, pathSet{})
						retUnknown = append(retUnknown, false)
					}
					if k == carrier {
						if ps, ok := pathsOf(stripLoads(r)); ok && !retUnknown[i] {
							for p := range ps {
								res.retPaths[i][p] = true
							}
						} else {
							retUnknown[i] = true
							res.retPaths[i] = nil
						}
					}
				}
			case *ssa.Call:
				e.callSinks(fn, x, x.Common(), get, depth, addSink, &res)
			case *ssa.Defer:
				e.callSinks(fn, x, x.Common(), get, depth, addSink, &res)
			case *ssa.Go:
				e.callSinks(fn, x, x.Common(), get, depth, addSink, &res)
			}
		}
	}
	res.taint = t
	return res
}

func rootAlloc(v ssa.Value) *ssa.Alloc {
	for i := 0; i < 10; i++ {
		switch x := v.(type) {
		case *ssa.Alloc:
			return x
		case *ssa.FieldAddr:
			v = x.X
		case *ssa.IndexAddr:
			// index into a local array (not through a slice/pointer load)
			if _, ok := x.X.Type().Underlying().(*types.Pointer); ok {
				v = x.X
			} else {
				return nil
			}
		default:
			return nil
		}
	}
	return nil
}

func fieldVar(addr ssa.Value) *types.Var {
	switch x := addr.(type) {
	case *ssa.FieldAddr:
		return ir.FieldOf(x)
	case *ssa.IndexAddr:
		return fieldVar(x.X)
	case *ssa.UnOp:
		return fieldVar(x.X)
	}
	return nil
}

func fieldName(addr ssa.Value) string {
	switch x := addr.(type) {
	case *ssa.FieldAddr:
		return ir.FieldKey(x.X.Type(), ir.FieldOf(x))
	case *ssa.IndexAddr:
		if f := fieldName(x.X); f != "" {
			return f + "[i]"
		}
		return "element"
	case *ssa.UnOp:
		return fieldName(x.X)
	}
	return ""
}

func baseType(addr ssa.Value) types.Type {
	if fa, ok := addr.(*ssa.FieldAddr); ok {
		return ir.Deref(fa.X.Type())
	}
	return nil
}

// ---- calls --------------------------------------------------------------------

// externalAlias: external functions whose result aliases the given argument index.
func externalAlias(name string) []int {
	switch {
	case name == "append":
		return []int{0}
	case name == "bytes.NewBuffer", name == "bytes.NewReader", name == "bytes.TrimSpace", name == "bytes.TrimRight", name == "bytes.TrimLeft", name == "bytes.Trim", name == "bytes.TrimPrefix", name == "bytes.TrimSuffix":
		return []int{0}
	case strings.HasPrefix(name, "slices.Grow"), strings.HasPrefix(name, "slices.Insert"), strings.HasPrefix(name, "slices.Delete"), strings.HasPrefix(name, "slices.Compact"), strings.HasPrefix(name, "slices.Clip"):
		return []int{0}
	case name == "(net.IP).To4", name == "(net.IP).To16", name == "(net.IP).Mask":
		return []int{0}
	case name == "(*bytes.Buffer).Bytes", name == "(*bytes.Buffer).Next":
		return []int{0}
	}
	return nil
}

// externalWrites: external functions that write through the given argument index.
func externalWrites(name string) []int {
	switch {
	case name == "copy":
		return []int{0}
	case name == "clear", name == "delete":
		return []int{0}
	case strings.HasPrefix(name, "sort.") && !strings.HasPrefix(name, "sort.Search") && !strings.Contains(name, "IsSorted"):
		return []int{0}
	case strings.HasPrefix(name, "slices.Sort"), strings.HasPrefix(name, "slices.Reverse"), strings.HasPrefix(name, "slices.Insert"), strings.HasPrefix(name, "slices.Delete"), strings.HasPrefix(name, "slices.Compact"), strings.HasPrefix(name, "slices.Replace"):
		return []int{0}
	case strings.HasPrefix(name, "(encoding/binary.bigEndian).PutUint"), strings.HasPrefix(name, "(encoding/binary.littleEndian).PutUint"), strings.HasPrefix(name, "(encoding/binary.ByteOrder).PutUint"):
		return []int{1}
	case strings.HasPrefix(name, "(encoding/binary.bigEndian).AppendUint"), strings.HasPrefix(name, "(encoding/binary.littleEndian).AppendUint"):
		return []int{1}
	case name == "io.ReadFull", name == "io.ReadAtLeast":
		return []int{1}
	case name == "encoding/hex.Decode", name == "encoding/hex.Encode", name == "encoding/base64.(*Encoding).Decode":
		return []int{0}
	case name == "encoding/json.Unmarshal":
		return []int{1}
	case name == "maps.Copy", name == "maps.DeleteFunc":
		return []int{0}
	case name == "(*bytes.Buffer).Write", name == "(*bytes.Buffer).WriteByte", name == "(*bytes.Buffer).WriteString", name == "(*bytes.Buffer).Reset", name == "(*bytes.Buffer).Truncate", name == "(*bytes.Buffer).Read", name == "(*bytes.Buffer).ReadByte":
		return []int{0}
	case name == "(*strings.Builder).WriteString", name == "(*strings.Builder).WriteByte", name == "(*strings.Builder).Write", name == "(*strings.Builder).WriteRune":
		return []int{0}
	}
	return nil
}

func calleeName(c *ssa.CallCommon) string {
	if b, ok := c.Value.(*ssa.Builtin); ok {
		return b.Name()
	}
	if f := c.StaticCallee(); f != nil {
		if o := f.Origin(); o != nil {
			f = o
		}
		s := f.String()
		return s
	}
	if c.IsInvoke() {
		return "(" + types.TypeString(c.Value.Type(), nil) + ")." + c.Method.Name()
	}
	return ""
}

// args returns the argument list including the receiver for invoke-mode calls.
func allArgs(c *ssa.CallCommon) []ssa.Value {
	if c.IsInvoke() {
		return append([]ssa.Value{c.Value}, c.Args...)
	}
	return c.Args
}

// escapeTargets: the arguments of the call whose memory receives a tainted pointer inside a callee
// (callee stores parameter i, tainted here, into memory reachable from parameter j).
type escTarget struct {
	v   ssa.Value
	rel string
}

func (e *Eng) escapeTargets(call *ssa.Call, get func(ssa.Value) kind, depth int) []escTarget {
	c := call.Common()
	if _, isB := c.Value.(*ssa.Builtin); isB {
		return nil
	}
	args := allArgs(c)
	any := false
	for _, a := range args {
		if get(a) != none {
			any = true
		}
	}
	if !any {
		return nil
	}
	var out []escTarget
	for _, callee := range e.P.Callees(call) {
		if callee.Blocks == nil || !e.P.InModule(callee) {
			continue
		}
		for i, a := range args {
			if get(a) == none || i >= len(callee.Params) {
				continue
			}
			var aps pathSet
			if get(a) == carrier && e.pathsOf != nil {
				if ps, ok := e.pathsOf(a); ok {
					aps = ps
					if aps == nil {
						aps = pathSet{}
					}
				}
			}
			savedL, savedK := e.lastPaths, e.lastPathsKnown
			sm := e.sumP(callee, i, depth+1, get(a), e.cur, aps)
			e.lastPaths, e.lastPathsKnown = savedL, savedK
			for _, es := range sm.escapes {
				if es.Into >= 0 && es.Into != i && es.Into < len(args) {
					out = append(out, escTarget{args[es.Into], es.Rel})
				}
			}
		}
	}
	return out
}

func (e *Eng) callResult(call *ssa.Call, get func(ssa.Value) kind, depth int) kind {
	return e.callResultAt(call, get, depth, -1)
}

// callResultAt: kind of result number ri of the call (-1: any result).
func (e *Eng) callResultAt(call *ssa.Call, get func(ssa.Value) kind, depth int, ri int) kind {
	c := call.Common()
	args := allArgs(c)
	any := false
	for _, a := range args {
		if get(a) != none {
			any = true
		}
	}
	// calling a closure that captured shared memory
	if get(c.Value) != none && !c.IsInvoke() {
		any = true
	}
	if !any {
		return none
	}
	rt := call.Type()
	if tup, ok := rt.(*types.Tuple); ok && ri >= 0 && ri < tup.Len() {
		rt = tup.At(ri).Type()
	}
	rk := kindFor(rt)
	if rk == none {
		return none
	}
	at := func(s *summary) kind {
		if ri < 0 {
			return s.alias
		}
		if ri < len(s.aliasAt) {
			return s.aliasAt[ri]
		}
		if !s.done {
			return s.alias
		}
		return none
	}
	name := calleeName(c)
	if _, isB := c.Value.(*ssa.Builtin); isB {
		for _, i := range externalAlias(name) {
			if i < len(args) && get(args[i]) != none {
				return rk
			}
		}
		// append copies the appended elements: pointers they hold are retained by the result
		// NOTE: append(x, elems...) with only elems tainted yields none: propagating it (as a fresh carrier)
		// needs per-path kinds in summaries to avoid treating every slice later loaded from the receiving
		// object as shared memory (tried; 26 false alarms in E2b). Rules that need "pointer stored
		// anywhere" use props.storesPointer instead.
		return none
	}
	callees := e.P.Callees(call)
	if len(callees) == 0 {
		return rk // unknown callee: assume it may return its argument
	}
	best := none
	e.lastPaths, e.lastPathsKnown = pathSet{}, true
	note := func(sm *summary) kind {
		k := at(sm)
		if k == carrier {
			idx := ri
			if idx < 0 {
				idx = 0
			}
			if idx < len(sm.pathsAt) && sm.pathsAt[idx] != nil && sm.done {
				for p := range sm.pathsAt[idx] {
					e.lastPaths[p] = true
				}
			} else {
				e.lastPathsKnown = false
			}
		}
		return k
	}
	argPaths := func(a ssa.Value) pathSet {
		if e.pathsOf == nil {
			return nil
		}
		if ps, ok := e.pathsOf(a); ok {
			if ps == nil {
				return pathSet{}
			}
			return ps
		}
		return nil
	}
	for _, callee := range callees {
		if callee.Blocks == nil || !e.P.InModule(callee) {
			for _, i := range externalAlias(calleeName(c)) {
				if i < len(args) && get(args[i]) != none {
					return rk
				}
			}
			// external generic helpers operating on our slices: result may alias (conservative for slices.* / bytes.*)
			continue
		}
		for i, a := range args {
			if get(a) == none {
				continue
			}
			if i < len(callee.Params) {
				savedL, savedK := e.lastPaths, e.lastPathsKnown
				sm := e.sumP(callee, i, depth+1, get(a), e.cur, argPaths(a))
				e.lastPaths, e.lastPathsKnown = savedL, savedK
				if k := note(sm); k > best {
					best = k
				}
			}
		}
		if mc, ok := c.Value.(*ssa.MakeClosure); ok {
			for i, bnd := range mc.Bindings {
				if get(bnd) != none {
					savedL, savedK := e.lastPaths, e.lastPathsKnown
					sm := e.sum(callee, -1-i, depth+1, shared, e.cur)
					e.lastPaths, e.lastPathsKnown = savedL, savedK
					if k := note(sm); k > best {
						best = k
					}
				}
			}
		}
	}
	if best == shared {
		return rk
	}
	if best == carrier {
		return carrier
	}
	return none
}

func (e *Eng) callSinks(fn *ssa.Function, in ssa.Instruction, c *ssa.CallCommon, get func(ssa.Value) kind, depth int,
	addSink func(ssa.Instruction, string, []string, string), res *result) {
	el := e.cur
	setRoot := e.setRoot
	args := allArgs(c)
	name := calleeName(c)
	if _, isB := c.Value.(*ssa.Builtin); isB {
		for _, i := range externalWrites(name) {
			if i < len(args) && get(args[i]) == shared && el.cellOK(elemType(args[i].Type())) {
				e.setTarget(args[i])
				addSink(in, name, nil, fieldName(args[i]))
			}
		}
		if name == "append" && len(args) > 0 && get(args[0]) == shared && el.cellOK(elemType(args[0].Type())) {
			e.setTarget(args[0])
			addSink(in, "append", nil, fieldName(args[0]))
		}
		return
	}
	anyShared := false
	for _, a := range args {
		if get(a) != none {
			anyShared = true
		}
	}
	var closureBind []ssa.Value
	if mc, ok := c.Value.(*ssa.MakeClosure); ok {
		closureBind = mc.Bindings
		for _, b := range mc.Bindings {
			if get(b) != none {
				anyShared = true
			}
		}
	}
	// closures passed as arguments (synchronous callback model): their captured shared memory
	for _, a := range args {
		if mc, ok := a.(*ssa.MakeClosure); ok {
			cl := mc.Fn.(*ssa.Function)
			for i, b := range mc.Bindings {
				if get(b) == none {
					continue
				}
				s := e.sum(cl, -1-i, depth+1, shared, el)
				for _, w := range s.writes {
					w := w
					setRoot(&w)
					addSink(in, "via:"+ir.FuncKey(cl), append([]string{describe(e.P, w)}, w.Path...), w.Field)
					setRoot(nil)
				}
			}
		}
	}
	if !anyShared {
		return
	}
	var callees []*ssa.Function
	if ci, ok := in.(ssa.CallInstruction); ok {
		callees = e.P.Callees(ci)
	}
	for _, callee := range callees {
		if callee.Blocks == nil || !e.P.InModule(callee) {
			cn := name
			if cn == "" {
				cn = callee.String()
			}
			if callee.Pkg != nil && (callee.Pkg.Pkg.Path() == "sync" || callee.Pkg.Pkg.Path() == "sync/atomic") {
				continue
			}
			for _, i := range externalWrites(cn) {
				if i < len(args) && get(args[i]) == shared && el.cellOK(elemType(args[i].Type())) {
					e.setTarget(args[i])
					addSink(in, "mutator:"+cn, nil, fieldName(args[i]))
				}
			}
			continue
		}
		for i, a := range args {
			if get(a) == none || i >= len(callee.Params) {
				continue
			}
			var aps pathSet
			if get(a) == carrier && e.pathsOf != nil {
				if ps, ok := e.pathsOf(a); ok {
					aps = ps
					if aps == nil {
						aps = pathSet{}
					}
				}
			}
			s := e.sumP(callee, i, depth+1, get(a), el, aps)
			for _, w := range s.writes {
				w := w
				setRoot(&w)
				p := append([]string{describe(e.P, w)}, w.Path...)
				if len(p) > 8 {
					p = p[len(p)-8:]
				}
				addSink(in, "via:"+ir.FuncKey(callee), p, w.Field)
				setRoot(nil)
			}
			for _, es := range s.escapes {
				if es.Into >= 0 && es.Into < len(args) {
					into, rel := relPath(fn, args[es.Into])
					es.Into, es.Rel = into, rel+es.Rel
				} else {
					es.Into, es.Rel = -1, ""
				}
				res.escapes = append(res.escapes, es)
			}
		}
		for i, b := range closureBind {
			if get(b) == none {
				continue
			}
			s := e.sum(callee, -1-i, depth+1, shared, el)
			for _, w := range s.writes {
				w := w
				setRoot(&w)
				addSink(in, "via:"+ir.FuncKey(callee), append([]string{describe(e.P, w)}, w.Path...), w.Field)
				setRoot(nil)
			}
		}
	}
}

func describe(p *ir.Program, s Sink) string {
	return fmt.Sprintf("%s %s at %s in %s", s.Kind, s.Field, p.InstrPos(s.Instr), ir.FuncKey(s.Fn))
}

// Describe renders a sink.
func (e *Eng) Describe(s Sink) string { return describe(e.P, s) }

// Dedup sorts and removes duplicate sinks (same instruction and kind).
func Dedup(p *ir.Program, in []Sink) []Sink {
	seen := map[string]bool{}
	var out []Sink
	for _, s := range in {
		k := fmt.Sprintf("%p|%s", s.Instr, s.Kind)
		if !seen[k] {
			seen[k] = true
			out = append(out, s)
		}
	}
	sort.SliceStable(out, func(i, j int) bool { return p.InstrPos(out[i].Instr) < p.InstrPos(out[j].Instr) })
	return out
}


// ResetDone lets summaries be recomputed using the previous results as the assumption
// for recursive cycles (call between rounds until Changed() is false).
func (e *Eng) ResetDone() {
	for _, s := range e.sums {
		s.done = false
	}
}


// addrPath returns the local allocation an address points into and the field path to it.
func addrPath(v ssa.Value) (*ssa.Alloc, string) {
	var parts []string
	for i := 0; i < 12; i++ {
		switch x := v.(type) {
		case *ssa.Alloc:
			p := ""
			for j := len(parts) - 1; j >= 0; j-- {
				p += parts[j]
			}
			return x, p
		case *ssa.FieldAddr:
			parts = append(parts, fmt.Sprintf(".%d", x.Field))
			v = x.X
		case *ssa.IndexAddr:
			if _, ok := x.X.Type().Underlying().(*types.Pointer); ok {
				parts = append(parts, "[]")
				v = x.X
			} else {
				return nil, ""
			}
		default:
			return nil, ""
		}
	}
	return nil, ""
}

func pathCompat(stored map[string]bool, p string) bool {
	for s := range stored {
		if strings.HasPrefix(p, s) || strings.HasPrefix(s, p) {
			return true
		}
	}
	return false
}


// elemSet is the set of cell types the shared memory under analysis consists of
// (nil = unknown: anything). It prunes loads out of fresh containers whose type
// cannot point into that memory (a []BGPAttrType cannot alias a []byte).
type elemSet struct {
	types []types.Type
}

func (s *elemSet) sig() string {
	if s == nil {
		return "*"
	}
	var parts []string
	for _, t := range s.types {
		parts = append(parts, types.TypeString(t, nil))
	}
	sort.Strings(parts)
	return strings.Join(parts, ",")
}

func (s *elemSet) union(o *elemSet) *elemSet {
	if s == nil {
		return o
	}
	if o == nil {
		return nil
	}
	return &elemSet{types: append(append([]types.Type{}, s.types...), o.types...)}
}

// elemsOf: for a slice of scalars the element type; otherwise unknown.
func elemsOf(t types.Type) *elemSet {
	if sl, ok := t.Underlying().(*types.Slice); ok {
		if _, basic := sl.Elem().Underlying().(*types.Basic); basic {
			return &elemSet{types: []types.Type{sl.Elem()}}
		}
	}
	return nil
}

func (s *elemSet) canHold(t types.Type) bool {
	if s == nil {
		return true
	}
	return canReach(t, s.types, map[types.Type]bool{}, 0)
}

func canReach(t types.Type, elems []types.Type, seen map[types.Type]bool, d int) bool {
	if seen[t] || d > 8 {
		return false
	}
	seen[t] = true
	for _, e := range elems {
		if types.Identical(t, e) {
			return true
		}
	}
	switch u := t.Underlying().(type) {
	case *types.Slice:
		return canReach(u.Elem(), elems, seen, d+1)
	case *types.Array:
		return canReach(u.Elem(), elems, seen, d+1)
	case *types.Pointer:
		return canReach(u.Elem(), elems, seen, d+1)
	case *types.Map:
		return canReach(u.Elem(), elems, seen, d+1) || canReach(u.Key(), elems, seen, d+1)
	case *types.Struct:
		for i := 0; i < u.NumFields(); i++ {
			if canReach(u.Field(i).Type(), elems, seen, d+1) {
				return true
			}
		}
	case *types.Interface, *types.Signature, *types.Chan:
		return true
	}
	return false
}


func elemType(t types.Type) types.Type {
	switch u := t.Underlying().(type) {
	case *types.Slice:
		return u.Elem()
	case *types.Pointer:
		return u.Elem()
	case *types.Map:
		return u.Elem()
	case *types.Array:
		return u.Elem()
	}
	return t
}

// cellOK: can a memory cell of type t belong to the shared region (inline containment only)?
func (s *elemSet) cellOK(t types.Type) bool {
	if s == nil {
		return true
	}
	return inlineReach(t, s.types, 0)
}

func inlineReach(t types.Type, elems []types.Type, d int) bool {
	if d > 6 {
		return true
	}
	for _, e := range elems {
		if types.Identical(t, e) {
			return true
		}
	}
	switch u := t.Underlying().(type) {
	case *types.Array:
		return inlineReach(u.Elem(), elems, d+1)
	case *types.Struct:
		for i := 0; i < u.NumFields(); i++ {
			if inlineReach(u.Field(i).Type(), elems, d+1) {
				return true
			}
		}
	}
	return false
}


// basePath walks FieldAddr/IndexAddr up to the pointer the address is derived from.
func basePath(v ssa.Value) (ssa.Value, string) {
	var parts []string
	for i := 0; i < 12; i++ {
		switch x := v.(type) {
		case *ssa.FieldAddr:
			parts = append(parts, fmt.Sprintf(".%d", x.Field))
			v = x.X
			continue
		case *ssa.IndexAddr:
			if _, ok := x.X.Type().Underlying().(*types.Pointer); ok {
				parts = append(parts, "[]")
				v = x.X
				continue
			}
			return nil, ""
		}
		break
	}
	if len(parts) == 0 {
		return nil, ""
	}
	p := ""
	for j := len(parts) - 1; j >= 0; j-- {
		p += parts[j]
	}
	return v, p
}

// stripLoads: a returned local variable is read back from its cell.
func stripLoads(v ssa.Value) ssa.Value {
	if u, ok := v.(*ssa.UnOp); ok && u.Op == token.MUL {
		if al, ok := u.X.(*ssa.Alloc); ok {
			var vals []ssa.Value
			for _, ref := range *al.Referrers() {
				if st, ok := ref.(*ssa.Store); ok && st.Addr == ssa.Value(al) {
					vals = append(vals, st.Val)
				}
			}
			if len(vals) == 1 {
				return vals[0]
			}
		}
	}
	return v
}
