// Package report collects rule instances (obligations), matches them against the
// reviewed known-findings file, and writes evidence/replay files.
package report

import (
	"encoding/json"
	"fmt"
	"os"
	"path/filepath"
	"sort"
	"strings"
	"time"
)

type Verdict string

const (
	OK        Verdict = "ok"
	Violation Verdict = "violation"
	Undecided Verdict = "undecided"
	Excepted  Verdict = "excepted" // reviewed exception, one symbol wide, with a reason
)

// Obl is one rule instance found in the program on this run.
type Obl struct {
	Rule      string   `json:"rule"`
	Func      string   `json:"function"`
	Construct string   `json:"construct"`
	Verdict   Verdict  `json:"verdict"`
	Pos       string   `json:"position"`
	Detail    string   `json:"detail,omitempty"`
	Witness   []string `json:"witness,omitempty"`
	Trivial   bool     `json:"-"`
}

func (o Obl) Key() string { return o.Rule + "|" + o.Func + "|" + o.Construct }

type ruleInfo struct {
	Doc   string
	Min   int
	Count int
	Bad   int
}

type Report struct {
	Prop        string
	Tier        string
	start       time.Time
	obls        []Obl
	seen        map[string]int
	rules       map[string]*ruleInfo
	ruleOrder   []string
	Explanation string
	NotDecided  string
	Assumptions []string
	Extra       map[string]any
	Exceptions  []map[string]string
	VerifDir    string
	knownKeys   map[string]bool
}

func New(prop, tier string) *Report {
	vd := os.Getenv("VERIF_DIR")
	if vd == "" {
		vd = "/verif"
	}
	return &Report{Prop: prop, Tier: tier, start: time.Now(), seen: map[string]int{}, rules: map[string]*ruleInfo{}, Extra: map[string]any{}, VerifDir: vd}
}

// Rule declares a rule, what it decides, and the minimum number of instances it
// must find (non-vacuity).
func (r *Report) Rule(id, doc string, min int) {
	if _, ok := r.rules[id]; !ok {
		r.ruleOrder = append(r.ruleOrder, id)
		r.rules[id] = &ruleInfo{}
	}
	r.rules[id].Doc = doc
	r.rules[id].Min = min
}

func (r *Report) Add(o Obl) {
	if _, ok := r.rules[o.Rule]; !ok {
		r.Rule(o.Rule, "", 0)
	}
	k := o.Key()
	if i, dup := r.seen[k]; dup {
		// same construct reached twice (e.g. two call sites of one callee in one function): keep the worst verdict
		if rank(o.Verdict) > rank(r.obls[i].Verdict) {
			if r.obls[i].Verdict == OK || r.obls[i].Verdict == Excepted {
				r.rules[o.Rule].Bad++
			}
			r.obls[i] = o
		}
		return
	}
	r.seen[k] = len(r.obls)
	r.obls = append(r.obls, o)
	ri := r.rules[o.Rule]
	ri.Count++
	if o.Verdict == Violation || o.Verdict == Undecided {
		ri.Bad++
	}
}

func rank(v Verdict) int {
	switch v {
	case OK:
		return 0
	case Excepted:
		return 1
	case Undecided:
		return 2
	case Violation:
		return 3
	}
	return 0
}

// Ok / Bad are conveniences.
func (r *Report) Ok(rule, fn, construct, pos, detail string) {
	r.Add(Obl{Rule: rule, Func: fn, Construct: construct, Verdict: OK, Pos: pos, Detail: detail})
}
func (r *Report) Bad(rule, fn, construct, pos, detail string, witness ...string) {
	r.Add(Obl{Rule: rule, Func: fn, Construct: construct, Verdict: Violation, Pos: pos, Detail: detail, Witness: witness})
}
func (r *Report) Undec(rule, fn, construct, pos, detail string) {
	r.Add(Obl{Rule: rule, Func: fn, Construct: construct, Verdict: Undecided, Pos: pos, Detail: detail})
}
func (r *Report) Except(rule, fn, construct, pos, reason string) {
	r.Add(Obl{Rule: rule, Func: fn, Construct: construct, Verdict: Excepted, Pos: pos, Detail: "reviewed exception: " + reason})
	r.Exceptions = append(r.Exceptions, map[string]string{"key": rule + "|" + fn + "|" + construct, "reason": reason})
}

// Count returns the number of instances of a rule so far.
// FailingRules: rules with at least one violation or undecided obligation so far (before known-finding matching).
func (r *Report) FailingRules() []string {
	set := map[string]bool{}
	for _, o := range r.obls {
		if o.Verdict == Violation || o.Verdict == Undecided {
			set[o.Rule] = true
		}
	}
	var out []string
	for k := range set {
		out = append(out, k)
	}
	sort.Strings(out)
	return out
}

func (r *Report) Count(rule string) int {
	if ri := r.rules[rule]; ri != nil {
		return ri.Count
	}
	return 0
}

// ---- known findings ---------------------------------------------------------

type Finding struct {
	Property string `json:"property"`
	Key      string `json:"key"`
	What     string `json:"what"`
}
type Fixed struct {
	Property string `json:"property"`
	Commit   string `json:"commit"`
	What     string `json:"what"`
	Key      string `json:"key,omitempty"`
}
type KnownFile struct {
	Comment  string    `json:"comment,omitempty"`
	Findings []Finding `json:"findings"`
	Fixed    []Fixed   `json:"fixed"`
}

func (r *Report) loadKnown() KnownFile {
	var kf KnownFile
	b, err := os.ReadFile(filepath.Join(r.VerifDir, "known_findings.json"))
	if err != nil {
		return kf
	}
	if err := json.Unmarshal(b, &kf); err != nil {
		fmt.Fprintf(os.Stderr, "known_findings.json unreadable: %v\n", err)
	}
	return kf
}

// IsKnown: the key is listed as a known finding for this property (used by rules that attribute an access moved into a
// helper to the listed function that still performs it through that helper).
func (r *Report) IsKnown(key string) bool {
	if r.knownKeys == nil {
		r.knownKeys = map[string]bool{}
		for _, f := range r.loadKnown().Findings {
			if f.Property == r.Prop {
				r.knownKeys[f.Key] = true
			}
		}
	}
	return r.knownKeys[key]
}

// Finish applies the non-vacuity thresholds, matches known findings, writes
// evidence and replay files, prints VIOLATION / KNOWN-FINDING lines and returns the
// process exit code.
func (r *Report) Finish(fatal error) int {
	evDir := filepath.Join(r.VerifDir, "evidence")
	os.MkdirAll(filepath.Join(evDir, "replay"), 0o755)
	// remove stale replay files of this property
	if old, _ := filepath.Glob(filepath.Join(evDir, "replay", r.Prop+"-*.json")); old != nil {
		for _, f := range old {
			os.Remove(f)
		}
	}
	if fatal != nil {
		r.Add(Obl{Rule: "E0.load", Func: "-", Construct: "program", Verdict: Undecided, Pos: "-", Detail: fatal.Error()})
	}
	for _, id := range r.ruleOrder {
		ri := r.rules[id]
		if ri.Count < ri.Min {
			r.Add(Obl{Rule: id, Func: "-", Construct: "non-vacuity", Verdict: Undecided, Pos: "-",
				Detail: fmt.Sprintf("rule matched %d instances, fewer than the %d confirmed by hand on the pinned tree: anchors moved or rule went blind", ri.Count, ri.Min)})
		}
	}
	kf := r.loadKnown()
	known := map[string]Finding{}
	for _, f := range kf.Findings {
		if f.Property == r.Prop {
			known[f.Key] = f
		}
	}
	sort.SliceStable(r.obls, func(i, j int) bool { return r.obls[i].Key() < r.obls[j].Key() })
	nviol, nknown, disch, nontriv := 0, 0, 0, 0
	var lines []string
	usedKnown := map[string]bool{}
	for _, o := range r.obls {
		if !o.Trivial {
			nontriv++
		}
		switch o.Verdict {
		case OK, Excepted:
			disch++
		case Violation, Undecided:
			if f, ok := known[o.Key()]; ok && o.Verdict == Violation {
				nknown++
				usedKnown[o.Key()] = true
				lines = append(lines, fmt.Sprintf("KNOWN-FINDING: property=%s %s — %s (%s)", r.Prop, o.Key(), f.What, o.Pos))
				continue
			}
			nviol++
			path := filepath.Join(evDir, "replay", fmt.Sprintf("%s-%d.json", r.Prop, nviol))
			b, _ := json.MarshalIndent(map[string]any{"property": r.Prop, "key": o.Key(), "obligation": o,
				"rule_doc": r.rules[o.Rule].Doc, "replay": "gbverif check " + r.Prop + " --only '" + o.Rule + "'"}, "", " ")
			os.WriteFile(path, b, 0o644)
			kind := ""
			if o.Verdict == Undecided {
				kind = " kind=undecided"
			}
			lines = append(lines, fmt.Sprintf("VIOLATION property=%s replay=%s%s rule=%s at %s in %s: %s — %s", r.Prop, path, kind, o.Rule, o.Pos, o.Func, o.Construct, o.Detail))
		}
	}
	var stale []string
	for k := range known {
		if !usedKnown[k] {
			stale = append(stale, k)
		}
	}
	sort.Strings(stale)

	// evidence
	type ruleOut struct {
		Rule      string `json:"rule"`
		Decides   string `json:"decides"`
		Instances int    `json:"instances"`
		Min       int    `json:"min_instances"`
		Failing   int    `json:"failing"`
	}
	var rules []ruleOut
	for _, id := range r.ruleOrder {
		ri := r.rules[id]
		rules = append(rules, ruleOut{id, ri.Doc, ri.Count, ri.Min, ri.Bad})
	}
	// samples: up to 3 per rule, plus every failing one (capped)
	var samples []Obl
	per := map[string]int{}
	for _, o := range r.obls {
		if o.Verdict == Violation || o.Verdict == Undecided {
			if len(samples) < 200 {
				samples = append(samples, o)
			}
			continue
		}
		if per[o.Rule] < 3 {
			per[o.Rule]++
			samples = append(samples, o)
		}
	}
	cov := map[string]any{
		"explanation":         r.Explanation,
		"not_decided":         r.NotDecided,
		"obligations":         len(r.obls),
		"discharged":          disch,
		"evaluations":         len(r.obls),
		"distinct_nontrivial": nontriv,
		"rule":                "an obligation is one (rule, function, construct) instance enumerated from the SSA/AST of /repo on this run; distinct by that key; non-trivial unless the rule had nothing to examine at that construct (marked by the engine)",
		"samples":             samples,
		"exhaustive":          true,
		"rules":               rules,
		"known_findings":      nknown,
		"stale_known_findings": stale,
		"exceptions_used":     r.Exceptions,
	}
	for k, v := range r.Extra {
		cov[k] = v
	}
	ev := map[string]any{
		"property_id": r.Prop,
		"tier":        r.Tier,
		"seed":        0,
		"level":       "other",
		"coverage":    cov,
		"assumptions": append([]string{
			"go/types, go/ssa (x/tools v0.29.0) and the VTA call graph are a faithful, over-approximating reading of the source",
			"no reflection / unsafe / cgo / linkname on the analysed paths changes the callees or fields the analysis sees",
			"only the structural clause named in 'explanation' is decided; the behavioural property as a whole is not",
		}, r.Assumptions...),
		"wall_s":     time.Since(r.start).Seconds(),
		"violations": nviol,
	}
	b, _ := json.MarshalIndent(ev, "", " ")
	if err := os.WriteFile(filepath.Join(evDir, r.Prop+".json"), b, 0o644); err != nil {
		fmt.Fprintln(os.Stderr, "cannot write evidence:", err)
		return 2
	}
	for _, id := range r.ruleOrder {
		ri := r.rules[id]
		fmt.Printf("rule %-34s instances=%-5d failing=%d\n", id, ri.Count, ri.Bad)
	}
	for _, l := range lines {
		fmt.Println(l)
	}
	for _, k := range stale {
		fmt.Printf("note: known finding no longer observed (fixed or moved): %s\n", k)
	}
	fmt.Printf("%s tier=%s obligations=%d discharged=%d known=%d violations=%d wall=%.1fs\n", r.Prop, r.Tier, len(r.obls), disch, nknown, nviol, time.Since(r.start).Seconds())
	if nviol > 0 {
		return 1
	}
	return 0
}

// Only filters obligations to rules with a given prefix (used by replay).
func (r *Report) Only(prefix string) {
	if prefix == "" {
		return
	}
	var keep []Obl
	for _, o := range r.obls {
		if strings.HasPrefix(o.Rule, prefix) {
			keep = append(keep, o)
		}
	}
	r.obls = keep
}

// All returns every obligation recorded so far.
func (r *Report) All() []Obl { return r.obls }
