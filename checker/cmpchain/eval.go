// Package cmpchain implements engine E7: a small symbolic evaluator for pairwise
// comparators. A comparator touches its two arguments only through comparisons of key
// terms, so its behaviour over all inputs is a finite decision table over atoms
// (a<b, a==b, boolean keys). The evaluator walks the SSA of the comparator under every
// consistent truth assignment of the atoms it meets (discovered lazily), which is enough
// to decide, per stage: mirror (anti)symmetry f(x,y) = swap(f(y,x)), and the preferred
// direction of each key. Nothing is executed and no solver is used.
package cmpchain

import (
	"fmt"
	"go/constant"
	"go/token"
	"go/types"
	"sort"
	"strings"

	"golang.org/x/tools/go/ssa"
)

// Result of a comparator run.
type Result string

const (
	First   Result = "first"  // returns its first argument
	Second  Result = "second" // returns its second argument
	Neither Result = "nil"
	True    Result = "true"
	False   Result = "false"
	Unknown Result = "?"
)

func (r Result) Swap() Result {
	switch r {
	case First:
		return Second
	case Second:
		return First
	}
	return r
}

// Outcome is one row of the decision table.
type Outcome struct {
	Assign map[string]bool
	Res    Result
}

func (o Outcome) String() string {
	var ks []string
	for k, v := range o.Assign {
		if v {
			ks = append(ks, k)
		} else {
			ks = append(ks, "¬"+k)
		}
	}
	sort.Strings(ks)
	return "{" + strings.Join(ks, " ∧ ") + "} → " + string(o.Res)
}

type Eval struct {
	Problems []string // constructs the evaluator could not read (make the stage undecided)
	budget   int
}

type frame struct {
	fn  *ssa.Function
	env map[ssa.Value]string // parameters and free variables → symbolic names
}

type assign struct {
	m map[string]bool
}

func (a *assign) clone() *assign {
	n := &assign{m: make(map[string]bool, len(a.m))}
	for k, v := range a.m {
		n.m[k] = v
	}
	return n
}

// ---- terms --------------------------------------------------------------------

func (e *Eval) problem(format string, a ...any) {
	if len(e.Problems) < 20 {
		e.Problems = append(e.Problems, fmt.Sprintf(format, a...))
	}
}

// term renders an SSA value as a canonical expression over the symbolic arguments.
func (e *Eval) term(fr *frame, v ssa.Value, depth int) string {
	return strings.ReplaceAll(e.term0(fr, v, depth), "*&", "")
}

func (e *Eval) term0(fr *frame, v ssa.Value, depth int) string {
	if depth > 25 {
		return "…"
	}
	if s, ok := fr.env[v]; ok {
		return s
	}
	switch x := v.(type) {
	case *ssa.Const:
		if x.Value == nil {
			return "nil"
		}
		return x.Value.ExactString()
	case *ssa.Parameter:
		return "param:" + x.Name()
	case *ssa.FreeVar:
		return "free:" + x.Name()
	case *ssa.Global:
		return "g:" + x.Name()
	case *ssa.UnOp:
		switch x.Op {
		case token.MUL:
			if a, ok := x.X.(*ssa.Alloc); ok {
				// local variable cell: its single store
				var vals []ssa.Value
				for _, ref := range *a.Referrers() {
					if st, ok := ref.(*ssa.Store); ok && st.Addr == ssa.Value(a) {
						vals = append(vals, st.Val)
					}
				}
				if len(vals) == 1 {
					return e.term(fr, vals[0], depth+1)
				}
			}
			return "*" + e.term(fr, x.X, depth+1)
		case token.NOT:
			return "!" + e.term(fr, x.X, depth+1)
		case token.SUB:
			return "-" + e.term(fr, x.X, depth+1)
		}
		return x.Op.String() + e.term(fr, x.X, depth+1)
	case *ssa.FieldAddr:
		st := deref(x.X.Type()).Underlying().(*types.Struct)
		return e.term(fr, x.X, depth+1) + "." + st.Field(x.Field).Name()
	case *ssa.Field:
		st := x.X.Type().Underlying().(*types.Struct)
		return e.term(fr, x.X, depth+1) + "." + st.Field(x.Field).Name()
	case *ssa.IndexAddr:
		return e.term(fr, x.X, depth+1) + "[" + e.term(fr, x.Index, depth+1) + "]"
	case *ssa.Index:
		return e.term(fr, x.X, depth+1) + "[" + e.term(fr, x.Index, depth+1) + "]"
	case *ssa.Call:
		return e.callTerm(fr, x, depth)
	case *ssa.Extract:
		return e.term(fr, x.Tuple, depth+1) + "#" + fmt.Sprint(x.Index)
	case *ssa.BinOp:
		return "(" + e.term(fr, x.X, depth+1) + x.Op.String() + e.term(fr, x.Y, depth+1) + ")"
	case *ssa.ChangeType:
		return e.term(fr, x.X, depth+1)
	case *ssa.Convert:
		return e.term(fr, x.X, depth+1)
	case *ssa.MakeInterface:
		return e.term(fr, x.X, depth+1)
	case *ssa.ChangeInterface:
		return e.term(fr, x.X, depth+1)
	case *ssa.TypeAssert:
		return "assert(" + e.term(fr, x.X, depth+1) + ")"
	case *ssa.Slice:
		return e.term(fr, x.X, depth+1) + "[:]"
	case *ssa.Function:
		return "func:" + x.Name()
	case *ssa.Alloc:
		// a cell holding one of the symbolic arguments (captured parameter)
		var vals []ssa.Value
		for _, ref := range *x.Referrers() {
			if st, ok := ref.(*ssa.Store); ok && st.Addr == ssa.Value(x) {
				vals = append(vals, st.Val)
			}
		}
		if len(vals) == 1 {
			if s, ok := fr.env[vals[0]]; ok {
				return "&" + s
			}
		}
		return "alloc:" + x.Comment
	case *ssa.MakeClosure:
		return "closure:" + x.Fn.Name()
	case *ssa.Phi:
		return "phi:" + x.Name() + "@" + x.Parent().Name()
	}
	return fmt.Sprintf("%T:%s", v, v.Name())
}

func deref(t types.Type) types.Type {
	if p, ok := t.Underlying().(*types.Pointer); ok {
		return p.Elem()
	}
	return t
}

func (e *Eval) callTerm(fr *frame, c *ssa.Call, depth int) string {
	var name string
	var args []string
	for _, a := range c.Call.Args {
		args = append(args, e.term(fr, a, depth+1))
	}
	switch f := c.Call.Value.(type) {
	case *ssa.Function:
		name = f.Name()
	case *ssa.Builtin:
		name = f.Name()
	case *ssa.MakeClosure:
		fn := f.Fn.(*ssa.Function)
		name = "λ" + fn.Name()
		for _, b := range f.Bindings {
			args = append(args, e.term(fr, b, depth+1))
		}
	default:
		if c.Call.IsInvoke() {
			name = c.Call.Method.Name()
			args = append([]string{e.term(fr, c.Call.Value, depth+1)}, args...)
		} else {
			name = "dyn:" + e.term(fr, c.Call.Value, depth+1)
		}
	}
	// symmetric binary predicates
	if name == "Equal" && len(args) == 2 {
		sort.Strings(args)
	}
	return name + "(" + strings.Join(args, ",") + ")"
}

// ---- atoms ----------------------------------------------------------------------

// lit is an atom with polarity.
type lit struct {
	key string
	neg bool
}

// cmpLit canonicalises a comparison into LT / EQ atoms.
func cmpLit(op token.Token, a, b string) (lit, bool) {
	// three-way Compare() results against 0
	unwrap := func(t string) (string, string, bool) {
		if strings.HasPrefix(t, "Compare(") && strings.HasSuffix(t, ")") {
			inner := t[len("Compare(") : len(t)-1]
			parts := splitTop(inner)
			if len(parts) == 2 {
				return parts[0], parts[1], true
			}
		}
		return "", "", false
	}
	if x, y, ok := unwrap(a); ok && b == "0" {
		a, b = x, y
	} else if x, y, ok := unwrap(b); ok && a == "0" {
		// 0 OP Compare(x,y)  ==  Compare(x,y) OP' 0
		a, b = y, x
	}
	lt := func(x, y string) lit { return lit{key: "LT(" + x + "," + y + ")"} }
	eq := func(x, y string) lit {
		if y < x {
			x, y = y, x
		}
		return lit{key: "EQ(" + x + "," + y + ")"}
	}
	switch op {
	case token.LSS:
		return lt(a, b), true
	case token.GTR:
		return lt(b, a), true
	case token.LEQ:
		l := lt(b, a)
		l.neg = true
		return l, true
	case token.GEQ:
		l := lt(a, b)
		l.neg = true
		return l, true
	case token.EQL:
		return eq(a, b), true
	case token.NEQ:
		l := eq(a, b)
		l.neg = true
		return l, true
	}
	return lit{}, false
}

func splitTop(s string) []string {
	var out []string
	depth, start := 0, 0
	for i, r := range s {
		switch r {
		case '(', '[':
			depth++
		case ')', ']':
			depth--
		case ',':
			if depth == 0 {
				out = append(out, s[start:i])
				start = i + 1
			}
		}
	}
	return append(out, s[start:])
}

// consistent checks trichotomy and reflexivity for the atoms assigned so far.
func consistent(a *assign) bool {
	for k, v := range a.m {
		if strings.HasPrefix(k, "LT(") {
			p := splitTop(k[3 : len(k)-1])
			if len(p) != 2 {
				continue
			}
			if p[0] == p[1] && v {
				return false
			}
			if v {
				if w, ok := a.m["LT("+p[1]+","+p[0]+")"]; ok && w {
					return false
				}
				x, y := p[0], p[1]
				if y < x {
					x, y = y, x
				}
				if w, ok := a.m["EQ("+x+","+y+")"]; ok && w {
					return false
				}
			} else {
				// ¬(a<b) ∧ ¬(b<a) ∧ ¬(a==b) is impossible
				x, y := p[0], p[1]
				if y < x {
					x, y = y, x
				}
				w1, ok1 := a.m["LT("+p[1]+","+p[0]+")"]
				w2, ok2 := a.m["EQ("+x+","+y+")"]
				if ok1 && ok2 && !w1 && !w2 {
					return false
				}
			}
		}
		if strings.HasPrefix(k, "EQ(") {
			p := splitTop(k[3 : len(k)-1])
			if len(p) == 2 && p[0] == p[1] && !v {
				return false
			}
		}
	}
	return true
}

// ---- interpretation ---------------------------------------------------------------

// Run enumerates the decision table of fn with its first two parameters named s1, s2.
func (e *Eval) Run(fn *ssa.Function, s1, s2 string) []Outcome {
	e.budget = 20000
	fr := &frame{fn: fn, env: map[ssa.Value]string{}}
	if len(fn.Params) >= 2 {
		fr.env[fn.Params[0]] = s1
		fr.env[fn.Params[1]] = s2
	}
	var out []Outcome
	e.walk(fr, fn.Blocks[0], nil, &assign{m: map[string]bool{}}, map[*ssa.Phi]ssa.Value{}, func(a *assign, res Result) {
		out = append(out, Outcome{Assign: a.m, Res: res})
	}, 0)
	return out
}

// RunUnder evaluates fn under a (possibly partial) assignment; atoms not fixed are explored.
func (e *Eval) RunUnder(fn *ssa.Function, s1, s2 string, fixed map[string]bool) []Outcome {
	e.budget = 20000
	fr := &frame{fn: fn, env: map[ssa.Value]string{}}
	if len(fn.Params) >= 2 {
		fr.env[fn.Params[0]] = s1
		fr.env[fn.Params[1]] = s2
	}
	a := &assign{m: map[string]bool{}}
	for k, v := range fixed {
		a.m[k] = v
	}
	var out []Outcome
	e.walk(fr, fn.Blocks[0], nil, a, map[*ssa.Phi]ssa.Value{}, func(a *assign, res Result) {
		out = append(out, Outcome{Assign: a.m, Res: res})
	}, 0)
	return out
}

type kont func(a *assign, res Result)

func (e *Eval) walk(fr *frame, b, pred *ssa.BasicBlock, a *assign, phis map[*ssa.Phi]ssa.Value, k kont, depth int) {
	e.budget--
	if e.budget < 0 || depth > 400 {
		e.problem("evaluation budget exhausted in %s (loop or too many paths)", fr.fn.Name())
		return
	}
	// resolve phis by the edge taken
	ph := phis
	if pred != nil {
		ph = make(map[*ssa.Phi]ssa.Value, len(phis)+2)
		for k2, v := range phis {
			ph[k2] = v
		}
		idx := -1
		for i, p := range b.Preds {
			if p == pred {
				idx = i
			}
		}
		for _, in := range b.Instrs {
			if phi, ok := in.(*ssa.Phi); ok && idx >= 0 {
				v := phi.Edges[idx]
				if p2, ok := v.(*ssa.Phi); ok {
					if r, ok := phis[p2]; ok {
						v = r
					}
				}
				ph[phi] = v
			}
		}
	}
	last := b.Instrs[len(b.Instrs)-1]
	switch x := last.(type) {
	case *ssa.Return:
		if len(x.Results) == 0 {
			k(a, Unknown)
			return
		}
		e.result(fr, x.Results[0], a, ph, k, depth)
	case *ssa.If:
		e.truth(fr, x.Cond, a, ph, func(a2 *assign, v bool) {
			if v {
				e.walk(fr, b.Succs[0], b, a2, ph, k, depth+1)
			} else {
				e.walk(fr, b.Succs[1], b, a2, ph, k, depth+1)
			}
		}, depth)
	case *ssa.Jump:
		// refuse back edges: comparators are loop free; closures with loops are opaque
		if b.Succs[0].Index <= b.Index && b.Succs[0].Dominates(b) {
			e.problem("loop in %s", fr.fn.Name())
			return
		}
		e.walk(fr, b.Succs[0], b, a, ph, k, depth+1)
	case *ssa.Panic:
		k(a, Unknown)
	default:
		e.problem("unexpected terminator %T in %s", last, fr.fn.Name())
	}
}

func resolve(v ssa.Value, ph map[*ssa.Phi]ssa.Value) ssa.Value {
	for i := 0; i < 8; i++ {
		p, ok := v.(*ssa.Phi)
		if !ok {
			return v
		}
		r, ok := ph[p]
		if !ok {
			return v
		}
		v = r
	}
	return v
}

// result classifies a returned value.
func (e *Eval) result(fr *frame, v ssa.Value, a *assign, ph map[*ssa.Phi]ssa.Value, k kont, depth int) {
	v = resolve(v, ph)
	if b, ok := v.Type().Underlying().(*types.Basic); ok && b.Info()&types.IsBoolean != 0 {
		e.truth(fr, v, a, ph, func(a2 *assign, t bool) {
			if t {
				k(a2, True)
			} else {
				k(a2, False)
			}
		}, depth)
		return
	}
	if c, ok := v.(*ssa.Const); ok && c.IsNil() {
		k(a, Neither)
		return
	}
	t := e.term(fr, v, 0)
	switch t {
	case "X":
		k(a, First)
	case "Y":
		k(a, Second)
	default:
		k(a, Result("term:"+t))
	}
}

// truth evaluates a boolean SSA value, branching on unknown atoms.
func (e *Eval) truth(fr *frame, v ssa.Value, a *assign, ph map[*ssa.Phi]ssa.Value, k func(*assign, bool), depth int) {
	v = resolve(v, ph)
	switch x := v.(type) {
	case *ssa.Const:
		k(a, constant.BoolVal(x.Value))
		return
	case *ssa.UnOp:
		if x.Op == token.NOT {
			e.truth(fr, x.X, a, ph, func(a2 *assign, t bool) { k(a2, !t) }, depth)
			return
		}
	case *ssa.BinOp:
		xb := isBool(x.X.Type())
		if xb && (x.Op == token.EQL || x.Op == token.NEQ) {
			// comparison of two boolean keys: evaluate both sides
			e.truth(fr, x.X, a, ph, func(a2 *assign, l bool) {
				e.truth(fr, x.Y, a2, ph, func(a3 *assign, r bool) {
					k(a3, (l == r) == (x.Op == token.EQL))
				}, depth)
			}, depth)
			return
		}
		if xb && (x.Op == token.AND || x.Op == token.OR) {
			e.truth(fr, x.X, a, ph, func(a2 *assign, l bool) {
				e.truth(fr, x.Y, a2, ph, func(a3 *assign, r bool) {
					if x.Op == token.AND {
						k(a3, l && r)
					} else {
						k(a3, l || r)
					}
				}, depth)
			}, depth)
			return
		}
		l, ok := cmpLit(x.Op, e.term(fr, resolve(x.X, ph), 0), e.term(fr, resolve(x.Y, ph), 0))
		if ok {
			e.atom(l, a, k)
			return
		}
	case *ssa.Call:
		// immediately invoked closure without loops: inline
		if mc, ok := x.Call.Value.(*ssa.MakeClosure); ok {
			cl := mc.Fn.(*ssa.Function)
			if !hasLoop(cl) && len(cl.Blocks) > 0 {
				fr2 := &frame{fn: cl, env: map[ssa.Value]string{}}
				for i, bnd := range mc.Bindings {
					// a free variable is the address of the captured variable
					fr2.env[cl.FreeVars[i]] = e.term0(fr, resolve(bnd, ph), 0)
				}
				for i, p := range cl.Params {
					if i < len(x.Call.Args) {
						fr2.env[p] = e.term(fr, resolve(x.Call.Args[i], ph), 0)
					}
				}
				e.walk(fr2, cl.Blocks[0], nil, a, map[*ssa.Phi]ssa.Value{}, func(a2 *assign, r Result) {
					switch r {
					case True:
						k(a2, true)
					case False:
						k(a2, false)
					default:
						e.problem("inline closure %s does not return a boolean", cl.Name())
					}
				}, depth+1)
				return
			}
		}
	}
	// opaque boolean term
	t := e.term(fr, v, 0)
	t = strings.ReplaceAll(t, "*&", "")
	e.atom(lit{key: "B(" + t + ")"}, a, k)
}

func isBool(t types.Type) bool {
	b, ok := t.Underlying().(*types.Basic)
	return ok && b.Info()&types.IsBoolean != 0
}

func hasLoop(fn *ssa.Function) bool {
	for _, b := range fn.Blocks {
		for _, s := range b.Succs {
			if s.Index <= b.Index && s.Dominates(b) {
				return true
			}
		}
	}
	return false
}

// rewrite applies the equalities assumed so far (EQ(a,b) true ⇒ b is replaced by a) and
// re-canonicalises the atom.
func rewrite(key string, a *assign) string {
	for i := 0; i < 3; i++ {
		changed := false
		for k, v := range a.m {
			if !v || !strings.HasPrefix(k, "EQ(") {
				continue
			}
			p := splitTop(k[3 : len(k)-1])
			if len(p) != 2 || p[0] == p[1] || k == key {
				continue
			}
			if _, isNum := constant.Val(constant.MakeFromLiteral(p[1], token.INT, 0)).(int64); isNum {
				continue
			}
			if strings.Contains(key, p[1]) {
				key = strings.ReplaceAll(key, p[1], p[0])
				changed = true
			}
		}
		if !changed {
			break
		}
	}
	return recanon(key)
}

func (e *Eval) atom(l lit, a *assign, k func(*assign, bool)) {
	key := strings.ReplaceAll(l.key, "*&", "")
	key = rewrite(key, a)
	// reflexive cases
	if strings.HasPrefix(key, "EQ(") || strings.HasPrefix(key, "LT(") {
		p := splitTop(key[3 : len(key)-1])
		if len(p) == 2 && p[0] == p[1] {
			v := strings.HasPrefix(key, "EQ(")
			k(a, v != l.neg)
			return
		}
	}
	if v, ok := a.m[key]; ok {
		k(a, v != l.neg)
		return
	}
	for _, v := range []bool{true, false} {
		a2 := a.clone()
		a2.m[key] = v
		if !consistent(a2) {
			continue
		}
		if v && strings.HasPrefix(key, "EQ(") {
			// a new equality: atoms already assigned must agree after rewriting
			ok := true
			for k2, v2 := range a.m {
				r := rewrite(k2, a2)
				if r != k2 {
					if v3, had := a2.m[r]; had && v3 != v2 {
						ok = false
					}
					if strings.HasPrefix(r, "EQ(") || strings.HasPrefix(r, "LT(") {
						p := splitTop(r[3 : len(r)-1])
						if len(p) == 2 && p[0] == p[1] && v2 != strings.HasPrefix(r, "EQ(") {
							ok = false
						}
					}
				}
			}
			if !ok {
				continue
			}
		}
		k(a2, v != l.neg)
	}
}

// SwapAssign renames the two symbols in every atom key.
func SwapAssign(m map[string]bool, s1, s2 string) map[string]bool {
	out := map[string]bool{}
	for k, v := range m {
		out[swapKey(k, s1, s2)] = v
	}
	return out
}

func swapKey(k, s1, s2 string) string {
	const tmp = "\x00"
	k2 := replaceSym(k, s1, tmp)
	k2 = replaceSym(k2, s2, s1)
	k2 = replaceSym(k2, tmp, s2)
	// re-canonicalise EQ operand order and symmetric calls
	return recanon(k2)
}

// replaceSym replaces whole-symbol occurrences (symbols are single upper-case letters X / Y).
func replaceSym(s, from, to string) string {
	var b strings.Builder
	for i := 0; i < len(s); i++ {
		if strings.HasPrefix(s[i:], from) {
			prevOK := i == 0 || !isIdent(s[i-1])
			next := i + len(from)
			nextOK := next >= len(s) || !isIdent(s[next])
			if prevOK && nextOK {
				b.WriteString(to)
				i += len(from) - 1
				continue
			}
		}
		b.WriteByte(s[i])
	}
	return b.String()
}

func isIdent(c byte) bool {
	return c == '_' || (c >= 'a' && c <= 'z') || (c >= 'A' && c <= 'Z') || (c >= '0' && c <= '9') || c == ':'
}

func recanon(k string) string {
	// canonicalise nested Equal(a,b) argument order and the top-level EQ
	k = canonCalls(k, "Equal(")
	if strings.HasPrefix(k, "EQ(") {
		p := splitTop(k[3 : len(k)-1])
		if len(p) == 2 && p[1] < p[0] {
			return "EQ(" + p[1] + "," + p[0] + ")"
		}
	}
	return k
}

func canonCalls(k, name string) string {
	idx := 0
	for {
		i := strings.Index(k[idx:], name)
		if i < 0 {
			return k
		}
		i += idx
		// find matching paren
		depth, j := 0, i+len(name)-1
		for ; j < len(k); j++ {
			if k[j] == '(' {
				depth++
			} else if k[j] == ')' {
				depth--
				if depth == 0 {
					break
				}
			}
		}
		if j >= len(k) {
			return k
		}
		args := splitTop(k[i+len(name) : j])
		if len(args) == 2 && args[1] < args[0] {
			k = k[:i+len(name)] + args[1] + "," + args[0] + k[j:]
		}
		idx = i + len(name)
	}
}
