// Package locks implements engine E1: lock classes, interprocedural may-hold and
// must-hold sets, the lock-order graph and guarded-by queries.
package locks

import (
	"fmt"
	"go/token"
	"go/types"
	"sort"
	"strings"

	"golang.org/x/tools/go/ssa"

	"gbverif/ir"
)

type Mode uint8

const (
	None Mode = iota
	R
	W
)

func (m Mode) String() string { return [...]string{"-", "R", "W"}[m] }

// Set maps lock class -> mode.
type Set map[string]Mode

func (s Set) clone() Set {
	o := make(Set, len(s))
	for k, v := range s {
		o[k] = v
	}
	return o
}

func (s Set) String() string {
	var ks []string
	for k, v := range s {
		ks = append(ks, k+"("+v.String()+")")
	}
	sort.Strings(ks)
	return "{" + strings.Join(ks, ", ") + "}"
}

func equal(a, b Set) bool {
	if len(a) != len(b) {
		return false
	}
	for k, v := range a {
		if b[k] != v {
			return false
		}
	}
	return true
}

// state carries both analyses through a function body.
// State is the lock state at a program point.
type State = state

type state struct {
	may  Set
	must Set
	top  bool // must = ⊤ (unreached)
}

func (s *state) clone() *state { return &state{may: s.may.clone(), must: s.must.clone(), top: s.top} }

func join(a, b *state) *state {
	if a == nil {
		return b.clone()
	}
	o := a.clone()
	for k, v := range b.may {
		if v > o.may[k] {
			o.may[k] = v
		}
	}
	switch {
	case a.top && b.top:
	case a.top:
		o.must, o.top = b.must.clone(), false
	case b.top:
	default:
		for k, v := range o.must {
			bv := b.must[k]
			if bv < v {
				if bv == None {
					delete(o.must, k)
				} else {
					o.must[k] = bv
				}
			}
		}
	}
	return o
}

func stEqual(a, b *state) bool {
	if a == nil || b == nil {
		return a == b
	}
	return a.top == b.top && equal(a.may, b.may) && equal(a.must, b.must)
}

// Edge of the lock-order graph: To acquired while From may be held.
type Edge struct {
	From, To   string
	FromMode   Mode
	ToMode     Mode
	Fn         *ssa.Function // function containing the acquisition
	Pos        token.Pos
	HeldVia    string // how From came to be held at this point
	SameFnHeld bool   // From was acquired in this same function
}

// Provenance of a may-held lock at function entry.
type prov struct {
	caller *ssa.Function
	site   ssa.Instruction
}

type Analysis struct {
	P *ir.Program

	// options
	Roots func(fn *ssa.Function) bool // extra entry points that start with nothing held
	Async func(callee *ssa.Function) bool

	entry    map[*ssa.Function]*state
	prov     map[*ssa.Function]map[string]prov
	at       map[ssa.Instruction]*state // state before instruction (final round)
	Edges    []Edge
	Classes  map[string]int // class -> number of acquisition sites
	Unres    []ssa.Instruction
	Rounds   int
	ExtCalls map[string]int // external callees that receive a closure (synchronous-callback model)
	// WG operations
	collect bool
	// Acq: every acquisition site
	Acq []AcqSite
	// functions that return with a lock still held (wrappers) / unlock a lock they did not take
	Imbalanced map[*ssa.Function]string
	rootSet    map[*ssa.Function]bool
	goTargets  map[*ssa.Function]bool
	// In: synchronous in-edges (incl. the callback model), recorded in the final pass
	In map[*ssa.Function][]CallEdge
	// Waits: (*sync.WaitGroup).Wait sites
	Waits []AcqSite
	// Dead: functions with no caller in the whole program that cannot be called from outside the module
	Dead    []*ssa.Function
	localAt map[ssa.Instruction]Set
	localDone map[*ssa.Function]bool
	// extraMust: locks a synchronous callback closure is known to run under: those held where it
	// was passed (the callee only adds locks), plus the mode a reviewed lock wrapper takes.
	extraMust map[*ssa.Function]Set
	// Wrappers: functions that take a lock in a mode chosen by a constant bool argument and then
	// call their func argument (verified, not assumed).
	Wrappers []Wrapper
	WrapperProblems []string
	CallbackSites   int
}

// Wrapper describes "if flag { L.Lock() } else { L.RLock() }; …; fn(...)".
type Wrapper struct {
	Fn        string // function key
	BoolParam string
	Lock      string
}

// dead: no in-edge in the whole-program call graph, and not reachable by a user of the
// module: declared in an internal/ or main package, or unexported.
func (a *Analysis) dead(fn *ssa.Function) bool {
	if fn.Parent() != nil || fn.Synthetic != "" {
		return false
	}
	if len(a.P.Callers(fn)) > 0 {
		return false
	}
	if fn.Name() == "init" || fn.Name() == "main" {
		return false
	}
	pk := ir.PkgOf(fn)
	if pk == nil {
		return false
	}
	internal := strings.Contains(pk.Path(), "/internal/")
	obj, _ := fn.Object().(*types.Func)
	if obj == nil {
		return false
	}
	exported := obj.Exported()
	if recv := fn.Signature.Recv(); recv != nil {
		if n := ir.NamedOf(recv.Type()); n != nil && !n.Obj().Exported() {
			// method of an unexported type: only reachable through an interface; VTA saw no such flow
			exported = exported && false
		}
	}
	return internal || !exported
}

// CallEdge is a synchronous call (or modelled callback invocation).
type CallEdge struct {
	Caller *ssa.Function
	Site   ssa.Instruction
	Async  bool
}

type AcqSite struct {
	Class string
	Mode  Mode
	Fn    *ssa.Function
	Instr ssa.Instruction
	Held  *State
}

func isSyncType(t types.Type, name string) bool {
	n := ir.NamedOf(t)
	return n != nil && n.Obj().Pkg() != nil && n.Obj().Pkg().Path() == "sync" && n.Obj().Name() == name
}

func isMutexType(t types.Type) bool { return isSyncType(t, "Mutex") || isSyncType(t, "RWMutex") }

// lockOp classifies a call as Lock/RLock/Unlock/RUnlock on a sync mutex.
func lockOp(c *ssa.CallCommon) (op string, recv ssa.Value) {
	f := c.StaticCallee()
	if f == nil || f.Signature.Recv() == nil {
		return "", nil
	}
	if !isMutexType(f.Signature.Recv().Type()) {
		return "", nil
	}
	switch f.Name() {
	case "Lock", "RLock", "Unlock", "RUnlock", "TryLock", "TryRLock":
		if len(c.Args) > 0 {
			return f.Name(), c.Args[0]
		}
	}
	return "", nil
}

// ClassOf names the lock class(es) of a *sync.Mutex / *sync.RWMutex value.
func (a *Analysis) ClassOf(v ssa.Value) []string {
	seen := map[ssa.Value]bool{}
	out := map[string]bool{}
	ok := a.classOf(v, seen, out, 0)
	if !ok || len(out) == 0 {
		return nil
	}
	var ks []string
	for k := range out {
		ks = append(ks, k)
	}
	sort.Strings(ks)
	return ks
}

func (a *Analysis) classOf(v ssa.Value, seen map[ssa.Value]bool, out map[string]bool, depth int) bool {
	if seen[v] {
		return true
	}
	seen[v] = true
	if depth > 12 {
		return false
	}
	switch x := v.(type) {
	case *ssa.FieldAddr:
		f := ir.FieldOf(x)
		if isMutexType(f.Type()) {
			out[ir.FieldKey(x.X.Type(), f)] = true
			return true
		}
		return false
	case *ssa.IndexAddr:
		// element of an array/slice of mutexes held in a field
		if fa, ok := x.X.(*ssa.FieldAddr); ok {
			out[ir.FieldKey(fa.X.Type(), ir.FieldOf(fa))+"[]"] = true
			return true
		}
		if u, ok := x.X.(*ssa.UnOp); ok && u.Op == token.MUL {
			if fa, ok := u.X.(*ssa.FieldAddr); ok {
				out[ir.FieldKey(fa.X.Type(), ir.FieldOf(fa))+"[]"] = true
				return true
			}
		}
		return false
	case *ssa.UnOp:
		if x.Op == token.MUL {
			// load of a *Mutex from a field or variable
			switch y := x.X.(type) {
			case *ssa.FieldAddr:
				f := ir.FieldOf(y)
				if isMutexType(f.Type()) {
					out[ir.FieldKey(y.X.Type(), f)] = true
					return true
				}
			case *ssa.Alloc:
				// local variable holding a *Mutex: join over its stores
				okAll := true
				n := 0
				for _, ref := range *y.Referrers() {
					if st, ok := ref.(*ssa.Store); ok && st.Addr == y {
						n++
						okAll = a.classOf(st.Val, seen, out, depth+1) && okAll
					}
				}
				return okAll && n > 0
			case *ssa.FreeVar:
				return a.classOf(y, seen, out, depth+1)
			}
		}
		return false
	case *ssa.Alloc:
		// a mutex that is a local variable: class by function
		if isMutexType(ir.Deref(x.Type())) {
			out["local:"+ir.OuterKey(x.Parent())+":"+x.Comment] = true
			return true
		}
		return false
	case *ssa.Phi:
		okAll := true
		for _, e := range x.Edges {
			okAll = a.classOf(e, seen, out, depth+1) && okAll
		}
		return okAll
	case *ssa.Call:
		cs := a.P.Callees(x)
		if len(cs) == 0 {
			return false
		}
		okAll := true
		for _, c := range cs {
			if c.Blocks == nil {
				return false
			}
			for _, b := range c.Blocks {
				if r, ok := b.Instrs[len(b.Instrs)-1].(*ssa.Return); ok && len(r.Results) > 0 {
					okAll = a.classOf(r.Results[0], seen, out, depth+1) && okAll
				}
			}
		}
		return okAll
	case *ssa.FreeVar:
		// bound in the parent's MakeClosure
		fn := x.Parent()
		idx := -1
		for i, fv := range fn.FreeVars {
			if fv == x {
				idx = i
			}
		}
		if fn.Parent() == nil || idx < 0 {
			return false
		}
		found := false
		okAll := true
		for _, b := range fn.Parent().Blocks {
			for _, in := range b.Instrs {
				if mc, ok := in.(*ssa.MakeClosure); ok && mc.Fn == fn {
					found = true
					okAll = a.classOf(mc.Bindings[idx], seen, out, depth+1) && okAll
				}
			}
		}
		return found && okAll
	case *ssa.Parameter:
		// resolve through callers
		fn := x.Parent()
		idx := -1
		for i, p := range fn.Params {
			if p == x {
				idx = i
			}
		}
		ins := a.P.Callers(fn)
		if idx < 0 || len(ins) == 0 {
			return false
		}
		okAll := true
		for _, e := range ins {
			if e.Site == nil {
				return false
			}
			args := e.Site.Common().Args
			if e.Site.Common().IsInvoke() {
				return false
			}
			if idx >= len(args) {
				return false
			}
			okAll = a.classOf(args[idx], seen, out, depth+1) && okAll
		}
		return okAll
	case *ssa.MakeInterface, *ssa.ChangeType:
		return false
	}
	return false
}

func apply(st *state, op string, classes []string) {
	for _, c := range classes {
		switch op {
		case "Lock", "TryLock":
			st.may[c] = W
			if !st.top && len(classes) == 1 {
				st.must[c] = W
			}
		case "RLock", "TryRLock":
			if st.may[c] < R {
				st.may[c] = R
			}
			if !st.top && len(classes) == 1 && st.must[c] < R {
				st.must[c] = R
			}
		case "Unlock", "RUnlock":
			delete(st.may, c)
			if !st.top {
				delete(st.must, c)
			}
		}
	}
}

// IsAsyncExternal: external functions that run their function argument later, with nothing held.
func isAsyncExternal(f *ssa.Function) bool {
	if f == nil || f.Pkg == nil {
		return false
	}
	switch f.Pkg.Pkg.Path() + "." + f.Name() {
	case "time.AfterFunc", "context.AfterFunc":
		return true
	}
	return false
}

// New prepares an analysis.
func New(p *ir.Program) *Analysis {
	return &Analysis{P: p, entry: map[*ssa.Function]*state{}, prov: map[*ssa.Function]map[string]prov{},
		Classes: map[string]int{}, ExtCalls: map[string]int{}, Imbalanced: map[*ssa.Function]string{},
		rootSet: map[*ssa.Function]bool{}, goTargets: map[*ssa.Function]bool{}}
}

func (a *Analysis) inModule(fn *ssa.Function) bool { return fn != nil && fn.Blocks != nil && a.P.InModule(fn) }

// Run computes the fixpoint, then refines the entry state of synchronous callback closures
// with the locks held where they were passed, and iterates until stable.
func (a *Analysis) Run() {
	a.extraMust = map[*ssa.Function]Set{}
	for round := 0; round < 4; round++ {
		a.entry = map[*ssa.Function]*state{}
		a.prov = map[*ssa.Function]map[string]prov{}
		a.Edges, a.Acq, a.Waits, a.Unres, a.Dead = nil, nil, nil, nil, nil
		a.Classes, a.ExtCalls, a.Imbalanced = map[string]int{}, map[string]int{}, map[*ssa.Function]string{}
		a.rootSet, a.goTargets = map[*ssa.Function]bool{}, map[*ssa.Function]bool{}
		a.localDone, a.collect = nil, false
		a.runOnce()
		if !a.refineCallbacks() {
			break
		}
	}
}

// directlyCalled: some module function calls fn by name.
func (a *Analysis) directlyCalled(fn *ssa.Function) bool {
	for _, f := range a.P.Funcs {
		for _, b := range f.Blocks {
			for _, in := range b.Instrs {
				if ci, ok := in.(ssa.CallInstruction); ok && ci.Common().StaticCallee() == fn {
					return true
				}
			}
		}
	}
	return false
}

// refineCallbacks recomputes extraMust; reports whether it changed.
func (a *Analysis) refineCallbacks() bool {
	nw := map[*ssa.Function]Set{}
	a.WrapperProblems = nil
	a.CallbackSites = 0
	wrap := map[*ssa.Function]Wrapper{}
	for _, w := range a.Wrappers {
		fn := a.P.Func(w.Fn)
		if fn == nil {
			a.WrapperProblems = append(a.WrapperProblems, "lock wrapper not found: "+w.Fn)
			continue
		}
		if why := a.verifyWrapper(fn, w); why != "" {
			a.WrapperProblems = append(a.WrapperProblems, w.Fn+": "+why)
			continue
		}
		wrap[fn] = w
	}
	type use struct{ must Set }
	uses := map[*ssa.Function][]Set{}
	other := map[*ssa.Function]bool{} // closure used in some other way (stored, returned, go, defer…)
	for _, fn := range a.P.Funcs {
		for _, b := range fn.Blocks {
			for _, in := range b.Instrs {
				mc, ok := in.(*ssa.MakeClosure)
				if !ok {
					continue
				}
				cl, ok := mc.Fn.(*ssa.Function)
				if !ok {
					continue
				}
				if un := ir.Unwrap(cl); un != cl {
					// a method value: refinable only if the method has no direct callers of its own
					cl = un
					if a.directlyCalled(cl) {
						other[cl] = true
					}
				}
				for _, ref := range *mc.Referrers() {
					call, isCall := ref.(*ssa.Call)
					if !isCall {
						other[cl] = true
						continue
					}
					if call.Call.Value == ssa.Value(mc) {
						// immediately invoked: ordinary call edge, already precise
						other[cl] = true
						continue
					}
					callee := call.Call.StaticCallee()
					if callee == nil || !a.inModule(callee) {
						other[cl] = true
						continue
					}
					st := a.at[call]
					if st == nil || st.top {
						other[cl] = true
						continue
					}
					m := st.must.clone()
					if w, ok := wrap[callee]; ok {
						// mode chosen by the constant flag
						fi := a.wrapperFlag(callee, w)
						for i := range callee.Params {
							if i == fi && i < len(call.Call.Args) {
								if k, ok := call.Call.Args[i].(*ssa.Const); ok && k.Value != nil {
									if k.Value.String() == "true" {
										m[w.Lock] = W
									} else if m[w.Lock] < R {
										m[w.Lock] = R
									}
								}
							}
						}
					}
					a.CallbackSites++
					uses[cl] = append(uses[cl], m)
				}
			}
		}
	}
	for cl, ms := range uses {
		if other[cl] || a.goTargets[cl] {
			continue
		}
		meet := ms[0].clone()
		for _, m := range ms[1:] {
			for k, v := range meet {
				if m[k] < v {
					if m[k] == None {
						delete(meet, k)
					} else {
						meet[k] = m[k]
					}
				}
			}
		}
		if len(meet) > 0 {
			nw[cl] = meet
		}
	}
	changed := len(nw) != len(a.extraMust)
	for k, v := range nw {
		if !equal(v, a.extraMust[k]) {
			changed = true
		}
	}
	a.extraMust = nw
	return changed
}

// verifyWrapper checks the reviewed shape: the lock is write-locked exactly on the true side of a
// branch on the bool parameter and read-locked on its false side, and is released only by defers.
func (a *Analysis) verifyWrapper(fn *ssa.Function, w Wrapper) string {
	// the flag is whichever bool parameter steers the lock mode (found by role; BoolParam only names it in messages)
	why := "bool parameter " + w.BoolParam + " not found"
	for _, p := range fn.Params {
		if bt, ok := p.Type().Underlying().(*types.Basic); ok && bt.Kind() == types.Bool {
			if why = a.verifyWrapperFlag(fn, w, p); why == "" {
				return ""
			}
		}
	}
	return why
}

// wrapperFlag returns the index of the parameter that verifyWrapper accepts, or -1.
func (a *Analysis) wrapperFlag(fn *ssa.Function, w Wrapper) int {
	for i, p := range fn.Params {
		if bt, ok := p.Type().Underlying().(*types.Basic); ok && bt.Kind() == types.Bool {
			if a.verifyWrapperFlag(fn, w, p) == "" {
				return i
			}
		}
	}
	return -1
}

func (a *Analysis) verifyWrapperFlag(fn *ssa.Function, w Wrapper, flag *ssa.Parameter) string {
	nW, nR := 0, 0
	for _, b := range fn.Blocks {
		for _, in := range b.Instrs {
			call, ok := in.(*ssa.Call)
			if !ok {
				continue
			}
			op, recv := lockOp(call.Common())
			if op == "" {
				continue
			}
			cls := a.ClassOf(recv)
			if len(cls) != 1 || cls[0] != w.Lock {
				continue
			}
			// the block must be the direct successor of an If on the flag
			if len(b.Preds) != 1 {
				return "lock operation not directly under the branch on " + w.BoolParam
			}
			iff, ok := b.Preds[0].Instrs[len(b.Preds[0].Instrs)-1].(*ssa.If)
			if !ok || iff.Cond != ssa.Value(flag) {
				return "lock operation not directly under the branch on " + w.BoolParam
			}
			onTrue := b.Preds[0].Succs[0] == b
			switch {
			case op == "Lock" && onTrue:
				nW++
			case op == "RLock" && !onTrue:
				nR++
			default:
				return "unexpected " + op + " on the " + map[bool]string{true: "true", false: "false"}[onTrue] + " side"
			}
		}
	}
	if nW != 1 || nR != 1 {
		return "expected one Lock (flag true) and one RLock (flag false)"
	}
	return ""
}

func (a *Analysis) runOnce() {
	p := a.P
	// roots: no in-module synchronous caller, or user-declared
	called := map[*ssa.Function]bool{}
	for _, fn := range p.Funcs {
		for _, b := range fn.Blocks {
			for _, in := range b.Instrs {
				switch x := in.(type) {
				case *ssa.Go:
					for _, c := range p.Callees(x) {
						a.goTargets[c] = true
					}
					a.closureArgs(x.Common(), func(c *ssa.Function) { a.goTargets[c] = true })
				case ssa.CallInstruction:
					for _, c := range p.Callees(x) {
						if a.inModule(c) {
							called[c] = true
						} else {
							ext := c
							a.closureArgs(x.Common(), func(cl *ssa.Function) {
								if isAsyncExternal(ext) {
									a.goTargets[cl] = true
								} else {
									called[cl] = true
								}
							})
						}
					}
				}
			}
		}
	}
	for _, fn := range p.Funcs {
		if fn.Blocks == nil {
			continue
		}
		if !called[fn] && !a.goTargets[fn] && !(a.Roots != nil && a.Roots(fn)) && a.dead(fn) {
			// no caller anywhere in the program (tests aside) and not callable from outside the module: unreachable
			a.entry[fn] = &state{may: Set{}, must: Set{}, top: true}
			a.Dead = append(a.Dead, fn)
		} else if !called[fn] || a.goTargets[fn] || (a.Roots != nil && a.Roots(fn)) {
			a.rootSet[fn] = true
			a.entry[fn] = &state{may: Set{}, must: Set{}}
		} else {
			a.entry[fn] = &state{may: Set{}, must: Set{}, top: true}
		}
	}
	work := map[*ssa.Function]bool{}
	for _, fn := range p.Funcs {
		if fn.Blocks != nil {
			work[fn] = true
		}
	}
	for round := 0; len(work) > 0 && round < 200; round++ {
		a.Rounds = round + 1
		var fns []*ssa.Function
		for fn := range work {
			fns = append(fns, fn)
		}
		sort.Slice(fns, func(i, j int) bool { return fns[i].String() < fns[j].String() })
		work = map[*ssa.Function]bool{}
		for _, fn := range fns {
			a.flow(fn, func(callee *ssa.Function, st *state, site ssa.Instruction, async bool) {
				if !a.inModule(callee) {
					return
				}
				cur := a.entry[callee]
				if cur == nil {
					return
				}
				var in *state
				if async {
					in = &state{may: Set{}, must: Set{}}
				} else {
					in = st
				}
				if a.rootSet[callee] {
					// roots keep must = ∅; may still accumulates from synchronous callers
					in = &state{may: in.may, must: Set{}}
				}
				nw := join(cur, in)
				if !stEqual(nw, cur) {
					for k := range nw.may {
						if _, had := cur.may[k]; !had {
							if a.prov[callee] == nil {
								a.prov[callee] = map[string]prov{}
							}
							a.prov[callee][k] = prov{fn, site}
						}
					}
					a.entry[callee] = nw
					work[callee] = true
				}
			}, false)
		}
	}
	// final pass: record per-instruction states, edges, acquisition sites
	a.at = map[ssa.Instruction]*state{}
	a.localAt = map[ssa.Instruction]Set{}
	a.collect = true
	a.In = map[*ssa.Function][]CallEdge{}
	for _, fn := range p.Funcs {
		if fn.Blocks != nil {
			caller := fn
			a.flow(fn, func(callee *ssa.Function, _ *state, site ssa.Instruction, async bool) {
				a.In[callee] = append(a.In[callee], CallEdge{caller, site, async})
			}, true)
		}
	}
}

// closureArgs calls f for every function value passed directly as an argument.
func (a *Analysis) closureArgs(c *ssa.CallCommon, f func(*ssa.Function)) {
	for _, arg := range c.Args {
		switch x := arg.(type) {
		case *ssa.MakeClosure:
			if fn, ok := x.Fn.(*ssa.Function); ok {
				f(ir.Unwrap(fn))
			}
		case *ssa.Function:
			f(ir.Unwrap(x))
		}
	}
}

type callFn func(callee *ssa.Function, st *state, site ssa.Instruction, async bool)

// flow runs the intraprocedural analysis of fn from its current entry state.
func (a *Analysis) flow(fn *ssa.Function, onCall callFn, record bool) {
	ent := a.entry[fn]
	if ent == nil {
		return
	}
	in := make([]*state, len(fn.Blocks))
	in[0] = ent.clone()
	if ex := a.extraMust[fn]; ex != nil && !in[0].top {
		for k, m := range ex {
			if in[0].must[k] < m {
				in[0].must[k] = m
			}
		}
	}
	// collect defers (in order)
	var defers []*ssa.Defer
	for _, b := range fn.Blocks {
		for _, i := range b.Instrs {
			if d, ok := i.(*ssa.Defer); ok {
				defers = append(defers, d)
			}
		}
	}
	wl := []int{0}
	inWL := map[int]bool{0: true}
	outs := make([]*state, len(fn.Blocks))
	for len(wl) > 0 {
		bi := wl[0]
		wl = wl[1:]
		inWL[bi] = false
		b := fn.Blocks[bi]
		st := in[bi].clone()
		for _, instr := range b.Instrs {
			if record {
				a.step(fn, st, instr, defers, func(*ssa.Function, *state, ssa.Instruction, bool) {}, false)
			} else {
				a.step(fn, st, instr, defers, onCall, false)
			}
		}
		outs[bi] = st
		for _, s := range b.Succs {
			nw := join(in[s.Index], st)
			if in[s.Index] == nil || !stEqual(nw, in[s.Index]) {
				in[s.Index] = nw
				if !inWL[s.Index] {
					inWL[s.Index] = true
					wl = append(wl, s.Index)
				}
			}
		}
	}
	if record {
		for bi, b := range fn.Blocks {
			if in[bi] == nil {
				continue
			}
			st := in[bi].clone()
			for _, instr := range b.Instrs {
				a.at[instr] = st.clone()
				a.step(fn, st, instr, defers, onCall, true)
			}
			_ = outs
			if ir.IsExit(b) {
				if _, isRet := b.Instrs[len(b.Instrs)-1].(*ssa.Return); isRet {
					a.checkBalance(fn, ent, st)
				}
			}
		}
	}
}

func (a *Analysis) checkBalance(fn *ssa.Function, ent, exit *state) {
	for k, m := range exit.may {
		if ent.may[k] < m {
			a.Imbalanced[fn] = fmt.Sprintf("may return holding %s(%s)", k, m)
		}
	}
}

func (a *Analysis) step(fn *ssa.Function, st *state, instr ssa.Instruction, defers []*ssa.Defer, onCall callFn, record bool) {
	switch x := instr.(type) {
	case *ssa.Go:
		for _, c := range a.P.Callees(x) {
			onCall(c, st, x, true)
		}
		a.closureArgs(x.Common(), func(c *ssa.Function) { onCall(c, st, x, true) })
	case *ssa.Defer:
		// effect applied at RunDefers
	case *ssa.RunDefers:
		for i := len(defers) - 1; i >= 0; i-- {
			a.call(fn, st, defers[i], defers[i].Common(), onCall, record)
		}
	case *ssa.Call:
		a.call(fn, st, x, x.Common(), onCall, record)
	}
}

func (a *Analysis) call(fn *ssa.Function, st *state, site ssa.Instruction, c *ssa.CallCommon, onCall callFn, record bool) {
	if op, recv := lockOp(c); op != "" {
		classes := a.ClassOf(recv)
		if classes == nil {
			if record {
				a.Unres = append(a.Unres, site)
			}
			return
		}
		if record && (op == "Lock" || op == "RLock" || op == "TryLock" || op == "TryRLock") {
			mode := W
			if op == "RLock" || op == "TryRLock" {
				mode = R
			}
			for _, cl := range classes {
				a.Classes[cl]++
				a.Acq = append(a.Acq, AcqSite{Class: cl, Mode: mode, Fn: fn, Instr: site, Held: st.clone()})
				if op == "TryLock" || op == "TryRLock" {
					continue // cannot block
				}
				for h, hm := range st.may {
					a.Edges = append(a.Edges, Edge{From: h, To: cl, FromMode: hm, ToMode: mode, Fn: fn, Pos: site.Pos()})
				}
			}
		}
		apply(st, op, classes)
		return
	}
	if f := c.StaticCallee(); f != nil && record && f.Name() == "Wait" && f.Signature.Recv() != nil && isSyncType(f.Signature.Recv().Type(), "WaitGroup") {
		a.Waits = append(a.Waits, AcqSite{Class: a.wgClass(c.Args[0]), Fn: fn, Instr: site, Held: st.clone()})
	}
	cs := a.P.Callees(site.(ssa.CallInstruction))
	for _, callee := range cs {
		if a.inModule(callee) {
			onCall(callee, st, site, false)
			continue
		}
		// external: synchronous-callback model
		async := isAsyncExternal(callee)
		ext := callee
		a.closureArgs(c, func(cl *ssa.Function) {
			if record {
				a.ExtCalls[ext.String()]++
			}
			onCall(cl, st, site, async)
		})
	}
	if len(cs) == 0 {
		// unresolved dynamic call (e.g. a func value VTA cannot see): closure args still modelled
		a.closureArgs(c, func(cl *ssa.Function) { onCall(cl, st, site, false) })
	}
}

// At returns the lock state before an instruction.
func (a *Analysis) At(in ssa.Instruction) (may, must Set, reached bool) {
	st := a.at[in]
	if st == nil {
		return nil, nil, false
	}
	if st.top {
		return st.may, Set{}, false
	}
	return st.may, st.must, true
}

// Entry returns the entry state of a function.
func (a *Analysis) Entry(fn *ssa.Function) (may, must Set, top bool) {
	st := a.entry[fn]
	if st == nil {
		return Set{}, Set{}, true
	}
	return st.may, st.must, st.top
}

func (a *Analysis) IsRoot(fn *ssa.Function) bool { return a.rootSet[fn] }

// HeldPath explains how class c may be held at entry of fn: a chain of callers back to the acquiring function.
func (a *Analysis) HeldPath(fn *ssa.Function, c string) []string {
	var out []string
	seen := map[*ssa.Function]bool{}
	for fn != nil && !seen[fn] {
		seen[fn] = true
		pv, ok := a.prov[fn][c]
		if !ok {
			break
		}
		out = append(out, fmt.Sprintf("%s called from %s at %s", ir.FuncKey(fn), ir.FuncKey(pv.caller), a.P.InstrPos(pv.site)))
		fn = pv.caller
	}
	if fn != nil {
		out = append(out, fmt.Sprintf("%s acquires %s", ir.FuncKey(fn), c))
	}
	return out
}


// wgClass names a WaitGroup by the field (or local) it lives in.
func (a *Analysis) wgClass(v ssa.Value) string {
	switch x := v.(type) {
	case *ssa.FieldAddr:
		return ir.FieldKey(x.X.Type(), ir.FieldOf(x))
	case *ssa.UnOp:
		if fa, ok := x.X.(*ssa.FieldAddr); ok {
			return ir.FieldKey(fa.X.Type(), ir.FieldOf(fa))
		}
		if fv, ok := x.X.(*ssa.FreeVar); ok {
			return "captured:" + fv.Name()
		}
	case *ssa.Parameter:
		return "param:" + ir.OuterKey(x.Parent()) + ":" + x.Name()
	case *ssa.Alloc:
		return "local:" + ir.OuterKey(x.Parent()) + ":" + x.Comment
	}
	return "unknown:" + v.Name()
}

// Holders returns the functions that acquire class c and from which fn can be
// reached synchronously while c may still be held.
func (a *Analysis) Holders(fn *ssa.Function, c string) []*ssa.Function {
	acquires := map[*ssa.Function]bool{}
	for _, s := range a.Acq {
		if s.Class == c {
			acquires[s.Fn] = true
		}
	}
	seen := map[*ssa.Function]bool{fn: true}
	work := []*ssa.Function{fn}
	hold := map[*ssa.Function]bool{}
	_ = acquires
	for len(work) > 0 {
		f := work[0]
		work = work[1:]
		if _, ok := a.entry[f].may[c]; !ok {
			continue
		}
		for _, e := range a.In[f] {
			if e.Async {
				continue
			}
			st := a.at[e.Site]
			if st == nil {
				continue
			}
			if _, held := st.may[c]; !held {
				continue
			}
			if a.LocallyHeld(e.Site, c) {
				hold[e.Caller] = true
			}
			if !seen[e.Caller] {
				seen[e.Caller] = true
				work = append(work, e.Caller)
			}
		}
	}
	var out []*ssa.Function
	for f := range hold {
		out = append(out, f)
	}
	sort.Slice(out, func(i, j int) bool { return out[i].String() < out[j].String() })
	return out
}

// AcquiresStar returns the classes fn or any synchronous callee may acquire.
func (a *Analysis) AcquiresStar(fn *ssa.Function) map[string]bool {
	out := map[string]bool{}
	// forward reachability over recorded sync edges
	succ := map[*ssa.Function][]*ssa.Function{}
	for callee, ins := range a.In {
		for _, e := range ins {
			if !e.Async {
				succ[e.Caller] = append(succ[e.Caller], callee)
			}
		}
	}
	seen := map[*ssa.Function]bool{fn: true}
	work := []*ssa.Function{fn}
	for len(work) > 0 {
		f := work[0]
		work = work[1:]
		for _, s := range succ[f] {
			if !seen[s] {
				seen[s] = true
				work = append(work, s)
			}
		}
	}
	for _, s := range a.Acq {
		if seen[s.Fn] {
			out[s.Class] = true
		}
	}
	return out
}

// WGClass is the exported form of wgClass.
func (a *Analysis) WGClass(v ssa.Value) string { return a.wgClass(v) }

// MayHas reports the may-held mode of a class in a recorded state.
func (s *state) MayHas(c string) (Mode, bool) {
	m, ok := s.may[c]
	return m, ok
}

// MaySet returns the may-held set of a recorded state.
func (s *state) MaySet() Set { return s.may }


// LocallyHeld reports whether class c may be held at instr because of an acquisition
// in instr's own function (as opposed to being inherited from a caller).
func (a *Analysis) LocallyHeld(instr ssa.Instruction, c string) bool {
	fn := instr.Parent()
	if fn == nil {
		return false
	}
	if _, done := a.localDone[fn]; !done {
		if a.localDone == nil {
			a.localDone = map[*ssa.Function]bool{}
		}
		a.localDone[fn] = true
		saveEntry, saveAt := a.entry[fn], a.at
		a.entry[fn] = &state{may: Set{}, must: Set{}}
		a.at = map[ssa.Instruction]*state{}
		sa, se, sw, sacq, sun := a.Acq, a.Edges, a.Waits, a.Classes, a.Unres
		sext, simb := a.ExtCalls, a.Imbalanced
		a.Classes, a.ExtCalls, a.Imbalanced = map[string]int{}, map[string]int{}, map[*ssa.Function]string{}
		a.flow(fn, func(*ssa.Function, *state, ssa.Instruction, bool) {}, true)
		for in, st := range a.at {
			a.localAt[in] = st.may
		}
		a.entry[fn], a.at = saveEntry, saveAt
		a.Acq, a.Edges, a.Waits, a.Classes, a.Unres = sa, se, sw, sacq, sun
		a.ExtCalls, a.Imbalanced = sext, simb
	}
	_, ok := a.localAt[instr][c]
	return ok
}
