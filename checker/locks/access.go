package locks

import (
	"go/token"
	"go/types"

	"golang.org/x/tools/go/ssa"

	"gbverif/ir"
)

// Access is one read or write of a struct field found in the program.
type Access struct {
	Struct *types.Named
	Field  *types.Var
	Write  bool
	Fn     *ssa.Function
	Instr  ssa.Instruction // the FieldAddr/Field instruction
	Fresh  bool            // base object was allocated in this function (not yet published)
	Kind   string
}

// FieldAccesses enumerates reads and writes of the fields of the given struct types
// in all module functions. A write is a Store through the field address (or through
// an address derived from it by FieldAddr/IndexAddr), a map update/delete on the
// loaded map, or a store to an element of the loaded slice.
func FieldAccesses(p *ir.Program, want func(n *types.Named, f *types.Var) bool) []Access {
	var out []Access
	for _, fn := range p.Funcs {
		for _, b := range fn.Blocks {
			for _, in := range b.Instrs {
				switch x := in.(type) {
				case *ssa.FieldAddr:
					n := ir.NamedOf(x.X.Type())
					f := ir.FieldOf(x)
					if n == nil || !want(n, f) {
						continue
					}
					r, w, k := classifyAddr(x, 0)
					fresh := derivesFromAlloc(x.X, 0)
					if w {
						out = append(out, Access{n, f, true, fn, x, fresh, k})
					}
					if r && !w {
						out = append(out, Access{n, f, false, fn, x, fresh, k})
					}
				case *ssa.Field:
					n := ir.NamedOf(x.X.Type())
					f := ir.FieldOf(x)
					if n == nil || !want(n, f) {
						continue
					}
					out = append(out, Access{n, f, false, fn, x, false, "field-of-value"})
				}
			}
		}
	}
	return out
}

// classifyAddr inspects the uses of an address value.
func classifyAddr(addr ssa.Value, depth int) (read, write bool, kind string) {
	refs := addr.Referrers()
	if refs == nil || depth > 6 {
		return true, false, "unknown"
	}
	for _, ref := range *refs {
		switch u := ref.(type) {
		case *ssa.Store:
			if u.Addr == addr {
				write = true
				kind = "store"
			} else {
				read = true // address escapes into memory
			}
		case *ssa.UnOp:
			if u.Op == token.MUL {
				r, w, k := classifyLoaded(u, depth+1)
				read = read || r
				if w {
					write = true
					kind = k
				}
			}
		case *ssa.FieldAddr:
			r, w, k := classifyAddr(u, depth+1)
			read = read || r
			if w {
				write = true
				kind = "sub-field " + k
			}
		case *ssa.IndexAddr:
			r, w, k := classifyAddr(u, depth+1)
			read = read || r
			if w {
				write = true
				kind = "element " + k
			}
		case *ssa.MapUpdate:
			read = true
		default:
			// passed to a call (pointer receiver method, &field argument), phi, etc.
			read = true
		}
	}
	if !read && !write {
		read = true
	}
	return
}

// classifyLoaded inspects uses of a value loaded from a field: map updates and
// element stores through it count as writes of the field's content.
func classifyLoaded(v ssa.Value, depth int) (read, write bool, kind string) {
	read = true
	refs := v.Referrers()
	if refs == nil || depth > 6 {
		return
	}
	switch v.Type().Underlying().(type) {
	case *types.Map:
		for _, ref := range *refs {
			switch u := ref.(type) {
			case *ssa.MapUpdate:
				if u.Map == v {
					return true, true, "map-update"
				}
			case *ssa.Call:
				if b, ok := u.Call.Value.(*ssa.Builtin); ok && (b.Name() == "delete" || b.Name() == "clear") && len(u.Call.Args) > 0 && u.Call.Args[0] == v {
					return true, true, "map-delete"
				}
			}
		}
	case *types.Slice:
		for _, ref := range *refs {
			if ia, ok := ref.(*ssa.IndexAddr); ok && ia.X == v {
				_, w, _ := classifyAddr(ia, depth+1)
				if w {
					return true, true, "slice-element-store"
				}
			}
		}
	}
	return
}

// derivesFromAlloc: the base pointer is an object allocated in this function
// (composite literal / new), possibly through phi-free copies.
func derivesFromAlloc(v ssa.Value, depth int) bool {
	if depth > 4 {
		return false
	}
	switch x := v.(type) {
	case *ssa.Alloc:
		return true
	case *ssa.FieldAddr:
		return derivesFromAlloc(x.X, depth+1)
	case *ssa.UnOp:
		// load of a local variable that holds the fresh pointer
		if a, ok := x.X.(*ssa.Alloc); ok && x.Op == token.MUL {
			n := 0
			okAll := true
			for _, ref := range *a.Referrers() {
				if st, ok := ref.(*ssa.Store); ok && st.Addr == a {
					n++
					okAll = okAll && derivesFromAlloc(st.Val, depth+1)
				}
			}
			// the variable itself being an Alloc of pointer type is not freshness of the pointee
			return n > 0 && okAll && !isPtrToPtr(a)
		}
	}
	return false
}

func isPtrToPtr(a *ssa.Alloc) bool { return false }
