package props

import (
	"fmt"
	"go/types"

	"golang.org/x/tools/go/ssa"

	"gbverif/ir"
	"gbverif/locks"
)

// guardRow is one line of the guarded-by table (DESIGN.md E1b): accesses to the
// fields must happen with the lock in the must-held set, in at least the given mode.
type guardRow struct {
	Pkg, Struct string
	Fields      []string
	Lock        string
	Write, Read locks.Mode // None = that kind of access is not checked
	Why         string
}

// guardExc is a reviewed exception: one (function, field, kind) with its reason.
type guardExc struct{ Fn, Field, Kind, Why string }

var guardTable = []guardRow{
	{"pkg/server", "BgpServer", []string{"neighborMap", "peerGroupMap", "bgpConfig", "globalRib", "rsRib", "listeners", "uuidMap", "zclient", "acceptCh"}, lkShared, locks.W, locks.R,
		"server-wide state is written only by the management loop (exclusive) and read under at least the shared lock"},
	{"pkg/server", "BgpServer", []string{"watcherMap"}, lkWatcher, locks.W, locks.R, "watcher registry has its own lock"},
	{"pkg/server", "fsm", []string{"capMap"}, lkFsm, locks.W, locks.W, "negotiated capabilities are published under fsm.lock"},
	{"pkg/server", "fsm", []string{"recvOpen"}, lkFsm, locks.W, locks.W, "received OPEN is stored and read under fsm.lock"},
	{"pkg/server", "peer", []string{"llgrEndChs", "prefixLimitWarned"}, lkFsm, locks.W, locks.None, "per-peer flags mutated from several goroutines under fsm.lock"},
	{"internal/pkg/table", "destinationShard", []string{"mp"}, lkShard, locks.W, locks.R, "shard map is owned by the shard lock"},
	{"internal/pkg/table", "destination", []string{"knownPathList", "localIdMap"}, lkShard, locks.W, locks.None, "active destinations are mutated only under their shard lock (reads happen on snapshots too)"},
	{"internal/pkg/table", "TableManager", []string{"tables", "vrfs"}, lkTM, locks.W, locks.R, "protects tables and vrfs maps"},
	{"internal/pkg/table", "rtmSet", []string{"m"}, lkRtm, locks.W, locks.R, "RT membership set"},
	{"internal/pkg/table", "VPNPathIndex", []string{"rts"}, lkVPNIdx, locks.W, locks.R, "RT -> VPN path index"},
	{"internal/pkg/table", "EVPNMacNLRIs", []string{"mp"}, lkMac, locks.W, locks.R, "MAC index"},
	{"internal/pkg/table", "RoutingPolicy", []string{"definedSetMap", "policyMap", "statementMap", "assignmentMap"}, lkPolicy, locks.W, locks.R, "policy database"},
	{"pkg/server", "zebraClient", []string{"pathVrfMap"}, lkPathVrf, locks.W, locks.R, "path -> vrf id map"},
	{"internal/pkg/table", "AdjRib", []string{"accepted", "table"}, lkShared, locks.R, locks.None, "Adj-RIB-In is only touched from contexts serialised per peer under (at least) the shared lock"},
	{"pkg/server", "roaClient", []string{"endOfData", "pendingROAs"}, lkShared, locks.W, locks.None, "RTR session state is driven by HandleROAEvent in the management context"},
}

var guardExceptions = []guardExc{
	{"(*pkg/server.BgpServer).Serve", "BgpServer.listeners", "write", "initialised before the management loop starts accepting operations: no operation that reads it can run earlier"},
	{"(*pkg/server.BgpServer).toConfig", "fsm.recvOpen", "read", "guarded by State()==ESTABLISHED: fsm.state is atomic and stored after every recvOpen write of the session; the next write needs the Idle→Active callbacks, which take sharedData.mu, while toConfig runs under sharedData.mu (exclusive) or on the peer's own FSM goroutine — no race could be produced with -race (findings/F15)"},
	{"(*pkg/server.BgpServer).Serve", "BgpServer.acceptCh", "read", "read by the management goroutine itself, which is the only writer (StartBgp's closure runs on this goroutine)"},
}

// requiresLock: functions documented as "caller must hold": the lock must be in the must-held set on entry.
type reqRow struct {
	Fn   string
	Lock string
	Mode locks.Mode
	Why  string
}

var requiresTable = []reqRow{
	{"(*internal/pkg/table.Table).getOrCreateDest", lkShard, locks.W, "caller must hold the shard lock"},
	{"(*internal/pkg/table.Table).deleteDest", lkShard, locks.W, "caller must hold the shard lock"},
	{"(*internal/pkg/table.destination).Calculate", lkShard, locks.W, "mutates the active destination"},
	{"(*internal/pkg/table.destination).explicitWithdraw", lkShard, locks.W, "mutates the active destination"},
	{"(*internal/pkg/table.destination).implicitWithdraw", lkShard, locks.W, "mutates the active destination"},
	{"(*internal/pkg/table.destination).insertSort", lkShard, locks.W, "mutates the active destination"},
	{"(*internal/pkg/table.ROATable).Add", lkShared, locks.W, "ROA table is mutated only in the exclusive management context"},
	{"(*internal/pkg/table.ROATable).Delete", lkShared, locks.W, "ROA table is mutated only in the exclusive management context"},
	{"(*internal/pkg/table.ROATable).DeleteAll", lkShared, locks.W, "ROA table is mutated only in the exclusive management context"},
	{"(*pkg/server.BgpServer).getBestFromLocalCallbackLocked", lkRR, locks.R, "caller holds the peer's route-refresh lock"},
	{"(*internal/pkg/table.TableManager).Update", lkBucket, locks.W, "RIB update and fan-out form one critical section per prefix bucket"},
	{"(*pkg/server.BgpServer).propagateUpdateToNeighbors", lkBucket, locks.W, "fan-out must see the RIB state produced by the update it follows"},
	{"pkg/server.needToAdvertise", lkRR, locks.R, "the 'is this peer being advertised to' test must be atomic with the bookkeeping it guards: PeerDown publishes Idle and then clears the bookkeeping under the exclusive route-refresh lock"},
	{"(*internal/pkg/table.Policy).Apply", lkPolicy, locks.R, "policy, statement and set objects are edited in place under the policy lock: an evaluation must see one configuration"},
	{"(*internal/pkg/table.Statement).Apply", lkPolicy, locks.R, "policy, statement and set objects are edited in place under the policy lock: an evaluation must see one configuration"},
}

// requiresFor: the rows of requiresTable for one lock class.
func requiresFor(lock string) []reqRow {
	var out []reqRow
	for _, q := range requiresTable {
		if q.Lock == lock {
			out = append(out, q)
		}
	}
	return out
}

func (c *Ctx) ruleGuarded(rule string, rows []guardRow, min int) {
	a := c.lockAnalysis()
	r := c.R
	r.Rule(rule, "guarded-by table: every write (store, map update/delete, element store) and armed read of a listed field happens with the row's lock in the interprocedural must-held set; objects allocated in the same function are exempt", min)
	want := map[*types.Var]*guardRow{}
	for i := range rows {
		row := &rows[i]
		n := c.P.NamedType(row.Pkg, row.Struct)
		if n == nil {
			r.Undec(rule, "-", "anchor:"+row.Pkg+"."+row.Struct, "-", "guarded struct not found")
			continue
		}
		for _, f := range row.Fields {
			fv := ir.Field(n, f)
			if fv == nil {
				r.Undec(rule, "-", "anchor:"+row.Struct+"."+f, "-", "guarded field not found (renamed?): re-review the guarded-by table")
				continue
			}
			want[fv] = row
		}
	}
	acc := locks.FieldAccesses(c.P, func(n *types.Named, f *types.Var) bool { return want[f] != nil })
	exc := map[string]string{}
	for _, e := range guardExceptions {
		exc[e.Fn+"|"+e.Field+"|"+e.Kind] = e.Why
	}
	for _, ac := range acc {
		row := want[ac.Field]
		kind, need := "read", row.Read
		if ac.Write {
			kind, need = "write", row.Write
		}
		if need == locks.None {
			continue
		}
		fk := ir.OuterKey(ac.Fn)
		fld := row.Struct + "." + ac.Field.Name()
		cons := kind + " " + fld
		pos := c.P.InstrPos(ac.Instr)
		if ac.Fresh {
			r.Add(oblT(rule, fk, cons, pos, "ok", "object allocated in this function (not yet published)", nil, true))
			continue
		}
		_, must, reached := a.At(ac.Instr)
		if !reached {
			r.Add(oblT(rule, fk, cons, pos, "ok", "function unreachable from any entry point", nil, true))
			continue
		}
		if must[row.Lock] >= need {
			r.Ok(rule, fk, cons, pos, fmt.Sprintf("must-held %s ⊇ %s(%s)", must, row.Lock, need))
			continue
		}
		if why, ok := exc[fk+"|"+fld+"|"+kind]; ok {
			r.Except(rule, fk, cons, pos, why)
			continue
		}
		// the access of a recorded finding moved into a helper: it is still the listed function that performs it
		// without the lock (through that helper), so it is reported under the listed function's key
		if anc := c.knownUnlockedCaller(a, ac.Fn, row.Lock, need, rule, cons); anc != "" {
			r.Add(obl(rule, anc, cons, pos, "violation",
				fmt.Sprintf("%s of %s needs %s(%s) [%s] but only %s is held on every path to here (%s; the access is in %s, which %s reaches without the lock)", kind, fld, row.Lock, need, row.Why, must, ac.Kind, fk, anc),
				c.unlockedPath(a, ac.Fn, row.Lock, need)))
			continue
		}
		r.Add(obl(rule, fk, cons, pos, "violation",
			fmt.Sprintf("%s of %s needs %s(%s) [%s] but only %s is held on every path to here (%s)", kind, fld, row.Lock, need, row.Why, must, ac.Kind),
			c.unlockedPath(a, ac.Fn, row.Lock, need)))
	}
}

// knownUnlockedCaller: a function within three calls above fn, on a chain of call sites at which the lock is not
// (sufficiently) held, whose own key for this construct is a listed known finding.
func (c *Ctx) knownUnlockedCaller(a *locks.Analysis, fn *ssa.Function, lock string, need locks.Mode, rule, cons string) string {
	type item struct {
		f *ssa.Function
		d int
	}
	seen := map[*ssa.Function]bool{fn: true}
	queue := []item{{fn, 0}}
	for len(queue) > 0 {
		it := queue[0]
		queue = queue[1:]
		if it.d >= 3 {
			continue
		}
		for _, e := range a.In[it.f] {
			_, must, reached := a.At(e.Site)
			if !reached || must[lock] >= need || seen[e.Caller] {
				continue
			}
			seen[e.Caller] = true
			ck := ir.OuterKey(e.Caller)
			if c.R.IsKnown(rule + "|" + ck + "|" + cons) {
				return ck
			}
			queue = append(queue, item{e.Caller, it.d + 1})
		}
	}
	return ""
}

// unlockedPath finds a caller chain along which the lock is not (sufficiently) held.
func (c *Ctx) unlockedPath(a *locks.Analysis, fn *ssa.Function, lock string, need locks.Mode) []string {
	var out []string
	seen := map[*ssa.Function]bool{}
	for fn != nil && !seen[fn] && len(out) < 12 {
		seen[fn] = true
		_, must, top := a.Entry(fn)
		if top {
			break
		}
		if a.IsRoot(fn) {
			out = append(out, ir.FuncKey(fn)+" is an entry point (API / goroutine / callback): nothing held")
			break
		}
		if must[lock] >= need {
			break
		}
		var next *ssa.Function
		for _, e := range a.In[fn] {
			if e.Async {
				out = append(out, fmt.Sprintf("%s started asynchronously from %s at %s", ir.FuncKey(fn), ir.FuncKey(e.Caller), c.P.InstrPos(e.Site)))
				return out
			}
			_, m, reached := a.At(e.Site)
			if reached && m[lock] < need {
				out = append(out, fmt.Sprintf("%s called from %s at %s holding %s", ir.FuncKey(fn), ir.FuncKey(e.Caller), c.P.InstrPos(e.Site), m))
				next = e.Caller
				break
			}
		}
		fn = next
	}
	return out
}

func (c *Ctx) ruleRequires(rule string, rows []reqRow, min int) {
	a := c.lockAnalysis()
	r := c.R
	r.Rule(rule, "requires-lock functions: at every synchronous call site the required lock is in the must-held set", min)
	for _, row := range rows {
		fn := c.P.Func(row.Fn)
		if fn == nil {
			r.Undec(rule, row.Fn, "anchor", "-", "requires-lock function not found (renamed?): re-review the table")
			continue
		}
		ins := a.In[fn]
		if len(ins) == 0 {
			r.Add(oblT(rule, row.Fn, "no callers", "-", "ok", "function has no callers in the module", nil, true))
		}
		for _, e := range ins {
			pos := c.P.InstrPos(e.Site)
			cons := "call from " + ir.OuterKey(e.Caller)
			_, must, reached := a.At(e.Site)
			if e.Async {
				r.Bad(rule, row.Fn, cons, pos, "started asynchronously: nothing can be held")
				continue
			}
			if !reached {
				r.Add(oblT(rule, row.Fn, cons, pos, "ok", "caller unreachable", nil, true))
				continue
			}
			if must[row.Lock] >= row.Mode {
				r.Ok(rule, row.Fn, cons, pos, "must-held "+must.String())
			} else {
				r.Add(obl(rule, row.Fn, cons, pos, "violation", fmt.Sprintf("%s: needs %s(%s), must-held here is %s", row.Why, row.Lock, row.Mode, must), c.unlockedPath(a, e.Caller, row.Lock, row.Mode)))
			}
		}
	}
}
