package props

import (
	"encoding/json"
	"fmt"
	"os"
	"path/filepath"
	"sort"
	"strings"

	"golang.org/x/tools/go/ssa"

	"gbverif/ir"
	"gbverif/report"
)

// sliceSig: per function (literals folded in) and per (module callee, argument position), how many of the call
// sites that hand over a sub-slice of a byte buffer (an expression buf[a:b] / buf[a:]) hand over one that is
// bounded above — by an explicit upper index other than len(buf) itself, possibly on an enclosing sub-slice.
type sliceSig struct {
	Func  string            `json:"func"`
	File  string            `json:"file"`
	Sites map[string][2]int `json:"sites"` // "callee#i" -> [bounded, total]
}

// lenOfBase: v is len(x) (x compared by sameSym-like identity: the same SSA value, or loads of the same address).
func lenOfBase(v, x ssa.Value) bool {
	call, ok := v.(*ssa.Call)
	if !ok {
		return false
	}
	b, ok := call.Call.Value.(*ssa.Builtin)
	if !ok || b.Name() != "len" || len(call.Call.Args) != 1 {
		return false
	}
	a := call.Call.Args[0]
	if a == x {
		return true
	}
	ua, ok1 := a.(*ssa.UnOp)
	ux, ok2 := x.(*ssa.UnOp)
	return ok1 && ok2 && ua.X == ux.X
}

// boundedAbove: the slice value has an upper bound that was chosen by the code (not merely the end of its base).
func (c *Ctx) boundedAbove(v ssa.Value, depth int, seen map[ssa.Value]bool) bool {
	if seen[v] {
		return true // a cycle through a phi adds no unbounded source
	}
	seen[v] = true
	switch x := v.(type) {
	case *ssa.Slice:
		if x.High != nil && !lenOfBase(x.High, x.X) {
			return true
		}
		return c.boundedAbove(x.X, depth, seen)
	case *ssa.Phi:
		for _, e := range x.Edges {
			if !c.boundedAbove(e, depth, seen) {
				return false
			}
		}
		return true
	case *ssa.ChangeType:
		return c.boundedAbove(x.X, depth, seen)
	case *ssa.Convert:
		return c.boundedAbove(x.X, depth, seen)
	case *ssa.Extract:
		if call, ok := x.Tuple.(*ssa.Call); ok {
			return c.resultBounded(call, x.Index, depth)
		}
	case *ssa.Call:
		return c.resultBounded(x, 0, depth)
	}
	return false
}

// resultBounded: every return of the (module, static) callee hands back a bounded sub-slice in result i.
func (c *Ctx) resultBounded(call *ssa.Call, i, depth int) bool {
	cal := calleeOf(&call.Call)
	if cal == nil || cal.Blocks == nil || !c.P.InModule(cal) || depth >= 2 {
		return false
	}
	n := 0
	for _, b := range cal.Blocks {
		ret, ok := b.Instrs[len(b.Instrs)-1].(*ssa.Return)
		if !ok || i >= len(ret.Results) {
			continue
		}
		n++
		if !c.boundedAbove(ret.Results[i], depth+1, map[ssa.Value]bool{}) {
			return false
		}
	}
	return n > 0
}

func (c *Ctx) sliceSigs(pkgs []string) []sliceSig {
	var out []sliceSig
	for _, short := range pkgs {
		for _, fn := range c.P.FuncsIn(short) {
			if fn.Parent() != nil || fn.Blocks == nil {
				continue
			}
			file := c.P.Pos(fn.Pos())
			if i := strings.LastIndex(file, ":"); i > 0 {
				file = file[:i]
			}
			if strings.HasSuffix(file, ".pb.go") || strings.HasSuffix(file, "_string.go") || file == "-" {
				continue
			}
			sites := map[string][2]int{}
			var walk func(f *ssa.Function)
			walk = func(f *ssa.Function) {
				for _, b := range f.Blocks {
					for _, in := range b.Instrs {
						ci, ok := in.(ssa.CallInstruction)
						if !ok {
							continue
						}
						com := ci.Common()
						name := ""
						if com.IsInvoke() {
							if com.Method.Pkg() == nil || !strings.HasPrefix(com.Method.Pkg().Path(), ir.ModPath) {
								continue
							}
							name = "invoke " + com.Method.Name()
						} else if cal := calleeOf(com); cal != nil && c.P.InModule(cal) {
							name = stripTypeArgs(ir.FuncKey(cal))
						} else {
							continue
						}
						for i, a := range com.Args {
							if !isByteSlice(a.Type()) {
								continue
							}
							v := a
							if ct, ok := v.(*ssa.ChangeType); ok {
								v = ct.X
							}
							if _, ok := v.(*ssa.Slice); !ok {
								continue
							}
							k := fmt.Sprintf("%s#%d", name, i)
							s := sites[k]
							s[1]++
							if c.boundedAbove(v, 0, map[ssa.Value]bool{}) {
								s[0]++
							}
							sites[k] = s
						}
					}
				}
				for _, an := range f.AnonFuncs {
					walk(an)
				}
			}
			walk(fn)
			keep := map[string][2]int{}
			for k, s := range sites {
				if s[0] > 0 {
					keep[k] = s
				}
			}
			if len(keep) > 0 {
				out = append(out, sliceSig{Func: ir.FuncKey(fn), File: file, Sites: keep})
			}
		}
	}
	sort.Slice(out, func(i, j int) bool { return out[i].Func < out[j].Func })
	return out
}

// ruleSliceBoundRatchet: a decoder that handed its callee a buffer cut off at a length it had read still does.
func (c *Ctx) ruleSliceBoundRatchet(rule string, pkgs []string, fileFilter func(string) bool, baselineFile string, min int) {
	r := c.R
	r.Rule(rule, "framing ratchet: the committed baseline records, per function and per (module callee, argument position), how many of the call sites that pass a sub-slice of a byte buffer pass one with an upper bound chosen by the code (buf[a:b] with b other than len(buf), directly, on an enclosing sub-slice, or inside the module helper that produced it). In a function that still has the same number of such sites for that callee, fewer bounded ones means a callee that used to see exactly the octets announced by a length field now sees the rest of the buffer — the next message, the next attribute, the next TLV", min)
	var base []sliceSig
	b, err := os.ReadFile(filepath.Join(homeDir(), baselineFile))
	if err != nil || json.Unmarshal(b, &base) != nil {
		r.Undec(rule, "-", "baseline:"+baselineFile, "-", "baseline file missing or unreadable")
		return
	}
	cur := map[string]sliceSig{}
	for _, s := range c.sliceSigs(pkgs) {
		cur[s.Func] = s
	}
	for _, bs := range base {
		inPkgs := false
		for _, pk := range pkgs {
			if strings.Contains(bs.Func, pk+".") {
				inPkgs = true
			}
		}
		if !inPkgs || (fileFilter != nil && !fileFilter(bs.File)) {
			continue
		}
		cons := fmt.Sprintf("%d callee arguments that receive a bounded sub-slice", len(bs.Sites))
		if fn := c.P.Func(bs.Func); fn == nil || fn.Blocks == nil {
			r.Add(oblT(rule, bs.Func, cons, bs.File, "ok", "the function no longer exists: not decided", nil, true))
			continue
		}
		now := cur[bs.Func]
		var keys []string
		for k := range bs.Sites {
			keys = append(keys, k)
		}
		sort.Strings(keys)
		lost := ""
		undecided := 0
		for _, k := range keys {
			was := bs.Sites[k]
			is, ok := now.Sites[k]
			if !ok {
				// no bounded site left: decided only if the unbounded sites are all still there
				is = c.unboundedSites(bs.Func, k)
			}
			if is[1] != was[1] {
				undecided++
				continue
			}
			if is[0] < was[0] {
				lost = fmt.Sprintf("%s: %d of %d sub-slices bounded above, %d on the reviewed tree", k, is[0], is[1], was[0])
			}
		}
		switch {
		case lost != "":
			r.Bad(rule, bs.Func, cons, bs.File, "a sub-slice handed on is no longer cut off at the announced length — "+lost)
		case undecided == len(keys):
			r.Add(oblT(rule, bs.Func, cons, bs.File, "ok", "the number of sub-slice sites changed: not decided", nil, true))
		default:
			r.Ok(rule, bs.Func, cons, bs.File, "every recorded sub-slice is still bounded above")
		}
	}
}

// unboundedSites recounts one key of one function without dropping all-unbounded entries.
func (c *Ctx) unboundedSites(fk, key string) [2]int {
	fn := c.P.Func(fk)
	var s [2]int
	if fn == nil {
		return s
	}
	var walk func(f *ssa.Function)
	walk = func(f *ssa.Function) {
		for _, b := range f.Blocks {
			for _, in := range b.Instrs {
				ci, ok := in.(ssa.CallInstruction)
				if !ok {
					continue
				}
				com := ci.Common()
				name := ""
				if com.IsInvoke() {
					name = "invoke " + com.Method.Name()
				} else if cal := calleeOf(com); cal != nil && c.P.InModule(cal) {
					name = stripTypeArgs(ir.FuncKey(cal))
				} else {
					continue
				}
				for i, a := range com.Args {
					if fmt.Sprintf("%s#%d", name, i) != key || !isByteSlice(a.Type()) {
						continue
					}
					v := a
					if ct, ok := v.(*ssa.ChangeType); ok {
						v = ct.X
					}
					if _, ok := v.(*ssa.Slice); !ok {
						continue
					}
					s[1]++
					if c.boundedAbove(v, 0, map[ssa.Value]bool{}) {
						s[0]++
					}
				}
			}
		}
		for _, an := range f.AnonFuncs {
			walk(an)
		}
	}
	walk(fn)
	return s
}

func init() {
	debugHooks["slicebound-baseline"] = func(p *ir.Program) {
		c := &Ctx{P: p, R: report.New("DBG", "quick")}
		b, _ := json.MarshalIndent(c.sliceSigs(callPkgs), "", " ")
		fmt.Println("BASELINE-BEGIN")
		fmt.Println(string(b))
	}
}
