package props

import (
	"go/ast"
	"go/types"
	"strings"

	"golang.org/x/tools/go/ssa"
)

// ruleMRTRibFamilies: three tables must name the same families — the AFI/SAFI-specific RIB subtypes.
func (c *Ctx) ruleMRTRibFamilies() {
	r := c.R
	rule := "E4.mrt-rib-families"
	r.Rule(rule, "TABLE_DUMP_V2: the families for which the reader is told the family by the subtype (the subtype switch of ParseMRTBody assigns it; parseRib then reads no AFI/SAFI header) are exactly the families for which Rib.Serialize writes no AFI/SAFI header, and exactly the families the dump writer maps to an AFI/SAFI-specific subtype", 3)
	familyConsts := func(n ast.Node, info *types.Info) map[string]bool {
		out := map[string]bool{}
		ast.Inspect(n, func(x ast.Node) bool {
			if id, ok := x.(*ast.Ident); ok {
				if k, ok := info.Uses[id].(*types.Const); ok && strings.HasPrefix(k.Name(), "RF_") {
					out[k.Name()] = true
				}
			}
			return true
		})
		return out
	}
	// reader: families assigned in a switch on the TABLE_DUMPv2 subtype
	var reader *ssa.Function
	for _, fn := range c.P.FuncsIn("pkg/packet/mrt") {
		if fn.Parent() == nil && len(staticCallsOf(fn, false, "parseRib")) > 0 {
			reader = fn
		}
	}
	ser := c.P.Func("(*pkg/packet/mrt.Rib).Serialize")
	dump := c.P.Func("(*pkg/server.mrtWriter).dumpTable")
	if reader == nil || ser == nil || dump == nil {
		r.Undec(rule, "-", "anchor", "-", "ParseMRTBody/Rib.Serialize/dumpTable not found")
		return
	}
	read := map[string]bool{}
	{
		info := c.infoFor(reader)
		for _, sw := range switchesOn(funcBody(reader), info, func(t types.Type) bool {
			n, ok := t.(*types.Named)
			return ok && n.Obj().Name() == "MRTSubTypeTableDumpv2"
		}) {
			for _, cc := range sw.Cases {
				for k := range familyConsts(cc, info) {
					read[k] = true
				}
			}
		}
	}
	if len(read) == 0 {
		r.Bad(rule, fnKey(reader), "subtype → family", c.P.Pos(reader.Pos()), "no AFI/SAFI-specific subtype assigns a family")
		return
	}
	r.Ok(rule, fnKey(reader), "subtype → family", c.P.Pos(reader.Pos()), "families implied by the subtype: "+setStr(read))
	// writer: the clause of the family switch that does not touch the wire
	{
		info := c.infoFor(ser)
		sws := switchesOn(funcBody(ser), info, func(t types.Type) bool {
			n, ok := t.(*types.Named)
			return ok && n.Obj().Name() == "Family"
		})
		if len(sws) != 1 {
			r.Bad(rule, fnKey(ser), "no header for subtype-implied families", c.P.Pos(ser.Pos()), "expected one switch on the family")
		} else {
			sw := sws[0]
			noHeader := map[string]bool{}
			header := map[string]bool{}
			for name, cc := range sw.Cases {
				wire := false
				for _, st := range cc.Body {
					if touchesWire(info, st) {
						wire = true
					}
				}
				if wire {
					header[name] = true
				} else {
					noHeader[name] = true
				}
			}
			defaultWrites := false
			if sw.Default != nil {
				for _, st := range sw.Default.Body {
					if touchesWire(info, st) {
						defaultWrites = true
					}
				}
			}
			switch {
			case !defaultWrites:
				r.Bad(rule, fnKey(ser), "no header for subtype-implied families", c.P.Pos(sw.Stmt.Pos()), "families not listed get no AFI/SAFI header, but every family without an AFI/SAFI-specific subtype is written as RIB_GENERIC and needs one (header only for {"+setStr(header)+"})")
			case setStr(noHeader) != setStr(read):
				r.Bad(rule, fnKey(ser), "no header for subtype-implied families", c.P.Pos(sw.Stmt.Pos()), "AFI/SAFI header omitted for {"+setStr(noHeader)+"} but the reader takes the family from the subtype for {"+setStr(read)+"}")
			default:
				r.Ok(rule, fnKey(ser), "no header for subtype-implied families", c.P.Pos(sw.Stmt.Pos()), setStr(noHeader))
			}
		}
	}
	// dump writer: families mapped to specific subtypes
	{
		got := map[string]bool{}
		for _, f := range c.withHelpers(dump, 2) {
			info := c.infoFor(f)
			body := funcBody(f)
			if info == nil || body == nil {
				continue
			}
			for _, sw := range switchesOn(body, info, func(t types.Type) bool {
				n, ok := t.(*types.Named)
				return ok && n.Obj().Name() == "Family"
			}) {
				for name, cc := range sw.Cases {
					uses := false
					ast.Inspect(cc, func(x ast.Node) bool {
						if id, ok := x.(*ast.Ident); ok {
							if k, ok := info.Uses[id].(*types.Const); ok && strings.HasPrefix(k.Name(), "RIB_") {
								uses = true
							}
						}
						return true
					})
					if uses && strings.HasPrefix(name, "RF_") {
						got[name] = true
					}
				}
			}
		}
		if setStr(got) == setStr(read) {
			r.Ok(rule, fnKey(dump), "family → subtype", c.P.Pos(dump.Pos()), setStr(got))
		} else {
			r.Bad(rule, fnKey(dump), "family → subtype", c.P.Pos(dump.Pos()), "dump writer maps {"+setStr(got)+"} to AFI/SAFI-specific subtypes but the reader knows {"+setStr(read)+"}")
		}
	}
}

func fnKey(fn *ssa.Function) string {
	k := fn.String()
	return strings.Replace(k, "github.com/osrg/gobgp/v4/", "", -1)
}

// ruleSessionChangeDetected: the RTR session id is only overwritten after it has been compared.
func (c *Ctx) ruleSessionChangeDetected() {
	r := c.R
	rule := "E6.rtr-session-change"
	r.Rule(rule, "in the RTR message handler every store to roaClient.sessionID is dominated by a comparison of the old roaClient.sessionID with the very value being stored, whose unequal edge reaches ROATable.DeleteAll: a cache that comes back with a new session has its previous records purged (a store that is not preceded by the comparison makes the later comparison see no change)", 1)
	fn := c.P.Func("(*pkg/server.roaManager).handleRTRMsg")
	if fn == nil {
		r.Undec(rule, "-", "anchor:handleRTRMsg", "-", "not found")
		return
	}
	fk := fnKey(fn)
	n := 0
	for _, b := range fn.Blocks {
		for _, in := range b.Instrs {
			st, ok := in.(*ssa.Store)
			if !ok {
				continue
			}
			fa, ok := st.Addr.(*ssa.FieldAddr)
			if !ok || fieldOfName(fa) != "sessionID" {
				continue
			}
			n++
			good := false
			for _, b2 := range fn.Blocks {
				iff, ok := b2.Instrs[len(b2.Instrs)-1].(*ssa.If)
				if !ok {
					continue
				}
				bo, ok := iff.Cond.(*ssa.BinOp)
				if !ok || bo.Op.String() != "!=" && bo.Op.String() != "==" {
					continue
				}
				oldLoaded := func(v ssa.Value) bool { return fieldLoadName(v) == "sessionID" && v != st.Val }
				if !(oldLoaded(bo.X) && sameSym(bo.Y, st.Val) || oldLoaded(bo.Y) && sameSym(bo.X, st.Val)) {
					continue
				}
				if !b2.Dominates(st.Block()) {
					continue
				}
				ne := 0
				if bo.Op.String() == "==" {
					ne = 1
				}
				for _, call := range staticCallsOf(fn, false, "DeleteAll") {
					if edgeDominates(b2, ne, call.Block()) {
						good = true
					}
				}
			}
			cons := "store sessionID #" + itoa(n)
			if good {
				r.Ok(rule, fk, cons, c.P.InstrPos(st), "preceded by old != new → DeleteAll")
			} else {
				r.Bad(rule, fk, cons, c.P.InstrPos(st), "the session id is overwritten without first being compared with the old one (and purging on change): records of the cache's previous session are never removed")
			}
		}
	}
	if n == 0 {
		r.Bad(rule, fk, "store sessionID", c.P.Pos(fn.Pos()), "the handler never records the session id")
	}
}

func fieldOfName(fa *ssa.FieldAddr) string {
	t := fa.X.Type()
	if p, ok := t.Underlying().(*types.Pointer); ok {
		t = p.Elem()
	}
	if s, ok := t.Underlying().(*types.Struct); ok && fa.Field < s.NumFields() {
		return s.Field(fa.Field).Name()
	}
	return ""
}

func itoa(i int) string { return fmtInt(i) }

func fmtInt(i int) string {
	if i == 0 {
		return "0"
	}
	var b []byte
	for i > 0 {
		b = append([]byte{byte('0' + i%10)}, b...)
		i /= 10
	}
	return string(b)
}

// decodedFieldExceptions: serialiser-read fields that no decoder fills, by design.
var decodedFieldExceptions = map[string]string{
	"pkg/packet/mrt.BGP4MPMessage.BGPMessagePayload":     "writer-side alternative: the raw bytes of a received message, used instead of re-serialising BGPMessage; the reader fills the parsed BGPMessage",
	"pkg/packet/bmp.BMPRouteMonitoring.BGPUpdatePayload": "writer-side alternative: the raw bytes of the mirrored UPDATE; the reader fills the parsed BGPUpdate",
}

// ruleDecodedFields: what the serialiser of a decodable type reads, some decoder writes.
func (c *Ctx) ruleDecodedFields(rule string, shorts []string, min int) {
	r := c.R
	r.Rule(rule, "for every struct type that decode-side code allocates and that has a Serialize method: each of its own fields that Serialize reads is populated somewhere in the functions reachable from the parse entry points — by a store to the field or to something inside it, by a whole-struct store, or by handing its address to a call (a nested decoder); a field the writer emits but no reader ever fills re-serialises as zero", min)
	for _, short := range shorts {
		alloc, nreach := c.allocatedOnDecodeSide(short)
		if nreach == 0 {
			r.Undec(rule, "-", "anchor:entry:"+short, "-", "no parse entry point found")
			continue
		}
		var roots []*ssa.Function
		for _, k := range decodeEntryPoints {
			if strings.Contains(k, short+".") {
				if fn := c.P.Func(k); fn != nil {
					roots = append(roots, fn)
				}
			}
		}
		reach := c.reachableFrom(roots)
		stored := map[*types.Var]bool{}
		var markChain func(addr ssa.Value, depth int)
		markChain = func(addr ssa.Value, depth int) {
			if depth > 8 {
				return
			}
			switch x := addr.(type) {
			case *ssa.FieldAddr:
				stored[fieldVarOf(x)] = true
				markChain(x.X, depth+1)
			case *ssa.IndexAddr:
				markChain(x.X, depth+1)
			case *ssa.UnOp:
				// element of a slice/map held in a field: p.f[i] = v stores through a load of p.f
				if _, isSlice := x.Type().Underlying().(*types.Slice); isSlice {
					markChain(x.X, depth+1)
				}
				if _, isMap := x.Type().Underlying().(*types.Map); isMap {
					markChain(x.X, depth+1)
				}
			}
		}
		for fn := range reach {
			for _, b := range fn.Blocks {
				for _, in := range b.Instrs {
					switch x := in.(type) {
					case *ssa.Store:
						markChain(x.Addr, 0)
						if s, ok := x.Val.Type().Underlying().(*types.Struct); ok {
							for i := 0; i < s.NumFields(); i++ {
								stored[s.Field(i)] = true
							}
						}
					case *ssa.MapUpdate:
						markChain(x.Map, 0)
					case ssa.CallInstruction:
						for _, a := range x.Common().Args {
							if fa, ok := a.(*ssa.FieldAddr); ok {
								markChain(fa, 0)
							}
							if sl, ok := a.(*ssa.Slice); ok {
								markChain(sl.X, 0) // &p.arr[:] handed to copy/decoder
							}
						}
					}
				}
			}
		}
		var names []*types.Named
		for n := range alloc {
			if n.Obj().Pkg() != nil && strings.HasSuffix(n.Obj().Pkg().Path(), short) {
				names = append(names, n)
			}
		}
		sortNamed(names)
		for _, n := range names {
			var ser *ssa.Function
			for _, mn := range []string{"Serialize", "serialize"} {
				if f := c.P.Func("(*" + short + "." + n.Obj().Name() + ")." + mn); f != nil && f.Blocks != nil {
					ser = f
				}
			}
			st, ok := n.Underlying().(*types.Struct)
			if ser == nil || !ok {
				continue
			}
			ownF := map[*types.Var]bool{}
			for i := 0; i < st.NumFields(); i++ {
				ownF[st.Field(i)] = true
			}
			seen := map[*types.Var]bool{}
			nread := 0
			for _, b := range ser.Blocks {
				for _, in := range b.Instrs {
					fa, ok := in.(*ssa.FieldAddr)
					if !ok || fa.X != ssa.Value(ser.Params[0]) {
						continue
					}
					f := fieldVarOf(fa)
					if !ownF[f] || f.Embedded() || seen[f] {
						continue
					}
					seen[f] = true
					nread++
					key := short + "." + n.Obj().Name() + "." + f.Name()
					fk := short + "." + n.Obj().Name()
					switch {
					case stored[f]:
						// one obligation per type is enough for the OK case; counted below
					case decodedFieldExceptions[key] != "":
						r.Except(rule, fk, "field "+f.Name(), c.P.Pos(f.Pos()), decodedFieldExceptions[key])
					default:
						r.Bad(rule, fk, "field "+f.Name(), c.P.Pos(f.Pos()), "Serialize reads this field but nothing reachable from the parse entry points ever fills it: a decoded "+n.Obj().Name()+" re-serialises with the field zero, so the bytes it was decoded from are not reproduced")
					}
				}
			}
			if nread > 0 {
				r.Ok(rule, short+"."+n.Obj().Name(), "fields read by Serialize", c.P.Pos(n.Obj().Pos()), fmtInt(nread)+" fields read; unfilled ones reported separately")
			}
		}
	}
}

func fieldVarOf(fa *ssa.FieldAddr) *types.Var {
	t := fa.X.Type()
	if p, ok := t.Underlying().(*types.Pointer); ok {
		t = p.Elem()
	}
	return t.Underlying().(*types.Struct).Field(fa.Field)
}

func sortNamed(ns []*types.Named) {
	for i := 1; i < len(ns); i++ {
		for j := i; j > 0 && ns[j].Obj().Name() < ns[j-1].Obj().Name(); j-- {
			ns[j], ns[j-1] = ns[j-1], ns[j]
		}
	}
}

// decodedNonNilExceptions: reviewed cases where the serialiser's dereference is guarded by a correlated field.
var decodedNonNilExceptions = map[string]string{
	"pkg/packet/bgp.MUPType1SessionTransformedRoute.SourceAddress": "Serialize dereferences SourceAddress only when SourceAddressLength > 0, and the decoder stores both together (length 0 ⇒ no address)",
}

// ruleDecodedNonNil: a successfully decoded object can be serialised without a nil dereference.
func (c *Ctx) ruleDecodedNonNil(rule string, shorts []string, min int) {
	r := c.R
	r.Rule(rule, "for every decodable struct type with a decoder method and a Serialize method: each pointer- or interface-typed field that Serialize dereferences (calls a method on, or reads through) without ever comparing it with nil is assigned on every path of the decoder that returns success — for path attributes, which BGPUpdate.DecodeFromBytes keeps in the message unless the error is of the attribute-discard class, on every returning path; an accepted or kept object with such a field nil panics the first time the route is serialised, printed or converted", min)
	for _, short := range shorts {
		alloc, nreach := c.allocatedOnDecodeSide(short)
		if nreach == 0 {
			r.Undec(rule, "-", "anchor:entry:"+short, "-", "no parse entry point found")
			continue
		}
		var names []*types.Named
		for n := range alloc {
			if n.Obj().Pkg() != nil && strings.HasSuffix(n.Obj().Pkg().Path(), short) {
				names = append(names, n)
			}
		}
		sortNamed(names)
		for _, n := range names {
			if _, ok := n.Underlying().(*types.Struct); !ok {
				continue
			}
			var ser, dec *ssa.Function
			for _, mn := range []string{"Serialize", "serialize"} {
				if f := c.P.Func("(*" + short + "." + n.Obj().Name() + ")." + mn); f != nil && f.Blocks != nil {
					ser = f
				}
			}
			for _, mn := range []string{"DecodeFromBytes", "decodeFromBytes", "decode"} {
				if f := c.P.Func("(*" + short + "." + n.Obj().Name() + ")." + mn); f != nil && f.Blocks != nil {
					dec = f
				}
			}
			if ser == nil || dec == nil {
				continue
			}
			unsafeF := map[*types.Var]bool{}
			nilAware := map[*types.Var]bool{}
			for _, b := range ser.Blocks {
				for _, in := range b.Instrs {
					u, ok := in.(*ssa.UnOp)
					if !ok {
						continue
					}
					fa, ok := u.X.(*ssa.FieldAddr)
					if !ok || fa.X != ssa.Value(ser.Params[0]) {
						continue
					}
					f := fieldVarOf(fa)
					switch f.Type().Underlying().(type) {
					case *types.Interface, *types.Pointer:
					default:
						continue
					}
					for _, ref := range *u.Referrers() {
						switch x := ref.(type) {
						case *ssa.BinOp:
							if isNilConst(x.X) || isNilConst(x.Y) {
								nilAware[f] = true
							}
						case ssa.CallInstruction:
							cc := x.Common()
							if cc.IsInvoke() && cc.Value == ssa.Value(u) {
								unsafeF[f] = true
							}
							if !cc.IsInvoke() && len(cc.Args) > 0 && cc.Args[0] == ssa.Value(u) && cc.StaticCallee() != nil && cc.StaticCallee().Signature.Recv() != nil {
								unsafeF[f] = true
							}
						case *ssa.FieldAddr:
							unsafeF[f] = true
						case *ssa.UnOp:
							unsafeF[f] = true
						}
					}
				}
			}
			fk := short + "." + n.Obj().Name()
			for f := range unsafeF {
				if nilAware[f] {
					continue
				}
				marks := map[*ssa.BasicBlock]bool{}
				for _, b := range dec.Blocks {
					for _, in := range b.Instrs {
						switch x := in.(type) {
						case *ssa.Store:
							if fa, ok := x.Addr.(*ssa.FieldAddr); ok && fa.X == ssa.Value(dec.Params[0]) && fieldVarOf(fa) == f {
								marks[b] = true
							}
						case ssa.CallInstruction:
							for _, a := range x.Common().Args {
								if fa, ok := a.(*ssa.FieldAddr); ok && fa.X == ssa.Value(dec.Params[0]) && fieldVarOf(fa) == f {
									marks[b] = true
								}
							}
						}
					}
				}
				bad := ""
				for _, b := range dec.Blocks {
					ret, ok := b.Instrs[len(b.Instrs)-1].(*ssa.Return)
					if !ok || len(ret.Results) == 0 {
						continue
					}
					// a path attribute stays in the message when its decoder fails with a treat-as-withdraw class
					// error (BGPUpdate.DecodeFromBytes drops only attribute-discard ones), and the daemon goes on to
					// print and log that message: for those types every return counts, not only the successful ones
					keptOnError := strings.HasPrefix(n.Obj().Name(), "PathAttribute") && strings.HasSuffix(short, "pkg/packet/bgp")
					if !keptOnError && !isNilConst(ret.Results[len(ret.Results)-1]) {
						continue
					}
					seen := map[*ssa.BasicBlock]bool{}
					work := []*ssa.BasicBlock{dec.Blocks[0]}
					for len(work) > 0 {
						x := work[0]
						work = work[1:]
						if seen[x] || marks[x] {
							continue
						}
						seen[x] = true
						if x == b {
							bad = c.P.InstrPos(ret)
							break
						}
						work = append(work, x.Succs...)
					}
				}
				cons := "field " + f.Name()
				key := fk + "." + f.Name()
				switch {
				case bad == "":
					r.Ok(rule, fk, cons, c.P.Pos(f.Pos()), "assigned on every successful decode path")
				case decodedNonNilExceptions[key] != "":
					r.Except(rule, fk, cons, c.P.Pos(f.Pos()), decodedNonNilExceptions[key])
				default:
					r.Bad(rule, fk, cons, bad, "the decoder can return at "+bad+" (with success, or for a path attribute with an error that leaves it in the message) without having assigned "+f.Name()+", which Serialize dereferences without a nil test: the object is accepted and then panics when the route is serialised, printed or converted")
				}
			}
		}
	}
}
