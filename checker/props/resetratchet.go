package props

import (
	"encoding/json"
	"fmt"
	"go/constant"
	"os"
	"path/filepath"
	"sort"
	"strings"

	"golang.org/x/tools/go/ssa"

	"gbverif/ir"
)

// scSig: the constants a function (closures folded in) stores into fields of objects it did not just create.
type scSig struct {
	Func     string         `json:"func"`
	File     string         `json:"file"`
	Stores   []string       `json:"stores"`             // "pkg.Type.field=false"
	NonConst map[string]int `json:"nonconst,omitempty"` // "pkg.Type.field" -> number of stores of a computed value
}

// constStores collects fn's own constant field stores (closures included) into consts / nonconst.
func constStores(fn *ssa.Function, consts map[string]bool, nonconst map[string]int) {
	var walk func(f *ssa.Function)
	walk = func(f *ssa.Function) {
		for _, b := range f.Blocks {
			for _, in := range b.Instrs {
				st, ok := in.(*ssa.Store)
				if !ok {
					continue
				}
				fa, ok := st.Addr.(*ssa.FieldAddr)
				if !ok {
					continue
				}
				n := ir.NamedOf(ir.Deref(fa.X.Type()))
				if n == nil {
					continue
				}
				// the object is one the function has just created (composite literal, local struct): an initial value, not a reset
				base := ssa.Value(fa)
				for {
					if f2, ok := base.(*ssa.FieldAddr); ok {
						base = f2.X
						continue
					}
					break
				}
				if _, fresh := base.(*ssa.Alloc); fresh {
					continue
				}
				key := qualTypeName(n) + "." + fieldOfName(fa)
				k, isK := st.Val.(*ssa.Const)
				if !isK {
					nonconst[key]++
					continue
				}
				val := ""
				switch {
				case k.Value == nil:
					val = "zero"
				case k.Value.Kind() == constant.Bool:
					val = k.Value.String()
				case k.Value.Kind() == constant.Int:
					if k.Value.String() == "0" {
						val = "zero"
					}
				}
				if val == "" {
					nonconst[key]++ // another constant: treated like a computed value
					continue
				}
				consts[key+"="+val] = true
			}
		}
		for _, an := range f.AnonFuncs {
			walk(an)
		}
	}
	walk(fn)
}

func (c *Ctx) scSigs(pkgs []string) []scSig {
	var out []scSig
	for _, fn := range c.P.FuncsIn(pkgs...) {
		if fn.Parent() != nil || fn.Blocks == nil || fn.Synthetic != "" {
			continue
		}
		consts, nonconst := map[string]bool{}, map[string]int{}
		constStores(fn, consts, nonconst)
		if len(consts) == 0 {
			continue
		}
		s := scSig{Func: ir.FuncKey(fn), File: strings.TrimPrefix(c.P.Fset.Position(fn.Pos()).Filename, c.P.Dir+"/"), NonConst: map[string]int{}}
		for k := range consts {
			s.Stores = append(s.Stores, k)
			f := k[:strings.LastIndex(k, "=")]
			if nonconst[f] > 0 {
				s.NonConst[f] = nonconst[f]
			}
		}
		sort.Strings(s.Stores)
		out = append(out, s)
	}
	sort.Slice(out, func(i, j int) bool { return out[i].Func < out[j].Func })
	return out
}

// ruleResetRatchet: a function that put a field back to false / nil / zero (or set it to true) still does.
func (c *Ctx) ruleResetRatchet(rule string, pkgs []string, fileFilter func(string) bool, baselineFile string, min int) {
	r := c.R
	r.Rule(rule, "lost-reset ratchet: the committed baseline records, per function (closures included), which fields of objects the function did not itself create it sets to false, true, nil or zero. A function that still exists and still stores to the field, but no longer stores that value — neither itself, nor through a module function it has newly started to call, nor by having gained a store of a computed value to the same field (flag = expr replaces the if/else pair) — has lost a reset: a per-session flag of an object that outlives the session keeps the value an earlier session left (the 2-octet-AS mode of a neighbour that has since upgraded). Fields that are no longer stored to by the function at all are left to the call ratchet", min)
	var base []scSig
	b, err := os.ReadFile(filepath.Join(homeDir(), baselineFile))
	if err != nil || json.Unmarshal(b, &base) != nil {
		r.Undec(rule, "-", "baseline:"+baselineFile, "-", "baseline file missing or unreadable")
		return
	}
	recordedCallees := c.recordedCalleeSets()
	for _, bs := range base {
		inPkgs := false
		for _, pk := range pkgs {
			if strings.Contains(bs.Func, pk+".") {
				inPkgs = true
			}
		}
		if !inPkgs || (fileFilter != nil && !fileFilter(bs.File)) {
			continue
		}
		fn := c.P.Func(bs.Func)
		cons := fmt.Sprintf("%d constant field stores", len(bs.Stores))
		if fn == nil || fn.Blocks == nil {
			r.Add(oblT(rule, bs.Func, cons, bs.File, "ok", "the function no longer exists: not decided", nil, true))
			continue
		}
		consts, nonconst := map[string]bool{}, map[string]int{}
		constStores(fn, consts, nonconst)
		// stores made by module functions the function did not call on the reviewed tree (depth ≤ 3)
		helperConsts, helperNon := map[string]bool{}, map[string]int{}
		seen := map[*ssa.Function]bool{fn: true}
		var visit func(g *ssa.Function, d int, newly bool)
		visit = func(g *ssa.Function, d int, newly bool) {
			var walk func(h *ssa.Function)
			walk = func(h *ssa.Function) {
				for _, b := range h.Blocks {
					for _, in := range b.Instrs {
						ci, ok := in.(ssa.CallInstruction)
						if !ok {
							continue
						}
						cal := calleeOf(ci.Common())
						if cal == nil || seen[cal] || cal.Blocks == nil || !c.P.InModule(cal) {
							continue
						}
						isNew := newly || !recordedCallees[bs.Func][ir.FuncKey(cal)]
						if !isNew {
							continue
						}
						seen[cal] = true
						constStores(cal, helperConsts, helperNon)
						if d < 3 {
							visit(cal, d+1, true)
						}
					}
				}
				for _, an := range h.AnonFuncs {
					walk(an)
				}
			}
			walk(g)
		}
		visit(fn, 1, false)
		var lost []string
		for _, s := range bs.Stores {
			if consts[s] || helperConsts[s] {
				continue
			}
			f := s[:strings.LastIndex(s, "=")]
			still := nonconst[f] > 0
			for k := range consts {
				if strings.HasPrefix(k, f+"=") {
					still = true
				}
			}
			if !still {
				continue // no store to the field left at all: the call ratchet's business (dropped store)
			}
			if nonconst[f]+helperNon[f] > bs.NonConst[f] {
				continue // the field is now assigned a computed value where it was assigned constants
			}
			lost = append(lost, s)
		}
		if len(lost) == 0 {
			r.Ok(rule, bs.Func, cons, bs.File, "every recorded constant store is still made")
		} else {
			sort.Strings(lost)
			r.Bad(rule, bs.Func, cons, bs.File, "the function still stores to the field but no longer stores "+strings.Join(lost, ", ")+": the value an earlier pass left in the object is kept")
		}
	}
}

// recordedCalleeSets: per function, the callees recorded in the call baseline.
func (c *Ctx) recordedCalleeSets() map[string]map[string]bool {
	out := map[string]map[string]bool{}
	var cs []callSig
	if b, err := os.ReadFile(filepath.Join(homeDir(), "baselines/calls.json")); err == nil && json.Unmarshal(b, &cs) == nil {
		for _, x := range cs {
			m := map[string]bool{}
			for _, k := range x.Callees {
				m[k] = true
			}
			out[x.Func] = m
		}
	}
	return out
}
