package props

import (
	"encoding/json"
	"fmt"
	"go/constant"
	"go/token"
	"go/types"
	"os"
	"path/filepath"
	"sort"
	"strings"

	"golang.org/x/tools/go/ssa"

	"gbverif/ir"
)

// ---- constant-offset bounds on wire bytes -------------------------------------------------

type boundsCtx struct {
	c     *Ctx
	entry map[*ssa.Parameter]int64 // lower bound on len(param) established by every caller
	memo  map[boundsKey]int64
	busy  map[boundsKey]bool
}

type boundsKey struct {
	v  ssa.Value
	at *ssa.BasicBlock
}

func isBytes(t types.Type) bool {
	sl, ok := t.Underlying().(*types.Slice)
	if !ok {
		return false
	}
	b, ok := sl.Elem().Underlying().(*types.Basic)
	return ok && b.Kind() == types.Uint8
}

func constI(v ssa.Value) (int64, bool) {
	v = stripConv(v)
	k, ok := v.(*ssa.Const)
	if !ok || k.Value == nil || k.Value.Kind() != constant.Int {
		return 0, false
	}
	return constant.Int64Val(k.Value)
}

// lenOf: v is len(x) (possibly converted); returns x.
func lenOf(v ssa.Value) ssa.Value {
	v = stripConv(v)
	call, ok := v.(*ssa.Call)
	if !ok {
		return nil
	}
	b, ok := call.Call.Value.(*ssa.Builtin)
	if !ok || b.Name() != "len" {
		return nil
	}
	return call.Call.Args[0]
}

// guardBound: what does taking edge `edge` of the If ending block g establish about len(x)? (lower bound, ok)
func guardBound(g *ssa.BasicBlock, edge int, x ssa.Value) (int64, bool) {
	iff, ok := g.Instrs[len(g.Instrs)-1].(*ssa.If)
	if !ok {
		return 0, false
	}
	bo, ok := iff.Cond.(*ssa.BinOp)
	if !ok {
		return 0, false
	}
	var k int64
	op := bo.Op
	if lx := lenOf(bo.X); lx != nil && lx == x {
		kk, ok := constI(bo.Y)
		if !ok {
			return 0, false
		}
		k = kk
	} else if ly := lenOf(bo.Y); ly != nil && ly == x {
		kk, ok := constI(bo.X)
		if !ok {
			return 0, false
		}
		k = kk
		switch op { // K op len  ==  len op' K
		case token.LSS:
			op = token.GTR
		case token.LEQ:
			op = token.GEQ
		case token.GTR:
			op = token.LSS
		case token.GEQ:
			op = token.LEQ
		}
	} else {
		return 0, false
	}
	t := edge == 0
	switch {
	case op == token.LSS && !t: // !(len < K)
		return k, true
	case op == token.GEQ && t:
		return k, true
	case op == token.GTR && t:
		return k + 1, true
	case op == token.LEQ && !t:
		return k + 1, true
	case op == token.EQL && t:
		return k, true
	case op == token.NEQ && !t:
		return k, true
	}
	return 0, false
}

// minLen: a lower bound on len(v) at the start of block at.
func (bc *boundsCtx) minLen(v ssa.Value, at *ssa.BasicBlock, depth int) int64 {
	if depth > 10 {
		return 0
	}
	key := boundsKey{v, at}
	if m, ok := bc.memo[key]; ok {
		return m
	}
	if bc.busy[key] {
		return 1 << 30 // optimistic inside a cycle; the meet over the other edges decides
	}
	bc.busy[key] = true
	defer delete(bc.busy, key)
	best := int64(0)
	// structural
	switch x := v.(type) {
	case *ssa.Parameter:
		best = bc.entry[x]
	case *ssa.Slice:
		lo, loK := int64(0), true
		if x.Low != nil {
			lo, loK = constI(x.Low)
		}
		defAt := x.Block()
		if x.High != nil {
			if hi, ok := constI(x.High); ok && loK {
				best = hi - lo
			} else if hiLen := lenOf(x.High); hiLen != nil && hiLen == x.X && loK {
				best = bc.minLen(x.X, defAt, depth+1) - lo
			}
		} else if loK {
			if _, isArr := ir.Deref(x.X.Type()).Underlying().(*types.Array); isArr {
				if arr, ok := ir.Deref(x.X.Type()).Underlying().(*types.Array); ok {
					best = arr.Len() - lo
				}
			} else {
				best = bc.minLen(x.X, defAt, depth+1) - lo
			}
		}
	case *ssa.Phi:
		m := int64(1 << 30)
		for i, e := range x.Edges {
			pred := x.Block().Preds[i]
			// value at the end of pred: bounds established along the edge pred->block count too
			b := bc.minLenEdge(e, pred, x.Block(), depth+1)
			if b < m {
				m = b
			}
		}
		if m == 1<<30 {
			m = 0
		}
		best = m
	case *ssa.MakeSlice:
		if k, ok := constI(x.Len); ok {
			best = k
		}
	case *ssa.ChangeType:
		best = bc.minLen(x.X, at, depth+1)
	case *ssa.Convert:
		if isBytes(x.X.Type()) {
			best = bc.minLen(x.X, at, depth+1)
		}
	}
	if best < 0 {
		best = 0
	}
	// dominating guards on this very value
	if at != nil {
		fn := at.Parent()
		for _, g := range fn.Blocks {
			for edge := 0; edge < 2 && edge < len(g.Succs); edge++ {
				if !edgeDominates(g, edge, at) {
					continue
				}
				if k, ok := guardBound(g, edge, v); ok && k > best {
					best = k
				}
			}
		}
	}
	bc.memo[key] = best
	return best
}

// minLenEdge: bound on len(v) when control flows from pred to succ.
func (bc *boundsCtx) minLenEdge(v ssa.Value, pred, succ *ssa.BasicBlock, depth int) int64 {
	b := bc.minLen(v, pred, depth)
	// pred itself may end in a guard on v
	for edge, s := range pred.Succs {
		if s == succ {
			if k, ok := guardBound(pred, edge, v); ok && k > b {
				b = k
			}
		}
	}
	// guards in pred dominate everything after them inside pred too: handled by edgeDominates on pred's own dominators
	return b
}

type access struct {
	fn    *ssa.Function
	instr ssa.Instruction
	x     ssa.Value
	need  int64
	what  string
}

// accessesOf: constant-offset reads of []byte values in fn.
func accessesOf(fn *ssa.Function) []access {
	var out []access
	for _, b := range fn.Blocks {
		for _, in := range b.Instrs {
			switch x := in.(type) {
			case *ssa.IndexAddr:
				if !isBytes(x.X.Type()) {
					continue
				}
				if k, ok := constI(x.Index); ok {
					out = append(out, access{fn, x, x.X, k + 1, fmt.Sprintf("[%d]", k)})
				}
			case *ssa.Slice:
				if !isBytes(x.X.Type()) {
					continue
				}
				need := int64(-1)
				desc := ""
				if x.High != nil {
					if hi, ok := constI(x.High); ok {
						need = hi
						desc = fmt.Sprintf("[:%d]", hi)
					}
				} else if x.Low != nil {
					if lo, ok := constI(x.Low); ok && lo > 0 {
						need = lo
						desc = fmt.Sprintf("[%d:]", lo)
					}
				}
				if need > 0 {
					out = append(out, access{fn, x, x.X, need, desc})
				}
			case *ssa.Call:
				callee := x.Call.StaticCallee()
				if callee == nil || callee.Pkg == nil || callee.Pkg.Pkg.Path() != "encoding/binary" || len(x.Call.Args) < 2 {
					continue
				}
				need := map[string]int64{"Uint16": 2, "Uint32": 4, "Uint64": 8}[callee.Name()]
				if need > 0 && isBytes(x.Call.Args[1].Type()) {
					out = append(out, access{fn, x, x.Call.Args[1], need, "binary." + callee.Name()})
				}
			}
		}
	}
	return out
}

// boundsStats: per function, how many constant-offset accesses exist and how many are proven in bounds.
type boundsStat struct {
	Total         int            `json:"total"`
	Proven        int            `json:"proven"`
	ByKind        map[string]int `json:"by_kind"`        // what -> total
	ProvenByKind  map[string]int `json:"proven_by_kind"` // what -> proven
	firstUnproven string
}

func (c *Ctx) boundsStats(pkgs []string) map[string]*boundsStat {
	bc := &boundsCtx{c: c, entry: map[*ssa.Parameter]int64{}, memo: map[boundsKey]int64{}, busy: map[boundsKey]bool{}}
	inScope := map[*ssa.Function]bool{}
	var fns []*ssa.Function
	for _, short := range pkgs {
		for _, fn := range c.P.FuncsIn(short) {
			if fn.Blocks == nil {
				continue
			}
			inScope[fn] = true
			fns = append(fns, fn)
		}
	}
	sort.Slice(fns, func(i, j int) bool { return fns[i].String() < fns[j].String() })
	for round := 0; round < 3; round++ {
		bc.memo = map[boundsKey]int64{}
		next := map[*ssa.Parameter]int64{}
		for _, fn := range fns {
			if fn.Parent() != nil {
				continue
			}
			callers := c.P.Callers(fn)
			if len(callers) == 0 {
				continue
			}
			for i, p := range fn.Params {
				if !isBytes(p.Type()) {
					continue
				}
				m := int64(1 << 30)
				okAll := true
				for _, e := range callers {
					call, ok := e.Site.(ssa.CallInstruction)
					if !ok || !inScope[e.Caller.Func] {
						okAll = false
						break
					}
					cc := call.Common()
					args := cc.Args
					if cc.IsInvoke() {
						if i == 0 || i-1 >= len(args) {
							okAll = false
							break
						}
						if b := bc.minLen(args[i-1], call.Block(), 0); b < m {
							m = b
						}
						continue
					}
					if cc.StaticCallee() != fn || i >= len(args) {
						okAll = false
						break
					}
					if b := bc.minLen(args[i], call.Block(), 0); b < m {
						m = b
					}
				}
				if okAll && m != 1<<30 && m > 0 {
					next[p] = m
				}
			}
		}
		bc.entry = next
	}
	bc.memo = map[boundsKey]int64{}
	out := map[string]*boundsStat{}
	for _, fn := range fns {
		decode := false
		for _, p := range ir.Outer(fn).Params {
			if isBytes(p.Type()) {
				decode = true
			}
		}
		if !decode {
			continue
		}
		for _, a := range accessesOf(fn) {
			fk := ir.OuterKey(fn)
			st := out[fk]
			if st == nil {
				st = &boundsStat{ByKind: map[string]int{}, ProvenByKind: map[string]int{}}
				out[fk] = st
			}
			st.Total++
			st.ByKind[a.what]++
			if bc.minLen(a.x, a.instr.Block(), 0) >= a.need {
				st.Proven++
				st.ProvenByKind[a.what]++
			} else if st.firstUnproven == "" {
				st.firstUnproven = c.P.InstrPos(a.instr) + " " + a.what
			}
		}
		for _, a := range symAccessesOf(fn) {
			fk := ir.OuterKey(fn)
			st := out[fk]
			if st == nil {
				st = &boundsStat{ByKind: map[string]int{}, ProvenByKind: map[string]int{}}
				out[fk] = st
			}
			st.Total++
			st.ByKind[a.what]++
			if symProven(a) {
				st.Proven++
				st.ProvenByKind[a.what]++
			} else if st.firstUnproven == "" {
				st.firstUnproven = c.P.InstrPos(a.instr) + " " + a.what
			}
		}
	}
	return out
}

// ruleConstBounds: accesses that the prover could show in bounds on the reviewed tree stay in bounds.
func (c *Ctx) ruleConstBounds(rule string, pkgs []string, baselineFile string, min int) {
	r := c.R
	r.Rule(rule, "length-guard ratchet for wire bytes: a small prover establishes lower bounds on len(x) from comparisons of len(x) with constants (through re-slicing x = x[c:], phis, and the bounds every caller of a helper establishes) and counts, per decode function, the constant-offset accesses x[k], x[:k], x[k:], binary.UintN(x) it can show in bounds, and the accesses at a variable offset x[v+c], x[:v+c], x[v+c:], binary.UintN(x[v+c:]) for which a dominating branch compares that very v (plus a large enough constant) with len(x). The committed baseline records those counts for the reviewed tree; a function whose accesses are unchanged in number and kind but of which fewer are provably in bounds has had a length check weakened, moved or removed. Functions whose shape changed are not decided", min)
	var base map[string]*boundsStat
	b, err := os.ReadFile(filepath.Join(homeDir(), baselineFile))
	if err != nil || json.Unmarshal(b, &base) != nil {
		r.Undec(rule, "-", "baseline:"+baselineFile, "-", "baseline file missing or unreadable")
		return
	}
	cur := c.boundsStats(pkgs)
	var keys []string
	for k := range base {
		keys = append(keys, k)
	}
	sort.Strings(keys)
	for _, fk := range keys {
		b0 := base[fk]
		if b0.Proven == 0 {
			continue
		}
		inPkgs := false
		for _, pk := range pkgs {
			if strings.Contains(fk, pk+".") {
				inPkgs = true
			}
		}
		if !inPkgs {
			continue
		}
		st := cur[fk]
		cons := fmt.Sprintf("%d constant-offset accesses", b0.Total)
		switch {
		case st == nil:
			r.Add(oblT(rule, fk, cons, "-", "ok", "function no longer present or no longer reads wire bytes at constant offsets: not decided", nil, true))
		case !sameCounts(st.ByKind, b0.ByKind):
			r.Add(oblT(rule, fk, cons, "-", "ok", "the function's accesses changed in number or kind since the baseline: not decided", nil, true))
		default:
			worse := ""
			for kind, p0 := range b0.ProvenByKind {
				if st.ProvenByKind[kind] < p0 {
					worse = kind
				}
			}
			if worse != "" || st.Proven < b0.Proven {
				r.Bad(rule, fk, cons, st.firstUnproven, fmt.Sprintf("same accesses as in the reviewed tree, but only %d of %d are now provably in bounds (%d before): a length check that covered an access %s was weakened, moved after the access, or removed — a short message panics here", st.Proven, st.Total, b0.Proven, worse))
			} else {
				r.Ok(rule, fk, cons, "-", fmt.Sprintf("%d provably in bounds (baseline %d)", st.Proven, b0.Proven))
			}
		}
	}
}

func sameCounts(a, b map[string]int) bool {
	if len(a) != len(b) {
		return false
	}
	for k, v := range a {
		if b[k] != v {
			return false
		}
	}
	return true
}

var boundsPkgs = []string{"pkg/packet/bgp", "pkg/packet/mrt", "pkg/packet/bmp", "pkg/packet/rtr", "pkg/packet/bfd", "pkg/zebra"}

// homeDir: the directory that holds the checker's committed tables (the parent of bin/), independent of
// where evidence is written.
func homeDir() string {
	if h := os.Getenv("VERIF_HOME"); h != "" {
		return h
	}
	if exe, err := os.Executable(); err == nil {
		if d := filepath.Dir(filepath.Dir(exe)); d != "" {
			if _, err := os.Stat(filepath.Join(d, "baselines")); err == nil {
				return d
			}
		}
	}
	return "/verif"
}

// errorExits: per decode-side function, the number of return statements that return a non-nil error.
func (c *Ctx) errorExits(pkgs []string) map[string]int {
	errT := types.Universe.Lookup("error").Type()
	out := map[string]int{}
	for _, short := range pkgs {
		for _, fn := range c.P.FuncsIn(short) {
			if fn.Blocks == nil || fn.Parent() != nil {
				continue
			}
			decode := false
			for _, p := range fn.Params {
				if isBytes(p.Type()) {
					decode = true
				}
			}
			res := fn.Signature.Results()
			if !decode || res.Len() == 0 || !types.Identical(res.At(res.Len()-1).Type(), errT) {
				continue
			}
			n := 0
			for _, b := range fn.Blocks {
				if ret, ok := b.Instrs[len(b.Instrs)-1].(*ssa.Return); ok && len(ret.Results) > 0 {
					if k, isK := ret.Results[len(ret.Results)-1].(*ssa.Const); !(isK && k.IsNil()) {
						n++
					}
				}
			}
			if n > 0 {
				out[ir.FuncKey(fn)] = n
			}
		}
	}
	return out
}

// ruleErrorExitRatchet: no decode function has lost an error exit.
func (c *Ctx) ruleErrorExitRatchet(rule string, pkgs []string, baselineFile string, min int) {
	r := c.R
	r.Rule(rule, "guard ratchet: the committed baseline records, for every function that takes wire bytes and returns an error, how many of its return statements return a non-nil error. A function that still exists but has fewer error exits than on the reviewed tree has lost a validity check (a guard was deleted or folded into a later, weaker one) — the input that check refused is now accepted or reaches code that assumed it was refused", min)
	var base map[string]int
	b, err := os.ReadFile(filepath.Join(homeDir(), baselineFile))
	if err != nil || json.Unmarshal(b, &base) != nil {
		r.Undec(rule, "-", "baseline:"+baselineFile, "-", "baseline file missing or unreadable")
		return
	}
	cur := c.errorExits(pkgs)
	var keys []string
	for k := range base {
		keys = append(keys, k)
	}
	sort.Strings(keys)
	for _, fk := range keys {
		inPkgs := false
		for _, pk := range pkgs {
			if strings.Contains(fk, pk+".") {
				inPkgs = true
			}
		}
		if !inPkgs {
			continue
		}
		n0 := base[fk]
		cons := fmt.Sprintf("%d error exits", n0)
		fn := c.P.Func(fk)
		switch {
		case fn == nil:
			r.Add(oblT(rule, fk, cons, "-", "ok", "the function no longer exists: not decided", nil, true))
		case cur[fk] < n0:
			r.Bad(rule, fk, cons, c.P.Pos(fn.Pos()), fmt.Sprintf("only %d error exits remain: a check that used to refuse some input was removed", cur[fk]))
		default:
			r.Ok(rule, fk, cons, c.P.Pos(fn.Pos()), fmt.Sprintf("%d now", cur[fk]))
		}
	}
}

// ruleNoPrefilledPointers: decode-side slices of pointers/interfaces grow by append.
func (c *Ctx) ruleNoPrefilledPointers(rule string, pkgs []string, min int) {
	r := c.R
	r.Rule(rule, "decode-side code never makes a slice of pointers or interfaces with a non-zero length: such slices are grown with append, so that a decoder which fails half-way leaves only fully decoded elements behind (the UPDATE decoder keeps the attribute of a treat-as-withdraw error, and a nil element panics the first Serialize/String/MarshalJSON)", min)
	for _, short := range pkgs {
		for _, fn := range c.P.FuncsIn(short) {
			n := 0
			for _, b := range fn.Blocks {
				for _, in := range b.Instrs {
					ms, ok := in.(*ssa.MakeSlice)
					if !ok {
						continue
					}
					el := ms.Type().Underlying().(*types.Slice).Elem()
					switch el.Underlying().(type) {
					case *types.Interface, *types.Pointer:
					default:
						continue
					}
					decode := false
					for _, p := range ir.Outer(fn).Params {
						if isBytes(p.Type()) {
							decode = true
						}
					}
					if !decode {
						continue
					}
					n++
					fk := ir.OuterKey(fn)
					cons := fmt.Sprintf("make(%s) #%d", types.TypeString(ms.Type(), func(p *types.Package) string { return p.Name() }), n)
					if k, ok := ms.Len.(*ssa.Const); ok && k.Int64() == 0 {
						r.Ok(rule, fk, cons, c.P.InstrPos(ms), "length 0, grown by append")
					} else {
						r.Bad(rule, fk, cons, c.P.InstrPos(ms), "the slice is created with its final length and filled by index: an error return in the middle of the fill leaves nil elements in an object that is kept")
					}
				}
			}
		}
	}
}

// ---- accesses at a variable offset -------------------------------------------------------------------

// lin: e = base + c with c a constant (base nil when e is constant).
func lin(e ssa.Value) (ssa.Value, int64) {
	e = stripConv(e)
	if k, ok := constI(e); ok {
		return nil, k
	}
	if bo, ok := e.(*ssa.BinOp); ok {
		switch bo.Op {
		case token.ADD:
			if k, ok := constI(bo.Y); ok {
				b, c := lin(bo.X)
				return b, c + k
			}
			if k, ok := constI(bo.X); ok {
				b, c := lin(bo.Y)
				return b, c + k
			}
		case token.SUB:
			if k, ok := constI(bo.Y); ok {
				b, c := lin(bo.X)
				return b, c - k
			}
		}
	}
	return e, 0
}

type symAccess struct {
	arrN  int64     // > 0: x is a fixed-size byte array of that length and idx is the index / upper slice bound
	idx   ssa.Value
	instr ssa.Instruction
	x     ssa.Value // the byte slice
	base  ssa.Value // variable part of the offset
	need  int64     // base + need <= len(x) must hold
	what  string
}

// byteArrayLen: N when t is [N]byte or *[N]byte, else 0.
func byteArrayLen(t types.Type) int64 {
	if p, ok := t.Underlying().(*types.Pointer); ok {
		t = p.Elem()
	}
	a, ok := t.Underlying().(*types.Array)
	if !ok {
		return 0
	}
	if b, ok := a.Elem().Underlying().(*types.Basic); !ok || b.Kind() != types.Uint8 {
		return 0
	}
	return a.Len()
}

// symAccessesOf: reads of []byte values at offsets base+c with a non-constant base.
func symAccessesOf(fn *ssa.Function) []symAccess {
	var out []symAccess
	for _, b := range fn.Blocks {
		for _, in := range b.Instrs {
			switch x := in.(type) {
			case *ssa.IndexAddr:
				if !isBytes(x.X.Type()) {
					continue
				}
				if base, c := lin(x.Index); base != nil {
					out = append(out, symAccess{instr: x, x: x.X, base: base, need: c + 1, what: "[v]"})
				}
			case *ssa.Slice:
				if n := byteArrayLen(x.X.Type()); n > 0 && x.High != nil {
					if _, isK := constI(x.High); !isK {
						out = append(out, symAccess{arrN: n, idx: x.High, instr: x, x: x.X, what: "array[:v]"})
					}
					continue
				}
				if !isBytes(x.X.Type()) {
					continue
				}
				if x.High != nil {
					if base, c := lin(x.High); base != nil {
						out = append(out, symAccess{instr: x, x: x.X, base: base, need: c, what: "[:v]"})
					}
				} else if x.Low != nil {
					if base, c := lin(x.Low); base != nil {
						out = append(out, symAccess{instr: x, x: x.X, base: base, need: c, what: "[v:]"})
					}
				}
			case *ssa.Call:
				callee := x.Call.StaticCallee()
				if callee == nil || callee.Pkg == nil || callee.Pkg.Pkg.Path() != "encoding/binary" || len(x.Call.Args) < 2 {
					continue
				}
				n := map[string]int64{"Uint16": 2, "Uint32": 4, "Uint64": 8}[callee.Name()]
				sl, ok := x.Call.Args[1].(*ssa.Slice)
				if n == 0 || !ok || !isBytes(sl.X.Type()) || sl.Low == nil {
					continue
				}
				// binary.UintN(x[v+c:]) or x[v+c : v+c+n]: needs v+c+n <= len(x)
				if base, c := lin(sl.Low); base != nil {
					out = append(out, symAccess{instr: x, x: sl.X, base: base, need: c + n, what: "binary." + callee.Name() + "[v:]"})
				}
			}
		}
	}
	return out
}

// symProven: a dominating branch establishes base + need <= len(x).
func symProven(a symAccess) bool {
	at := a.instr.Block()
	if a.arrN > 0 {
		// the bound is the array's fixed length: an upper bound of the index from its type, conversions and
		// dominating comparisons with constants
		return upperBound(a.idx, at, 0) <= uint64(a.arrN)
	}
	for d := at; d != nil; d = d.Idom() {
		g := d.Idom()
		if g == nil {
			break
		}
		iff, ok := g.Instrs[len(g.Instrs)-1].(*ssa.If)
		if !ok {
			continue
		}
		bo, ok := iff.Cond.(*ssa.BinOp)
		if !ok {
			continue
		}
		onTrue := g.Succs[0] == d && len(d.Preds) == 1
		onFalse := g.Succs[1] == d && len(d.Preds) == 1
		if !onTrue && !onFalse {
			continue
		}
		op := bo.Op
		if onFalse {
			switch op {
			case token.LSS:
				op = token.GEQ
			case token.LEQ:
				op = token.GTR
			case token.GTR:
				op = token.LEQ
			case token.GEQ:
				op = token.LSS
			default:
				continue
			}
		}
		// normalise to  L <= R + slack  with one side len(x):   want  base + c (+1 if strict) <= len(x)
		isLen := func(v ssa.Value) bool {
			l := lenOf(stripConv(v))
			return l != nil && (l == a.x || sameSym(l, a.x))
		}
		var off ssa.Value
		strict := false
		switch {
		case isLen(bo.Y) && (op == token.LEQ || op == token.LSS): // off <=/< len
			off, strict = bo.X, op == token.LSS
		case isLen(bo.X) && (op == token.GEQ || op == token.GTR): // len >=/> off
			off, strict = bo.Y, op == token.GTR
		default:
			continue
		}
		base, c := lin(off)
		if base == nil || !(base == a.base || sameSym(base, a.base)) {
			continue
		}
		if strict {
			c++
		}
		if c >= a.need {
			return true
		}
	}
	return false
}
