package props

import (
	"encoding/json"
	"fmt"
	"go/constant"
	"go/token"
	"go/types"
	"os"
	"path/filepath"
	"regexp"
	"sort"
	"strings"

	"golang.org/x/tools/go/ssa"

	"gbverif/ir"
)

// describeVal renders an SSA value by where it comes from (parameters, fields, constants, calls), to a bounded depth.
func describeVal(v ssa.Value, d int) string {
	return describeValS(v, d, map[ssa.Value]bool{})
}

func describeValS(v ssa.Value, d int, seenPhi map[ssa.Value]bool) string {
	if d > 5 {
		return "…"
	}
	switch x := v.(type) {
	case *ssa.Const:
		if x.Value == nil {
			return "nil"
		}
		return x.Value.String()
	case *ssa.Parameter:
		// by position and type, not by name: renaming a parameter changes nothing
		for i, p := range x.Parent().Params {
			if p == x {
				return fmt.Sprintf("param%d:%s", i, shortType(x.Type()))
			}
		}
		return "param:" + shortType(x.Type())
	case *ssa.FreeVar:
		return "captured:" + shortType(x.Type())
	case *ssa.Global:
		return x.Name()
	case *ssa.UnOp:
		switch x.Op {
		case token.MUL:
			return describeValS(x.X, d, seenPhi)
		case token.NOT:
			return "!" + describeValS(x.X, d+1, seenPhi)
		case token.SUB:
			return "-" + describeValS(x.X, d+1, seenPhi)
		case token.ARROW:
			return "<-" + describeValS(x.X, d+1, seenPhi)
		}
		return "?"
	case *ssa.FieldAddr:
		return describeValS(x.X, d+1, seenPhi) + "." + fieldOfName(x)
	case *ssa.Field:
		if st, ok := x.X.Type().Underlying().(*types.Struct); ok && x.Field < st.NumFields() {
			return describeValS(x.X, d+1, seenPhi) + "." + st.Field(x.Field).Name()
		}
		return describeValS(x.X, d+1, seenPhi) + ".?"
	case *ssa.IndexAddr:
		return describeValS(x.X, d+1, seenPhi) + "[" + describeValS(x.Index, d+1, seenPhi) + "]"
	case *ssa.Index:
		return describeValS(x.X, d+1, seenPhi) + "[" + describeValS(x.Index, d+1, seenPhi) + "]"
	case *ssa.Lookup:
		return describeValS(x.X, d+1, seenPhi) + "[" + describeValS(x.Index, d+1, seenPhi) + "]"
	case *ssa.Convert:
		return describeValS(x.X, d, seenPhi)
	case *ssa.ChangeType:
		return describeValS(x.X, d, seenPhi)
	case *ssa.ChangeInterface:
		return describeValS(x.X, d, seenPhi)
	case *ssa.MakeInterface:
		return describeValS(x.X, d, seenPhi)
	case *ssa.TypeAssert:
		return describeValS(x.X, d+1, seenPhi) + ".(T)"
	case *ssa.Extract:
		return describeValS(x.Tuple, d, seenPhi) + fmt.Sprintf("#%d", x.Index)
	case *ssa.Slice:
		return describeValS(x.X, d+1, seenPhi) + "[:]"
	case *ssa.BinOp:
		// x &^ K on a narrow unsigned type is x & ^K: the compiler folds `x &^ A &^ B` with constant A, B into the
		// second form, a single `x &^ A` stays in the first
		if x.Op == token.AND_NOT {
			if k, ok := x.Y.(*ssa.Const); ok && k.Value != nil && k.Value.Kind() == constant.Int {
				if m, okm := uintMax(x.Type()); okm {
					if kv, okv := constant.Uint64Val(k.Value); okv {
						return "(" + describeValS(x.X, d+1, seenPhi) + "&" + fmt.Sprint(m&^kv) + ")"
					}
				}
			}
		}
		return "(" + describeValS(x.X, d+1, seenPhi) + x.Op.String() + describeValS(x.Y, d+1, seenPhi) + ")"
	case *ssa.Call:
		name := "?"
		if b, ok := x.Call.Value.(*ssa.Builtin); ok {
			name = b.Name()
		} else if x.Call.IsInvoke() {
			name = x.Call.Method.Name()
			return describeValS(x.Call.Value, d+1, seenPhi) + "." + name + "()"
		} else if cal := x.Call.StaticCallee(); cal != nil {
			name = cal.Name()
			if cal.Parent() != nil {
				name = "func" // closures are numbered by position: not a name
			}
		}
		var args []string
		for _, a := range x.Call.Args {
			args = append(args, describeValS(a, d+1, seenPhi))
		}
		return name + "(" + strings.Join(args, ",") + ")"
	case *ssa.Phi:
		if seenPhi[x] {
			return "φ"
		}
		seenPhi[x] = true
		set := map[string]bool{}
		for _, e := range x.Edges {
			set[describeValS(e, d+1, seenPhi)] = true
		}
		delete(seenPhi, x)
		var parts []string
		for k := range set {
			parts = append(parts, k)
		}
		sort.Strings(parts)
		if len(parts) > 4 {
			parts = append(parts[:4], "…")
		}
		return "φ(" + strings.Join(parts, "|") + ")"
	case *ssa.Alloc:
		return "&local:" + shortType(x.Type())
	}
	return "?"
}

func shortType(t types.Type) string {
	return types.TypeString(t, func(p *types.Package) string { return p.Name() })
}

// normCond: a comparison reduced to the cut it makes: polarity and operand order are normalised away, so that
// a == b / a != b, a < b / a >= b / b > a / b <= a describe the same test, while a < b and a <= b do not.
func normCond(bo *ssa.BinOp) string {
	if s, ok := intCut(bo); ok {
		return s
	}
	x, y := describeVal(bo.X, 0), describeVal(bo.Y, 0)
	switch bo.Op {
	case token.EQL, token.NEQ:
		// v&K == K and v&K != 0 make the same cut when K is a single bit: written as the comparison with 0
		if k, ok := singleBit(bo.Y); ok && maskedBy(bo.X, k) {
			y = "0"
		} else if k, ok := singleBit(bo.X); ok && maskedBy(bo.Y, k) {
			x = "0"
		}
		if x > y {
			x, y = y, x
		}
		return x + " =?= " + y
	case token.LSS, token.GEQ: // x < y  |  !(x < y)
		return x + " <? " + y
	case token.GTR, token.LEQ: // x > y == y < x
		return y + " <? " + x
	}
	return ""
}

// intCut: a comparison of an integer value v with an integer constant c, written as the cut it makes on the
// integers — "k <? v" (v > k, or its negation) — so that v > 4, v >= 5, !(v <= 4) and !(v < 5) read alike, and,
// for a value that cannot be negative (unsigned, len, cap), v == 0, v != 0, v < 1 and v >= 1 read as "0 <? v".
func intCut(bo *ssa.BinOp) (string, bool) {
	constOf := func(v ssa.Value) (int64, bool) {
		k, ok := v.(*ssa.Const)
		if !ok || k.Value == nil || k.Value.Kind() != constant.Int {
			return 0, false
		}
		if b, ok := k.Type().Underlying().(*types.Basic); !ok || b.Info()&types.IsInteger == 0 {
			return 0, false
		}
		n, exact := constant.Int64Val(k.Value)
		return n, exact
	}
	v, op := bo.X, bo.Op
	c, ok := constOf(bo.Y)
	if !ok {
		if c, ok = constOf(bo.X); !ok {
			return "", false
		}
		v = bo.Y
		switch op { // c op v  ==  v op' c
		case token.LSS:
			op = token.GTR
		case token.LEQ:
			op = token.GEQ
		case token.GTR:
			op = token.LSS
		case token.GEQ:
			op = token.LEQ
		}
	}
	if _, isConst := v.(*ssa.Const); isConst {
		return "", false
	}
	b, isBasic := v.Type().Underlying().(*types.Basic)
	if !isBasic || b.Info()&types.IsInteger == 0 {
		return "", false
	}
	nonNeg := b.Info()&types.IsUnsigned != 0
	if call, ok := v.(*ssa.Call); ok {
		if bi, ok := call.Call.Value.(*ssa.Builtin); ok && (bi.Name() == "len" || bi.Name() == "cap") {
			nonNeg = true
		}
	}
	switch op {
	case token.GTR, token.LEQ:
		return fmt.Sprintf("%d <? %s", c, describeVal(v, 0)), true
	case token.GEQ, token.LSS:
		return fmt.Sprintf("%d <? %s", c-1, describeVal(v, 0)), true
	case token.EQL, token.NEQ:
		if nonNeg && c == 0 {
			return fmt.Sprintf("0 <? %s", describeVal(v, 0)), true
		}
	}
	return "", false
}

// singleBit: v is an integer constant with exactly one bit set.
func singleBit(v ssa.Value) (uint64, bool) {
	k, ok := v.(*ssa.Const)
	if !ok || k.Value == nil || k.Value.Kind() != constant.Int {
		return 0, false
	}
	u, exact := constant.Uint64Val(k.Value)
	return u, exact && u != 0 && u&(u-1) == 0
}

// maskedBy: v is w & k (either operand order, conversions stripped).
func maskedBy(v ssa.Value, k uint64) bool {
	for {
		switch x := v.(type) {
		case *ssa.Convert:
			v = x.X
			continue
		case *ssa.ChangeType:
			v = x.X
			continue
		case *ssa.BinOp:
			if x.Op != token.AND {
				return false
			}
			for _, op := range []ssa.Value{x.X, x.Y} {
				if c, ok := op.(*ssa.Const); ok && c.Value != nil && c.Value.Kind() == constant.Int {
					if u, exact := constant.Uint64Val(c.Value); exact && u == k {
						return true
					}
				}
			}
		}
		return false
	}
}

var condTokenRe = regexp.MustCompile(`[A-Za-z_][A-Za-z0-9_]*|[0-9]+(?:\.[0-9]+)?|"[^"]*"|<\?|=\?=|.`)

func condTokens(d string) []string { return condTokenRe.FindAllString(d, -1) }

// pointMutation: "" unless b is a with one constant replaced, one field name replaced (by another existing field),
// or the operands of the ordering swapped.
// maskDropVariants: d with one "(…&N)" reduced to "…" (N a decimal constant), for every such term.
func maskDropVariants(d string) []string {
	var out []string
	for i := 0; i < len(d); i++ {
		if d[i] != '&' {
			continue
		}
		j := i + 1
		for j < len(d) && d[j] >= '0' && d[j] <= '9' {
			j++
		}
		if j == i+1 || j >= len(d) || d[j] != ')' {
			continue
		}
		// the matching open parenthesis
		depth, k := 0, i-1
		for ; k >= 0; k-- {
			if d[k] == ')' {
				depth++
			} else if d[k] == '(' {
				if depth == 0 {
					break
				}
				depth--
			}
		}
		if k < 0 {
			continue
		}
		out = append(out, d[:k]+d[k+1:i]+d[j+1:])
	}
	return out
}

func pointMutation(a, b string, vocabulary map[string]bool) string {
	if i := strings.Index(a, " <? "); i > 0 && a[i+4:]+" <? "+a[:i] == b {
		return "boundary moved"
	}
	ta, tb := condTokens(a), condTokens(b)
	if len(ta) != len(tb) {
		// one constant mask term taken off (or put on) an operand: ((x&239)&223) became (x&239)
		for _, v := range maskDropVariants(a) {
			if v == b {
				return "mask term dropped"
			}
		}
		for _, v := range maskDropVariants(b) {
			if v == a {
				return "mask term added"
			}
		}
		return ""
	}
	diff := -1
	for i := range ta {
		if ta[i] != tb[i] {
			if diff >= 0 {
				return ""
			}
			diff = i
		}
	}
	if diff < 0 {
		return ""
	}
	x, y := ta[diff], tb[diff]
	isNum := func(s string) bool { return s[0] >= '0' && s[0] <= '9' }
	isWord := func(s string) bool {
		return s[0] == '_' || (s[0] >= 'a' && s[0] <= 'z') || (s[0] >= 'A' && s[0] <= 'Z')
	}
	switch {
	case isNum(x) && isNum(y):
		return "constant changed"
	case (x == "true" || x == "false") && (y == "true" || y == "false"):
		return "constant changed"
	case isWord(x) && isWord(y) && diff > 0 && ta[diff-1] == "." && vocabulary[x]:
		return "another field compared"
	}
	return ""
}

// condSigs: per function (closures included), the sorted multiset of normalised branch comparisons.
func (c *Ctx) condSigs(pkgs []string) map[string][]string {
	out := map[string][]string{}
	for _, short := range pkgs {
		for _, fn := range c.P.FuncsIn(short) {
			if fn.Blocks == nil {
				continue
			}
			file := c.P.Pos(ir.Outer(fn).Pos())
			if strings.Contains(file, ".pb.go") || strings.Contains(file, "_string.go") {
				continue
			}
			fk := ir.OuterKey(fn) // closures are folded into the function that contains them
			// every comparison the function computes, whether it steers a branch or is stored / passed on as a flag
			for _, b := range fn.Blocks {
				for _, in := range b.Instrs {
					if bo, ok := in.(*ssa.BinOp); ok {
						if s := normCond(bo); s != "" {
							out[fk] = append(out[fk], s)
						}
					}
				}
			}
		}
	}
	for fk := range out {
		sort.Strings(out[fk])
	}
	return out
}

// ruleConditionRatchet: no branch comparison changed its operands or its boundary.
func (c *Ctx) ruleConditionRatchet(rule string, pkgs []string, fileFilter func(string) bool, baselineFile string, min int) {
	r := c.R
	r.Rule(rule, "condition ratchet: the committed baseline records, per function, the multiset of comparisons it computes (branch conditions and comparison results stored or passed on as flags), each described by where its operands come from (parameters, field paths, constants, callee names) and normalised so that polarity and operand order do not matter (a==b ≡ a!=b, a<b ≡ a>=b ≡ b>a) but the boundary does (a<b ≠ a<=b). A function with the same number of comparisons in which a recorded comparison was replaced by a point mutation of itself — one constant replaced, one field name replaced by another field that still exists (not a rename), or the boundary moved (a<b became a<=b or a>b) — has had a condition changed. Functions whose number of comparisons changed, or whose comparisons were restructured in any other way, are not decided", min)
	var base map[string][]string
	b, err := os.ReadFile(filepath.Join(homeDir(), baselineFile))
	if err != nil || json.Unmarshal(b, &base) != nil {
		r.Undec(rule, "-", "baseline:"+baselineFile, "-", "baseline file missing or unreadable")
		return
	}
	cur := c.condSigs(pkgs)
	// every word that occurs in some current comparison: a field name that vanished from all of them was renamed
	vocabulary := map[string]bool{}
	for _, l := range cur {
		for _, d := range l {
			for _, t := range condTokens(d) {
				vocabulary[t] = true
			}
		}
	}
	var keys []string
	for k := range base {
		keys = append(keys, k)
	}
	sort.Strings(keys)
	for _, fk := range keys {
		inPkgs := false
		for _, pk := range pkgs {
			if strings.Contains(fk, pk+".") {
				inPkgs = true
			}
		}
		if !inPkgs {
			continue
		}
		fn := c.P.Func(fk)
		cons := fmt.Sprintf("%d comparisons", len(base[fk]))
		if fn == nil {
			r.Add(oblT(rule, fk, cons, "-", "ok", "the function no longer exists: not decided", nil, true))
			continue
		}
		file := c.P.Pos(ir.Outer(fn).Pos())
		if i := strings.LastIndex(file, ":"); i > 0 {
			file = file[:i]
		}
		if fileFilter != nil && !fileFilter(file) {
			continue
		}
		now := cur[fk]
		if len(now) != len(base[fk]) {
			r.Add(oblT(rule, fk, cons, file, "ok", "the number of comparisons changed: not decided", nil, true))
			continue
		}
		// multiset difference
		cnt := map[string]int{}
		for _, s := range base[fk] {
			cnt[s]++
		}
		for _, s := range now {
			cnt[s]--
		}
		var gone, added []string
		for s, n := range cnt {
			for ; n > 0; n-- {
				gone = append(gone, s)
			}
			for ; n < 0; n++ {
				added = append(added, s)
			}
		}
		sort.Strings(gone)
		sort.Strings(added)
		if len(gone) == 0 {
			r.Ok(rule, fk, cons, file, "unchanged")
			continue
		}
		// Only point mutations are judged: every vanished comparison must have a counterpart that differs from it
		// in one constant, in one field name, or in the boundary (operands of an ordering swapped). Anything else
		// (operands re-derived after an extraction, an equality replaced by an ordering, ...) is a restructuring
		// whose equivalence is not decidable here.
		used := map[int]bool{}
		var muts []string
		all := true
		for _, g := range gone {
			found := false
			for i, a := range added {
				if used[i] {
					continue
				}
				if kind := pointMutation(g, a, vocabulary); kind != "" {
					used[i] = true
					found = true
					muts = append(muts, kind+": ["+g+"] became ["+a+"]")
					break
				}
			}
			if !found {
				all = false
			}
		}
		if !all || len(gone) > 2 {
			r.Add(oblT(rule, fk, cons, file, "ok", "comparisons were restructured beyond a point change: not decided", nil, true))
		} else {
			r.Bad(rule, fk, cons, file, "a condition was changed — "+strings.Join(muts, "; "))
		}
	}
}

// callArgSigs: per function (closures folded in), the calls that pass at least one constant argument, described as
// callee(arg, …) with the operands rendered as in the condition ratchet.
func (c *Ctx) callArgSigs(pkgs []string) map[string][]string {
	out := map[string][]string{}
	for _, short := range pkgs {
		for _, fn := range c.P.FuncsIn(short) {
			if fn.Blocks == nil {
				continue
			}
			file := c.P.Pos(ir.Outer(fn).Pos())
			if strings.Contains(file, ".pb.go") || strings.Contains(file, "_string.go") {
				continue
			}
			fk := ir.OuterKey(fn)
			for _, b := range fn.Blocks {
				for _, in := range b.Instrs {
					ci, ok := in.(ssa.CallInstruction)
					if !ok {
						continue
					}
					n := calleeName(c, ci.Common())
					if n == "" || n == "clone" {
						continue
					}
					hasConst := false
					var args []string
					for i, a := range ci.Common().Args {
						if i == 0 && ci.Common().StaticCallee() != nil && ci.Common().StaticCallee().Signature.Recv() != nil {
							args = append(args, describeVal(a, 0))
							continue
						}
						if k, ok := a.(*ssa.Const); ok && k.Value != nil {
							hasConst = true
						}
						args = append(args, describeVal(a, 0))
					}
					if hasConst {
						out[fk] = append(out[fk], n+"("+strings.Join(args, ", ")+")")
					}
				}
			}
		}
	}
	for fk := range out {
		sort.Strings(out[fk])
	}
	return out
}

// ruleArgumentRatchet: no call has had one of its constant arguments replaced by another constant.
func (c *Ctx) ruleArgumentRatchet(rule string, pkgs []string, fileFilter func(string) bool, baselineFile string, min int) {
	r := c.R
	r.Rule(rule, "constant-argument ratchet: the committed baseline records, per function, the calls that pass a constant (a flag, a mode, an enum value) together with their other operands. In a function with the same number of such calls, a recorded call that vanished and has a counterpart differing from it in exactly one constant argument has had that argument changed — the lock taken in read instead of write mode, the replay of accepted routes turned into a replay of all routes", min)
	var base map[string][]string
	b, err := os.ReadFile(filepath.Join(homeDir(), baselineFile))
	if err != nil || json.Unmarshal(b, &base) != nil {
		r.Undec(rule, "-", "baseline:"+baselineFile, "-", "baseline file missing or unreadable")
		return
	}
	cur := c.callArgSigs(pkgs)
	var keys []string
	for k := range base {
		keys = append(keys, k)
	}
	sort.Strings(keys)
	for _, fk := range keys {
		inPkgs := false
		for _, pk := range pkgs {
			if strings.Contains(fk, pk+".") {
				inPkgs = true
			}
		}
		if !inPkgs {
			continue
		}
		fn := c.P.Func(fk)
		cons := fmt.Sprintf("%d calls with constant arguments", len(base[fk]))
		if fn == nil {
			r.Add(oblT(rule, fk, cons, "-", "ok", "the function no longer exists: not decided", nil, true))
			continue
		}
		file := c.P.Pos(ir.Outer(fn).Pos())
		if i := strings.LastIndex(file, ":"); i > 0 {
			file = file[:i]
		}
		if fileFilter != nil && !fileFilter(file) {
			continue
		}
		now := cur[fk]
		if len(now) != len(base[fk]) {
			r.Add(oblT(rule, fk, cons, file, "ok", "the number of such calls changed: not decided", nil, true))
			continue
		}
		cnt := map[string]int{}
		for _, s := range base[fk] {
			cnt[s]++
		}
		for _, s := range now {
			cnt[s]--
		}
		var gone, added []string
		for s, n := range cnt {
			for ; n > 0; n-- {
				gone = append(gone, s)
			}
			for ; n < 0; n++ {
				added = append(added, s)
			}
		}
		sort.Strings(gone)
		sort.Strings(added)
		mut := ""
		if len(gone) == 1 && len(added) == 1 {
			if kind := pointMutation(gone[0], added[0], map[string]bool{}); kind == "constant changed" {
				mut = "[" + gone[0] + "] became [" + added[0] + "]"
			}
		}
		if mut == "" {
			r.Ok(rule, fk, cons, file, "no constant argument replaced")
		} else {
			r.Bad(rule, fk, cons, file, "a constant argument was changed — "+mut)
		}
	}
}
