package props

import (
	"fmt"
	"go/types"
	"sort"
	"strings"

	"golang.org/x/tools/go/ssa"

	"gbverif/ir"
	"gbverif/own"
)

// route-content fields of table.Path / originInfo (bookkeeping words owned by the RIB code — localID,
// rejected, dropped, attrsHash — are covered by the lock rules instead).
func isRouteContentField(f string) bool {
	for _, p := range []string{"internal/pkg/table.Path.pathAttrs", "internal/pkg/table.Path.dels", "internal/pkg/table.Path.IsWithdraw",
		"internal/pkg/table.Path.IsNexthopInvalid", "internal/pkg/table.Path.remoteID", "internal/pkg/table.Path.family",
		"internal/pkg/table.Path.info", "internal/pkg/table.Path.parent", "internal/pkg/table.originInfo."} {
		if strings.HasPrefix(f, p) {
			return true
		}
	}
	return false
}

// freshPathFuncs: functions all of whose *Path results are freshly allocated (or nil).
func (c *Ctx) freshPathFuncs() map[*ssa.Function]bool {
	pathT := c.P.NamedType("internal/pkg/table", "Path")
	cand := map[*ssa.Function]bool{}
	for _, fn := range c.P.Funcs {
		if fn.Blocks == nil || fn.Signature.Results().Len() == 0 {
			continue
		}
		if ir.NamedOf(fn.Signature.Results().At(0).Type()) == pathT {
			if _, ok := fn.Signature.Results().At(0).Type().Underlying().(*types.Pointer); ok {
				cand[fn] = true
			}
		}
	}
	for changed := true; changed; {
		changed = false
		for fn := range cand {
			ok := true
			for _, b := range fn.Blocks {
				ret, isRet := b.Instrs[len(b.Instrs)-1].(*ssa.Return)
				if !isRet {
					continue
				}
				if !c.freshPathValue(ret.Results[0], cand, 0) {
					ok = false
				}
			}
			if !ok {
				delete(cand, fn)
				changed = true
			}
		}
	}
	return cand
}

func (c *Ctx) freshPathValue(v ssa.Value, fresh map[*ssa.Function]bool, d int) bool {
	if d > 8 {
		return false
	}
	if ph, ok := v.(*ssa.Phi); ok {
		if c.phiSeen2 == nil {
			c.phiSeen2 = map[*ssa.Phi]int{}
		}
		if c.phiSeen2[ph] > 0 {
			return true
		}
		c.phiSeen2[ph]++
		defer func() { c.phiSeen2[ph]-- }()
	}
	switch x := v.(type) {
	case *ssa.Alloc:
		return x.Heap
	case *ssa.Const:
		return x.IsNil()
	case *ssa.Call:
		callees := c.P.Callees(x)
		if len(callees) == 0 {
			return false
		}
		for _, f := range callees {
			if !fresh[f] {
				return false
			}
		}
		return true
	case *ssa.Phi:
		for _, e := range x.Edges {
			if !c.freshPathValue(e, fresh, d+1) {
				return false
			}
		}
		return true
	case *ssa.Extract:
		return c.freshPathValue(x.Tuple, fresh, d+1)
	case *ssa.UnOp:
		// local variable cell
		if al, ok := x.X.(*ssa.Alloc); ok {
			n := 0
			for _, ref := range *al.Referrers() {
				if st, ok := ref.(*ssa.Store); ok && st.Addr == ssa.Value(al) {
					n++
					if !c.freshPathValue(st.Val, fresh, d+1) {
						return false
					}
				}
			}
			return n > 0
		}
	}
	return false
}

// ruleOwnedPathMutation (E2b): route content of a Path is only modified through a path that is
// fresh in the modifying function, or handed down from a caller that made it so.
func (c *Ctx) ruleOwnedPathMutation(rule string, min int) {
	r := c.R
	r.Rule(rule, "clone-then-mutate: wherever a function passes a *Path to a callee that modifies the route's content (attribute list, deletions, withdraw/next-hop flags, origin info), that path is fresh in the function (Clone/NewPath/… result), or is the function's own parameter (the obligation moves to its callers), or comes from a list built only from fresh paths; anything else would alter a stored route", min)
	pathT := c.P.NamedType("internal/pkg/table", "Path")
	if pathT == nil {
		r.Undec(rule, "-", "anchor:table.Path", "-", "type not found")
		return
	}
	e := own.New(c.P)
	fresh := c.freshPathFuncs()
	c.R.Extra["E2b_fresh_constructors"] = len(fresh)
	stripOK := c.verifyLocalPrefStripGuards()
	ingressOK := c.verifyIngressStrip()
	mutates := func(fn *ssa.Function, idx int) (bool, string) {
		for _, s := range e.WritesParam(fn, idx) {
			o := s.Origin()
			if stripOK && viaReviewedStrip(s) {
				continue // reviewed root: LOCAL_PREF strip after export policy (guards verified by E2b.strip-guards)
			}
			if ingressOK && viaIngressStrip(s) {
				continue // reviewed root: idempotent LOCAL_PREF strip on ingress (verified by E2b.strip-guards)
			}
			if isRouteContentField(o.Field) {
				return true, o.Field + " in " + ir.FuncKey(o.Fn)
			}
		}
		return false, ""
	}
	isPathPtr := func(t types.Type) bool {
		p, ok := t.Underlying().(*types.Pointer)
		return ok && p.Elem() == types.Type(pathT)
	}
	for round := 0; round < 2; round++ {
		for _, fn := range c.P.FuncsIn("internal/pkg/table", "pkg/server") {
			for i, p := range fn.Params {
				if isPathPtr(p.Type()) {
					mutates(fn, i)
				}
			}
		}
		e.ResetDone()
	}
	n := map[string]int{}
	for _, fn := range c.P.FuncsIn("internal/pkg/table", "pkg/server") {
		// methods of Path itself work on their receiver by definition
		for _, b := range fn.Blocks {
			for _, in := range b.Instrs {
				call, ok := in.(*ssa.Call)
				if !ok {
					continue
				}
				callees := c.P.Callees(call)
				args := call.Call.Args
				if call.Call.IsInvoke() {
					args = append([]ssa.Value{call.Call.Value}, args...)
				}
				for i, a := range args {
					isList := false
					if sl, ok := a.Type().Underlying().(*types.Slice); ok && isPathPtr(sl.Elem()) {
						isList = true
					}
					if !isPathPtr(a.Type()) && !isList {
						continue
					}
					mut, what := false, ""
					for _, callee := range callees {
						if callee.Blocks == nil || !c.P.InModule(callee) || i >= len(callee.Params) {
							continue
						}
						if m, w := mutates(callee, i); m {
							mut, what = true, ir.FuncKey(callee)+" writes "+w
						}
					}
					if !mut {
						continue
					}
					fk := ir.OuterKey(fn)
					n[fk]++
					calleeName := "?"
					if len(callees) > 0 {
						calleeName = callees[0].Name()
					}
					cons := fmt.Sprintf("%s(path) #%d", calleeName, n[fk])
					pos := c.P.InstrPos(call)
					class, detail := "", ""
					if isList {
						class, detail = c.classifyListArg(fn, a, fresh, 0)
						cons = fmt.Sprintf("%s(list) #%d", calleeName, n[fk])
					} else {
						class, detail = c.classifyPathArg(fn, a, fresh, 0)
					}
					switch class {
					case "fresh", "param", "fresh-element":
						r.Ok(rule, fk, cons, pos, class+": "+detail)
					default:
						if why := ownedPathExceptions[fk+"|"+calleeName]; why != "" {
							r.Except(rule, fk, cons, pos, why)
						} else {
							r.Bad(rule, fk, cons, pos, fmt.Sprintf("modifies route content (%s) of a path that is neither fresh here nor a parameter (%s): a route stored in a RIB or shared with other peers may be altered", what, detail))
						}
					}
				}
			}
		}
	}
	_ = sort.Strings
}

// classifyPathArg: where does the *Path value come from inside fn?
func (c *Ctx) classifyPathArg(fn *ssa.Function, v ssa.Value, fresh map[*ssa.Function]bool, d int) (string, string) {
	if d > 10 {
		return "unknown", "too deep"
	}
	if ph, ok := v.(*ssa.Phi); ok {
		if c.phiSeen == nil {
			c.phiSeen = map[*ssa.Phi]int{}
		}
		if c.phiSeen[ph] > 0 {
			return "fresh", "loop-carried value"
		}
		c.phiSeen[ph]++
		defer func() { c.phiSeen[ph]-- }()
	}
	switch x := v.(type) {
	case *ssa.Parameter:
		return "param", "parameter " + x.Name()
	case *ssa.FreeVar:
		return "param", "captured variable " + x.Name()
	case *ssa.Alloc:
		if x.Heap {
			return "fresh", "allocated here"
		}
	case *ssa.Call:
		if c.freshPathValue(x, fresh, 0) {
			return "fresh", "result of a constructor/Clone"
		}
		if cl, dd, ok := c.passThroughArg(fn, x, 0, fresh, d); ok {
			return cl, dd
		}
		return "unknown", "result of a call that may return an existing path"
	case *ssa.Phi:
		worst, det := "fresh", ""
		for _, e := range x.Edges {
			if k, ok := e.(*ssa.Const); ok && k.IsNil() {
				continue
			}
			cl, dd := c.classifyPathArg(fn, e, fresh, d+1)
			if cl == "unknown" {
				return cl, dd
			}
			if cl == "param" || cl == "fresh-element" {
				worst = cl
			}
			det = dd
		}
		return worst, det
	case *ssa.UnOp:
		switch y := x.X.(type) {
		case *ssa.Alloc:
			// local variable: all stores
			worst, det := "fresh", "local variable"
			nst := 0
			for _, ref := range *y.Referrers() {
				if st, ok := ref.(*ssa.Store); ok && st.Addr == ssa.Value(y) {
					nst++
					cl, dd := c.classifyPathArg(fn, st.Val, fresh, d+1)
					if cl == "unknown" {
						return cl, dd
					}
					if cl != "fresh" {
						worst, det = cl, dd
					}
				}
			}
			if nst == 0 {
				return "unknown", "variable never assigned"
			}
			return worst, det
		case *ssa.FreeVar:
			return "param", "captured variable " + y.Name()
		case *ssa.IndexAddr:
			// element of a slice: fresh if every element put into that slice in this function is fresh
			if c.sliceOfFresh(fn, y.X, fresh, d+1) {
				return "fresh-element", "element of a list built only from fresh paths"
			}
			if cl, dd := c.classifyListArg(fn, y.X, fresh, d+1); cl == "param" {
				return "param", "element of " + dd
			}
			return "unknown", "element of a list of existing paths"
		}
	case *ssa.Extract:
		if nx, ok := x.Tuple.(*ssa.Next); ok {
			if rg, ok := nx.Iter.(*ssa.Range); ok {
				if c.sliceOfFresh(fn, rg.X, fresh, d+1) {
					return "fresh-element", "element of a list built only from fresh paths"
				}
				if cl, dd := c.classifyListArg(fn, rg.X, fresh, d+1); cl == "param" {
					return "param", "element of " + dd
				}
			}
			return "unknown", "range element of a list of existing paths"
		}
		if call, ok := x.Tuple.(*ssa.Call); ok {
			if c.freshPathValue(call, fresh, 0) {
				return "fresh", "result of a constructor"
			}
			if cl, dd, ok := c.passThroughArg(fn, call, x.Index, fresh, d); ok {
				return cl, dd
			}
		}
	case *ssa.Lookup, *ssa.Index:
		return "unknown", "taken out of a container"
	}
	return "unknown", fmt.Sprintf("%T", v)
}

// sliceOfFresh: the slice value is built in fn by make/literal + appends/stores of fresh paths only.
func (c *Ctx) sliceOfFresh(fn *ssa.Function, s ssa.Value, fresh map[*ssa.Function]bool, d int) bool {
	if d > 14 {
		return false
	}
	if ph, ok := s.(*ssa.Phi); ok {
		if c.phiSeen3 == nil {
			c.phiSeen3 = map[*ssa.Phi]int{}
		}
		if c.phiSeen3[ph] > 0 {
			return true // loop-carried list: decided by its other edges
		}
		c.phiSeen3[ph]++
		defer func() { c.phiSeen3[ph]-- }()
	}
	switch x := s.(type) {
	case *ssa.MakeSlice:
		// elements stored through IndexAddr
		for _, ref := range *x.Referrers() {
			if ia, ok := ref.(*ssa.IndexAddr); ok {
				for _, r2 := range *ia.Referrers() {
					if st, ok := r2.(*ssa.Store); ok && st.Addr == ssa.Value(ia) {
						if cl, _ := c.classifyPathArg(fn, st.Val, fresh, d+1); cl != "fresh" {
							return false
						}
					}
				}
			}
		}
		return true
	case *ssa.Slice:
		if els, ok := sliceLiteralElems(x); ok {
			for _, el := range els {
				if cl, _ := c.classifyPathArg(fn, el, fresh, d+1); cl != "fresh" {
					return false
				}
			}
			return true
		}
		return c.sliceOfFresh(fn, x.X, fresh, d+1)
	case *ssa.Call:
		if bi, ok := x.Call.Value.(*ssa.Builtin); ok && bi.Name() == "append" {
			if !c.sliceOfFresh(fn, x.Call.Args[0], fresh, d+1) {
				return false
			}
			for _, a := range x.Call.Args[1:] {
				if els, ok := sliceLiteralElems(a); ok {
					for _, el := range els {
						if cl, _ := c.classifyPathArg(fn, el, fresh, d+1); cl != "fresh" {
							return false
						}
					}
					continue
				}
				if !c.sliceOfFresh(fn, a, fresh, d+1) {
					return false
				}
			}
			return true
		}
		return false
	case *ssa.Phi:
		for _, e := range x.Edges {
			if k, ok := e.(*ssa.Const); ok && k.IsNil() {
				continue
			}
			if !c.sliceOfFresh(fn, e, fresh, d+1) {
				return false
			}
		}
		return true
	case *ssa.Const:
		return x.IsNil()
	case *ssa.UnOp:
		if al, ok := x.X.(*ssa.Alloc); ok {
			n := 0
			for _, ref := range *al.Referrers() {
				if st, ok := ref.(*ssa.Store); ok && st.Addr == ssa.Value(al) {
					n++
					if !c.sliceOfFresh(fn, st.Val, fresh, d+1) {
						return false
					}
				}
			}
			return n > 0
		}
	}
	return false
}

// ownedPathExceptions: reviewed call sites, keyed by "caller|callee".
var ownedPathExceptions = map[string]string{
	"(*pkg/server.BgpServer).adjRibInForListPath|Update": "scratch Adj-RIB built for a listing request from the peer's own Adj-RIB-In: the second Update does take the replaced-entry branch, but the entry it replaces is the very path it was built from (or the policy-modified private clone of it), so the timestamp copied onto the incoming path is the one it already has — audited with the real code after the sibling exception for the Adj-RIB-Out variant was found wrong (F32)",
}

// passThroughArg: every callee returns (in result ri) one of its own *Path parameters, nil, or a
// fresh path; then the result is as owned as the corresponding arguments.
func (c *Ctx) passThroughArg(fn *ssa.Function, call *ssa.Call, ri int, fresh map[*ssa.Function]bool, d int) (string, string, bool) {
	callees := c.P.Callees(call)
	if len(callees) == 0 {
		return "", "", false
	}
	args := call.Call.Args
	if call.Call.IsInvoke() {
		args = append([]ssa.Value{call.Call.Value}, args...)
	}
	worst, det := "fresh", "callee returns its argument, nil or a fresh path"
	for _, callee := range callees {
		if callee.Blocks == nil || !c.P.InModule(callee) {
			return "", "", false
		}
		idxs, ok := c.returnedParams(callee, ri, fresh, map[*ssa.Function]bool{}, 0)
		if !ok {
			return "", "", false
		}
		for i := range idxs {
			if i >= len(args) {
				return "", "", false
			}
			cl, dd := c.classifyPathArg(fn, args[i], fresh, d+1)
			if cl == "unknown" {
				return cl, dd, true
			}
			if cl != "fresh" {
				worst, det = cl, dd
			}
		}
	}
	return worst, det, true
}

// returnedParams: the set of parameter indices result ri of fn may be identical to; ok=false if the
// result may be something else (an existing path of unknown origin).
func (c *Ctx) returnedParams(fn *ssa.Function, ri int, fresh map[*ssa.Function]bool, seen map[*ssa.Function]bool, d int) (map[int]bool, bool) {
	out := map[int]bool{}
	if seen[fn] || d > 6 {
		return out, true // recursion: contributes nothing new
	}
	seen[fn] = true
	seenPhi := map[*ssa.Phi]bool{}
	var val func(v ssa.Value, dd int) bool
	val = func(v ssa.Value, dd int) bool {
		if dd > 8 {
			return false
		}
		if ph, ok := v.(*ssa.Phi); ok {
			if seenPhi[ph] {
				return true
			}
			seenPhi[ph] = true
		}
		switch x := v.(type) {
		case *ssa.Parameter:
			for i, p := range fn.Params {
				if p == x {
					out[i] = true
				}
			}
			return true
		case *ssa.Const:
			return x.IsNil()
		case *ssa.Alloc:
			return x.Heap
		case *ssa.Phi:
			for _, e := range x.Edges {
				if !val(e, dd+1) {
					return false
				}
			}
			return true
		case *ssa.Call:
			if c.freshPathValue(x, fresh, 0) {
				return true
			}
			return c.viaCall(fn, x, 0, fresh, seen, out, d)
		case *ssa.Extract:
			if call, ok := x.Tuple.(*ssa.Call); ok {
				if c.freshPathValue(call, fresh, 0) {
					return true
				}
				return c.viaCall(fn, call, x.Index, fresh, seen, out, d)
			}
		case *ssa.UnOp:
			if al, ok := x.X.(*ssa.Alloc); ok {
				n := 0
				for _, ref := range *al.Referrers() {
					if st, ok := ref.(*ssa.Store); ok && st.Addr == ssa.Value(al) {
						n++
						if !val(st.Val, dd+1) {
							return false
						}
					}
				}
				return n > 0
			}
		}
		return false
	}
	for _, b := range fn.Blocks {
		ret, ok := b.Instrs[len(b.Instrs)-1].(*ssa.Return)
		if !ok || ri >= len(ret.Results) {
			continue
		}
		if !val(ret.Results[ri], 0) {
			return nil, false
		}
	}
	return out, true
}

func (c *Ctx) viaCall(fn *ssa.Function, call *ssa.Call, ri int, fresh map[*ssa.Function]bool, seen map[*ssa.Function]bool, out map[int]bool, d int) bool {
	callees := c.P.Callees(call)
	if len(callees) == 0 {
		return false
	}
	args := call.Call.Args
	if call.Call.IsInvoke() {
		args = append([]ssa.Value{call.Call.Value}, args...)
	}
	for _, callee := range callees {
		if callee.Blocks == nil || !c.P.InModule(callee) {
			return false
		}
		idxs, ok := c.returnedParams(callee, ri, fresh, seen, d+1)
		if !ok {
			return false
		}
		for i := range idxs {
			if i >= len(args) {
				return false
			}
			// the callee's parameter i is our value args[i]: it must itself be a parameter of fn, nil or fresh
			switch a := args[i].(type) {
			case *ssa.Parameter:
				for j, p := range fn.Params {
					if p == a {
						out[j] = true
					}
				}
			default:
				tmp := map[int]bool{}
				_ = tmp
				if !c.freshPathValue(args[i], fresh, 0) {
					// accept values that are themselves pass-throughs of fn's parameters (phi of param / call results)
					if !c.valueFromParams(fn, args[i], fresh, seen, out, d) {
						return false
					}
				}
			}
		}
	}
	return true
}

func (c *Ctx) valueFromParams(fn *ssa.Function, v ssa.Value, fresh map[*ssa.Function]bool, seen map[*ssa.Function]bool, out map[int]bool, d int) bool {
	if d > 16 {
		return false
	}
	if ph, ok := v.(*ssa.Phi); ok {
		if c.phiSeen == nil {
			c.phiSeen = map[*ssa.Phi]int{}
		}
		if c.phiSeen[ph] > 0 {
			return true
		}
		c.phiSeen[ph]++
		defer func() { c.phiSeen[ph]-- }()
	}
	switch x := v.(type) {
	case *ssa.Parameter:
		for j, p := range fn.Params {
			if p == x {
				out[j] = true
			}
		}
		return true
	case *ssa.Const:
		return x.IsNil()
	case *ssa.Phi:
		for _, e := range x.Edges {
			if !c.valueFromParams(fn, e, fresh, seen, out, d+1) {
				return false
			}
		}
		return true
	case *ssa.Call:
		if c.freshPathValue(x, fresh, 0) {
			return true
		}
		if d > 6 {
			return false
		}
		return c.viaCall(fn, x, 0, fresh, seen, out, d+1)
	case *ssa.Extract:
		if call, ok := x.Tuple.(*ssa.Call); ok {
			if c.freshPathValue(call, fresh, 0) {
				return true
			}
			if d > 6 {
				return false
			}
			return c.viaCall(fn, call, x.Index, fresh, seen, out, d+1)
		}
	}
	return false
}

// viaReviewedStrip: the write is reached through postFilterpath's call of RemoveLocalPref.
func viaReviewedStrip(s own.Sink) bool {
	if strings.HasPrefix(s.Kind, "via:(*internal/pkg/table.Path).RemoveLocalPref") && ir.FuncKey(s.Fn) == "(*pkg/server.BgpServer).postFilterpath" {
		return true
	}
	for _, p := range s.Path {
		if strings.HasPrefix(p, "via:(*internal/pkg/table.Path).RemoveLocalPref") && strings.HasSuffix(p, "in (*pkg/server.BgpServer).postFilterpath") {
			return true
		}
	}
	return false
}

// verifyLocalPrefStripGuards re-verifies the reviewed root "postFilterpath strips LOCAL_PREF from a
// path that may be the un-cloned original": UpdatePathAttrs returns its argument un-cloned only for
// route-server clients, and the strip is skipped for route-server clients.
func (c *Ctx) verifyLocalPrefStripGuards() bool {
	r := c.R
	rule := "E2b.strip-guards"
	r.Rule(rule, "reviewed root, re-verified: UpdatePathAttrs returns the un-cloned original only under PeerInfo.RouteServerClient, and postFilterpath's RemoveLocalPref is skipped for route-server clients — so the strip only ever touches a clone", 2)
	upa := c.P.Func("internal/pkg/table.UpdatePathAttrs")
	post := c.P.Func("(*pkg/server.BgpServer).postFilterpath")
	if upa == nil || post == nil {
		r.Undec(rule, "-", "anchor", "-", "UpdatePathAttrs / postFilterpath not found")
		return false
	}
	ok1 := true
	var orig *ssa.Parameter
	for _, p := range upa.Params {
		if strings.HasSuffix(p.Type().String(), "table.Path") { // by type, not by name
			orig = p
		}
	}
	n := 0
	for _, b := range upa.Blocks {
		ret, isRet := b.Instrs[len(b.Instrs)-1].(*ssa.Return)
		if !isRet || len(ret.Results) == 0 || ret.Results[0] != ssa.Value(orig) {
			continue
		}
		n++
		// the returning block must be the true successor of a test of info.RouteServerClient
		good := false
		if len(b.Preds) == 1 {
			if iff, ok := b.Preds[0].Instrs[len(b.Preds[0].Instrs)-1].(*ssa.If); ok && b.Preds[0].Succs[0] == b {
				if fieldLoadName(iff.Cond) == "RouteServerClient" {
					good = true
				}
			}
		}
		if !good {
			ok1 = false
		}
	}
	if ok1 && n > 0 {
		r.Ok(rule, ir.FuncKey(upa), "returns original only for route-server clients", c.P.Pos(upa.Pos()), "")
	} else {
		r.Bad(rule, ir.FuncKey(upa), "returns original only for route-server clients", c.P.Pos(upa.Pos()), "UpdatePathAttrs can return the stored path un-cloned outside the route-server-client case: the LOCAL_PREF strip (and every later rewrite) would alter the stored route")
	}
	ok2 := false
	isRS := c.P.Func("(*pkg/server.peer).isRouteServerClient")
	for _, b := range post.Blocks {
		for _, in := range b.Instrs {
			call, isCall := in.(*ssa.Call)
			if !isCall || call.Call.StaticCallee() == nil || call.Call.StaticCallee().Name() != "RemoveLocalPref" {
				continue
			}
			// some dominating branch on isRouteServerClient() leads here over its false edge
			for _, g := range post.Blocks {
				iff, isIf := g.Instrs[len(g.Instrs)-1].(*ssa.If)
				if !isIf {
					continue
				}
				cond := iff.Cond
				neg := false
				if u, isU := cond.(*ssa.UnOp); isU && u.Op.String() == "!" {
					cond, neg = u.X, true
				}
				cc, isC := cond.(*ssa.Call)
				if !isC || cc.Call.StaticCallee() != isRS {
					continue
				}
				edge := 1
				if neg {
					edge = 0
				}
				if edgeDominates(g, edge, b) {
					ok2 = true
				}
			}
		}
	}
	if ok2 {
		r.Ok(rule, ir.FuncKey(post), "strip skipped for route-server clients", c.P.Pos(post.Pos()), "")
	} else {
		r.Bad(rule, ir.FuncKey(post), "strip skipped for route-server clients", c.P.Pos(post.Pos()), "RemoveLocalPref can run for a route-server client, whose path is the un-cloned original")
	}
	return ok1 && n > 0 && ok2
}

// classifyListArg: a []*Path argument: built here from fresh paths only, a parameter of fn, or unknown.
func (c *Ctx) classifyListArg(fn *ssa.Function, v ssa.Value, fresh map[*ssa.Function]bool, d int) (string, string) {
	if d > 10 {
		return "unknown", "too deep"
	}
	if c.sliceOfFresh(fn, v, fresh, d) {
		return "fresh", "list built only from fresh paths"
	}
	switch x := v.(type) {
	case *ssa.Parameter:
		return "param", "parameter " + x.Name()
	case *ssa.FreeVar:
		return "param", "captured variable " + x.Name()
	case *ssa.Slice:
		return c.classifyListArg(fn, x.X, fresh, d+1)
	case *ssa.UnOp:
		if _, ok := x.X.(*ssa.FreeVar); ok {
			return "param", "captured variable"
		}
		if al, ok := x.X.(*ssa.Alloc); ok {
			worst, det := "fresh", "local list"
			n := 0
			for _, ref := range *al.Referrers() {
				if st, ok := ref.(*ssa.Store); ok && st.Addr == ssa.Value(al) {
					n++
					cl, dd := c.classifyListArg(fn, st.Val, fresh, d+1)
					if cl == "unknown" {
						return cl, dd
					}
					if cl != "fresh" {
						worst, det = cl, dd
					}
				}
			}
			if n > 0 {
				return worst, det
			}
		}
	case *ssa.Phi:
		if c.phiSeen == nil {
			c.phiSeen = map[*ssa.Phi]int{}
		}
		if c.phiSeen[x] > 0 {
			return "fresh", "loop-carried"
		}
		c.phiSeen[x]++
		defer func() { c.phiSeen[x]-- }()
		worst, det := "fresh", ""
		for _, e := range x.Edges {
			if k, ok := e.(*ssa.Const); ok && k.IsNil() {
				continue
			}
			cl, dd := c.classifyListArg(fn, e, fresh, d+1)
			if cl == "unknown" {
				return cl, dd
			}
			if cl != "fresh" {
				worst, det = cl, dd
			}
		}
		return worst, det
	case *ssa.Call:
		// lists returned by functions whose every element is fresh (clonePathList, ProcessMessage, …)
		if c.returnsFreshList(x, fresh) {
			return "fresh", "list returned by a function that builds it from fresh paths"
		}
		return "unknown", "list returned by " + calleeShort(x)
	}
	return "unknown", fmt.Sprintf("list of unknown origin (%T)", v)
}

func calleeShort(call *ssa.Call) string {
	if f := call.Call.StaticCallee(); f != nil {
		return ir.FuncKey(f)
	}
	return "a dynamic call"
}

// returnsFreshList: every callee returns (result 0) a slice built only from fresh paths.
func (c *Ctx) returnsFreshList(call *ssa.Call, fresh map[*ssa.Function]bool) bool {
	callees := c.P.Callees(call)
	if len(callees) == 0 {
		return false
	}
	for _, callee := range callees {
		if callee.Blocks == nil || !c.P.InModule(callee) {
			return false
		}
		if c.freshListFn == nil {
			c.freshListFn = map[*ssa.Function]int{}
		}
		switch c.freshListFn[callee] {
		case 1:
			continue
		case 2:
			return false
		case 3:
			continue // in progress (recursion)
		}
		c.freshListFn[callee] = 3
		ok := true
		for _, b := range callee.Blocks {
			ret, isRet := b.Instrs[len(b.Instrs)-1].(*ssa.Return)
			if !isRet || len(ret.Results) == 0 {
				continue
			}
			if !c.sliceOfFresh(callee, ret.Results[0], fresh, 0) {
				ok = false
			}
		}
		if ok {
			c.freshListFn[callee] = 1
		} else {
			c.freshListFn[callee] = 2
			return false
		}
	}
	return true
}

func viaIngressStrip(s own.Sink) bool {
	const mark = "via:(*internal/pkg/table.Path).RemoveLocalPref"
	if strings.HasPrefix(s.Kind, mark) && ir.OuterKey(s.Fn) == "(*pkg/server.BgpServer).propagateUpdate" {
		return true
	}
	for _, p := range s.Path {
		if strings.HasPrefix(p, mark) && strings.Contains(p, "in (*pkg/server.BgpServer).propagateUpdate$") {
			return true
		}
	}
	return false
}

// verifyIngressStrip: RemoveLocalPref only writes when LOCAL_PREF is still present (idempotent), so
// re-normalising a path that already went through ingress writes nothing.
func (c *Ctx) verifyIngressStrip() bool {
	r := c.R
	rule := "E2b.strip-guards"
	fn := c.P.Func("(*internal/pkg/table.Path).RemoveLocalPref")
	if fn == nil {
		r.Undec(rule, "-", "anchor:RemoveLocalPref", "-", "not found")
		return false
	}
	ok := false
	for _, b := range fn.Blocks {
		for _, in := range b.Instrs {
			call, isCall := in.(*ssa.Call)
			if !isCall || call.Call.StaticCallee() == nil || call.Call.StaticCallee().Name() != "delPathAttr" {
				continue
			}
			if len(b.Preds) == 1 {
				if iff, isIf := b.Preds[0].Instrs[len(b.Preds[0].Instrs)-1].(*ssa.If); isIf && b.Preds[0].Succs[0] == b {
					if bo, isB := iff.Cond.(*ssa.BinOp); isB && bo.Op.String() == "!=" {
						for _, side := range []ssa.Value{bo.X, bo.Y} {
							if cc, isC := side.(*ssa.Call); isC && cc.Call.StaticCallee() != nil && cc.Call.StaticCallee().Name() == "getPathAttr" {
								ok = true
							}
						}
					}
				}
			}
		}
	}
	if ok {
		r.Ok(rule, ir.FuncKey(fn), "idempotent", c.P.Pos(fn.Pos()), "deletes LOCAL_PREF only while it is still present: a second ingress normalisation of the same path writes nothing")
	} else {
		r.Bad(rule, ir.FuncKey(fn), "idempotent", c.P.Pos(fn.Pos()), "RemoveLocalPref writes even when the attribute is already gone: re-normalising stored Adj-RIB-In paths on soft reset would modify them")
	}
	return ok
}
