package props

import (
	"path"
	"sort"
)

// anchorFiles: the files each property is anchored in (copied from properties.jsonl, which is fixed).
var anchorFiles = map[string][]string{
	"C01": {"pkg/server/server.go", "pkg/server/peer.go", "pkg/server/fsm.go", "internal/pkg/table/destination.go", "internal/pkg/table/message.go"},
	"C02": {"internal/pkg/table/table.go", "internal/pkg/table/destination.go", "internal/pkg/table/adj.go", "internal/pkg/table/table_manager.go", "pkg/server/peer.go", "pkg/server/server.go"},
	"C03": {"internal/pkg/table/destination.go", "internal/pkg/table/path.go"},
	"C04": {"pkg/packet/bgp/bgp.go", "pkg/packet/bgp/mup.go", "pkg/packet/bgp/prefix_sid.go", "pkg/packet/bgp/sr_policy.go", "pkg/packet/bgp/vpls.go", "pkg/packet/bgp/validate.go"},
	"C05": {"pkg/packet/bgp/bgp.go", "pkg/packet/bgp/mup.go", "pkg/packet/bgp/prefix_sid.go", "pkg/packet/bgp/sr_policy.go", "pkg/packet/bgp/vpls.go", "pkg/server/fsm.go"},
	"C06": {"pkg/packet/bgp/bgp.go", "pkg/packet/bgp/validate.go", "pkg/server/fsm.go", "pkg/server/peer.go", "internal/pkg/table/table_manager.go"},
	"C07": {"pkg/server/fsm.go", "pkg/server/server.go", "pkg/server/peer.go", "pkg/packet/bgp/validate.go"},
	"C08": {"pkg/server/fsm.go", "pkg/config/oc/util.go", "pkg/packet/bgp/bgp.go"},
	"C09": {"internal/pkg/table/path.go", "pkg/server/server.go", "pkg/server/peer.go", "pkg/server/fsm.go"},
	"C10": {"internal/pkg/table/policy.go", "internal/pkg/table/path.go", "pkg/server/server.go", "pkg/server/grpc_server.go"},
	"C11": {"internal/pkg/table/message.go", "internal/pkg/table/path.go", "pkg/packet/bgp/bgp.go", "pkg/server/fsm.go"},
	"C12": {"pkg/server/server.go", "pkg/server/fsm.go", "pkg/server/peer.go", "internal/pkg/table/adj.go", "internal/pkg/table/destination.go"},
	"C13": {"internal/pkg/table/policy.go"},
	"C14": {"internal/pkg/table/message.go", "pkg/server/fsm.go", "pkg/packet/bgp/validate.go"},
	"C15": {"pkg/server/server.go", "pkg/server/peer.go", "internal/pkg/table/adj.go", "internal/pkg/table/policy.go"},
	"C16": {"internal/pkg/table/roa.go", "pkg/server/rpki.go", "pkg/packet/rtr/rtr.go", "internal/pkg/table/policy.go"},
	"C17": {"internal/pkg/table/vrf.go", "internal/pkg/table/rtc.go", "internal/pkg/table/policy.go", "internal/pkg/table/path.go", "internal/pkg/table/table.go", "pkg/server/server.go", "pkg/server/peer.go"},
	"C18": {"pkg/apiutil/attribute.go", "pkg/apiutil/capability.go", "pkg/apiutil/util.go", "pkg/config/oc/util.go", "pkg/server/grpc_server.go", "internal/pkg/table/policy.go"},
	"C19": {"pkg/packet/mrt/mrt.go", "pkg/packet/bmp/bmp.go", "pkg/packet/rtr/rtr.go", "pkg/zebra/zapi.go", "pkg/packet/bfd/bfd.go", "pkg/server/mrt.go", "pkg/server/bmp.go", "pkg/server/rpki.go", "pkg/server/zclient.go"},
	"C20": {"pkg/server/server.go", "pkg/server/fsm.go", "pkg/server/peer.go", "internal/pkg/table/table.go", "internal/pkg/table/table_manager.go", "internal/pkg/table/policy.go"},
}

// extraAnchorFiles: files that hold code the property's mechanisms call into although properties.jsonl does not list them.
var extraAnchorFiles = map[string][]string{
	"C08": {"pkg/packet/bgp/validate.go", "pkg/server/peer.go"},
	"C14": {"pkg/packet/bgp/bgp.go"},
	"C05": {"pkg/packet/bgp/validate.go"},
	"C01": {"internal/pkg/table/adj.go", "internal/pkg/table/table_manager.go", "internal/pkg/table/path.go"}, // path.go: Path.Equal decides "best path unchanged, nothing to send" in GetChanges
	"C12": {"internal/pkg/table/path.go"},
	"C03": {"internal/pkg/table/adj.go"}, // the timestamp the age step compares is carried over (or not) in AdjRib.Update
}

// sliceBoundFloor: the properties anchored in wire decoders have at least this many functions that hand on bounded sub-slices.
var sliceBoundFloor = map[string]int{"C04": 20, "C05": 20, "C06": 20, "C08": 20, "C11": 20, "C14": 20, "C19": 4}

// crashRelevant: the properties whose statement includes "never crashes" / "without disturbing the sender".
var crashRelevant = map[string]bool{"C05": true, "C11": true, "C19": true, "C20": true}

// ruleRatchets runs the baseline ratchets over the files the property is anchored in.
func (c *Ctx) ruleRatchets(cid string) {
	files := append(append([]string{}, anchorFiles[cid]...), extraAnchorFiles[cid]...)
	in := map[string]bool{}
	pk := map[string]bool{}
	for _, f := range files {
		in[f] = true
		pk[path.Dir(f)] = true
	}
	var pkgs []string
	for p := range pk {
		pkgs = append(pkgs, p)
	}
	sort.Strings(pkgs)
	filter := func(f string) bool { return in[f] }
	if c.P.Ctx.GOOS != "" {
		// the baselines were recorded for the default build context; platform constants (syscall.AF_INET6,
		// os.O_* …) and build-tagged files differ elsewhere, so the baseline comparisons are made there only
		if crashRelevant[cid] {
			c.ruleMakeSizeNonNeg("E5.make-size-nonneg", pkgs, filter, 3)
		}
		return
	}
	c.ruleCaseRatchet("E4.case-ratchet", pkgs, filter, "baselines/switches.json", 1)
	c.ruleCallRatchet("E6.call-ratchet", pkgs, filter, "baselines/calls.json", 5)
	c.ruleOrderRatchet("E6.order-ratchet", pkgs, filter, "baselines/calls.json", 5)
	c.ruleConditionRatchet("E6.condition-ratchet", pkgs, filter, "baselines/conds.json", 5)
	c.ruleAlwaysRatchet("E6.always-ratchet", pkgs, filter, "baselines/calls.json", 5)
	c.ruleArgumentRatchet("E6.argument-ratchet", pkgs, filter, "baselines/callargs.json", 5)
	c.ruleReadRatchet("E6.read-ratchet", pkgs, filter, "baselines/readguard.json", 5)
	c.ruleGuardRatchet("E6.guard-ratchet", pkgs, filter, "baselines/readguard.json", 5)
	c.ruleWriteRatchet("E2.write-ratchet", pkgs, filter, "baselines/writes.json", 5)
	c.ruleSliceBoundRatchet("E5.slice-bound-ratchet", pkgs, filter, "baselines/slicebounds.json", sliceBoundFloor[cid])
	c.ruleResetRatchet("E6.reset-ratchet", pkgs, filter, "baselines/storeconsts.json", 0)
	c.ruleProvenanceRatchet("E6.provenance-ratchet", pkgs, filter, "baselines/provenance.json", 5)
	c.ruleLoopExitRatchet("E6.loop-exit-ratchet", pkgs, filter, "baselines/loops.json", 0)
	// a panic in the daemon breaks whatever the property promises: the crash causes that have a cheap sound proof
	if crashRelevant[cid] {
		c.ruleMakeSizeNonNeg("E5.make-size-nonneg", pkgs, filter, 3)
	}
}

// RatchetExpl is appended to every property's explanation: ruleRatchets runs for all of them.
const RatchetExpl = " In addition, over every function of the files the property is anchored in, thirteen ratchets compare the tree with the committed, reviewed baselines (baselines/*.json, never written at run time; default build context only): (E4.case-ratchet) no switch lost a named case; (E6.call-ratchet) no function lost a callee, field store or map update, or one of several distinct sites of the same callee (distinct by receiver and arguments), that it does not now reach through a newly called helper; (E6.order-ratchet) in a function that still performs the same calls and stores, no two of them changed places in the strict control-flow order; (E6.condition-ratchet) in a function with the same number of comparisons, none was replaced by a point mutation of itself (another constant, another field, a moved boundary); (E6.always-ratchet) no step that ran on every path can now be bypassed; (E6.argument-ratchet) no call had one of its constant arguments replaced by another constant; (E6.read-ratchet) no function stopped reading a struct field it read; (E6.guard-ratchet) the condition under which a step runs, as a truth table over the tests it depends on, is unchanged unless it came under a new test; (E2.write-ratchet) no function started to write, itself or through its callees, into memory reachable from a parameter in a way it did not before; (E6.reset-ratchet) no function that set a field of an object it did not create to false, true, nil or zero stopped storing that value while still storing to the field (a per-session flag that is no longer reset); (E6.provenance-ratchet) no call that is the only call of its callee in the function had an argument exchanged for another parameter of the same type, or the running value of an accumulation (a parameter merged with the result of a call, carried round a loop) replaced by the parameter alone; (E6.loop-exit-ratchet) no loop that had an effect in its body and could only be left when the iteration was over gained a break or return inside the body; (E5.slice-bound-ratchet) no call that handed its callee a sub-slice of a byte buffer cut off at an upper index chosen by the code now hands over the rest of the buffer. For C05, C11, C19 and C20, whose statements exclude a crash, (E5.make-size-nonneg) additionally proves every make() size in those files non-negative. For the order, bypass and guard ratchets a function literal is a unit of its own, keyed by the enclosing function and by how the literal is used there (passed to which callee, called in place, deferred, go, stored) and its signature types, never by position or name; the other ratchets fold literals into the enclosing function. Each ratchet declines to decide (discharges with the reason) when the function's shape changed beyond what it can compare."
