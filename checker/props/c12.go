package props

import (
	"fmt"
	"go/token"
	"go/types"
	"sort"
	"strings"

	"golang.org/x/tools/go/ssa"

	"gbverif/ir"
)

// fieldPath renders the chain of field names of an address: "GracefulRestart.State.NotificationEnabled".
func fieldPath(v ssa.Value) string {
	var parts []string
	for i := 0; i < 10; i++ {
		switch x := v.(type) {
		case *ssa.FieldAddr:
			parts = append(parts, ir.FieldOf(x).Name())
			v = x.X
			continue
		case *ssa.IndexAddr:
			parts = append(parts, "[]")
			v = x.X
			continue
		case *ssa.UnOp:
			v = x.X
			continue
		case *ssa.Field:
			parts = append(parts, ir.FieldOf(x).Name())
			v = x.X
			continue
		}
		break
	}
	for i, j := 0, len(parts)-1; i < j; i, j = i+1, j-1 {
		parts[i], parts[j] = parts[j], parts[i]
	}
	return strings.Join(parts, ".")
}

// ruleGracefulReasons: which loss reasons are rewritten to "graceful restart" (finite-domain evaluation).
func (c *Ctx) ruleGracefulReasons() {
	r := c.R
	rule := "E6.graceful-reasons"
	r.Rule(rule, "in the Established handler the loss reason is rewritten to graceful-restart only for transport read/write failure, NOTIFICATION sent (hold timer) and NOTIFICATION received, never for hard reset / admin down / de-configuration; evaluated over the finite domain of reason types; the rewrite lies under GracefulRestart.State.Enabled and arms the restart timer", 8)
	fn := c.P.Func("(*pkg/server.fsmHandler).established")
	rt := c.P.NamedType("pkg/server", "fsmStateReasonType")
	if fn == nil || rt == nil {
		r.Undec(rule, "-", "anchor:established / fsmStateReasonType", "-", "not found")
		return
	}
	fk := ir.FuncKey(fn)
	rv := enumConsts(rt)
	newReason := c.P.Func("pkg/server.newfsmStateReason")
	// the rewrite: call newfsmStateReason(fsmGracefulRestart, …)
	var target *ssa.BasicBlock
	for _, b := range fn.Blocks {
		for _, in := range b.Instrs {
			if call, ok := in.(*ssa.Call); ok && call.Call.StaticCallee() == newReason && len(call.Call.Args) > 0 {
				if k, ok := stripConv(call.Call.Args[0]).(*ssa.Const); ok {
					if kv, _ := constInt(k.Value); kv == rv["fsmGracefulRestart"] {
						target = b
					}
				}
			}
		}
	}
	if target == nil {
		r.Undec(rule, fk, "anchor:rewrite to fsmGracefulRestart", c.P.Pos(fn.Pos()), "not found")
		return
	}
	// h: loads of the reason's Type field
	var hs []ssa.Value
	for _, b := range fn.Blocks {
		for _, in := range b.Instrs {
			if u, ok := in.(*ssa.UnOp); ok && types.Identical(u.Type(), rt) && fieldLoadName(u) == "Type" {
				hs = append(hs, u)
			}
		}
	}
	allowed := map[string]bool{"fsmNotificationRecv": true, "fsmNotificationSent": true, "fsmReadFailed": true, "fsmWriteFailed": true}
	var names []string
	for k := range rv {
		names = append(names, k)
	}
	sort.Strings(names)
	for _, k := range names {
		reach := reachableUnderAll(fn, hs, rv[k], target)
		cons := "graceful when reason=" + k
		switch {
		case reach && !allowed[k]:
			r.Bad(rule, fk, cons, c.P.Pos(target.Instrs[0].Pos()), "this loss reason is turned into a graceful restart: the peer's routes are kept as stale although RFC 4724/8538 require them to be removed at once")
		case !reach && allowed[k]:
			r.Bad(rule, fk, cons, c.P.Pos(target.Instrs[0].Pos()), "this qualifying loss reason no longer starts graceful restart")
		default:
			r.Ok(rule, fk, cons, c.P.Pos(target.Instrs[0].Pos()), map[bool]string{true: "rewritten (RFC allows)", false: "not rewritten"}[reach])
		}
	}
	// under State.Enabled; NotificationRecv only with the negotiated N bit; timer armed in the same block
	enabled, nbit := false, false
	for _, g := range fn.Blocks {
		iff, ok := g.Instrs[len(g.Instrs)-1].(*ssa.If)
		if !ok {
			continue
		}
		p := fieldPath(iff.Cond)
		if strings.HasSuffix(p, "Enabled") && !strings.HasSuffix(p, "NotificationEnabled") && edgeDominates(g, 0, target) {
			enabled = true
		}
		if strings.HasSuffix(p, "NotificationEnabled") {
			// the NotificationRecv comparison is only reached over its true edge
			for _, b2 := range fn.Blocks {
				if i2, ok := b2.Instrs[len(b2.Instrs)-1].(*ssa.If); ok {
					if bo, ok := i2.Cond.(*ssa.BinOp); ok && bo.Op == token.EQL {
						if k, ok := stripConv(bo.Y).(*ssa.Const); ok {
							if kv, _ := constInt(k.Value); kv == rv["fsmNotificationRecv"] && types.Identical(bo.X.Type(), rt) && edgeDominates(g, 0, b2) {
								nbit = true
							}
						}
					}
				}
			}
		}
	}
	if enabled {
		r.Ok(rule, fk, "under GracefulRestart.State.Enabled", c.P.Pos(target.Instrs[0].Pos()), "")
	} else {
		r.Bad(rule, fk, "under GracefulRestart.State.Enabled", c.P.Pos(target.Instrs[0].Pos()), "the rewrite to graceful restart is not confined to sessions that negotiated graceful restart")
	}
	if nbit {
		r.Ok(rule, fk, "NOTIFICATION received only with negotiated N bit", c.P.Pos(target.Instrs[0].Pos()), "")
	} else {
		r.Bad(rule, fk, "NOTIFICATION received only with negotiated N bit", c.P.Pos(target.Instrs[0].Pos()), "a received NOTIFICATION starts graceful restart without the negotiated notification (N) bit")
	}
	armed := false
	for _, in := range target.Instrs {
		if call, ok := in.(*ssa.Call); ok && call.Call.StaticCallee() != nil && call.Call.StaticCallee().Name() == "Reset" && len(call.Call.Args) > 0 {
			if strings.Contains(fieldPath(call.Call.Args[0]), "gracefulRestartTimer") {
				armed = true
			}
		}
	}
	for _, s := range target.Succs {
		for _, in := range s.Instrs {
			if call, ok := in.(*ssa.Call); ok && call.Call.StaticCallee() != nil && call.Call.StaticCallee().Name() == "Reset" && len(call.Call.Args) > 0 && strings.Contains(fieldPath(call.Call.Args[0]), "gracefulRestartTimer") {
				armed = true
			}
		}
	}
	if armed {
		r.Ok(rule, fk, "restart timer armed with the rewrite", c.P.Pos(target.Instrs[0].Pos()), "")
	} else {
		r.Bad(rule, fk, "restart timer armed with the rewrite", c.P.Pos(target.Instrs[0].Pos()), "stale routes are kept but the restart timer that bounds their lifetime is not started")
	}
}

// ruleNBitNegotiated: the negotiated N bit needs both the local configuration and the peer's flag.
func (c *Ctx) ruleNBitNegotiated() {
	r := c.R
	rule := "E6.nbit-negotiated"
	r.Rule(rule, "GracefulRestart.State.NotificationEnabled is set only under (local Config.NotificationEnabled ∧ the peer's capability flag 0x04)", 1)
	fn := c.P.Func("(*pkg/server.fsm).stateChange")
	if fn == nil {
		r.Undec(rule, "-", "anchor:stateChange", "-", "not found")
		return
	}
	n := 0
	for _, b := range fn.Blocks {
		for _, in := range b.Instrs {
			st, ok := in.(*ssa.Store)
			if !ok || !strings.HasSuffix(fieldPath(st.Addr), "State.NotificationEnabled") {
				continue
			}
			n++
			cfg, flag := false, false
			for _, g := range fn.Blocks {
				iff, ok := g.Instrs[len(g.Instrs)-1].(*ssa.If)
				if !ok || !edgeDominates(g, 0, b) {
					continue
				}
				if strings.HasSuffix(fieldPath(iff.Cond), "Config.NotificationEnabled") {
					cfg = true
				}
				if bo, ok := iff.Cond.(*ssa.BinOp); ok {
					if and, ok := bo.X.(*ssa.BinOp); ok && and.Op == token.AND {
						if k, ok := and.Y.(*ssa.Const); ok {
							if kv, _ := constInt(k.Value); kv == 4 && fieldLoadName(and.X) == "Flags" {
								flag = true
							}
						}
					}
				}
			}
			k, isConstTrue := st.Val.(*ssa.Const)
			if cfg && flag && isConstTrue && k.Value.String() == "true" {
				r.Ok(rule, ir.FuncKey(fn), "State.NotificationEnabled = true", c.P.InstrPos(st), "under local config ∧ peer N bit")
			} else {
				r.Bad(rule, ir.FuncKey(fn), "State.NotificationEnabled", c.P.InstrPos(st), fmt.Sprintf("the N bit counts as negotiated without both sides (local config tested: %v, peer flag tested: %v): a received NOTIFICATION would then be treated as graceful", cfg, flag))
			}
		}
	}
	if n == 0 {
		r.Undec(rule, ir.FuncKey(fn), "anchor:store State.NotificationEnabled", c.P.Pos(fn.Pos()), "not found")
	}
}

// rulePeerDownResets: on PeerDown every family's End-of-RIB flag is cleared, and state is published before bookkeeping reset.
func (c *Ctx) rulePeerDownResets(rule string) {
	r := c.R
	r.Rule(rule, "on leaving Established: the per-family EndOfRibReceived flag is cleared on every iteration over the families (not only for some), and the new state is published before the advertised-route bookkeeping is cleared, which precedes dropping Adj-RIB-In", 2)
	fn := c.P.Func("(*pkg/server.BgpServer).handleFSMMessage")
	if fn == nil {
		r.Undec(rule, "-", "anchor:handleFSMMessage", "-", "not found")
		return
	}
	fk := ir.FuncKey(fn)
	n := 0
	for _, b := range fn.Blocks {
		for _, in := range b.Instrs {
			st, ok := in.(*ssa.Store)
			if !ok || !strings.HasSuffix(fieldPath(st.Addr), "MpGracefulRestart.State.EndOfRibReceived") {
				continue
			}
			k, isK := st.Val.(*ssa.Const)
			if !isK || k.Value.String() != "false" {
				continue
			}
			n++
			// the loop head: the nearest dominator that b can flow back to
			var head *ssa.BasicBlock
			for d := b.Idom(); d != nil && head == nil; d = d.Idom() {
				for _, p := range d.Preds {
					// back edge p→d of a natural loop containing b
					if d.Dominates(p) && (p == b || reaches(b, p)) {
						head = d
					}
				}
			}
			if head == nil {
				r.Bad(rule, fk, "clear EndOfRibReceived", c.P.InstrPos(st), "the clear is not inside the loop over the address families")
				continue
			}
			// body entry: the successor of head that leads to b
			ok2 := true
			for _, s := range head.Succs {
				if !reaches(s, b) && s != b {
					continue
				}
				// every path from s back to head passes through b
				seen := map[*ssa.BasicBlock]bool{}
				work := []*ssa.BasicBlock{s}
				for len(work) > 0 {
					x := work[0]
					work = work[1:]
					if seen[x] || x == b {
						continue
					}
					seen[x] = true
					for _, nx := range x.Succs {
						if nx == head {
							ok2 = false
						} else if head.Dominates(nx) {
							work = append(work, nx)
						}
					}
				}
			}
			if ok2 {
				r.Ok(rule, fk, "clear EndOfRibReceived", c.P.InstrPos(st), "on every iteration")
			} else {
				r.Bad(rule, fk, "clear EndOfRibReceived", c.P.InstrPos(st), "the End-of-RIB flag of some families survives the session: after re-establishment 'all End-of-RIB received' becomes true too early and stale routes of the other families are purged")
			}
		}
	}
	if n == 0 {
		r.Undec(rule, fk, "anchor:EndOfRibReceived = false", c.P.Pos(fn.Pos()), "not found")
	}
	// ordering: state.Store ≺ resetAdvertisedRoutes ≺ dropAdjRIBIn (in the PeerDown region)
	var store, reset, drop ssa.Instruction
	for _, b := range fn.Blocks {
		for _, in := range b.Instrs {
			call, ok := in.(*ssa.Call)
			if !ok || call.Call.StaticCallee() == nil {
				continue
			}
			switch call.Call.StaticCallee().Name() {
			case "resetAdvertisedRoutes":
				reset = call
			}
		}
	}
	if reset != nil {
		for _, in := range reset.Block().Instrs {
			call, ok := in.(*ssa.Call)
			if !ok || call.Call.StaticCallee() == nil {
				continue
			}
			if call.Call.StaticCallee().Name() == "Store" && len(call.Call.Args) > 0 && strings.HasSuffix(fieldPath(call.Call.Args[0]), "fsm.state") {
				store = call
			}
			if call.Call.StaticCallee().Name() == "dropAdjRIBIn" {
				drop = call
			}
		}
	}
	if store != nil && reset != nil && drop != nil && dominatesInstr(store, reset) && dominatesInstr(reset, drop) {
		r.Ok(rule, fk, "publish state ≺ reset bookkeeping ≺ drop Adj-RIB-In", c.P.InstrPos(reset), "")
	} else {
		r.Bad(rule, fk, "publish state ≺ reset bookkeeping ≺ drop Adj-RIB-In", c.P.Pos(fn.Pos()), "the PeerDown sequence is out of order: propagation starting in between rebuilds bookkeeping for a session that is gone, or withdrawals are computed from cleared bookkeeping")
	}
}

func reaches(from, to *ssa.BasicBlock) bool {
	seen := map[*ssa.BasicBlock]bool{}
	work := append([]*ssa.BasicBlock{}, from.Succs...)
	for len(work) > 0 {
		x := work[0]
		work = work[1:]
		if x == to {
			return true
		}
		if seen[x] {
			continue
		}
		seen[x] = true
		work = append(work, x.Succs...)
	}
	return false
}

// ruleStalePurgeGate: DropStale only behind "all End-of-RIB received"; LLGR_STALE never exported to non-LLGR peers.
func (c *Ctx) ruleStalePurgeGate() {
	r := c.R
	rule := "E6.stale-purge"
	r.Rule(rule, "stale routes are purged (DropStale) only under receivedAllEOR(); an LLGR_STALE route becomes a withdrawal towards peers without the LLGR family", 2)
	n := 0
	for _, fn := range c.P.FuncsIn("pkg/server") {
		for _, b := range fn.Blocks {
			for _, in := range b.Instrs {
				call, ok := in.(*ssa.Call)
				if !ok || call.Call.StaticCallee() == nil || call.Call.StaticCallee().Name() != "DropStale" {
					continue
				}
				if ir.OuterKey(fn) != "(*pkg/server.BgpServer).handleFSMMessage" {
					continue // wrappers
				}
				n++
				ok2 := false
				for _, g := range fn.Blocks {
					iff, isIf := g.Instrs[len(g.Instrs)-1].(*ssa.If)
					if !isIf {
						continue
					}
					if cc, isC := iff.Cond.(*ssa.Call); isC && cc.Call.StaticCallee() != nil && cc.Call.StaticCallee().Name() == "receivedAllEOR" && edgeDominates(g, 0, b) {
						ok2 = true
					}
				}
				if ok2 {
					r.Ok(rule, ir.FuncKey(fn), "DropStale under receivedAllEOR()", c.P.InstrPos(call), "")
				} else {
					r.Bad(rule, ir.FuncKey(fn), "DropStale under receivedAllEOR()", c.P.InstrPos(call), "stale routes can be purged before End-of-RIB has arrived for every graceful-restart family")
				}
			}
		}
	}
	if n == 0 {
		r.Undec(rule, "-", "anchor:DropStale call in handleFSMMessage", "-", "not found")
	}
	post := c.P.Func("(*pkg/server.BgpServer).postFilterpath")
	if post == nil {
		r.Undec(rule, "-", "anchor:postFilterpath", "-", "not found")
		return
	}
	ok3 := false
	for _, b := range post.Blocks {
		for _, in := range b.Instrs {
			call, ok := in.(*ssa.Call)
			if !ok || call.Call.StaticCallee() == nil || call.Call.StaticCallee().Name() != "Clone" || len(call.Call.Args) != 2 {
				continue
			}
			if k, ok := call.Call.Args[1].(*ssa.Const); !ok || k.Value.String() != "true" {
				continue
			}
			stale, llgr := false, false
			for _, g := range post.Blocks {
				iff, isIf := g.Instrs[len(g.Instrs)-1].(*ssa.If)
				if !isIf {
					continue
				}
				cond := iff.Cond
				neg := false
				if u, isU := cond.(*ssa.UnOp); isU && u.Op == token.NOT {
					cond, neg = u.X, true
				}
				cc, isC := cond.(*ssa.Call)
				if !isC || cc.Call.StaticCallee() == nil {
					continue
				}
				edge := 0
				if neg {
					edge = 0
				}
				switch cc.Call.StaticCallee().Name() {
				case "IsLLGRStale":
					if edgeDominates(g, 0, b) {
						stale = true
					}
				case "isLLGREnabledFamily":
					e2 := 1
					if neg {
						e2 = 0
					}
					_ = edge
					if edgeDominates(g, e2, b) {
						llgr = true
					}
				}
			}
			if stale && llgr {
				ok3 = true
			}
		}
	}
	if ok3 {
		r.Ok(rule, ir.FuncKey(post), "LLGR_STALE → withdraw for non-LLGR peers", c.P.Pos(post.Pos()), "")
	} else {
		r.Bad(rule, ir.FuncKey(post), "LLGR_STALE → withdraw for non-LLGR peers", c.P.Pos(post.Pos()), "an LLGR_STALE route can be advertised to a peer that did not negotiate long-lived graceful restart")
	}
}

func init() {
	register(&Check{
		ID: "C12",
		Expl: "Decides the structural conditions of graceful-restart handling: (E6.graceful-reasons) exactly the RFC 4724/8538 loss reasons are rewritten to graceful restart (finite-domain evaluation over all reason types), only under negotiated GR, a received NOTIFICATION only with the negotiated N bit, and the restart timer is armed with the rewrite; (E6.nbit-negotiated) the N bit needs local configuration and the peer's flag; " +
			"(E6.peerdown-resets) every family's End-of-RIB flag is cleared on session loss; (E6.stale-purge) DropStale only under receivedAllEOR(), LLGR_STALE routes become withdrawals for non-LLGR peers; (E7) the first stage of the decision process is the LLGR-stale one. Also: (E6.adj-in-stores-latest) a re-announcement always replaces the stored (possibly stale) entry; (E6.restart-flag-cleared) the end of a restart clears the long-lived flag on every path.",
		Not: "Instants and orders of timers, reconnections and End-of-RIB arrival — i.e. that stale routes live exactly as long as the RFCs allow over all histories — are not decided.",
		Run: func(c *Ctx) {
			c.ruleRatchets("C12")
			c.ruleGracefulReasons()
			c.ruleNBitNegotiated()
			c.rulePeerDownResets("E6.peerdown-resets")
			c.ruleStalePurgeGate()
			c.ruleAdjRibStoresIncoming()
			c.ruleRestartFlagCleared("E6.restart-flag-cleared")
			c.ruleComparatorChain()
		},
	})
}
