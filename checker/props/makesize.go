package props

import (
	"fmt"
	"go/constant"
	"go/token"
	"go/types"
	"strings"

	"golang.org/x/tools/go/ssa"

	"gbverif/ir"
)

// nonNeg proves v >= 0 at block `at`: constants, len/cap/min/max, unsigned sources, sums/products/quotients of
// non-negative values, phis (inductively), parameters whose every static call site passes a non-negative value,
// and dominating comparisons with a non-negative constant. Anything else is "not proven".
type nonNegProver struct {
	c           *Ctx
	assumed     map[ssa.Value]bool
	assumedCell map[*ssa.Alloc]bool
	depth       int
}

func isUnsigned(t types.Type) bool {
	b, ok := t.Underlying().(*types.Basic)
	return ok && b.Info()&types.IsUnsigned != 0
}

func constIntVal(v ssa.Value) (int64, bool) {
	k, ok := v.(*ssa.Const)
	if !ok || k.Value == nil || k.Value.Kind() != constant.Int {
		return 0, false
	}
	return constant.Int64Val(k.Value)
}

func (p *nonNegProver) prove(v ssa.Value, at *ssa.BasicBlock) bool {
	if p.assumed[v] {
		return true // inductive hypothesis for phis / recursion
	}
	if p.depth > 12 {
		return false
	}
	p.depth++
	defer func() { p.depth-- }()
	if isUnsigned(v.Type()) {
		return true
	}
	if guardedNonNeg(v, at) {
		return true
	}
	switch x := v.(type) {
	case *ssa.Const:
		k, ok := constIntVal(x)
		return ok && k >= 0
	case *ssa.Convert:
		if isUnsigned(x.X.Type()) {
			// widening from an unsigned type keeps the value; a same-width conversion of a huge value could wrap,
			// but sizes here are ints fed from uint8/16/32
			if b, ok := x.X.Type().Underlying().(*types.Basic); ok && (b.Kind() == types.Uint8 || b.Kind() == types.Uint16 || b.Kind() == types.Uint32) {
				return true
			}
			return false
		}
		return p.prove(x.X, at)
	case *ssa.ChangeType:
		return p.prove(x.X, at)
	case *ssa.Call:
		if b, ok := x.Call.Value.(*ssa.Builtin); ok {
			switch b.Name() {
			case "len", "cap":
				return true
			case "min":
				for _, a := range x.Call.Args {
					if !p.prove(a, at) {
						return false
					}
				}
				return true
			case "max":
				for _, a := range x.Call.Args {
					if p.prove(a, at) {
						return true
					}
				}
				return false
			}
			return false
		}
		if cal := x.Call.StaticCallee(); cal != nil {
			if lb, ok := externalAtLeast[stripTypeArgs(cal.String())]; ok && lb >= 0 {
				return true
			}
		}
		// a call of a module function: every returned value non-negative
		if cal := x.Call.StaticCallee(); cal != nil && cal.Blocks != nil && p.c.P.InModule(cal) {
			p.assumed[v] = true
			defer delete(p.assumed, v)
			for _, b := range cal.Blocks {
				if ret, ok := b.Instrs[len(b.Instrs)-1].(*ssa.Return); ok {
					if len(ret.Results) != 1 || !p.prove(ret.Results[0], b) {
						return false
					}
				}
			}
			return true
		}
		return false
	case *ssa.Extract:
		// result #i of a module function returning a tuple
		if call, ok := x.Tuple.(*ssa.Call); ok {
			if cal := call.Call.StaticCallee(); cal != nil && cal.Blocks != nil && p.c.P.InModule(cal) {
				p.assumed[v] = true
				defer delete(p.assumed, v)
				for _, b := range cal.Blocks {
					if ret, ok := b.Instrs[len(b.Instrs)-1].(*ssa.Return); ok {
						if x.Index >= len(ret.Results) || !p.prove(ret.Results[x.Index], b) {
							return false
						}
					}
				}
				return true
			}
		}
		return false
	case *ssa.BinOp:
		switch x.Op {
		case token.ADD:
			// lib() + k with lib() >= -k
			for _, pr := range [][2]ssa.Value{{x.X, x.Y}, {x.Y, x.X}} {
				if call, ok := pr[0].(*ssa.Call); ok {
					if cal := call.Call.StaticCallee(); cal != nil {
						if lb, ok := externalAtLeast[stripTypeArgs(cal.String())]; ok {
							if k, ok := constIntVal(pr[1]); ok && lb+k >= 0 {
								return true
							}
						}
					}
				}
			}
			return p.prove(x.X, at) && p.prove(x.Y, at)
		case token.MUL, token.SHL:
			return p.prove(x.X, at) && p.prove(x.Y, at)
		case token.QUO:
			return p.prove(x.X, at) && p.prove(x.Y, at)
		case token.REM, token.SHR:
			return p.prove(x.X, at)
		case token.AND:
			return p.prove(x.X, at) || p.prove(x.Y, at)
		case token.SUB:
			// x - k with x >= k known from a dominating comparison
			if k, ok := constIntVal(x.Y); ok && k >= 0 && guardedAtLeast(x.X, k, at) {
				return true
			}
			return guardedGeq(x.X, x.Y, at)
		}
		return false
	case *ssa.Phi:
		p.assumed[v] = true
		defer delete(p.assumed, v)
		for i, e := range x.Edges {
			pred := x.Block().Preds[i]
			if edgeImpliesNonNeg(pred, x.Block(), e) {
				continue
			}
			if !p.prove(e, pred) {
				return false
			}
		}
		return true
	case *ssa.Parameter:
		fn := x.Parent()
		idx := -1
		for i, q := range fn.Params {
			if q == x {
				idx = i
			}
		}
		sites := staticCallSites(p.c, fn)
		if idx < 0 || len(sites) == 0 {
			return false
		}
		p.assumed[v] = true
		defer delete(p.assumed, v)
		for _, s := range sites {
			args := s.Common().Args
			if idx >= len(args) || !p.prove(args[idx], s.Block()) {
				return false
			}
		}
		return true
	case *ssa.UnOp:
		if x.Op == token.MUL {
			// a local — possibly captured by closures — that is only ever assigned non-negative values
			cell := x.X
			if fv, ok := cell.(*ssa.FreeVar); ok {
				cell = cellOfFreeVar(fv)
			}
			if al, ok := cell.(*ssa.Alloc); ok {
				if p.assumedCell[al] {
					return true
				}
				p.assumedCell[al] = true
				defer delete(p.assumedCell, al)
				okAll := true
				var visit func(addr ssa.Value)
				visit = func(addr ssa.Value) {
					if addr.Referrers() == nil {
						return
					}
					for _, ref := range *addr.Referrers() {
						switch r := ref.(type) {
						case *ssa.Store:
							if r.Addr != addr || !p.prove(r.Val, r.Block()) {
								okAll = false
							}
						case *ssa.UnOp, *ssa.DebugRef:
						case *ssa.MakeClosure:
							for i, bnd := range r.Bindings {
								if bnd == addr {
									visit(r.Fn.(*ssa.Function).FreeVars[i])
								}
							}
						default:
							okAll = false
						}
					}
				}
				visit(al)
				return okAll
			}
		}
		return false
	}
	return false
}

// cellOfFreeVar: the Alloc a captured variable refers to (through nested closures).
func cellOfFreeVar(fv *ssa.FreeVar) ssa.Value {
	fn := fv.Parent()
	idx := -1
	for i, f := range fn.FreeVars {
		if f == fv {
			idx = i
		}
	}
	par := fn.Parent()
	if par == nil || idx < 0 {
		return fv
	}
	var all []*ssa.Function
	var walk func(f *ssa.Function)
	walk = func(f *ssa.Function) {
		all = append(all, f)
		for _, an := range f.AnonFuncs {
			walk(an)
		}
	}
	walk(ir.Outer(fn))
	for _, f := range all {
		for _, b := range f.Blocks {
			for _, in := range b.Instrs {
				if mc, ok := in.(*ssa.MakeClosure); ok && mc.Fn == ssa.Value(fn) && idx < len(mc.Bindings) {
					switch b := mc.Bindings[idx].(type) {
					case *ssa.Alloc:
						return b
					case *ssa.FreeVar:
						return cellOfFreeVar(b)
					}
				}
			}
		}
	}
	return fv
}

// edgeImpliesNonNeg: the branch at the end of pred, taken towards succ, implies v >= 0.
func edgeImpliesNonNeg(pred, succ *ssa.BasicBlock, v ssa.Value) bool {
	iff, ok := pred.Instrs[len(pred.Instrs)-1].(*ssa.If)
	if !ok {
		return false
	}
	bo, ok := iff.Cond.(*ssa.BinOp)
	if !ok {
		return false
	}
	k, isK := constIntVal(bo.Y)
	if bo.X != v || !isK {
		return false
	}
	onTrue := pred.Succs[0] == succ && pred.Succs[1] != succ
	onFalse := pred.Succs[1] == succ && pred.Succs[0] != succ
	switch bo.Op {
	case token.LSS: // v < k false => v >= k
		return onFalse && k >= 0
	case token.LEQ:
		return onFalse && k >= -1
	case token.GEQ:
		return onTrue && k >= 0
	case token.GTR:
		return onTrue && k >= -1
	case token.EQL:
		return onTrue && k >= 0
	}
	return false
}

// externalAtLeast: lower bounds of library results the sizes are computed from.
var externalAtLeast = map[string]int64{
	"(net/netip.Prefix).Bits":                 -1, // -1 for the zero Prefix
	"(net/netip.Addr).BitLen":                 0,
	"(*github.com/gaissmai/bart.Table).Size":  0,
	"(*github.com/gaissmai/bart.Table).Size4": 0,
	"(*github.com/gaissmai/bart.Table).Size6": 0,
	"(*github.com/gaissmai/bart.Lite).Size":   0,
	"(*github.com/k-sone/critbitgo.Net).Size": 0,
	"math/bits.Len":                           0,
	"math/bits.Len8":                          0,
	"math/bits.Len16":                         0,
	"math/bits.Len32":                         0,
	"math/bits.Len64":                         0,
	"math/bits.OnesCount64":                   0,
}

// staticCallSites: the call instructions that call fn directly (closures: through the closure value).
func staticCallSites(c *Ctx, fn *ssa.Function) []ssa.CallInstruction {
	var out []ssa.CallInstruction
	if fn.Parent() != nil {
		// a closure: called directly through its MakeClosure value, or through the local variable (cell) it was
		// assigned to once; if the value goes anywhere else its callers are unknown
		outer := ir.Outer(fn)
		var all []*ssa.Function
		var walk func(f *ssa.Function)
		walk = func(f *ssa.Function) {
			all = append(all, f)
			for _, an := range f.AnonFuncs {
				walk(an)
			}
		}
		walk(outer)
		var cells []*ssa.Alloc
		for _, f := range all {
			for _, b := range f.Blocks {
				for _, in := range b.Instrs {
					// a closure without captured variables is used as a plain function value
					if st, ok := in.(*ssa.Store); ok && st.Val == ssa.Value(fn) {
						al, isAl := st.Addr.(*ssa.Alloc)
						if !isAl {
							return nil
						}
						cells = append(cells, al)
						continue
					}
					if _, isStore := in.(*ssa.Store); !isStore {
						if _, isCall := in.(ssa.CallInstruction); !isCall {
							for _, op := range in.Operands(nil) {
								if *op == ssa.Value(fn) {
									if _, isMC := in.(*ssa.MakeClosure); !isMC {
										return nil // the function value goes somewhere else
									}
								}
							}
						}
					}
					mc, ok := in.(*ssa.MakeClosure)
					if !ok || mc.Fn != ssa.Value(fn) || mc.Referrers() == nil {
						continue
					}
					for _, ref := range *mc.Referrers() {
						switch r := ref.(type) {
						case ssa.CallInstruction:
							if r.Common().Value != ssa.Value(mc) {
								return nil
							}
						case *ssa.Store:
							al, isAl := r.Addr.(*ssa.Alloc)
							if !isAl || r.Val != ssa.Value(mc) {
								return nil
							}
							cells = append(cells, al)
						case *ssa.DebugRef:
						default:
							return nil
						}
					}
				}
			}
		}
		isCell := func(v ssa.Value) bool {
			if fv, ok := v.(*ssa.FreeVar); ok {
				v = cellOfFreeVar(fv)
			}
			for _, cl := range cells {
				if v == ssa.Value(cl) {
					return true
				}
			}
			return false
		}
		// each cell is stored exactly once and its loads are only called
		for _, cl := range cells {
			stores := 0
			var chk func(addr ssa.Value) bool
			chk = func(addr ssa.Value) bool {
				if addr.Referrers() == nil {
					return true
				}
				for _, ref := range *addr.Referrers() {
					switch r := ref.(type) {
					case *ssa.Store:
						if r.Addr != addr {
							return false
						}
						stores++
					case *ssa.UnOp:
						if r.Referrers() != nil {
							for _, u := range *r.Referrers() {
								ci, isCall := u.(ssa.CallInstruction)
								if _, isDbg := u.(*ssa.DebugRef); isDbg {
									continue
								}
								if !isCall || ci.Common().Value != ssa.Value(r) {
									return false
								}
							}
						}
					case *ssa.MakeClosure:
						for i, bnd := range r.Bindings {
							if bnd == addr && !chk(r.Fn.(*ssa.Function).FreeVars[i]) {
								return false
							}
						}
					case *ssa.DebugRef:
					default:
						return false
					}
				}
				return true
			}
			if !chk(cl) || stores != 1 {
				return nil
			}
		}
		for _, f := range all {
			for _, b := range f.Blocks {
				for _, in := range b.Instrs {
					ci, ok := in.(ssa.CallInstruction)
					if !ok {
						continue
					}
					if ci.Common().StaticCallee() == fn {
						out = append(out, ci)
					} else if u, ok := ci.Common().Value.(*ssa.UnOp); ok && u.Op == token.MUL && isCell(u.X) {
						out = append(out, ci)
					}
				}
			}
		}
		return out
	}
	for _, e := range c.P.Callers(fn) {
		if ci, ok := e.Site.(ssa.CallInstruction); ok && ci.Common().StaticCallee() == fn {
			out = append(out, ci)
		} else {
			return nil // called dynamically: arguments unknown
		}
	}
	return out
}

// guardedNonNeg: at is dominated by the edge of a comparison that implies v >= 0.
func guardedNonNeg(v ssa.Value, at *ssa.BasicBlock) bool { return guardedAtLeast(v, 0, at) }

// guardedAtLeast: a dominating branch edge implies v >= k.
func guardedAtLeast(v ssa.Value, k int64, at *ssa.BasicBlock) bool {
	if at == nil {
		return false
	}
	for d := at; d != nil; d = d.Idom() {
		idom := d.Idom()
		if idom == nil {
			break
		}
		iff, ok := idom.Instrs[len(idom.Instrs)-1].(*ssa.If)
		if !ok {
			continue
		}
		bo, ok := iff.Cond.(*ssa.BinOp)
		if !ok {
			continue
		}
		// which edge leads (exclusively) to d
		onTrue := idom.Succs[0] == d && len(d.Preds) == 1
		onFalse := idom.Succs[1] == d && len(d.Preds) == 1
		if !onTrue && !onFalse {
			continue
		}
		op := bo.Op
		X, Y := bo.X, bo.Y
		// normalise to "v op c"
		if Y == v {
			X, Y = Y, X
			switch op {
			case token.LSS:
				op = token.GTR
			case token.LEQ:
				op = token.GEQ
			case token.GTR:
				op = token.LSS
			case token.GEQ:
				op = token.LEQ
			}
		}
		if X != v {
			continue
		}
		lb, haveLB := int64(0), false
		if c, ok := constIntVal(Y); ok {
			lb, haveLB = c, true
		} else if call, ok := Y.(*ssa.Call); ok {
			if b, ok := call.Call.Value.(*ssa.Builtin); ok && (b.Name() == "len" || b.Name() == "cap") {
				lb, haveLB = 0, true // v >= len(..) >= 0
			}
		}
		if !haveLB {
			continue
		}
		if onFalse {
			switch op { // negate
			case token.LSS:
				op = token.GEQ
			case token.LEQ:
				op = token.GTR
			case token.GTR:
				op = token.LEQ
			case token.GEQ:
				op = token.LSS
			case token.EQL:
				op = token.NEQ
			case token.NEQ:
				op = token.EQL
			}
		}
		switch op {
		case token.GEQ, token.EQL:
			if lb >= k {
				return true
			}
		case token.GTR:
			if lb+1 >= k {
				return true
			}
		}
	}
	return false
}

// guardedGeq: a dominating branch edge implies x >= y.
func guardedGeq(x, y ssa.Value, at *ssa.BasicBlock) bool {
	same := func(a, b ssa.Value) bool {
		if a == b {
			return true
		}
		// len(s) computed twice
		ca, ok1 := a.(*ssa.Call)
		cb, ok2 := b.(*ssa.Call)
		if ok1 && ok2 {
			ba, ok3 := ca.Call.Value.(*ssa.Builtin)
			bb, ok4 := cb.Call.Value.(*ssa.Builtin)
			return ok3 && ok4 && ba.Name() == bb.Name() && len(ca.Call.Args) == 1 && len(cb.Call.Args) == 1 && ca.Call.Args[0] == cb.Call.Args[0]
		}
		return false
	}
	for d := at; d != nil; d = d.Idom() {
		idom := d.Idom()
		if idom == nil {
			break
		}
		iff, ok := idom.Instrs[len(idom.Instrs)-1].(*ssa.If)
		if !ok {
			continue
		}
		bo, ok := iff.Cond.(*ssa.BinOp)
		if !ok {
			continue
		}
		onTrue := idom.Succs[0] == d && len(d.Preds) == 1
		onFalse := idom.Succs[1] == d && len(d.Preds) == 1
		if !onTrue && !onFalse {
			continue
		}
		// x >= y holds on: true edge of x>=y, x>y, y<=x, y<x ; false edge of x<y, y>x
		xy := same(bo.X, x) && same(bo.Y, y)
		yx := same(bo.X, y) && same(bo.Y, x)
		switch {
		case onTrue && xy && (bo.Op == token.GEQ || bo.Op == token.GTR || bo.Op == token.EQL):
			return true
		case onTrue && yx && (bo.Op == token.LEQ || bo.Op == token.LSS || bo.Op == token.EQL):
			return true
		case onFalse && xy && bo.Op == token.LSS:
			return true
		case onFalse && yx && bo.Op == token.GTR:
			return true
		}
	}
	return false
}

// makeSizeReviewed: allocations whose size is non-negative for a reason the prover cannot see (one function each).
var makeSizeReviewed = map[string]string{
	"(*pkg/packet/bgp.PathAttributeMpReachNLRI).DecodeFromBytes": "len(nexthopbin)-8 inside the case nexthoplen == 56 of the switch on the length of that very slice",
	"(*pkg/server.BgpServer).softResetOut":                       "len(negotiatedRFList())-1 inside the branch IsFamilyEnabled(RTC): the negotiated list holds at least the RTC family",
	"internal/pkg/table.NewBitmap":                               "called with the configured local-id map size, math.MaxUint8 and a uint32 label-range width; never negative",
	"pkg/server.readAll":                                         "called with the header length constant and with hd.Len-19 after BGPHeader.DecodeFromBytes has refused hd.Len < 19",
}

// ruleMakeSizeNonNeg: every make([]T, n, m) of the given files has sizes that are proven non-negative.
func (c *Ctx) ruleMakeSizeNonNeg(rule string, pkgs []string, fileFilter func(string) bool, min int) {
	r := c.R
	r.Rule(rule, "no allocation with a negative size: the length and capacity of every make([]T, …) are proven non-negative (constants, len/cap, values of unsigned origin, sums, products and quotients of such, phis and locals fed only by such, parameters whose every call site passes such, differences x-y dominated by a test x>=y) — a size computed by subtracting a variable amount from a budget panics with 'makeslice: len out of range' when the amount exceeds the budget", min)
	for _, short := range pkgs {
		for _, fn := range c.P.FuncsIn(short) {
			if fn.Blocks == nil {
				continue
			}
			file := c.P.Pos(ir.Outer(fn).Pos())
			if i := strings.LastIndex(file, ":"); i > 0 {
				file = file[:i]
			}
			if fileFilter != nil && !fileFilter(file) {
				continue
			}
			n := 0
			for _, b := range fn.Blocks {
				for _, in := range b.Instrs {
					ms, ok := in.(*ssa.MakeSlice)
					if !ok {
						continue
					}
					n++
					cons := fmt.Sprintf("make %s #%d", shortType(ms.Type()), n)
					p := &nonNegProver{c: c, assumed: map[ssa.Value]bool{}, assumedCell: map[*ssa.Alloc]bool{}}
					bad := ""
					if !p.prove(ms.Len, b) {
						bad = "length " + describeVal(ms.Len, 0)
					} else if !p.prove(ms.Cap, b) {
						bad = "capacity " + describeVal(ms.Cap, 0)
					}
					if why, ok := makeSizeReviewed[ir.FuncKey(fn)]; ok && bad != "" {
						r.Except(rule, ir.FuncKey(fn), cons, c.P.InstrPos(ms), why)
					} else if bad == "" {
						r.Ok(rule, ir.FuncKey(fn), cons, c.P.InstrPos(ms), "sizes non-negative")
					} else {
						r.Bad(rule, ir.FuncKey(fn), cons, c.P.InstrPos(ms), "the "+bad+" is not proven non-negative: the allocation panics when it is negative")
					}
				}
			}
		}
	}
}
