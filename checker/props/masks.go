package props

import (
	"fmt"
	"go/token"
	"go/types"
	"sort"
	"strings"

	"golang.org/x/tools/go/ssa"

	"gbverif/ir"
)

// Bit-field agreement between the two halves of a codec: when the decoder of a type extracts a field from a wire
// octet with a mask and the serialiser of the same type confines the same field with a mask before it writes it,
// the two masks (normalised by the shifts applied on each side) must select the same number of bits.

var decoderNames = map[string]bool{"DecodeFromBytes": true, "decodeFromBytes": true, "UnmarshalBinary": true, "ParseBody": true, "parseBody": true, "decode": true}
var encoderNames = map[string]bool{"Serialize": true, "serialize": true, "MarshalBinary": true, "encode": true}

type maskUse struct {
	mask uint64
	pos  string
}

func constU64(v ssa.Value) (uint64, bool) {
	k, ok := stripConv(v).(*ssa.Const)
	if !ok || k.Value == nil {
		return 0, false
	}
	i, ok := constInt(k.Value)
	if !ok || i < 0 {
		return 0, false
	}
	return uint64(i), true
}

// readerMask: the mask (normalised to the low bits) under which the value stored into a field was cut out of its
// source: walks back through conversions, a right shift and an AND with a constant, in either order.
func readerMask(v ssa.Value) (uint64, bool) {
	shift := uint64(0)
	for i := 0; i < 6; i++ {
		switch x := v.(type) {
		case *ssa.Convert:
			v = x.X
		case *ssa.ChangeType:
			v = x.X
		case *ssa.Call:
			// byteToBool(x) style helpers: one argument
			if cal := x.Call.StaticCallee(); cal != nil && len(x.Call.Args) == 1 && len(cal.Blocks) <= 3 {
				v = x.Call.Args[0]
			} else {
				return 0, false
			}
		case *ssa.BinOp:
			switch x.Op {
			case token.SHR:
				if s, ok := constU64(x.Y); ok {
					shift += s
					v = x.X
					continue
				}
				return 0, false
			case token.AND:
				if k, ok := constU64(x.Y); ok {
					// (b & K) >> s  : K>>s ;  (b >> s) & K : K
					return k >> shift, true
				}
				if k, ok := constU64(x.X); ok {
					return k >> shift, true
				}
				return 0, false
			case token.NEQ, token.EQL, token.GTR:
				// (b & K) != 0
				if z, ok := constU64(x.Y); ok && z == 0 {
					v = x.X
					continue
				}
				return 0, false
			default:
				return 0, false
			}
		default:
			return 0, false
		}
	}
	return 0, false
}

// readerShift: the total right shift under which the stored value was taken from its source (0, false if none).
func readerShift(v ssa.Value) (uint64, bool) {
	shift, any := uint64(0), false
	for i := 0; i < 6; i++ {
		switch x := v.(type) {
		case *ssa.Convert:
			v = x.X
		case *ssa.ChangeType:
			v = x.X
		case *ssa.Call:
			if cal := x.Call.StaticCallee(); cal != nil && len(x.Call.Args) == 1 && len(cal.Blocks) <= 3 {
				v = x.Call.Args[0]
			} else {
				return shift, any
			}
		case *ssa.BinOp:
			switch x.Op {
			case token.SHR:
				if s, ok := constU64(x.Y); ok {
					shift += s
					any = true
					v = x.X
					continue
				}
				return shift, any
			case token.AND:
				if _, ok := constU64(x.Y); ok {
					v = x.X
					continue
				}
				return shift, any
			default:
				return shift, any
			}
		default:
			return shift, any
		}
	}
	return shift, any
}

// writerShifts: the left shifts applied to a loaded field value on its way to the wire.
func writerShifts(load ssa.Value) []uint64 {
	var out []uint64
	var walk func(v ssa.Value, depth int)
	walk = func(v ssa.Value, depth int) {
		if depth > 5 || v.Referrers() == nil {
			return
		}
		for _, ref := range *v.Referrers() {
			switch x := ref.(type) {
			case *ssa.Convert:
				walk(x, depth+1)
			case *ssa.ChangeType:
				walk(x, depth+1)
			case *ssa.BinOp:
				switch x.Op {
				case token.AND:
					if _, ok := constU64(x.Y); ok && x.X == v {
						walk(x, depth+1)
					}
				case token.SHL:
					if x.X == v {
						if s, ok := constU64(x.Y); ok {
							out = append(out, s)
						}
					}
				}
			}
		}
	}
	walk(load, 0)
	return out
}

// writerMasks: the masks applied to a loaded field value on its way to the wire (normalised to the low bits).
func writerMasks(load ssa.Value) []uint64 {
	var out []uint64
	var walk func(v ssa.Value, shl uint64, depth int)
	walk = func(v ssa.Value, shl uint64, depth int) {
		if depth > 5 || v.Referrers() == nil {
			return
		}
		for _, ref := range *v.Referrers() {
			switch x := ref.(type) {
			case *ssa.Convert:
				walk(x, shl, depth+1)
			case *ssa.ChangeType:
				walk(x, shl, depth+1)
			case *ssa.BinOp:
				switch x.Op {
				case token.AND:
					other := x.Y
					if other == v {
						other = x.X
					}
					if k, ok := constU64(other); ok {
						out = append(out, k>>shl)
					}
				case token.SHL:
					if x.X == v {
						if s, ok := constU64(x.Y); ok {
							walk(x, shl+s, depth+1)
						}
					}
				}
			}
		}
	}
	walk(load, 0, 0)
	return out
}

func bitsOf(m uint64) int {
	n := 0
	for ; m != 0; m &= m - 1 {
		n++
	}
	return n
}

// ruleMaskAgreement: per (type, field), decoder mask == serialiser mask.
func (c *Ctx) ruleMaskAgreement(rule string, pkgs []string, min int) {
	r := c.R
	r.Rule(rule, "bit-field agreement between sibling codec halves: for every struct field that the decoder of a type cuts out of a wire octet with a constant mask and that the serialiser of the same type confines with a constant mask, the two masks — each normalised by the shifts applied on its side — are equal: a decoder that keeps fewer bits than the serialiser writes (or the reverse) does not round-trip the values in between", min)
	for _, short := range pkgs {
		pk := c.P.Pkg(short)
		if pk == nil {
			r.Undec(rule, "-", "anchor:"+short, "-", "package not found")
			continue
		}
		rd := map[string][]maskUse{}
		wr := map[string][]maskUse{}
		rdS := map[string][]maskUse{}
		wrS := map[string][]maskUse{}
		for _, fn := range c.P.FuncsIn(short) {
			if fn.Blocks == nil || fn.Signature.Recv() == nil || len(fn.Params) == 0 {
				continue
			}
			isDec, isEnc := decoderNames[fn.Name()], encoderNames[fn.Name()]
			if !isDec && !isEnc {
				continue
			}
			named := ir.NamedOf(ir.Deref(fn.Signature.Recv().Type()))
			if named == nil {
				continue
			}
			recv := fn.Params[0]
			fromRecv := func(fa *ssa.FieldAddr) bool {
				var base ssa.Value = fa.X
				for {
					if inner, ok := base.(*ssa.FieldAddr); ok {
						base = inner.X
						continue
					}
					break
				}
				return base == ssa.Value(recv)
			}
			for _, b := range fn.Blocks {
				for _, in := range b.Instrs {
					switch x := in.(type) {
					case *ssa.Store:
						if !isDec {
							continue
						}
						fa, ok := x.Addr.(*ssa.FieldAddr)
						if !ok || !fromRecv(fa) {
							continue
						}
						key := named.Obj().Name() + "." + fieldOfName(fa)
						if m, ok := readerMask(x.Val); ok {
							rd[key] = append(rd[key], maskUse{m, c.P.InstrPos(x)})
						}
						if sh, ok := readerShift(x.Val); ok {
							rdS[key] = append(rdS[key], maskUse{sh, c.P.InstrPos(x)})
						}
					case *ssa.UnOp:
						if !isEnc || x.Op != token.MUL {
							continue
						}
						fa, ok := x.X.(*ssa.FieldAddr)
						if !ok || !fromRecv(fa) {
							continue
						}
						if _, isInt := x.Type().Underlying().(*types.Basic); !isInt {
							continue
						}
						key := named.Obj().Name() + "." + fieldOfName(fa)
						for _, m := range writerMasks(x) {
							wr[key] = append(wr[key], maskUse{m, c.P.InstrPos(x)})
						}
						for _, sh := range writerShifts(x) {
							wrS[key] = append(wrS[key], maskUse{sh, c.P.InstrPos(x)})
						}
					}
				}
			}
		}
		var keys []string
		for k := range rd {
			if len(wr[k]) > 0 {
				keys = append(keys, k)
			}
		}
		sort.Strings(keys)
		for _, k := range keys {
			rs, ws := rd[k], wr[k]
			rset, wset := map[uint64]bool{}, map[uint64]bool{}
			for _, u := range rs {
				rset[u.mask] = true
			}
			for _, u := range ws {
				wset[u.mask] = true
			}
			same := len(rset) == len(wset)
			for m := range rset {
				if !wset[m] {
					same = false
				}
			}
			fk := short + "." + k
			desc := func(s map[uint64]bool) string {
				var l []string
				for m := range s {
					l = append(l, fmt.Sprintf("%#x (%d bits)", m, bitsOf(m)))
				}
				sort.Strings(l)
				return strings.Join(l, ", ")
			}
			if same {
				r.Ok(rule, fk, "field mask", rs[0].pos, "decoder and serialiser both use "+desc(rset))
			} else {
				r.Bad(rule, fk, "field mask", rs[0].pos, "the decoder keeps "+desc(rset)+" of the field but the serialiser writes "+desc(wset)+" (at "+ws[0].pos+"): values that differ in the other bits do not round-trip")
			}
		}
		// the position of the field inside its octet: right shift on decode == left shift on encode
		keys = keys[:0]
		for k := range rdS {
			if len(wrS[k]) > 0 {
				keys = append(keys, k)
			}
		}
		sort.Strings(keys)
		for _, k := range keys {
			rset, wset := map[uint64]bool{}, map[uint64]bool{}
			for _, u := range rdS[k] {
				rset[u.mask] = true
			}
			for _, u := range wrS[k] {
				wset[u.mask] = true
			}
			same := len(rset) == len(wset)
			for m := range rset {
				if !wset[m] {
					same = false
				}
			}
			list := func(s map[uint64]bool) string {
				var l []string
				for m := range s {
					l = append(l, fmt.Sprint(m))
				}
				sort.Strings(l)
				return strings.Join(l, ",")
			}
			fk := short + "." + k
			if same {
				r.Ok(rule, fk, "field position", rdS[k][0].pos, "shifted by "+list(rset)+" on both sides")
			} else {
				r.Bad(rule, fk, "field position", rdS[k][0].pos, "the decoder shifts the field right by "+list(rset)+" but the serialiser shifts it left by "+list(wset)+" (at "+wrS[k][0].pos+"): the field is read from other bits than it is written to")
			}
		}
	}
}

// bitTestOf: v is the boolean "x & K != 0" (directly, or as a variable set to true under that test); returns K.
func bitTestOf(v ssa.Value) (uint64, bool) {
	cmpMask := func(cond ssa.Value) (uint64, bool) {
		bo, ok := cond.(*ssa.BinOp)
		if !ok || (bo.Op != token.GTR && bo.Op != token.NEQ) {
			return 0, false
		}
		if z, ok := constU64(bo.Y); !ok || z != 0 {
			return 0, false
		}
		and, ok := stripConv(bo.X).(*ssa.BinOp)
		if !ok || and.Op != token.AND {
			return 0, false
		}
		if k, ok := constU64(and.Y); ok {
			return k, true
		}
		if k, ok := constU64(and.X); ok {
			return k, true
		}
		return 0, false
	}
	if k, ok := cmpMask(v); ok {
		return k, true
	}
	ph, ok := v.(*ssa.Phi)
	if !ok || len(ph.Edges) != 2 {
		return 0, false
	}
	for i, e := range ph.Edges {
		k, isK := e.(*ssa.Const)
		if !isK || k.Value == nil || k.Value.String() != "true" {
			continue
		}
		other, isK2 := ph.Edges[1-i].(*ssa.Const)
		if !isK2 || other.Value == nil || other.Value.String() != "false" {
			return 0, false
		}
		pred := ph.Block().Preds[i]
		if len(pred.Preds) != 1 {
			return 0, false
		}
		g := pred.Preds[0]
		iff, ok := g.Instrs[len(g.Instrs)-1].(*ssa.If)
		if !ok || g.Succs[0] != pred {
			return 0, false
		}
		return cmpMask(iff.Cond)
	}
	return 0, false
}

// flagSetBy: the constant a function ORs / assigns into its flags when its bool parameter i is true.
func flagSetBy(fn *ssa.Function, i int) (uint64, bool) {
	if fn.Blocks == nil || i >= len(fn.Params) {
		return 0, false
	}
	prm := fn.Params[i]
	var found []uint64
	for _, b := range fn.Blocks {
		iff, ok := b.Instrs[len(b.Instrs)-1].(*ssa.If)
		if !ok || iff.Cond != ssa.Value(prm) {
			continue
		}
		t := b.Succs[0]
		if len(t.Preds) != 1 {
			continue
		}
		for _, in := range t.Instrs {
			if bo, ok := in.(*ssa.BinOp); ok && bo.Op == token.OR {
				if k, ok := constU64(bo.Y); ok {
					found = append(found, k)
				} else if k, ok := constU64(bo.X); ok {
					found = append(found, k)
				}
			}
		}
		// flags = K on the true edge: a phi at the join fed a constant from t
		for _, s := range t.Succs {
			for _, in := range s.Instrs {
				ph, ok := in.(*ssa.Phi)
				if !ok {
					break
				}
				for ei, e := range ph.Edges {
					if s.Preds[ei] == t {
						if k, ok := constU64(e); ok && k != 0 {
							found = append(found, k)
						}
					}
				}
			}
		}
	}
	if len(found) != 1 {
		return 0, false
	}
	return found[0], true
}

// ruleFlagRecomposition: a bit taken out of a flags octet and handed to a constructor as a bool is put back as the same bit.
func (c *Ctx) ruleFlagRecomposition(rule string, pkgs []string, min int) {
	r := c.R
	r.Rule(rule, "flag decomposition and recomposition agree: where a converter tests a flags value with a constant mask (x&K != 0), passes the result as a bool argument to a constructor of the module, and that constructor sets a constant bit K' when the parameter is true, K equals K' — otherwise the conversion moves the flag to another bit (e.g. Graceful Restart R and N swapped between the API form and the native form)", min)
	for _, short := range pkgs {
		for _, fn := range c.P.FuncsIn(short) {
			if fn.Blocks == nil {
				continue
			}
			n := 0
			for _, b := range fn.Blocks {
				for _, in := range b.Instrs {
					call, ok := in.(*ssa.Call)
					if !ok {
						continue
					}
					cal := call.Call.StaticCallee()
					if cal == nil || !c.P.InModule(cal) || cal.Blocks == nil {
						continue
					}
					off := 0
					if cal.Signature.Recv() != nil {
						off = 1
					}
					_ = off
					for i, a := range call.Call.Args {
						k, ok := bitTestOf(a)
						if !ok {
							continue
						}
						k2, ok := flagSetBy(cal, i)
						if !ok {
							continue
						}
						n++
						cons := fmt.Sprintf("%s argument %d #%d", cal.Name(), i, n)
						if k == k2 {
							r.Ok(rule, ir.FuncKey(fn), cons, c.P.InstrPos(call), fmt.Sprintf("tested with %#x, set as %#x", k, k2))
						} else {
							r.Bad(rule, ir.FuncKey(fn), cons, c.P.InstrPos(call), fmt.Sprintf("the flag is read from bit %#x but %s puts it back as bit %#x: the two representations disagree", k, cal.Name(), k2))
						}
					}
				}
			}
		}
	}
}

// ruleDeadByteStore: an octet written into a buffer is not overwritten by a wider write before anything reads it.
func (c *Ctx) ruleDeadByteStore(rule string, pkgs []string, min int) {
	r := c.R
	r.Rule(rule, "no dead octet: in the serialisers, a store buf[k] = v is not followed in the same block by a binary.PutUint16/32/64 into buf[j:] with j <= k < j+width (and nothing in between that could read the buffer): the wider write would erase the octet — a flags field lost under the top octet of a 24-bit value written with PutUint32", min)
	widths := map[string]int64{"PutUint16": 2, "PutUint32": 4, "PutUint64": 8}
	for _, short := range pkgs {
		for _, fn := range c.P.FuncsIn(short) {
			if fn.Blocks == nil {
				continue
			}
			n := 0
			for _, b := range fn.Blocks {
				type bstore struct {
					buf  ssa.Value
					base ssa.Value // variable part of the offset (nil: constant offset)
					k    int64
					at   int
					in   ssa.Instruction
				}
				var stores []bstore
				for idx, in := range b.Instrs {
					switch x := in.(type) {
					case *ssa.Store:
						if ia, ok := x.Addr.(*ssa.IndexAddr); ok && (isBytes(ia.X.Type()) || byteArrayLen(ia.X.Type()) > 0) {
							base, k := lin(ia.Index)
							stores = append(stores, bstore{ia.X, base, k, idx, x})
						}
					case *ssa.Call:
						cal := x.Call.StaticCallee()
						if cal == nil || len(x.Call.Args) < 2 {
							continue
						}
						w := widths[cal.Name()]
						if w == 0 || cal.Pkg == nil || cal.Pkg.Pkg.Path() != "encoding/binary" {
							// any other call that takes a tracked buffer may read it: forget those stores
							kept := stores[:0]
							for _, s := range stores {
								used := false
								for _, a := range x.Call.Args {
									if a == s.buf || sameSym(a, s.buf) {
										used = true
									}
									if sl, ok := a.(*ssa.Slice); ok && (sl.X == s.buf || sameSym(sl.X, s.buf)) {
										used = true
									}
								}
								if !used {
									kept = append(kept, s)
								}
							}
							stores = kept
							continue
						}
						// binary.ByteOrder.PutUintN(buf[j:], v): args = (receiver, slice, value)
						var dst ssa.Value
						for _, a := range x.Call.Args {
							if isBytes(a.Type()) {
								dst = a
							}
						}
						if dst == nil {
							continue
						}
						base, j := dst, int64(0)
						var jbase ssa.Value
						if sl, ok := dst.(*ssa.Slice); ok {
							base = sl.X
							if sl.Low != nil {
								jbase, j = lin(sl.Low)
							}
						}
						for _, s := range stores {
							if !(s.buf == base || sameSym(s.buf, base)) {
								continue
							}
							// offsets are comparable when both are constants or both are the same variable plus a constant
							if (s.base == nil) != (jbase == nil) || (s.base != nil && !(s.base == jbase || sameSym(s.base, jbase))) {
								continue
							}
							n++
							cons := fmt.Sprintf("octet %d then %s at %d #%d", s.k, cal.Name(), j, n)
							if j <= s.k && s.k < j+w {
								r.Bad(rule, ir.FuncKey(fn), cons, c.P.InstrPos(x), fmt.Sprintf("buf[%d] was written at %s and is overwritten by this %d-octet write at offset %d before anything reads it: the octet never reaches the wire", s.k, c.P.InstrPos(s.in), w, j))
							} else {
								r.Ok(rule, ir.FuncKey(fn), cons, c.P.InstrPos(x), "disjoint")
							}
						}
					}
				}
			}
		}
	}
}
