package props

import (
	"fmt"
	"go/token"
	"go/types"
	"sort"
	"strings"

	"golang.org/x/tools/go/ssa"

	"gbverif/ir"
	"gbverif/locks"
)

// bookkeepingAccessors: the methods of *peer that touch the advertised-route bookkeeping
// (the sync.Map fields of peer), found from the code, not from a name list.
func (c *Ctx) bookkeepingAccessors() (acc map[*ssa.Function]map[string]string, fields []string) {
	acc = map[*ssa.Function]map[string]string{} // fn -> field -> "read"/"write"
	peer := c.P.NamedType("pkg/server", "peer")
	if peer == nil {
		return
	}
	fset := map[string]bool{}
	for _, fn := range c.P.FuncsIn("pkg/server") {
		if fn.Signature.Recv() == nil || ir.NamedOf(fn.Signature.Recv().Type()) != peer {
			continue
		}
		for _, b := range fn.Blocks {
			for _, in := range b.Instrs {
				call, ok := in.(*ssa.Call)
				if !ok || len(call.Call.Args) == 0 {
					continue
				}
				callee := call.Call.StaticCallee()
				if callee == nil || callee.Signature.Recv() == nil {
					continue
				}
				rn := ir.NamedOf(callee.Signature.Recv().Type())
				if rn == nil || rn.Obj().Pkg() == nil || rn.Obj().Pkg().Path() != "sync" || rn.Obj().Name() != "Map" {
					continue
				}
				fa, ok := call.Call.Args[0].(*ssa.FieldAddr)
				if !ok || ir.NamedOf(fa.X.Type()) != peer {
					continue
				}
				f := ir.FieldOf(fa).Name()
				fset[f] = true
				if acc[fn] == nil {
					acc[fn] = map[string]string{}
				}
				kind := "read"
				switch callee.Name() {
				case "Store", "Delete", "Clear", "LoadOrStore", "LoadAndDelete", "Swap", "CompareAndSwap", "CompareAndDelete":
					kind = "write"
				}
				if acc[fn][f] != "write" {
					acc[fn][f] = kind
				}
			}
		}
		// in-place mutation of a stored value (delete/insert into the pathIDSet map) counts as write
		if acc[fn] != nil {
			for _, b := range fn.Blocks {
				for _, in := range b.Instrs {
					switch x := in.(type) {
					case *ssa.MapUpdate:
						for f := range acc[fn] {
							acc[fn][f] = "write"
						}
					case *ssa.Call:
						if bi, ok := x.Call.Value.(*ssa.Builtin); ok && bi.Name() == "delete" {
							for f := range acc[fn] {
								acc[fn][f] = "write"
							}
						}
					}
				}
			}
		}
	}
	for f := range fset {
		fields = append(fields, f)
	}
	sort.Strings(fields)
	return
}

// ruleBookkeepingLocks (E1b): every call of a bookkeeping accessor happens with the peer's
// route-refresh lock held exclusively, or held shared together with the prefix bucket.
func (c *Ctx) ruleBookkeepingLocks(rule string) {
	r := c.R
	a := c.lockAnalysis()
	r.Rule(rule, "advertised-route bookkeeping (the sync.Map fields of peer): every call of a method of *peer that touches them is made with routeRefreshInProgress held exclusively, or held shared together with a propagate bucket or in the exclusive management context; and always with sharedData.mu at least shared (must-hold, interprocedural, callbacks refined by where they are passed)", 10)
	for _, p := range a.WrapperProblems {
		r.Undec(rule, "-", "lock-wrapper", "-", p)
	}
	acc, _ := c.bookkeepingAccessors()
	if len(acc) < 4 {
		r.Undec(rule, "-", "anchor:accessors", "-", fmt.Sprintf("only %d bookkeeping accessors found", len(acc)))
	}
	for fn, fields := range acc {
		write := false
		for _, k := range fields {
			if k == "write" {
				write = true
			}
		}
		for _, e := range a.In[fn] {
			if acc[ir.Outer(e.Caller)] != nil {
				continue // accessor calling accessor: checked at the outer call
			}
			pos := c.P.InstrPos(e.Site)
			cons := "call " + fn.Name() + " from " + ir.OuterKey(e.Caller)
			if e.Async {
				r.Bad(rule, ir.FuncKey(fn), cons, pos, "bookkeeping accessor started asynchronously")
				continue
			}
			_, must, reached := a.At(e.Site)
			if !reached {
				r.Add(oblT(rule, ir.FuncKey(fn), cons, pos, "ok", "caller unreachable", nil, true))
				continue
			}
			ok := must[lkRR] == locks.W || (must[lkRR] >= locks.R && must[lkBucket] == locks.W)
			if !write && must[lkRR] >= locks.R {
				ok = true // pure reads need the route-refresh lock in any mode
			}
			if must[lkShared] == locks.W {
				ok = true // the management context excludes every other toucher: all of them hold sharedData.mu (checked next)
			}
			if must[lkShared] < locks.R {
				ok = false
			}
			if ok {
				r.Ok(rule, ir.FuncKey(fn), cons, pos, "must-held "+must.String())
			} else {
				r.Add(obl(rule, ir.FuncKey(fn), cons, pos, "violation",
					"bookkeeping touched without (routeRefreshInProgress exclusive) or (shared + prefix bucket): must-held here is "+must.String(), c.unlockedPath(a, e.Caller, lkRR, locks.R)))
			}
		}
	}
}

// ruleResetComplete: the function that resets the bookkeeping clears every bookkeeping field.
func (c *Ctx) ruleResetComplete(rule string) {
	r := c.R
	r.Rule(rule, "session-end reset is complete: the accessor that clears advertised-route bookkeeping clears every sync.Map field of peer that the export path writes", 2)
	acc, fields := c.bookkeepingAccessors()
	var resetters []*ssa.Function
	cleared := map[*ssa.Function]map[string]bool{}
	for fn := range acc {
		for _, b := range fn.Blocks {
			for _, in := range b.Instrs {
				call, ok := in.(*ssa.Call)
				if !ok {
					continue
				}
				callee := call.Call.StaticCallee()
				if callee == nil || callee.Name() != "Clear" || len(call.Call.Args) == 0 {
					continue
				}
				if fa, ok := call.Call.Args[0].(*ssa.FieldAddr); ok {
					if cleared[fn] == nil {
						cleared[fn] = map[string]bool{}
						resetters = append(resetters, fn)
					}
					cleared[fn][ir.FieldOf(fa).Name()] = true
				}
			}
		}
	}
	if len(resetters) == 0 {
		r.Undec(rule, "-", "anchor:reset", "-", "no method of *peer clears the bookkeeping")
		return
	}
	for _, fn := range resetters {
		for _, f := range fields {
			if cleared[fn][f] {
				r.Ok(rule, ir.FuncKey(fn), "clears peer."+f, c.P.Pos(fn.Pos()), "")
			} else {
				r.Bad(rule, ir.FuncKey(fn), "clears peer."+f, c.P.Pos(fn.Pos()), "bookkeeping field survives the session: marks left over from the previous session make later announcements/withdrawals be skipped")
			}
		}
	}
}

// ---- send ⇐ record pairing ------------------------------------------------------

// sliceLiteralElems: for a []T{a, b} literal returns its elements.
func sliceLiteralElems(v ssa.Value) ([]ssa.Value, bool) {
	sl, ok := v.(*ssa.Slice)
	if !ok {
		return nil, false
	}
	al, ok := sl.X.(*ssa.Alloc)
	if !ok {
		return nil, false
	}
	if _, isArr := ir.Deref2(al.Type()).Underlying().(*types.Array); !isArr {
		return nil, false
	}
	var out []ssa.Value
	for _, ref := range *al.Referrers() {
		ia, ok := ref.(*ssa.IndexAddr)
		if !ok {
			continue
		}
		for _, r2 := range *ia.Referrers() {
			if st, ok := r2.(*ssa.Store); ok && st.Addr == ssa.Value(ia) {
				out = append(out, st.Val)
			}
		}
	}
	return out, true
}

func isEmptySlice(v ssa.Value) bool {
	switch x := v.(type) {
	case *ssa.Const:
		return x.IsNil()
	case *ssa.MakeSlice:
		if k, ok := x.Len.(*ssa.Const); ok {
			if i, ok := constInt(k.Value); ok && i == 0 {
				return true
			}
		}
	case *ssa.Slice:
		if el, ok := sliceLiteralElems(x); ok && len(el) == 0 {
			if al, ok := x.X.(*ssa.Alloc); ok {
				if arr, ok := ir.Deref2(al.Type()).Underlying().(*types.Array); ok && arr.Len() == 0 {
					return true
				}
			}
		}
	}
	return false
}

// samePeer: two values denote the same peer variable (same SSA value, or loads of the same cell / free variable).
func samePeer(a, b ssa.Value) bool {
	if a == b {
		return true
	}
	ua, ok1 := a.(*ssa.UnOp)
	ub, ok2 := b.(*ssa.UnOp)
	if ok1 && ok2 && ua.X == ub.X {
		return true
	}
	return false
}

// sameCellValue: a and b are the same SSA value, or loads of the same variable cell in the
// block of `from` with no store to that cell in between (captured variables are re-loaded at every use).
func sameCellValue(a, b ssa.Value, from ssa.Instruction) bool {
	if a == b {
		return true
	}
	ua, ok1 := a.(*ssa.UnOp)
	ub, ok2 := b.(*ssa.UnOp)
	if !ok1 || !ok2 || ua.X != ub.X || ua.Block() != ub.Block() {
		return false
	}
	switch ua.X.(type) {
	case *ssa.Alloc, *ssa.FreeVar:
	default:
		return false
	}
	in := false
	for _, i := range ua.Block().Instrs {
		if i == ssa.Instruction(ua) || i == ssa.Instruction(ub) {
			if in {
				return true
			}
			in = true
			continue
		}
		if in {
			if st, ok := i.(*ssa.Store); ok && st.Addr == ua.X {
				return false
			}
		}
	}
	return false
}

type pairCtx struct {
	c       *Ctx
	update  *ssa.Function
	already *ssa.Function
}

// dominatesInstr: instruction x executes before y on every path to y.
func dominatesInstr(x, y ssa.Instruction) bool {
	bx, by := x.Block(), y.Block()
	if bx == by {
		for _, in := range bx.Instrs {
			if in == x {
				return true
			}
			if in == y {
				return false
			}
		}
	}
	return bx.Dominates(by)
}

// recorded: the slice value v has been handed to updateRoutes (as a whole or element by
// element) on every path to instruction `at` (which lives in fn).
func (pc *pairCtx) recorded(fn *ssa.Function, peer ssa.Value, v ssa.Value, at ssa.Instruction, depth int) (bool, string) {
	if depth > 6 {
		return false, "too deep"
	}
	if isEmptySlice(v) {
		return true, "empty"
	}
	// 1. updateRoutes(peer, v...) dominating
	for _, b := range fn.Blocks {
		for _, in := range b.Instrs {
			call, ok := in.(*ssa.Call)
			if !ok || call.Call.StaticCallee() != pc.update || len(call.Call.Args) != 2 {
				continue
			}
			if sameCellValue(call.Call.Args[1], v, call) && samePeer(call.Call.Args[0], peer) && dominatesInstr(call, at) {
				return true, "updateRoutes(list...) dominates"
			}
		}
	}
	switch x := v.(type) {
	case *ssa.Phi:
		for i, e := range x.Edges {
			pred := x.Block().Preds[i]
			last := pred.Instrs[len(pred.Instrs)-1]
			if ok, why := pc.recorded(fn, peer, e, last, depth+1); !ok {
				return false, "phi edge: " + why
			}
		}
		return true, "all phi edges recorded"
	case *ssa.Call:
		// immediately-invoked closure returning the list
		var cl *ssa.Function
		var binds []ssa.Value
		if mc, ok := x.Call.Value.(*ssa.MakeClosure); ok {
			cl, _ = mc.Fn.(*ssa.Function)
			binds = mc.Bindings
		}
		if cl == nil {
			return false, "list comes from a call that is not an inline closure"
		}
		// the peer inside the closure: the free variable bound to the same cell
		var innerPeer ssa.Value
		for i, bnd := range binds {
			if bnd == peer || samePeer(bnd, peer) {
				innerPeer = cl.FreeVars[i]
			}
			if u, ok := peer.(*ssa.UnOp); ok && u.X == bnd {
				innerPeer = cl.FreeVars[i]
			}
		}
		if innerPeer == nil {
			return false, "closure does not capture the peer"
		}
		for _, b := range cl.Blocks {
			ret, ok := b.Instrs[len(b.Instrs)-1].(*ssa.Return)
			if !ok || len(ret.Results) == 0 {
				continue
			}
			// inside the closure the peer is read through the free variable cell
			okAny := false
			for _, bb := range cl.Blocks {
				for _, in := range bb.Instrs {
					call, ok := in.(*ssa.Call)
					if !ok || call.Call.StaticCallee() != pc.update || len(call.Call.Args) != 2 {
						continue
					}
					recv := call.Call.Args[0]
					viaFV := false
					if u, ok := recv.(*ssa.UnOp); ok && u.X == innerPeer {
						viaFV = true
					}
					if viaFV && call.Call.Args[1] == ret.Results[0] && dominatesInstr(call, ret) {
						okAny = true
					}
				}
			}
			if !okAny {
				return false, "a return of the inline closure is not preceded by updateRoutes(list...)"
			}
		}
		return true, "inline closure records its result before returning"
	case *ssa.Slice:
		elems, ok := sliceLiteralElems(x)
		if !ok {
			return false, "slice of unknown origin"
		}
		for _, el := range elems {
			if ok, why := pc.recordedElem(fn, peer, el, at); !ok {
				return false, why
			}
		}
		return true, "every element recorded"
	}
	return false, "list of unknown origin"
}

// recordedElem: updateRoutes(peer, el) dominates `at`, or is skipped only when the element is
// known to have been sent already (hasPathAlreadyBeenSent on the same peer was true).
func (pc *pairCtx) recordedElem(fn *ssa.Function, peer ssa.Value, el ssa.Value, at ssa.Instruction) (bool, string) {
	for _, b := range fn.Blocks {
		for _, in := range b.Instrs {
			call, ok := in.(*ssa.Call)
			if !ok || call.Call.StaticCallee() != pc.update || len(call.Call.Args) != 2 || !samePeer(call.Call.Args[0], peer) {
				continue
			}
			elems, ok := sliceLiteralElems(call.Call.Args[1])
			if !ok || len(elems) != 1 || elems[0] != el {
				continue
			}
			if dominatesInstr(call, at) {
				return true, ""
			}
			// guarded skip: the call sits on the "not already sent" edge of a branch on hasPathAlreadyBeenSent
			ub := call.Block()
			if len(ub.Preds) == 1 {
				g := ub.Preds[0]
				if iff, ok := g.Instrs[len(g.Instrs)-1].(*ssa.If); ok {
					cond := iff.Cond
					neg := false
					if u, ok := cond.(*ssa.UnOp); ok && u.Op == token.NOT {
						cond, neg = u.X, true
					}
					if ac, ok := cond.(*ssa.Call); ok && ac.Call.StaticCallee() == pc.already && samePeer(ac.Call.Args[0], peer) {
						onTrue := g.Succs[0] == ub
						notSentEdge := (neg && onTrue) || (!neg && !onTrue)
						if notSentEdge && (g == at.Block() || g.Dominates(at.Block())) {
							return true, ""
						}
					}
				}
			}
		}
	}
	return false, "an element of the sent list is never passed to updateRoutes"
}

// rulePairing: every list handed to the sender has been recorded in the bookkeeping.
func (c *Ctx) rulePairing(rule string) {
	r := c.R
	r.Rule(rule, "send ⇐ record: at every call of sendfsmOutgoingMsg(peer, list) the list has been passed to peer.updateRoutes on every path (as a whole, element by element, or built by an inline closure that records it before returning); elements known to be already advertised may be skipped", 8)
	send := c.P.Func("pkg/server.sendfsmOutgoingMsg")
	upd := c.P.Func("(*pkg/server.peer).updateRoutes")
	already := c.P.Func("(*pkg/server.peer).hasPathAlreadyBeenSent")
	if send == nil || upd == nil || already == nil {
		r.Undec(rule, "-", "anchor", "-", "sendfsmOutgoingMsg / updateRoutes / hasPathAlreadyBeenSent not found")
		return
	}
	pc := &pairCtx{c, upd, already}
	n := map[string]int{}
	for _, fn := range c.P.FuncsIn("pkg/server") {
		for _, b := range fn.Blocks {
			for _, in := range b.Instrs {
				call, ok := in.(*ssa.Call)
				if !ok || call.Call.StaticCallee() != send {
					continue
				}
				fk := ir.OuterKey(fn)
				n[fk]++
				cons := fmt.Sprintf("send #%d", n[fk])
				ok2, why := pc.recorded(fn, call.Call.Args[0], call.Call.Args[1], call, 0)
				if ok2 {
					r.Ok(rule, fk, cons, c.P.InstrPos(call), why)
				} else {
					r.Bad(rule, fk, cons, c.P.InstrPos(call), "routes are queued for this peer without being recorded as advertised ("+why+"): later withdrawals/duplicates are computed from wrong bookkeeping")
				}
			}
		}
	}
}

// ruleAddPathDirection: serialisers ask for the SEND direction, decoders for RECEIVE.
func (c *Ctx) ruleAddPathDirection(rule string) {
	r := c.R
	r.Rule(rule, "ADD-PATH direction: every call of bgp.IsAddPathEnabled passes a constant direction that matches the side it is on — decode=true in functions that take the wire bytes as a []byte parameter, decode=false in serialisers and packers", 6)
	f := c.P.Func("pkg/packet/bgp.IsAddPathEnabled")
	if f == nil {
		r.Undec(rule, "-", "anchor:IsAddPathEnabled", "-", "function not found")
		return
	}
	n := map[string]int{}
	for _, fn := range c.P.Funcs {
		for _, b := range fn.Blocks {
			for _, in := range b.Instrs {
				call, ok := in.(*ssa.Call)
				if !ok || call.Call.StaticCallee() != f {
					continue
				}
				outer := ir.Outer(fn)
				fk := ir.FuncKey(outer)
				n[fk]++
				cons := fmt.Sprintf("IsAddPathEnabled #%d", n[fk])
				k, isConst := call.Call.Args[0].(*ssa.Const)
				if !isConst || k.Value == nil {
					r.Undec(rule, fk, cons, c.P.InstrPos(call), "direction argument is not a constant")
					continue
				}
				decodeSide := false
				for _, p := range outer.Params {
					if isByteSlice(p.Type()) {
						decodeSide = true
					}
				}
				got := k.Value.String() == "true"
				if got == decodeSide {
					r.Ok(rule, fk, cons, c.P.InstrPos(call), fmt.Sprintf("decode=%v on the %s side", got, map[bool]string{true: "decode", false: "serialise"}[decodeSide]))
				} else {
					r.Bad(rule, fk, cons, c.P.InstrPos(call), fmt.Sprintf("asks for the %s direction on the %s side: path identifiers are budgeted/encoded for the wrong direction when ADD-PATH is negotiated one-way", map[bool]string{true: "receive", false: "send"}[got], map[bool]string{true: "decode", false: "serialise"}[decodeSide]))
				}
			}
		}
	}
}

func init() {
	register(&Check{
		ID: "C01",
		Expl: "Decides necessary conditions of 'each peer has been told exactly the current export' that are visible in the code's shape: (E1b) RIB update and fan-out (TableManager.Update, propagateUpdateToNeighbors) run under the prefix bucket, and every touch of the advertised-route bookkeeping happens under the route-refresh lock (exclusive, or shared+bucket); " +
			"(E6.send-recorded) every list queued to a peer's sender has been recorded by updateRoutes on every path; (E6.reset-complete) the session-end reset clears every bookkeeping field; (E6.addpath-direction) packers and serialisers budget path identifiers for the send direction; (E2e) every path queued for a peer comes out of the export pipeline for that peer. (E4.case-ratchet) against a committed baseline, no switch of the code this property is anchored in has lost a named case. (E6.call-ratchet) against a committed baseline, no function of that code has stopped calling (directly or through helpers) a non-trivial callee it called on the reviewed tree.",
		Not: "That the filter logic selects the right path or withdrawal, ADD-PATH send-max arithmetic, coalescing, and equality of the peer's view with the Loc-RIB over all histories and schedules are not decided.",
		Run: func(c *Ctx) {
			c.ruleRatchets("C01")
			c.ruleRequires("E1b.requires", []reqRow{
				{"(*internal/pkg/table.TableManager).Update", lkBucket, locks.W, "RIB update and fan-out form one critical section per prefix bucket"},
				{"(*pkg/server.BgpServer).propagateUpdateToNeighbors", lkBucket, locks.W, "fan-out must see the RIB state produced by the update it follows"},
				{"(*pkg/server.BgpServer).getBestFromLocalCallbackLocked", lkRR, locks.R, "caller holds the peer's route-refresh lock"},
				{"pkg/server.needToAdvertise", lkRR, locks.R, "the advertising test must be atomic with the bookkeeping it guards (PeerDown clears it under the exclusive lock)"},
			}, 4)
			c.ruleLocalIDStable("E6.local-id-stable")
			c.ruleCaseRatchet("E4.case-ratchet", []string{"pkg/server"}, func(f string) bool {
				return strings.HasSuffix(f, "server.go") && !strings.HasSuffix(f, "grpc_server.go") && !strings.HasSuffix(f, "bfd_server.go") || strings.HasSuffix(f, "peer.go")
			}, "baselines/switches.json", 20)
			c.ruleBookkeepingLocks("E1b.bookkeeping")
			c.rulePairing("E6.send-recorded")
			c.ruleResetComplete("E6.reset-complete")
			c.ruleAddPathDirection("E6.addpath-direction")
			c.rulePeerDownResets("E6.peerdown-resets")
		},
	})
}
