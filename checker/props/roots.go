package props

import (
	"go/types"
	"strings"

	"golang.org/x/tools/go/ssa"

	"gbverif/ir"
)

// serverRoots: functions a user of the library (or gRPC) can call with nothing
// held: exported functions and exported methods of exported types of pkg/server,
// and every method of the gRPC service implementation.
func serverRoots(p *ir.Program) func(fn *ssa.Function) bool {
	return func(fn *ssa.Function) bool {
		if fn.Parent() != nil {
			return false
		}
		pk := ir.PkgOf(fn)
		if pk == nil || pk.Path() != ir.ModPath+"/pkg/server" {
			return false
		}
		obj, _ := fn.Object().(*types.Func)
		if obj == nil || !obj.Exported() {
			return false
		}
		if recv := fn.Signature.Recv(); recv != nil {
			n := ir.NamedOf(recv.Type())
			if n == nil {
				return false
			}
			if n.Obj().Name() == "server" { // gRPC service: called by grpc-go only
				return true
			}
			return n.Obj().Exported()
		}
		return true
	}
}

func hasPrefixAny(s string, ps ...string) bool {
	for _, p := range ps {
		if strings.HasPrefix(s, p) {
			return true
		}
	}
	return false
}
