package props

import (
	"fmt"
	"go/ast"
	"go/token"
	"go/types"
	"sort"
	"strings"

	"golang.org/x/tools/go/ssa"

	"gbverif/ir"
)

// rulePathCacheReset: memoised values on Path are dropped by both attribute mutators.
func (c *Ctx) rulePathCacheReset(rule string) {
	r := c.R
	r.Rule(rule, "cache coherence on table.Path: every sync/atomic field of Path that some function fills with Store (a memo derived from the attributes: hash, lengths, …) is also reset with Store in both attribute mutators setPathAttr and delPathAttr; a memo that survives a rewrite makes a clone rank or hash by the attributes it had before", 2)
	pathT := c.P.NamedType("internal/pkg/table", "Path")
	if pathT == nil {
		r.Undec(rule, "-", "anchor:Path", "-", "not found")
		return
	}
	storesOn := func(fn *ssa.Function) map[*types.Var]bool {
		out := map[*types.Var]bool{}
		for _, b := range fn.Blocks {
			for _, in := range b.Instrs {
				call, ok := in.(*ssa.Call)
				if !ok || call.Call.StaticCallee() == nil || call.Call.StaticCallee().Name() != "Store" {
					continue
				}
				pk := call.Call.StaticCallee().Pkg
				if pk == nil || pk.Pkg.Path() != "sync/atomic" {
					continue
				}
				if fa, ok := call.Call.Args[0].(*ssa.FieldAddr); ok && ir.NamedOf(ir.Deref(fa.X.Type())) == pathT {
					out[fieldVarOf(fa)] = true
				}
			}
		}
		return out
	}
	muts := []string{"(*internal/pkg/table.Path).setPathAttr", "(*internal/pkg/table.Path).delPathAttr"}
	mutStores := map[string]map[*types.Var]bool{}
	for _, m := range muts {
		fn := c.P.Func(m)
		if fn == nil {
			r.Undec(rule, m, "anchor", "-", "not found")
			return
		}
		mutStores[m] = storesOn(fn)
	}
	memo := map[*types.Var]string{}
	for _, fn := range c.P.FuncsIn("internal/pkg/table") {
		k := ir.FuncKey(fn)
		if k == muts[0] || k == muts[1] {
			continue
		}
		for f := range storesOn(fn) {
			if memo[f] == "" {
				memo[f] = k
			}
		}
	}
	if len(memo) == 0 {
		r.Bad(rule, "-", "memo fields", "-", "no memoised atomic field found on Path")
	}
	for f, filler := range memo {
		for _, m := range muts {
			cons := "reset " + f.Name()
			if mutStores[m][f] {
				r.Ok(rule, m, cons, c.P.Pos(f.Pos()), "filled in "+filler+", reset here")
			} else {
				r.Bad(rule, m, cons, c.P.Pos(f.Pos()), "Path."+f.Name()+" is a memo (filled in "+filler+") but this mutator does not reset it: after a rewrite (prepend, replace-AS, policy action on a clone) the stale value keeps being used")
			}
		}
	}
}

// ruleOptionScanAny: session options combine by OR.
func (c *Ctx) ruleOptionScanAny(rule string) {
	r := c.R
	r.Rule(rule, "MarshallingOption lists combine by OR: no read of a boolean field of a *MarshallingOption is stored into a variable or carried round a loop (it is only branched on, negated, combined by short-circuit, or returned by a per-option predicate): an option that sets the flag turns it on and no later option can turn it off again — decoders append their own internal option to the caller's list, so 'last one wins' would silently drop the session's setting", 2)
	mo := c.P.NamedType("pkg/packet/bgp", "MarshallingOption")
	if mo == nil {
		r.Undec(rule, "-", "anchor:MarshallingOption", "-", "not found")
		return
	}
	n := map[string]int{}
	for _, fn := range c.P.Funcs {
		if !c.P.InModule(fn) || fn.Blocks == nil {
			continue
		}
		for _, b := range fn.Blocks {
			for _, in := range b.Instrs {
				u, ok := in.(*ssa.UnOp)
				if !ok || u.Op != token.MUL {
					continue
				}
				fa, ok := u.X.(*ssa.FieldAddr)
				if !ok || ir.NamedOf(ir.Deref(fa.X.Type())) != mo {
					continue
				}
				if bt, ok := u.Type().Underlying().(*types.Basic); !ok || bt.Kind() != types.Bool {
					continue
				}
				fk := ir.OuterKey(fn)
				n[fk]++
				cons := fmt.Sprintf("reads %s #%d", fieldVarOf(fa).Name(), n[fk])
				// "last one wins" needs the value to be kept across options: a store into a variable or a loop-carried
				// phi. Branching on it, negating it, short-circuit phis (opt != nil && opt.X) and returning it from a
				// per-option predicate keep the OR semantics.
				bad := ""
				seen := map[ssa.Value]bool{}
				var follow func(v ssa.Value)
				follow = func(v ssa.Value) {
					if seen[v] || v.Referrers() == nil {
						return
					}
					seen[v] = true
					for _, ref := range *v.Referrers() {
						switch x := ref.(type) {
						case *ssa.Store:
							bad = "stored"
						case *ssa.Phi:
							hdr := false
							for _, p := range x.Block().Preds {
								if x.Block().Dominates(p) {
									hdr = true
								}
							}
							if hdr {
								bad = "carried round the loop"
							} else {
								follow(x)
							}
						case *ssa.UnOp:
							follow(x)
						}
					}
				}
				follow(u)
				if bad == "" {
					r.Ok(rule, fk, cons, c.P.InstrPos(u), "only tested")
				} else {
					r.Bad(rule, fk, cons, c.P.InstrPos(u), "the option's value is "+bad+" instead of only being tested: a later option in the list overrides an earlier one")
				}
			}
		}
	}
}

// ruleSeqOnlyAccessor: loop prevention looks at every AS of the path.
func (c *Ctx) ruleSeqOnlyAccessor(rule string) {
	r := c.R
	r.Rule(rule, "who-may-call: Path.GetAsSeqList — which leaves out the members of AS_SET / confederation segments — is called only by the AS-path policy condition and action code; the loop-prevention tests (export isASLoop, route-server filter, inbound own-AS check) read the full list", 2)
	fn := c.P.Func("(*internal/pkg/table.Path).GetAsSeqList")
	if fn == nil {
		r.Undec(rule, "-", "anchor:GetAsSeqList", "-", "not found")
		return
	}
	allowed := map[string]string{
		"(*internal/pkg/table.AsPathCondition).Evaluate":  "policy condition on the AS_PATH sequence",
		"(*internal/pkg/table.AsPathPrependAction).Apply": "prepend action reads the leftmost AS",
	}
	for _, e := range c.P.Callers(fn) {
		if !c.P.InModule(e.Caller.Func) {
			continue
		}
		ck := ir.OuterKey(e.Caller.Func)
		if fam := c.familyKey(e.Caller.Func, []string{"(*internal/pkg/table.AsPathCondition).Evaluate", "(*internal/pkg/table.AsPathPrependAction).Apply"}); fam != "" {
			r.Ok(rule, ck, "GetAsSeqList", c.P.InstrPos(e.Site), allowed[fam])
		} else {
			r.Bad(rule, ck, "GetAsSeqList", c.P.InstrPos(e.Site), "a caller outside the AS-path policy code uses the sequence-only AS list: ASes that occur only inside an AS_SET are not seen (a loop test would let such a route through)")
		}
	}
}

// ruleHoldTimer: what arms and what restarts the hold timer.
func (c *Ctx) ruleHoldTimerSource(rule string) {
	r := c.R
	r.Rule(rule, "who-may-read: in pkg/server the locally configured TimersConfig.HoldTime is read only where the OPEN is built and where the negotiated value is computed (and by the API converters); every timer runs on the negotiated value", 2)
	tc := c.P.NamedType("pkg/config/oc", "TimersConfig")
	if tc == nil {
		r.Undec(rule, "-", "anchor:TimersConfig", "-", "not found")
		return
	}
	allowed := map[string]bool{
		"(*pkg/server.fsm).stateChange":        true,
		"pkg/server.buildopen":                 true,
		"pkg/server.newNeighborFromAPIStruct":  true,
		"pkg/server.newPeerGroupFromAPIStruct": true,
	}
	for _, fn := range c.P.FuncsIn("pkg/server") {
		n := 0
		for _, b := range fn.Blocks {
			for _, in := range b.Instrs {
				fa, ok := in.(*ssa.FieldAddr)
				if !ok || ir.NamedOf(ir.Deref(fa.X.Type())) != tc || fieldVarOf(fa).Name() != "HoldTime" {
					continue
				}
				n++
				fk := ir.OuterKey(fn)
				cons := fmt.Sprintf("Timers.Config.HoldTime #%d", n)
				var keys []string
				for k := range allowed {
					keys = append(keys, k)
				}
				sort.Strings(keys)
				if c.familyKey(fn, keys) != "" {
					r.Ok(rule, fk, cons, c.P.InstrPos(fa), "OPEN construction / negotiation / API conversion")
				} else {
					r.Bad(rule, fk, cons, c.P.InstrPos(fa), "timer code reads the locally configured hold time instead of the negotiated one: the session no longer runs on min(local, remote)")
				}
			}
		}
	}
}

func (c *Ctx) ruleHoldResetOnlyOnLiveness(rule string) {
	r := c.R
	r.Rule(rule, "RFC 4271 §8.2.2: in the Established receive loop the hold-timer restart (send on holdtimerResetCh) is reachable, evaluated per message type, for UPDATE and KEEPALIVE only — not for ROUTE-REFRESH, NOTIFICATION or OPEN", 5)
	fn := c.P.Func("(*pkg/server.fsmHandler).recvMessageloop")
	if fn == nil {
		r.Undec(rule, "-", "anchor:recvMessageloop", "-", "not found")
		return
	}
	fk := ir.FuncKey(fn)
	var resetCh *ssa.Parameter
	// the channel parameter (by type, not by name)
	for _, p := range fn.Params {
		if ch, isChan := p.Type().Underlying().(*types.Chan); isChan {
			if st, ok := ch.Elem().Underlying().(*types.Struct); ok && st.NumFields() == 0 {
				resetCh = p
			}
		}
	}
	if resetCh == nil {
		r.Undec(rule, fk, "anchor:holdtimerResetCh", c.P.Pos(fn.Pos()), "parameter not found")
		return
	}
	var sends []*ssa.BasicBlock
	for _, b := range fn.Blocks {
		for _, in := range b.Instrs {
			switch x := in.(type) {
			case *ssa.Call:
				for _, a := range x.Call.Args {
					if a == ssa.Value(resetCh) || stripConv(a) == ssa.Value(resetCh) {
						sends = append(sends, b)
					}
					if ct, ok := a.(*ssa.ChangeType); ok && ct.X == ssa.Value(resetCh) {
						sends = append(sends, b)
					}
				}
			case *ssa.Send:
				if x.Chan == ssa.Value(resetCh) {
					sends = append(sends, b)
				}
			case *ssa.Select:
				for _, st := range x.States {
					if st.Chan == ssa.Value(resetCh) {
						sends = append(sends, b)
					}
				}
			}
		}
	}
	if len(sends) == 0 {
		r.Bad(rule, fk, "hold timer restart", c.P.Pos(fn.Pos()), "the receive loop never restarts the hold timer")
		return
	}
	// the message-type value
	var h ssa.Value
	for _, b := range fn.Blocks {
		if iff, ok := b.Instrs[len(b.Instrs)-1].(*ssa.If); ok {
			if bo, ok := iff.Cond.(*ssa.BinOp); ok {
				for _, side := range []ssa.Value{bo.X, bo.Y} {
					if strings.HasSuffix(fieldPath(side), "Header.Type") && h == nil {
						h = side
					}
				}
			}
		}
	}
	if h == nil {
		r.Bad(rule, fk, "dispatch on message type", c.P.Pos(fn.Pos()), "no test of the message type")
		return
	}
	mt := enumMsgTypes(c)
	for _, name := range []string{"BGP_MSG_UPDATE", "BGP_MSG_KEEPALIVE", "BGP_MSG_ROUTE_REFRESH", "BGP_MSG_NOTIFICATION", "BGP_MSG_OPEN"} {
		reach := false
		for _, sb := range sends {
			if reachableUnder(fn, h, mt[name], sb) {
				reach = true
			}
		}
		want := name == "BGP_MSG_UPDATE" || name == "BGP_MSG_KEEPALIVE"
		cons := "restart on " + strings.TrimPrefix(name, "BGP_MSG_")
		switch {
		case reach && !want:
			r.Bad(rule, fk, cons, c.P.Pos(fn.Pos()), "this message restarts the hold timer: a peer that sends no KEEPALIVE or UPDATE is kept alive by it and never times out")
		case !reach && want:
			r.Bad(rule, fk, cons, c.P.Pos(fn.Pos()), "this message no longer restarts the hold timer")
		default:
			r.Ok(rule, fk, cons, c.P.Pos(fn.Pos()), fmt.Sprintf("restarts=%v", reach))
		}
	}
}

// ruleParseExactBody: the body handed to the message decoder ends where the header says.
func (c *Ctx) ruleParseExactBody(rule string) {
	r := c.R
	r.Rule(rule, "ParseBGPMessage hands parseBody exactly the bytes of one message: the body is a slice of the input whose upper bound is the header's Len, and a comparison of that Len with len(input) precedes it; decoders that consume 'the rest of the buffer' therefore never read past the declared message", 1)
	fn := c.P.Func("pkg/packet/bgp.ParseBGPMessage")
	if fn == nil {
		r.Undec(rule, "-", "anchor:ParseBGPMessage", "-", "not found")
		return
	}
	fk := ir.FuncKey(fn)
	calls := staticCallsOf(fn, false, "parseBody")
	if len(calls) == 0 {
		r.Bad(rule, fk, "body bounds", c.P.Pos(fn.Pos()), "parseBody is not called")
		return
	}
	for _, call := range calls {
		sl, ok := call.Call.Args[1].(*ssa.Slice)
		switch {
		case !ok:
			r.Bad(rule, fk, "body bounds", c.P.InstrPos(call), "the body is not a bounded slice of the input")
		case sl.High == nil:
			r.Bad(rule, fk, "body bounds", c.P.InstrPos(call), "the body slice has no upper bound: bytes after the declared message are decoded as part of it")
		case fieldLoadName(stripConv(sl.High)) != "Len":
			r.Bad(rule, fk, "body bounds", c.P.InstrPos(call), "the upper bound of the body is not the header's Len")
		case !lenGuards(fn, fn.Params[0], stripConv(sl.High), call.Block()) && !lenComparedWith(fn, fn.Params[0], "Len", call.Block()):
			r.Bad(rule, fk, "body bounds", c.P.InstrPos(call), "the header's Len is not compared with len(input) before slicing")
		default:
			r.Ok(rule, fk, "body bounds", c.P.InstrPos(call), "data[hdr:h.Len] under a len(data) check")
		}
	}
}

// lenComparedWith: some dominating If compares len(x) with a load of the named field.
func lenComparedWith(fn *ssa.Function, x ssa.Value, field string, at *ssa.BasicBlock) bool {
	for _, b := range fn.Blocks {
		iff, ok := b.Instrs[len(b.Instrs)-1].(*ssa.If)
		if !ok || !b.Dominates(at) {
			continue
		}
		bo, ok := iff.Cond.(*ssa.BinOp)
		if !ok {
			continue
		}
		l, rr := stripConv(bo.X), stripConv(bo.Y)
		if isLenOf(l, x) && fieldLoadName(rr) == field || isLenOf(rr, x) && fieldLoadName(l) == field {
			return true
		}
	}
	return false
}

// rulePerFamilyIndependent: the value recorded for one family does not depend on the families before it.
func (c *Ctx) rulePerFamilyIndependent(rule string) {
	r := c.R
	r.Rule(rule, "per-family independence: in Neighbor.CreateRfMap (the local side of the ADD-PATH negotiation) the mode stored for a family is computed from that family's own configuration — it does not depend on a value carried around the loop from earlier families", 1)
	fn := c.P.Func("(*pkg/config/oc.Neighbor).CreateRfMap")
	if fn == nil {
		r.Undec(rule, "-", "anchor:CreateRfMap", "-", "not found")
		return
	}
	fk := ir.FuncKey(fn)
	n := 0
	for _, b := range fn.Blocks {
		for _, in := range b.Instrs {
			mu, ok := in.(*ssa.MapUpdate)
			if !ok {
				continue
			}
			n++
			carried := false
			seen := map[ssa.Value]bool{}
			var walk func(v ssa.Value, d int)
			walk = func(v ssa.Value, d int) {
				if seen[v] || d > 12 {
					return
				}
				seen[v] = true
				switch x := v.(type) {
				case *ssa.Phi:
					// a phi in a loop header that is not the range index carries state between iterations
					isHeader := false
					for _, p := range x.Block().Preds {
						if x.Block().Dominates(p) {
							isHeader = true
						}
					}
					if isHeader && x.Comment != "rangeindex" {
						carried = true
					}
					for _, e := range x.Edges {
						walk(e, d+1)
					}
				case *ssa.BinOp:
					walk(x.X, d+1)
					walk(x.Y, d+1)
				case *ssa.UnOp:
					if x.Op != token.MUL {
						walk(x.X, d+1)
					}
				case *ssa.Convert:
					walk(x.X, d+1)
				case *ssa.ChangeType:
					walk(x.X, d+1)
				}
			}
			walk(mu.Value, 0)
			cons := fmt.Sprintf("map update #%d", n)
			if carried {
				r.Bad(rule, fk, cons, c.P.InstrPos(mu), "the ADD-PATH mode stored for a family accumulates across the loop: a family listed after one with ADD-PATH inherits its bits, so the negotiation agrees ADD-PATH for a family where none was configured")
			} else {
				r.Ok(rule, fk, cons, c.P.InstrPos(mu), "computed per family")
			}
		}
	}
	if n == 0 {
		r.Bad(rule, fk, "map update", c.P.Pos(fn.Pos()), "no per-family entry is stored")
	}
}

// ruleStaleSessionGuard: messages of an ended session are dropped.
func (c *Ctx) ruleStaleSessionGuard(rule string) {
	r := c.R
	r.Rule(rule, "nothing from an ended session: in handleFSMMessage the handling of a received BGP message is dominated by the test 'message timestamp < Timers.State.Uptime → drop' (the time the current session was established), so a message read from the previous connection cannot reach handleUpdate once the peer is Established again", 1)
	fn := c.P.Func("(*pkg/server.BgpServer).handleFSMMessage")
	if fn == nil {
		r.Undec(rule, "-", "anchor:handleFSMMessage", "-", "not found")
		return
	}
	fk := ir.FuncKey(fn)
	hu := staticCallsOf(fn, false, "handleUpdate")
	if len(hu) == 0 {
		r.Undec(rule, fk, "anchor:handleUpdate", c.P.Pos(fn.Pos()), "handleUpdate call not found")
		return
	}
	good, wrong := false, ""
	for _, b := range fn.Blocks {
		for _, in := range b.Instrs {
			bo, ok := in.(*ssa.BinOp)
			if !ok || bo.Op != token.LSS {
				continue
			}
			call, ok := bo.X.(*ssa.Call)
			if !ok || call.Call.StaticCallee() == nil || call.Call.StaticCallee().Name() != "Unix" {
				continue
			}
			if !strings.Contains(fieldPath(call.Call.Args[0]), "timestamp") {
				continue
			}
			fp := fieldPath(bo.Y)
			if !b.Dominates(hu[0].Block()) {
				continue
			}
			if strings.HasSuffix(fp, "Timers.State.Uptime") {
				good = true
			} else {
				wrong = fp
			}
		}
	}
	switch {
	case good:
		r.Ok(rule, fk, "stale-session guard", c.P.InstrPos(hu[0]), "timestamp < Timers.State.Uptime")
	case wrong != "":
		r.Bad(rule, fk, "stale-session guard", c.P.InstrPos(hu[0]), "the message timestamp is compared with "+wrong+" instead of the time the current session was established: messages of the ended session that were read in its last second pass the guard")
	default:
		r.Bad(rule, fk, "stale-session guard", c.P.InstrPos(hu[0]), "no comparison of the message timestamp with the session's Uptime precedes handleUpdate")
	}
}

// rulePrefixLimitEveryFamily: the limit test is not skipped for any configured family.
func (c *Ctx) rulePrefixLimitEveryFamily(rule string) {
	r := c.R
	r.Rule(rule, "prefix-limit overrun is always noticed: in peer.handleUpdate, after the Adj-RIB-In update, isPrefixLimit is evaluated for every configured family — between the head of the loop over the families and the call there is no conditional branch that could skip it", 1)
	fn := c.P.Func("(*pkg/server.peer).handleUpdate")
	if fn == nil {
		r.Undec(rule, "-", "anchor:handleUpdate", "-", "not found")
		return
	}
	fk := ir.FuncKey(fn)
	calls := staticCallsOf(fn, false, "isPrefixLimit")
	if len(calls) == 0 {
		r.Bad(rule, fk, "limit test", c.P.Pos(fn.Pos()), "isPrefixLimit is no longer called")
		return
	}
	for _, call := range calls {
		// innermost loop header dominating the call
		var header *ssa.BasicBlock
		for _, h := range fn.Blocks {
			back := false
			for _, p := range h.Preds {
				if h.Dominates(p) {
					back = true
				}
			}
			if back && h.Dominates(call.Block()) && (header == nil || header.Dominates(h)) {
				header = h
			}
		}
		if header == nil {
			r.Bad(rule, fk, "limit test", c.P.InstrPos(call), "the limit test is not inside a loop over the configured families")
			continue
		}
		skip := ""
		for b := call.Block(); b != nil && b != header; b = b.Idom() {
			if b == call.Block() {
				continue
			}
			if _, ok := b.Instrs[len(b.Instrs)-1].(*ssa.If); ok {
				skip = c.P.InstrPos(b.Instrs[len(b.Instrs)-1])
			}
		}
		// the call's own block must be entered unconditionally from the loop body entry
		if skip == "" {
			if id := call.Block().Idom(); id != nil && id != header {
				if _, ok := id.Instrs[len(id.Instrs)-1].(*ssa.If); ok {
					skip = c.P.InstrPos(id.Instrs[len(id.Instrs)-1])
				}
			}
		}
		if skip != "" {
			r.Bad(rule, fk, "limit test", c.P.InstrPos(call), "a condition at "+skip+" can skip the limit test for a family: paths that are stored but not accepted (loop-rejected) still count towards the limit")
		} else {
			r.Ok(rule, fk, "limit test", c.P.InstrPos(call), "evaluated for every family")
		}
	}
}

// ruleErrorCodeKinds: error codes go with codes, subcodes with subcodes.
func (c *Ctx) ruleErrorCodeKinds(rule string, pkgs []string, min int) {
	r := c.R
	r.Rule(rule, "NOTIFICATION code/subcode discipline (both are plain uint8, so the compiler cannot tell them apart): a BGP_ERROR_SUB_* constant is only ever compared with, or passed as, a subcode (SubTypeCode / ErrorSubcode / second argument of the error and NOTIFICATION constructors) and a BGP_ERROR_* code constant only as a code (TypeCode / ErrorCode / first argument); a mix-up silently turns a classification branch dead", min)
	isSub := func(name string) bool { return strings.HasPrefix(name, "BGP_ERROR_SUB_") }
	isCode := func(name string) bool { return strings.HasPrefix(name, "BGP_ERROR_") && !isSub(name) }
	codeFields := map[string]bool{"TypeCode": true, "ErrorCode": true}
	subFields := map[string]bool{"SubTypeCode": true, "ErrorSubcode": true}
	ctors := map[string]bool{"NewMessageError": true, "NewMessageErrorWithErrorHandling": true, "NewBGPNotificationMessage": true}
	for _, short := range pkgs {
		for _, fn := range c.P.FuncsIn(short) {
			if fn.Parent() != nil {
				continue
			}
			info := c.infoFor(fn)
			body := funcBody(fn)
			if info == nil || body == nil {
				continue
			}
			fk := ir.FuncKey(fn)
			n := 0
			constName := func(e ast.Expr) string {
				var id *ast.Ident
				switch x := e.(type) {
				case *ast.Ident:
					id = x
				case *ast.SelectorExpr:
					id = x.Sel
				}
				if id == nil {
					return ""
				}
				if k, ok := info.Uses[id].(*types.Const); ok {
					return k.Name()
				}
				return ""
			}
			fieldName := func(e ast.Expr) string {
				if se, ok := e.(*ast.SelectorExpr); ok {
					if _, isField := info.Uses[se.Sel].(*types.Var); isField {
						return se.Sel.Name
					}
				}
				return ""
			}
			ast.Inspect(body, func(x ast.Node) bool {
				switch e := x.(type) {
				case *ast.BinaryExpr:
					if e.Op != token.EQL && e.Op != token.NEQ {
						return true
					}
					for _, pr := range [][2]ast.Expr{{e.X, e.Y}, {e.Y, e.X}} {
						f, k := fieldName(pr[0]), constName(pr[1])
						if f == "" || k == "" || !(isSub(k) || isCode(k)) || !(codeFields[f] || subFields[f]) {
							continue
						}
						n++
						cons := fmt.Sprintf("%s vs %s #%d", f, k, n)
						if codeFields[f] && isSub(k) || subFields[f] && isCode(k) {
							r.Bad(rule, fk, cons, c.P.Pos(e.Pos()), "a "+map[bool]string{true: "subcode", false: "code"}[isSub(k)]+" constant is compared with the "+f+" field: the values come from different number spaces, so the branch is taken for the wrong errors or never")
						} else {
							r.Ok(rule, fk, cons, c.P.Pos(e.Pos()), "same kind")
						}
					}
				case *ast.CallExpr:
					var id *ast.Ident
					switch f := e.Fun.(type) {
					case *ast.Ident:
						id = f
					case *ast.SelectorExpr:
						id = f.Sel
					}
					if id == nil || !ctors[id.Name] || len(e.Args) < 2 {
						return true
					}
					k0, k1 := constName(e.Args[0]), constName(e.Args[1])
					if k0 != "" && (isSub(k0) || isCode(k0)) {
						n++
						cons := fmt.Sprintf("%s(code=%s) #%d", id.Name, k0, n)
						if isSub(k0) {
							r.Bad(rule, fk, cons, c.P.Pos(e.Pos()), "a subcode constant is passed as the error code")
						} else {
							r.Ok(rule, fk, cons, c.P.Pos(e.Pos()), "code")
						}
					}
					if k1 != "" && (isSub(k1) || isCode(k1)) {
						n++
						cons := fmt.Sprintf("%s(subcode=%s) #%d", id.Name, k1, n)
						if isCode(k1) {
							r.Bad(rule, fk, cons, c.P.Pos(e.Pos()), "a code constant is passed as the error subcode")
						} else {
							r.Ok(rule, fk, cons, c.P.Pos(e.Pos()), "subcode")
						}
					}
				}
				return true
			})
		}
	}
}

// ruleNextHopValidity: which NEXT_HOP values are refused, over all valuations of the four tests.
func (c *Ctx) ruleNextHopValidity(rule string) {
	r := c.R
	r.Rule(rule, "RFC 4271 §6.3 NEXT_HOP check in ValidateAttribute, evaluated over all 16 valuations of (loopback allowed, address is loopback, first octet zero, class D/E): the invalid-next-hop error is raised exactly when (¬allowed ∧ loopback) ∨ zero ∨ classDE — the loopback exemption does not exempt the other two tests", 1)
	fn := c.P.Func("pkg/packet/bgp.ValidateAttribute")
	if fn == nil {
		r.Undec(rule, "-", "anchor:ValidateAttribute", "-", "not found")
		return
	}
	fk := ir.FuncKey(fn)
	// the loopback-allowed flag is whichever bool parameter makes the valuations come out (found by role, not by name)
	var boolParams []*ssa.Parameter
	for _, p := range fn.Params {
		if bt, ok := p.Type().Underlying().(*types.Basic); ok && bt.Kind() == types.Bool {
			boolParams = append(boolParams, p)
		}
	}
	sub := int64(-1)
	if k, ok := c.P.Pkg("pkg/packet/bgp").Types.Scope().Lookup("BGP_ERROR_SUB_INVALID_NEXT_HOP_ATTRIBUTE").(*types.Const); ok {
		sub, _ = constInt(k.Val())
	}
	var loop, zero, de []*ssa.Call
	var target *ssa.BasicBlock
	hasConst := func(f *ssa.Function, v int64) bool {
		for _, b := range f.Blocks {
			for _, in := range b.Instrs {
				if bo, ok := in.(*ssa.BinOp); ok {
					for _, s := range []ssa.Value{bo.X, bo.Y} {
						if k, ok := s.(*ssa.Const); ok && k.Value != nil {
							if kv, ok := constInt(k.Value); ok && kv == v {
								return true
							}
						}
					}
				}
			}
		}
		return false
	}
	for _, b := range fn.Blocks {
		for _, in := range b.Instrs {
			call, ok := in.(*ssa.Call)
			if !ok {
				continue
			}
			callee := call.Call.StaticCallee()
			if callee == nil {
				continue
			}
			switch {
			case callee.Name() == "IsLoopback":
				loop = append(loop, call)
			// the two octet tests: closures of ValidateAttribute or small helpers of the package
			case c.P.InModule(callee) && len(callee.Blocks) <= 4 && hasConst(callee, 0xe0):
				de = append(de, call)
			case c.P.InModule(callee) && len(callee.Blocks) <= 4 && hasConst(callee, 0xff):
				zero = append(zero, call)
			case callee.Name() == "NewMessageErrorWithErrorHandling" || callee.Name() == "NewMessageError":
				if k, ok := stripConv(call.Call.Args[1]).(*ssa.Const); ok {
					if kv, _ := constInt(k.Value); kv == sub {
						target = b
					}
				}
			}
		}
	}
	if len(boolParams) == 0 || len(loop) != 1 || len(zero) != 1 || len(de) != 1 || target == nil {
		r.Bad(rule, fk, "NEXT_HOP tests", c.P.Pos(fn.Pos()), fmt.Sprintf("expected a loopback flag, one IsLoopback, one first-octet-zero and one class-D/E test and the invalid-next-hop error; found flags=%d loopback=%d zero=%d classDE=%d error=%v", len(boolParams), len(loop), len(zero), len(de), target != nil))
		return
	}
	var bad []string
	for _, allowed := range boolParams {
		bad = nil
		for m := 0; m < 16; m++ {
			L, a, z, d := m&1 != 0, m&2 != 0, m&4 != 0, m&8 != 0
			reach := reachBool(fn, func(v ssa.Value) (bool, bool) {
				switch v {
				case ssa.Value(allowed):
					return L, true
				case ssa.Value(loop[0]):
					return a, true
				case ssa.Value(zero[0]):
					return z, true
				case ssa.Value(de[0]):
					return d, true
				}
				return false, false
			}, target)
			want := !L && a || z || d
			if reach != want {
				bad = append(bad, fmt.Sprintf("allowed=%v loopback=%v zero=%v classDE=%v → refused=%v, want %v", L, a, z, d, reach, want))
			}
		}
		if len(bad) == 0 {
			break
		}
	}
	if len(bad) == 0 {
		r.Ok(rule, fk, "NEXT_HOP tests", c.P.InstrPos(target.Instrs[0]), "16 valuations agree")
	} else {
		r.Bad(rule, fk, "NEXT_HOP tests", c.P.InstrPos(target.Instrs[0]), strings.Join(bad, "; "))
	}
}

// ruleLocalIDStable: a replacing path keeps the local path identifier of the path it replaces.
func (c *Ctx) ruleLocalIDStable(rule string) {
	r := c.R
	r.Rule(rule, "stable local path identifiers: in destination.implicitWithdraw, on every path that returns the replaced route, the new path's localID has been assigned the replaced path's localID — the identifier under which ADD-PATH peers know the route does not change when its source re-announces it", 1)
	fn := c.P.Func("(*internal/pkg/table.destination).implicitWithdraw")
	if fn == nil {
		r.Undec(rule, "-", "anchor:implicitWithdraw", "-", "not found")
		return
	}
	fk := ir.FuncKey(fn)
	var newPath *ssa.Parameter
	// the *Path parameter (by type, not by name)
	for _, p := range fn.Params {
		if strings.HasSuffix(p.Type().String(), "table.Path") {
			newPath = p
		}
	}
	var stores []*ssa.Store
	walk := func(f *ssa.Function) {
		for _, b := range f.Blocks {
			for _, in := range b.Instrs {
				st, ok := in.(*ssa.Store)
				if !ok {
					continue
				}
				fa, ok := st.Addr.(*ssa.FieldAddr)
				if !ok || fieldOfName(fa) != "localID" {
					continue
				}
				base := fa.X
				if u, ok := base.(*ssa.UnOp); ok { // captured by a closure
					if fv, ok := u.X.(*ssa.FreeVar); ok && cellOfFreeVarIsParam(fv, newPath) {
						base = newPath
					}
				}
				// the value stored is another path's identifier: the field itself or its accessor LocalID()
				fromID := fieldLoadName(st.Val) == "localID"
				if call, ok := stripConv(st.Val).(*ssa.Call); ok {
					if cal := call.Call.StaticCallee(); cal != nil && len(cal.Blocks) == 1 {
						if ret, ok := cal.Blocks[0].Instrs[len(cal.Blocks[0].Instrs)-1].(*ssa.Return); ok && len(ret.Results) == 1 && fieldLoadName(ret.Results[0]) == "localID" {
							fromID = true
						}
					}
				}
				if base == ssa.Value(newPath) && fromID {
					stores = append(stores, st)
				}
			}
		}
	}
	walk(fn)
	for _, an := range fn.AnonFuncs {
		walk(an)
	}
	// non-nil returns
	n := 0
	for _, b := range fn.Blocks {
		ret, ok := b.Instrs[len(b.Instrs)-1].(*ssa.Return)
		if !ok || isNilConst(ret.Results[0]) {
			continue
		}
		n++
		ok2 := false
		for _, st := range stores {
			if st.Parent() != fn || st.Block() == b || st.Block().Dominates(b) || reaches(st.Block(), b) && mustPassBlock(fn, st.Block(), b) {
				ok2 = true
			}
		}
		if !ok2 {
			// "found" idiom: the return is guarded by found != -1, and found only becomes ≠ -1 in blocks that performed the store
			for _, g := range fn.Blocks {
				iff, ok := g.Instrs[len(g.Instrs)-1].(*ssa.If)
				if !ok || !g.Dominates(b) {
					continue
				}
				bo, ok := iff.Cond.(*ssa.BinOp)
				if !ok || bo.Op != token.NEQ && bo.Op != token.EQL {
					continue
				}
				phi, isPhi := bo.X.(*ssa.Phi)
				k, isK := bo.Y.(*ssa.Const)
				if !isPhi || !isK || k.Value == nil || k.Value.String() != "-1" {
					continue
				}
				edge := 0
				if bo.Op == token.EQL {
					edge = 1
				}
				if !edgeDominates(g, edge, b) {
					continue
				}
				all := true
				for i, e := range phi.Edges {
					if ke, ok := e.(*ssa.Const); ok && ke.Value != nil && ke.Value.String() == "-1" {
						continue
					}
					pred := phi.Block().Preds[i]
					has := false
					for _, st := range stores {
						if st.Parent() == fn && (st.Block() == pred || st.Block().Dominates(pred)) {
							has = true
						}
					}
					if !has {
						all = false
					}
				}
				if all {
					ok2 = true
				}
			}
		}
		cons := fmt.Sprintf("return of the replaced path #%d", n)
		if ok2 {
			r.Ok(rule, fk, cons, c.P.InstrPos(ret), "newPath.localID = replaced.localID on the way")
		} else {
			r.Bad(rule, fk, cons, c.P.InstrPos(ret), "the replaced route is returned but the new path did not inherit its local identifier: the re-announced route gets a fresh identifier, so ADD-PATH peers keep the old version under the old identifier (or the new one is held back by send-max)")
		}
	}
	if n == 0 {
		r.Bad(rule, fk, "return of the replaced path", c.P.Pos(fn.Pos()), "implicitWithdraw never returns a replaced path")
	}
}

// mustPassBlock: every path from the entry to target passes through via.
func mustPassBlock(fn *ssa.Function, via, target *ssa.BasicBlock) bool {
	seen := map[*ssa.BasicBlock]bool{}
	work := []*ssa.BasicBlock{fn.Blocks[0]}
	for len(work) > 0 {
		b := work[0]
		work = work[1:]
		if seen[b] || b == via {
			continue
		}
		seen[b] = true
		if b == target {
			return false
		}
		work = append(work, b.Succs...)
	}
	return true
}

// ruleLoopCarriedStruct: a struct built per element is fresh per element.
func (c *Ctx) ruleLoopCarriedStruct(rule string, pkgs []string, min int) {
	r := c.R
	r.Rule(rule, "per-element freshness: when a loop copies a local struct variable into a collection (append of its value, element store, or map update), the variable is declared inside the loop iteration or is completely overwritten earlier in the same iteration — a variable declared once outside the loop keeps the fields a previous element set and the current one leaves unset (optional sub-messages, accumulated lists)", min)
	for _, short := range pkgs {
		for _, fn := range c.P.FuncsIn(short) {
			if fn.Blocks == nil {
				continue
			}
			// scope: the API/config conversion code (not, e.g., the zebra client)
			if file := c.P.Pos(ir.Outer(fn).Pos()); strings.Contains(file, "zclient.go") || strings.Contains(file, "zapi") {
				continue
			}
			n := 0
			for _, b := range fn.Blocks {
				loop := sccOf(b)
				if len(loop) == 0 {
					continue
				}
				for _, in := range b.Instrs {
					// the value copied: a load of a whole local struct
					var copied []*ssa.UnOp
					switch x := in.(type) {
					case *ssa.Store:
						if u, ok := x.Val.(*ssa.UnOp); ok {
							copied = append(copied, u)
						}
					case *ssa.MapUpdate:
						if u, ok := x.Value.(*ssa.UnOp); ok {
							copied = append(copied, u)
						}
					}
					for _, u := range copied {
						al, ok := u.X.(*ssa.Alloc)
						if !ok || u.Op != token.MUL {
							continue
						}
						if _, isStruct := ir.Deref(al.Type()).Underlying().(*types.Struct); !isStruct {
							continue
						}
						st, ok := in.(*ssa.Store)
						if ok {
							// only stores into collections (element of a slice / varargs array), not into another local
							if _, isIdx := st.Addr.(*ssa.IndexAddr); !isIdx {
								continue
							}
						}
						n++
						fk := ir.OuterKey(fn)
						cons := fmt.Sprintf("copies %s into a collection #%d", al.Comment, n)
						if loop[al.Block()] {
							r.Ok(rule, fk, cons, c.P.InstrPos(in), "declared inside the loop iteration")
							continue
						}
						// whole-struct overwrite inside the loop that dominates the copy
						fresh := false
						for _, ref := range *al.Referrers() {
							if ws, ok := ref.(*ssa.Store); ok && ws.Addr == ssa.Value(al) && loop[ws.Block()] && dominatesInstr(ws, in) {
								fresh = true
							}
						}
						if fresh {
							r.Ok(rule, fk, cons, c.P.InstrPos(in), "overwritten as a whole earlier in the iteration")
						} else {
							r.Bad(rule, fk, cons, c.P.InstrPos(in), "the struct is declared outside the loop and only partly reassigned per element: fields that the current element leaves unset keep the values of an earlier element")
						}
					}
				}
			}
		}
	}
}

// ruleConfedPair: switches over AS-path segment types treat the two confederation types in the same switch.
func (c *Ctx) ruleConfedPair(rule string) {
	r := c.R
	r.Rule(rule, "sibling agreement over AS_PATH segment types: every switch that names one of the confederation segment types (AS_CONFED_SEQUENCE, AS_CONFED_SET) names the other one too — a confederation set that silently falls into the default branch is classified like an AS_SET (origin not found, length counted, loop not seen)", 8)
	for _, short := range []string{"internal/pkg/table", "pkg/packet/bgp", "pkg/server"} {
		for _, fn := range c.P.FuncsIn(short) {
			if fn.Parent() != nil {
				continue
			}
			info := c.infoFor(fn)
			body := funcBody(fn)
			if info == nil || body == nil {
				continue
			}
			n := 0
			ast.Inspect(body, func(x ast.Node) bool {
				sw, ok := x.(*ast.SwitchStmt)
				if !ok {
					return true
				}
				seq, set := false, false
				for _, st := range sw.Body.List {
					for _, e := range st.(*ast.CaseClause).List {
						ast.Inspect(e, func(y ast.Node) bool {
							if id, ok := y.(*ast.Ident); ok {
								if k, ok := info.Uses[id].(*types.Const); ok {
									switch k.Name() {
									case "BGP_ASPATH_ATTR_TYPE_CONFED_SEQ":
										seq = true
									case "BGP_ASPATH_ATTR_TYPE_CONFED_SET":
										set = true
									}
								}
							}
							return true
						})
					}
				}
				if !seq && !set {
					return true
				}
				n++
				fk := ir.FuncKey(fn)
				cons := fmt.Sprintf("segment-type switch #%d", n)
				if seq && set {
					r.Ok(rule, fk, cons, c.P.Pos(sw.Pos()), "names both confederation types")
				} else {
					r.Bad(rule, fk, cons, c.P.Pos(sw.Pos()), fmt.Sprintf("names AS_CONFED_SEQUENCE=%v AS_CONFED_SET=%v: one confederation segment type falls into the default branch", seq, set))
				}
				return true
			})
		}
	}
}

// ruleROADeleteGuarded: a withdrawal removes only the record it names.
func (c *Ctx) ruleROADeleteGuarded(rule string) {
	r := c.R
	r.Rule(rule, "ROATable.Delete changes the table only for the record it was asked to withdraw: every store to a bucket's entries and every removal from the prefix tree inside Delete lies on the true edge of ROA.Equal(held, withdrawn)", 1)
	fn := c.P.Func("(*internal/pkg/table.ROATable).Delete")
	if fn == nil {
		r.Undec(rule, "-", "anchor:ROATable.Delete", "-", "not found")
		return
	}
	fk := ir.FuncKey(fn)
	var eqIfs []*ssa.If
	for _, call := range staticCallsOf(fn, false, "Equal") {
		for _, ref := range *call.Referrers() {
			if i, ok := ref.(*ssa.If); ok {
				eqIfs = append(eqIfs, i)
			}
		}
	}
	n := 0
	for _, b := range fn.Blocks {
		for _, in := range b.Instrs {
			mut := ""
			switch x := in.(type) {
			case *ssa.Store:
				if fa, ok := x.Addr.(*ssa.FieldAddr); ok && fieldOfName(fa) == "entries" {
					mut = "store to entries"
				}
			case *ssa.Call:
				if x.Call.IsInvoke() && x.Call.Method.Name() == "Delete" || x.Call.StaticCallee() != nil && x.Call.StaticCallee().Name() == "Delete" && x.Call.StaticCallee() != fn {
					mut = "tree.Delete"
				}
			}
			if mut == "" {
				continue
			}
			n++
			guarded := false
			for _, i := range eqIfs {
				if edgeDominates(i.Block(), 0, b) {
					guarded = true
				}
			}
			cons := fmt.Sprintf("%s #%d", mut, n)
			if guarded {
				r.Ok(rule, fk, cons, c.P.InstrPos(in), "only after Equal matched")
			} else {
				r.Bad(rule, fk, cons, c.P.InstrPos(in), "the table is changed before (or without) checking that the held record equals the withdrawn one: withdrawing an unknown record removes an unrelated one")
			}
		}
	}
	if n == 0 {
		r.Bad(rule, fk, "removal", c.P.Pos(fn.Pos()), "Delete no longer removes anything")
	}
}

// ruleAs4PathWidthIndependent: the AS4_PATH codec never consults the session's 2-octet-AS option.
func (c *Ctx) ruleAs4PathWidthIndependent(rule string) {
	r := c.R
	r.Rule(rule, "AS4_PATH is always carried with 4-octet AS numbers: the marshalling options received by PathAttributeAs4Path.DecodeFromBytes / Serialize are not forwarded to any function that reads MarshallingOption.Use2ByteAS (on a session with a 2-octet peer — the only place AS4_PATH occurs — that option is true)", 2)
	mo := c.P.NamedType("pkg/packet/bgp", "MarshallingOption")
	readsWidth := func(fn *ssa.Function) bool {
		for _, b := range fn.Blocks {
			for _, in := range b.Instrs {
				if fa, ok := in.(*ssa.FieldAddr); ok && ir.NamedOf(ir.Deref(fa.X.Type())) == mo && fieldVarOf(fa).Name() == "Use2ByteAS" {
					return true
				}
			}
		}
		return false
	}
	for _, name := range []string{"(*pkg/packet/bgp.PathAttributeAs4Path).DecodeFromBytes", "(*pkg/packet/bgp.PathAttributeAs4Path).Serialize"} {
		fn := c.P.Func(name)
		if fn == nil {
			r.Undec(rule, name, "anchor", "-", "not found")
			continue
		}
		// forward propagation of the options parameter through static calls
		bad := ""
		seen := map[*ssa.Function]bool{}
		var walk func(f *ssa.Function, opt ssa.Value, d int)
		walk = func(f *ssa.Function, opt ssa.Value, d int) {
			if seen[f] || d > 6 || bad != "" {
				return
			}
			seen[f] = true
			if readsWidth(f) && f != fn {
				bad = ir.FuncKey(f)
				return
			}
			derived := map[ssa.Value]bool{opt: true}
			for changed := true; changed; {
				changed = false
				for _, b := range f.Blocks {
					for _, in := range b.Instrs {
						v, ok := in.(ssa.Value)
						if !ok || derived[v] {
							continue
						}
						switch x := in.(type) {
						case *ssa.Slice:
							if derived[x.X] {
								derived[v] = true
								changed = true
							}
						case *ssa.Phi:
							for _, e := range x.Edges {
								if derived[e] {
									derived[v] = true
									changed = true
								}
							}
						case *ssa.Call:
							if bi, ok := x.Call.Value.(*ssa.Builtin); ok && bi.Name() == "append" && derived[x.Call.Args[0]] {
								derived[v] = true
								changed = true
							}
						}
					}
				}
			}
			for _, b := range f.Blocks {
				for _, in := range b.Instrs {
					call, ok := in.(ssa.CallInstruction)
					if !ok {
						continue
					}
					callee := call.Common().StaticCallee()
					if callee == nil || callee.Blocks == nil || !c.P.InModule(callee) {
						continue
					}
					for i, a := range call.Common().Args {
						if derived[a] && i < len(callee.Params) {
							walk(callee, callee.Params[i], d+1)
						}
					}
				}
			}
		}
		var opt ssa.Value
		for _, p := range fn.Params {
			if sl, ok := p.Type().Underlying().(*types.Slice); ok && ir.NamedOf(ir.Deref(sl.Elem())) == mo {
				opt = p
			}
		}
		if opt == nil {
			r.Ok(rule, name, "options", c.P.Pos(fn.Pos()), "takes no marshalling options")
			continue
		}
		if readsWidth(fn) {
			bad = name
		} else {
			walk(fn, opt, 0)
		}
		if bad == "" {
			r.Ok(rule, name, "options", c.P.Pos(fn.Pos()), "not forwarded to a reader of Use2ByteAS")
		} else {
			r.Bad(rule, name, "options", c.P.Pos(fn.Pos()), "the session options reach "+bad+", which reads Use2ByteAS: on a 2-octet session the 4-octet AS4_PATH is walked with a 2-octet stride and every well-formed AS4_PATH is rejected")
		}
	}
}

// ruleRestartFlagCleared: the end of a peer's restart clears the long-lived flag on every path.
func (c *Ctx) ruleRestartFlagCleared(rule string) {
	r := c.R
	r.Rule(rule, "peer.stopPeerRestarting clears longLivedRunning on every path to its return: the restart-timer expiry does nothing while the flag is set, so a flag left over from a previous restart turns the next expiry into a no-op and stale routes are kept for ever", 1)
	fn := c.P.Func("(*pkg/server.peer).stopPeerRestarting")
	if fn == nil {
		r.Undec(rule, "-", "anchor:stopPeerRestarting", "-", "not found")
		return
	}
	fk := ir.FuncKey(fn)
	marks := map[*ssa.BasicBlock]bool{}
	for _, b := range fn.Blocks {
		for _, in := range b.Instrs {
			call, ok := in.(*ssa.Call)
			if !ok || call.Call.StaticCallee() == nil || call.Call.StaticCallee().Name() != "Store" {
				continue
			}
			fa, ok := call.Call.Args[0].(*ssa.FieldAddr)
			if !ok || fieldOfName(fa) != "longLivedRunning" {
				continue
			}
			if k, ok := call.Call.Args[1].(*ssa.Const); ok && k.Value != nil && k.Value.String() == "false" {
				marks[b] = true
			}
		}
	}
	if len(marks) == 0 {
		r.Bad(rule, fk, "clears longLivedRunning", c.P.Pos(fn.Pos()), "the flag is never cleared")
		return
	}
	if mustPassThrough(fn.Blocks[0], func(b *ssa.BasicBlock) bool { return marks[b] }) {
		r.Ok(rule, fk, "clears longLivedRunning", c.P.Pos(fn.Pos()), "on every path")
	} else {
		r.Bad(rule, fk, "clears longLivedRunning", c.P.Pos(fn.Pos()), "some path returns without clearing the flag (the clear is conditional)")
	}
}

// unconditionalInLoop: between the innermost loop head dominating the instruction and the instruction there is no branch.
func unconditionalInLoop(fn *ssa.Function, at *ssa.BasicBlock) (bool, *ssa.BasicBlock) {
	var header *ssa.BasicBlock
	for _, h := range fn.Blocks {
		back := false
		for _, p := range h.Preds {
			if h.Dominates(p) {
				back = true
			}
		}
		if back && h.Dominates(at) && (header == nil || header.Dominates(h)) {
			header = h
		}
	}
	if header == nil {
		return false, nil
	}
	for b := at.Idom(); b != nil && b != header; b = b.Idom() {
		if _, ok := b.Instrs[len(b.Instrs)-1].(*ssa.If); ok {
			return false, b
		}
	}
	return true, nil
}

// ruleSoftResetInCoversAll: soft reset in replays every addressed peer.
func (c *Ctx) ruleSoftResetInCoversAll(rule string) {
	r := c.R
	r.Rule(rule, "soft reset in re-evaluates every addressed peer: in softResetIn the propagateUpdate call runs for each peer of the loop with no condition in between — in particular not only for Established peers: a peer that is down but graceful-restarting still has its routes in the Loc-RIB, and they must follow the new import policy too", 1)
	fn := c.P.Func("(*pkg/server.BgpServer).softResetIn")
	if fn == nil {
		r.Undec(rule, "-", "anchor:softResetIn", "-", "not found")
		return
	}
	fk := ir.FuncKey(fn)
	calls := staticCallsOf(fn, false, "propagateUpdate")
	if len(calls) == 0 {
		r.Bad(rule, fk, "replay", c.P.Pos(fn.Pos()), "no replay")
		return
	}
	for _, call := range calls {
		ok, at := unconditionalInLoop(fn, call.Block())
		if ok {
			r.Ok(rule, fk, "replay for every peer", c.P.InstrPos(call), "unconditional inside the peer loop")
		} else if at != nil {
			r.Bad(rule, fk, "replay for every peer", c.P.InstrPos(call), "a condition at "+c.P.InstrPos(at.Instrs[len(at.Instrs)-1])+" can skip the replay for a peer: that peer's routes keep the old policy's verdict")
		} else {
			r.Bad(rule, fk, "replay for every peer", c.P.InstrPos(call), "the replay is not inside the loop over the addressed peers")
		}
	}
}

// ruleImportTestTotal: the VRF import test looks at every community before saying no.
func (c *Ctx) ruleImportTestTotal(rule string) {
	r := c.R
	r.Rule(rule, "CanImportToVrf answers false only after the loop over the route's extended communities has finished: inside the loop the only return is 'true' on a matching transitive route target (a community that is not a route target, or not transitive, is skipped)", 1)
	fn := c.P.Func("internal/pkg/table.CanImportToVrf")
	if fn == nil {
		r.Undec(rule, "-", "anchor:CanImportToVrf", "-", "not found")
		return
	}
	fk := ir.FuncKey(fn)
	bad := ""
	nret := 0
	for _, b := range fn.Blocks {
		ret, ok := b.Instrs[len(b.Instrs)-1].(*ssa.Return)
		if !ok {
			continue
		}
		nret++
		k, isK := ret.Results[0].(*ssa.Const)
		if isK && k.Value != nil && k.Value.String() == "false" {
			// reachable from inside the loop without passing the loop head's exit?
			for _, h := range fn.Blocks {
				isHeader := false
				for _, p := range h.Preds {
					if h.Dominates(p) {
						isHeader = true
					}
				}
				if !isHeader {
					continue
				}
				loop := sccOf(h)
				for _, p := range b.Preds {
					if loop[p] && p != h {
						bad = c.P.InstrPos(ret)
					}
				}
			}
		}
	}
	if bad != "" {
		r.Bad(rule, fk, "false only after the loop", bad, "the import test gives up inside the loop: a route whose matching route target comes after some other extended community (encapsulation, colour, …) is not imported")
	} else {
		r.Ok(rule, fk, "false only after the loop", c.P.Pos(fn.Pos()), fmt.Sprintf("%d returns", nret))
	}
}

// ruleWithdrawalsFirst: soft reset out hands over withdrawals before advertisements.
func (c *Ctx) ruleWithdrawalsFirst(rule string) {
	r := c.R
	r.Rule(rule, "in soft reset out the list handed to updateRoutes / the sender is 'withdrawals for newly rejected routes' followed by 'current advertisements': per NLRI the last action wins, so an advertisement for a prefix must come after a withdrawal that names the same prefix (VRF peers: a foreign VPN route with the same plain prefix)", 1)
	so := c.P.Func("(*pkg/server.BgpServer).softResetOut")
	if so == nil {
		r.Undec(rule, "-", "anchor:softResetOut", "-", "not found")
		return
	}
	fk := ir.FuncKey(so)
	n := 0
	for _, an := range so.AnonFuncs {
		if len(an.Params) < 2 {
			continue
		}
		pathsParam := an.Params[0]
		tracesTo := func(v ssa.Value, pred func(ssa.Value) bool) bool {
			seen := map[ssa.Value]bool{}
			var walk func(v ssa.Value) bool
			walk = func(v ssa.Value) bool {
				if seen[v] {
					return false
				}
				seen[v] = true
				if pred(v) {
					return true
				}
				switch x := v.(type) {
				case *ssa.Phi:
					for _, e := range x.Edges {
						if walk(e) {
							return true
						}
					}
				case *ssa.Call:
					if bi, ok := x.Call.Value.(*ssa.Builtin); ok && bi.Name() == "append" {
						return walk(x.Call.Args[0])
					}
				case *ssa.Slice:
					return walk(x.X)
				case *ssa.UnOp:
					// a variable spilled to memory because a nested closure captures it
					if al, ok := x.X.(*ssa.Alloc); ok {
						for _, ref := range *al.Referrers() {
							if st, ok := ref.(*ssa.Store); ok && st.Addr == ssa.Value(al) && walk(st.Val) {
								return true
							}
						}
					}
				}
				return false
			}
			return walk(v)
		}
		isParam := func(v ssa.Value) bool { return v == ssa.Value(pathsParam) }
		// a list made here, or the result of a helper of the package that returns a list it made
		var isMake func(v ssa.Value) bool
		isMake = func(v ssa.Value) bool {
			if _, ok := v.(*ssa.MakeSlice); ok {
				return true
			}
			call, ok := v.(*ssa.Call)
			if !ok {
				return false
			}
			cal := call.Call.StaticCallee()
			if cal == nil || cal.Blocks == nil || !c.P.InModule(cal) || cal.Signature.Results().Len() != 1 {
				return false
			}
			any := false
			for _, b := range cal.Blocks {
				if ret, ok := b.Instrs[len(b.Instrs)-1].(*ssa.Return); ok {
					if !tracesTo(ret.Results[0], func(w ssa.Value) bool { _, ok := w.(*ssa.MakeSlice); return ok }) {
						return false
					}
					any = true
				}
			}
			return any
		}
		for _, b := range an.Blocks {
			for _, in := range b.Instrs {
				call, ok := in.(*ssa.Call)
				if !ok {
					continue
				}
				bi, ok := call.Call.Value.(*ssa.Builtin)
				if !ok || bi.Name() != "append" || len(call.Call.Args) != 2 {
					continue
				}
				a0, a1 := call.Call.Args[0], call.Call.Args[1]
				p0, p1 := tracesTo(a0, isParam), tracesTo(a1, isParam)
				m0, m1 := tracesTo(a0, isMake) && !p0, tracesTo(a1, isMake) && !p1
				if !(p0 && m1 || p1 && m0) {
					continue
				}
				n++
				if m0 && p1 {
					r.Ok(rule, fk, "merge of withdrawals and advertisements", c.P.InstrPos(call), "append(withdrawals, paths...)")
				} else {
					r.Bad(rule, fk, "merge of withdrawals and advertisements", c.P.InstrPos(call), "advertisements come before the withdrawals: a withdrawal that names the same NLRI as an advertisement (a filtered foreign-VPN route localised to the same plain prefix) is applied last and removes the route the peer should keep")
				}
			}
		}
	}
	if n == 0 {
		r.Bad(rule, fk, "merge of withdrawals and advertisements", c.P.Pos(so.Pos()), "soft reset out no longer merges withdrawals with the advertisements")
	}
}

// ruleErrorsChecked: decode-side code looks at every error it is handed.
func (c *Ctx) ruleErrorsChecked(rule string, pkgs []string, reviewed map[string]string, min int) {
	r := c.R
	r.Rule(rule, "error discipline on the decode side: in every function reachable from the parse entry points, each call to a module function that returns an error has that error result used (tested, returned, stored or passed on); an error that is thrown away lets a malformed element be accepted as if it had decoded", min)
	errT := types.Universe.Lookup("error").Type()
	for _, short := range pkgs {
		var roots []*ssa.Function
		for _, k := range decodeEntryPoints {
			if strings.Contains(k, short+".") {
				if fn := c.P.Func(k); fn != nil {
					roots = append(roots, fn)
				}
			}
		}
		reach := c.reachableFrom(roots)
		var fns []*ssa.Function
		for fn := range reach {
			if pk := ir.PkgOf(fn); pk != nil && strings.HasSuffix(pk.Path(), short) {
				fns = append(fns, fn)
			}
		}
		sortFuncs(fns)
		for _, fn := range fns {
			n := 0
			for _, b := range fn.Blocks {
				for _, in := range b.Instrs {
					call, ok := in.(*ssa.Call)
					if !ok {
						continue
					}
					callee := call.Call.StaticCallee()
					var sig *types.Signature
					if callee != nil {
						if !c.P.InModule(callee) {
							continue
						}
						sig = callee.Signature
					} else if call.Call.IsInvoke() {
						sig = call.Call.Method.Type().(*types.Signature)
						if pk := call.Call.Method.Pkg(); pk == nil || !strings.HasPrefix(pk.Path(), ir.ModPath) {
							continue
						}
					} else {
						continue
					}
					res := sig.Results()
					ei := -1
					for i := 0; i < res.Len(); i++ {
						if types.Identical(res.At(i).Type(), errT) {
							ei = i
						}
					}
					if ei < 0 {
						continue
					}
					n++
					used := false
					if res.Len() == 1 {
						used = len(*call.Referrers()) > 0
					} else {
						for _, ref := range *call.Referrers() {
							if ex, ok := ref.(*ssa.Extract); ok && ex.Index == ei && len(*ex.Referrers()) > 0 {
								used = true
							}
						}
					}
					fk := ir.OuterKey(fn)
					name := "interface method " + call.Call.String()
					if callee != nil {
						name = callee.Name()
					} else {
						name = call.Call.Method.Name()
					}
					cons := fmt.Sprintf("error of %s #%d", name, n)
					key := fk + "|" + name
					switch {
					case used:
						r.Ok(rule, fk, cons, c.P.InstrPos(call), "used")
					case reviewed[key] != "":
						r.Except(rule, fk, cons, c.P.InstrPos(call), reviewed[key])
					default:
						r.Bad(rule, fk, cons, c.P.InstrPos(call), "the error returned by "+name+" is discarded: a malformed element is treated as decoded")
					}
				}
			}
		}
	}
}

func sortFuncs(fns []*ssa.Function) {
	for i := 1; i < len(fns); i++ {
		for j := i; j > 0 && fns[j].String() < fns[j-1].String(); j-- {
			fns[j], fns[j-1] = fns[j-1], fns[j]
		}
	}
}

// errorsDiscardedReviewed: the discarded error results that were read and found harmless.
var errorsDiscardedReviewed = map[string]string{
	"(*pkg/packet/bgp.FlowSpecNLRI).decodeFromBytes|NewIPAddrPrefix":         "called with the constant, valid prefix 0.0.0.0/0 to obtain a placeholder",
	"(*pkg/packet/bgp.PathAttributeAsPath).DecodeFromBytes|Serialize":        "builds the Data field of an error that is already being returned",
	"(*pkg/packet/bgp.PathAttributeMpReachNLRI).DecodeFromBytes|Serialize":   "builds the Data field of an error that is already being returned",
	"(*pkg/packet/bgp.PathAttributeMpUnreachNLRI).DecodeFromBytes|Serialize": "builds the Data field of an error that is already being returned",
	"(*pkg/packet/bgp.SRPolicyNLRI).Len|Serialize":                           "Len() reports the size of what Serialize would emit; an error means size 0",
	"(*pkg/packet/bgp.flowSpecPrefix).Len|Serialize":                         "Len() reports the size of what Serialize would emit; an error means size 0",
	"(*pkg/packet/bgp.flowSpecPrefix6).Len|Serialize":                        "Len() reports the size of what Serialize would emit; an error means size 0",
	"(*pkg/zebra.lookupBody).decodeFromBytes|addressByteLength":              "the family is one of the two constants the function accepts",
	"pkg/packet/bgp.GetRouteDistinguisher|NewRouteDistinguisherIPAddressAS":  "the address is built from exactly four octets and is therefore always IPv4",
}

// ruleValidatorTestsSubject: every comparison a validator makes between two non-constant values involves the
// thing being validated.
func (c *Ctx) ruleValidatorTestsSubject(rule string, validators map[string]int, min int) {
	r := c.R
	r.Rule(rule, "in the message validators every comparison between two non-constant values has at least one operand derived from the message being validated (through field loads, conversions, calls on it, capability scans, phis): a check that compares only configuration with configuration — e.g. deciding 'internal peer' from the configured peer AS instead of the AS the OPEN announces — no longer validates the message", min)
	var keys []string
	for k := range validators {
		keys = append(keys, k)
	}
	sort.Strings(keys)
	for _, k := range keys {
		fn := c.P.Func(k)
		if fn == nil {
			r.Undec(rule, k, "anchor", "-", "not found")
			continue
		}
		if validators[k] >= len(fn.Params) {
			r.Undec(rule, k, "anchor:subject parameter", c.P.Pos(fn.Pos()), "not found")
			continue
		}
		subject := fn.Params[validators[k]]
		memo := map[ssa.Value]int{} // 1 = in progress, 2 = derived, 3 = not
		var derived func(v ssa.Value) bool
		derived = func(v ssa.Value) bool {
			if v == ssa.Value(subject) {
				return true
			}
			switch memo[v] {
			case 1, 3:
				return false
			case 2:
				return true
			}
			memo[v] = 1
			res := false
			var ops []*ssa.Value
			if in, ok := v.(ssa.Instruction); ok {
				ops = in.Operands(nil)
			}
			switch v.(type) {
			case *ssa.Const, *ssa.Parameter, *ssa.Global, *ssa.Function, *ssa.Builtin, *ssa.Alloc, *ssa.MakeSlice, *ssa.MakeMap, *ssa.MakeChan:
				ops = nil
			}
			for _, op := range ops {
				if *op != nil && derived(*op) {
					res = true
					break
				}
			}
			// a local variable (Alloc) that is assigned a derived value
			if u, ok := v.(*ssa.UnOp); ok && !res {
				if al, ok := u.X.(*ssa.Alloc); ok && al.Referrers() != nil {
					for _, ref := range *al.Referrers() {
						if st, ok := ref.(*ssa.Store); ok && st.Addr == ssa.Value(al) && derived(st.Val) {
							res = true
						}
					}
				}
			}
			if res {
				memo[v] = 2
			} else {
				memo[v] = 3
			}
			return res
		}
		n := 0
		// loop bookkeeping (an index against a length) is not a validation test
		isLoopish := func(v ssa.Value) bool {
			v = stripConv(v)
			if call, ok := v.(*ssa.Call); ok {
				if bi, ok := call.Call.Value.(*ssa.Builtin); ok && (bi.Name() == "len" || bi.Name() == "cap") {
					return true
				}
			}
			if bo, ok := v.(*ssa.BinOp); ok && bo.Op == token.ADD {
				if ph, ok := bo.X.(*ssa.Phi); ok {
					for _, e := range ph.Edges {
						if e == ssa.Value(bo) {
							return true
						}
					}
				}
			}
			return false
		}
		for _, f := range []*ssa.Function{fn} { // closures and helpers take their own arguments
			for _, b := range f.Blocks {
				for _, in := range b.Instrs {
					bo, ok := in.(*ssa.BinOp)
					if !ok {
						continue
					}
					switch bo.Op {
					case token.EQL, token.NEQ, token.LSS, token.LEQ, token.GTR, token.GEQ:
					default:
						continue
					}
					if _, isK := stripConv(bo.X).(*ssa.Const); isK {
						continue
					}
					if _, isK := stripConv(bo.Y).(*ssa.Const); isK {
						continue
					}
					if isLoopish(bo.X) && isLoopish(bo.Y) {
						continue
					}
					n++
					cons := fmt.Sprintf("comparison #%d", n)
					if derived(bo.X) || derived(bo.Y) {
						r.Ok(rule, k, cons, c.P.InstrPos(bo), "involves the message")
					} else {
						r.Bad(rule, k, cons, c.P.InstrPos(bo), "compares "+describeVal(bo.X, 0)+" with "+describeVal(bo.Y, 0)+": neither comes from the message being validated")
					}
				}
			}
		}
	}
}

// rulePackSerializeSameOptions: what was packed under a set of marshalling options is serialised under it too.
func (c *Ctx) rulePackSerializeSameOptions(rule string, min int) {
	r := c.R
	r.Rule(rule, "every UPDATE built by table.CreateUpdateMsgFromPaths(paths, opts…) and serialised in the same function is serialised with marshalling options exactly when it was packed with them (the packer budgets and groups for ADD-PATH / extended messages; a serialiser run without them writes NLRIs without path identifiers, or refuses a message the packer filled to the larger limit)", min)
	pack := c.P.Func("internal/pkg/table.CreateUpdateMsgFromPaths")
	if pack == nil {
		r.Undec(rule, "-", "anchor:CreateUpdateMsgFromPaths", "-", "not found")
		return
	}
	hasOpts := func(call *ssa.CallCommon) bool {
		if len(call.Args) == 0 {
			return false
		}
		last := call.Args[len(call.Args)-1]
		if k, ok := last.(*ssa.Const); ok && k.IsNil() {
			return false
		}
		return true
	}
	n := map[string]int{}
	for _, e := range c.P.Callers(pack) {
		caller := e.Caller.Func
		if !c.P.InModule(caller) {
			continue
		}
		pc, ok := e.Site.(*ssa.Call)
		if !ok {
			continue
		}
		packed := hasOpts(&pc.Call)
		// values derived from the result: elements reached by range / index
		der := map[ssa.Value]bool{pc: true}
		changed := true
		for changed {
			changed = false
			for _, b := range caller.Blocks {
				for _, in := range b.Instrs {
					v, ok := in.(ssa.Value)
					if !ok || der[v] {
						continue
					}
					switch x := in.(type) {
					case *ssa.Range:
						if der[x.X] {
							der[v], changed = true, true
						}
					case *ssa.Next:
						if der[x.Iter] {
							der[v], changed = true, true
						}
					case *ssa.Extract:
						if der[x.Tuple] {
							der[v], changed = true, true
						}
					case *ssa.IndexAddr:
						if der[x.X] {
							der[v], changed = true, true
						}
					case *ssa.Index:
						if der[x.X] {
							der[v], changed = true, true
						}
					case *ssa.UnOp:
						if der[x.X] {
							der[v], changed = true, true
						}
					case *ssa.Phi:
						for _, ed := range x.Edges {
							if der[ed] {
								der[v], changed = true, true
							}
						}
					case *ssa.Slice:
						if der[x.X] {
							der[v], changed = true, true
						}
					}
				}
			}
		}
		fk := ir.OuterKey(caller)
		for _, b := range caller.Blocks {
			for _, in := range b.Instrs {
				sc, ok := in.(*ssa.Call)
				if !ok || sc.Call.IsInvoke() {
					continue
				}
				cal := sc.Call.StaticCallee()
				if cal == nil || cal.Name() != "Serialize" || len(sc.Call.Args) == 0 || !der[sc.Call.Args[0]] {
					continue
				}
				n[fk]++
				cons := fmt.Sprintf("Serialize of a packed UPDATE #%d", n[fk])
				if hasOpts(&sc.Call) == packed {
					r.Ok(rule, fk, cons, c.P.InstrPos(sc), fmt.Sprintf("packed with options=%v, serialised alike", packed))
				} else {
					r.Bad(rule, fk, cons, c.P.InstrPos(sc), fmt.Sprintf("packed with options=%v but serialised with options=%v: the bytes written do not have the layout the packer budgeted for and the receiver was told to expect", packed, hasOpts(&sc.Call)))
				}
			}
		}
	}
}

// ruleCheckedIsEmitted: BGPMessage.Serialize tests the length it writes.
func (c *Ctx) ruleCheckedIsEmitted(rule string) {
	r := c.R
	r.Rule(rule, "in BGPMessage.Serialize the quantity compared with the session's maximum message size is the quantity stored into the header's Length field (the same sum of terms once conversions are stripped): the limit applies to the whole message, header included", 1)
	fn := c.P.Func("(*pkg/packet/bgp.BGPMessage).Serialize")
	pk := c.P.Pkg("pkg/packet/bgp")
	if fn == nil || pk == nil {
		r.Undec(rule, "-", "anchor:BGPMessage.Serialize", "-", "not found")
		return
	}
	fk := ir.FuncKey(fn)
	maxes := map[int64]bool{}
	for _, n := range []string{"BGP_MAX_MESSAGE_LENGTH", "BGP_MAX_EXTENDED_MESSAGE_LENGTH"} {
		if k, ok := pk.Types.Scope().Lookup(n).(*types.Const); ok {
			v, _ := constInt(k.Val())
			maxes[v] = true
		}
	}
	// terms of a sum, conversions stripped
	var terms func(v ssa.Value, out *[]string)
	terms = func(v ssa.Value, out *[]string) {
		v = stripConv(v)
		if bo, ok := v.(*ssa.BinOp); ok && bo.Op == token.ADD {
			terms(bo.X, out)
			terms(bo.Y, out)
			return
		}
		*out = append(*out, describeVal(v, 0))
	}
	var isMax func(v ssa.Value) bool
	isMax = func(v ssa.Value) bool {
		v = stripConv(v)
		if k, ok := v.(*ssa.Const); ok && k.Value != nil {
			kv, ok := constInt(k.Value)
			return ok && maxes[kv]
		}
		// a helper of the package that returns one of the two maxima
		if call, ok := v.(*ssa.Call); ok {
			cal := call.Call.StaticCallee()
			if cal == nil || cal.Blocks == nil || !c.P.InModule(cal) || cal.Signature.Results().Len() != 1 {
				return false
			}
			any := false
			for _, b := range cal.Blocks {
				if ret, ok := b.Instrs[len(b.Instrs)-1].(*ssa.Return); ok {
					if !isMax(ret.Results[0]) {
						return false
					}
					any = true
				}
			}
			return any
		}
		if ph, ok := v.(*ssa.Phi); ok {
			any := false
			for _, e := range ph.Edges {
				if k, ok := stripConv(e).(*ssa.Const); ok && k.Value != nil {
					if kv, ok := constInt(k.Value); ok && maxes[kv] {
						any = true
						continue
					}
				}
				if _, isPhi := e.(*ssa.Phi); isPhi {
					continue
				}
				return false
			}
			return any
		}
		return false
	}
	var checked, emitted []string
	var cpos, epos ssa.Instruction
	for _, b := range fn.Blocks {
		for _, in := range b.Instrs {
			switch x := in.(type) {
			case *ssa.BinOp:
				if x.Op == token.GTR && isMax(x.Y) {
					checked = nil
					terms(x.X, &checked)
					cpos = x
				} else if x.Op == token.LSS && isMax(x.X) {
					checked = nil
					terms(x.Y, &checked)
					cpos = x
				}
			case *ssa.Store:
				if fa, ok := x.Addr.(*ssa.FieldAddr); ok && fieldOfName(fa) == "Len" {
					emitted = nil
					terms(x.Val, &emitted)
					epos = x
				}
			}
		}
	}
	if cpos == nil || epos == nil {
		r.Undec(rule, fk, "anchor:size test and Header.Len store", c.P.Pos(fn.Pos()), fmt.Sprintf("test found=%v store found=%v", cpos != nil, epos != nil))
		return
	}
	sort.Strings(checked)
	sort.Strings(emitted)
	if strings.Join(checked, " + ") == strings.Join(emitted, " + ") {
		r.Ok(rule, fk, "tested length = emitted length", c.P.InstrPos(cpos), strings.Join(checked, " + "))
	} else {
		r.Bad(rule, fk, "tested length = emitted length", c.P.InstrPos(cpos), "the size test looks at "+strings.Join(checked, " + ")+" but the header announces "+strings.Join(emitted, " + ")+": a message within the tested bound can exceed the session's limit on the wire")
	}
}

// cellOfFreeVarIsParam: the captured variable is (the spilled copy of) the given parameter — by identity, not by name.
func cellOfFreeVarIsParam(fv *ssa.FreeVar, p *ssa.Parameter) bool {
	cell := cellOfFreeVar(fv)
	al, ok := cell.(*ssa.Alloc)
	if !ok || al.Referrers() == nil {
		return false
	}
	for _, ref := range *al.Referrers() {
		if st, ok := ref.(*ssa.Store); ok && st.Addr == ssa.Value(al) && st.Val == ssa.Value(p) {
			return true
		}
	}
	return false
}

// decoderErrorReviewed: plain errors that cannot occur on the decode path (one function each).
var decoderErrorReviewed = map[string]string{
	"(*pkg/packet/bgp.PathAttributeExtendedCommunities).DecodeFromBytes":    "ParseExtended → NewIPv4AddressSpecificExtended refuses a non-IPv4 address, but is handed netip.AddrFromSlice of exactly four octets",
	"(*pkg/packet/bgp.PathAttributeIP6ExtendedCommunities).DecodeFromBytes": "ParseIP6Extended → NewIPv6AddressSpecificExtended refuses a non-IPv6 address, but is handed netip.AddrFromSlice of exactly sixteen octets",
}

// fromDecoderCall: v is (a phi / local copy of) the error result of an interface call DecodeFromBytes.
func fromDecoderCall(v ssa.Value, seen map[ssa.Value]bool) bool {
	if seen[v] {
		return false
	}
	seen[v] = true
	switch x := v.(type) {
	case *ssa.Call:
		return x.Call.IsInvoke() && x.Call.Method.Name() == "DecodeFromBytes"
	case *ssa.Extract:
		return fromDecoderCall(x.Tuple, seen)
	case *ssa.ChangeInterface:
		return fromDecoderCall(x.X, seen)
	case *ssa.TypeAssert:
		// an assertion to a concrete type fixes the dynamic type: what comes out of it is no longer "whatever the decoder returned"
		if types.IsInterface(x.AssertedType) {
			return fromDecoderCall(x.X, seen)
		}
	case *ssa.Phi:
		for _, e := range x.Edges {
			if fromDecoderCall(e, seen) {
				return true
			}
		}
	case *ssa.UnOp:
		if al, ok := x.X.(*ssa.Alloc); ok && al.Referrers() != nil {
			for _, ref := range *al.Referrers() {
				if st, ok := ref.(*ssa.Store); ok && st.Addr == ssa.Value(al) && fromDecoderCall(st.Val, seen) {
					return true
				}
			}
		}
	}
	return false
}

// ruleDecoderErrorType: attribute decoders only return errors of the type their caller asserts.
func (c *Ctx) ruleDecoderErrorType(rule string, min int) {
	r := c.R
	r.Rule(rule, "BGPUpdate.DecodeFromBytes asserts every error a path-attribute decoder returns to *MessageError without the comma-ok form; so every non-nil error returned by a DecodeFromBytes method of a path-attribute type originates (through phis and through the module functions it is propagated from) in NewMessageError / NewMessageErrorWithErrorHandling — a plain fmt.Errorf or a constructor's validation error reaching that assertion panics the receive goroutine", min)
	pk := c.P.Pkg("pkg/packet/bgp")
	if pk == nil {
		r.Undec(rule, "-", "anchor:pkg/packet/bgp", "-", "not found")
		return
	}
	// the premise, read from the tree: the caller's assertion is of the unchecked form. When it is not (comma-ok,
	// errors.As …) a plain error is handled, nothing is demanded of the decoders and the rule says so.
	upd := c.P.Func("(*pkg/packet/bgp.BGPUpdate).DecodeFromBytes")
	if upd == nil {
		r.Undec(rule, "-", "anchor:(*BGPUpdate).DecodeFromBytes", "-", "not found")
		return
	}
	unchecked := ""
	for _, f := range c.withPrivateHelpers(upd, 2) {
		for _, b := range f.Blocks {
			for _, in := range b.Instrs {
				ta, ok := in.(*ssa.TypeAssert)
				if !ok || ta.CommaOk {
					continue
				}
				if n := ir.NamedOf(ir.Deref(ta.AssertedType)); n == nil || n.Obj().Name() != "MessageError" {
					continue
				}
				if fromDecoderCall(ta.X, map[ssa.Value]bool{}) {
					unchecked = c.P.InstrPos(ta)
				}
			}
		}
	}
	if unchecked == "" {
		r.Rule(rule, "premise not met on this tree: BGPUpdate.DecodeFromBytes no longer asserts a decoder's error to *MessageError without the comma-ok form, so nothing is demanded of the decoders", 0)
		r.Ok(rule, ir.FuncKey(upd), "assertion of decoder errors", c.P.Pos(upd.Pos()), "checked form")
		return
	}
	r.Ok(rule, ir.FuncKey(upd), "assertion of decoder errors", unchecked, "premise: unchecked assertion to *MessageError")
	memo := map[*ssa.Function]string{}
	var fnOK func(fn *ssa.Function, depth int) string
	var valOK func(v ssa.Value, depth int, seen map[ssa.Value]bool) string
	valOK = func(v ssa.Value, depth int, seen map[ssa.Value]bool) string {
		if seen[v] {
			return ""
		}
		seen[v] = true
		switch x := v.(type) {
		case *ssa.Const:
			return ""
		case *ssa.Phi:
			for _, e := range x.Edges {
				if why := valOK(e, depth, seen); why != "" {
					return why
				}
			}
			return ""
		case *ssa.MakeInterface:
			if n := ir.NamedOf(ir.Deref(x.X.Type())); n != nil && n.Obj().Name() == "MessageError" {
				return ""
			}
			return "a value of type " + shortType(x.X.Type())
		case *ssa.ChangeInterface:
			return valOK(x.X, depth, seen)
		case *ssa.Extract:
			if call, ok := x.Tuple.(*ssa.Call); ok {
				return valOK(call, depth, seen)
			}
			return "an unknown tuple element"
		case *ssa.UnOp:
			// named result / local error variable: every store
			if al, ok := x.X.(*ssa.Alloc); ok && al.Referrers() != nil {
				for _, ref := range *al.Referrers() {
					if st, ok := ref.(*ssa.Store); ok && st.Addr == ssa.Value(al) {
						if why := valOK(st.Val, depth, seen); why != "" {
							return why
						}
					}
				}
				return ""
			}
			return "a loaded value"
		case *ssa.Call:
			if x.Call.IsInvoke() {
				if x.Call.Method.Name() == "DecodeFromBytes" || x.Call.Method.Name() == "decodeFromBytes" {
					return "" // another decoder of the package (checked on its own if it is an attribute decoder)
				}
				return "the result of the interface call " + x.Call.Method.Name()
			}
			cal := x.Call.StaticCallee()
			if cal == nil {
				return "the result of a dynamic call"
			}
			if cal.Name() == "NewMessageError" || cal.Name() == "NewMessageErrorWithErrorHandling" {
				return ""
			}
			if !c.P.InModule(cal) || cal.Blocks == nil {
				return "the result of " + cal.String()
			}
			return fnOK(cal, depth+1)
		}
		return fmt.Sprintf("a %T", v)
	}
	fnOK = func(fn *ssa.Function, depth int) string {
		if why, ok := memo[fn]; ok {
			return why
		}
		if depth > 6 {
			return ""
		}
		memo[fn] = ""
		why := ""
		for _, b := range fn.Blocks {
			ret, ok := b.Instrs[len(b.Instrs)-1].(*ssa.Return)
			if !ok || len(ret.Results) == 0 {
				continue
			}
			ev := ret.Results[len(ret.Results)-1]
			if n, ok := ev.Type().(*types.Named); !ok || n.Obj().Name() != "error" {
				continue
			}
			if w := valOK(ev, depth, map[ssa.Value]bool{}); w != "" {
				why = fn.Name() + " returns " + w + " (" + c.P.InstrPos(ret) + ")"
				break
			}
		}
		memo[fn] = why
		return why
	}
	n := 0
	for _, fn := range c.P.FuncsIn("pkg/packet/bgp") {
		if fn.Parent() != nil || fn.Blocks == nil || fn.Name() != "DecodeFromBytes" || fn.Signature.Recv() == nil {
			continue
		}
		named := ir.NamedOf(ir.Deref(fn.Signature.Recv().Type()))
		if named == nil || !strings.HasPrefix(named.Obj().Name(), "PathAttribute") {
			continue
		}
		n++
		fk := ir.FuncKey(fn)
		why := fnOK(fn, 0)
		if rev, ok := decoderErrorReviewed[fk]; ok && why != "" {
			r.Except(rule, fk, "returned errors", c.P.Pos(fn.Pos()), rev)
		} else if why == "" {
			r.Ok(rule, fk, "returned errors", c.P.Pos(fn.Pos()), "all *MessageError")
		} else {
			r.Bad(rule, fk, "returned errors", c.P.Pos(fn.Pos()), "an error that is not a *MessageError can reach BGPUpdate.DecodeFromBytes' unchecked assertion: "+why)
		}
	}
}
