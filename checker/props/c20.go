package props

func init() {
	register(&Check{
		ID: "C20",
		Expl: "(E1b.bookkeeping / E1.refresh-exclusion) the per-peer advertised-route bookkeeping, which is an unsynchronised map, is only touched with that peer's route-refresh lock held exclusively or with it shared plus the prefix bucket, and every full replay holds it exclusively. Decides the locking disciplines the daemon's race- and deadlock-freedom rests on, over all paths of the program text: " +
			"(E1a) the interprocedural lock-order graph over all 14+ lock classes is acyclic (self-edges only behind a verified gate lock or on a freshly allocated instance); " +
			"(E1b) every write/armed read of a field in the guarded-by table, and every call of a requires-lock function, happens with the lock in the must-held set (meet over all call paths from API entry points, goroutine starts and callbacks); " +
			"(E1c) the management loop is never re-entered (mgmtOperation) and no WaitGroup is awaited while a lock its signallers need may be held; " +
			"(E1d/E1e) goroutines that own a WaitGroup slot signal it on every exit and every goroutine start matches a recognised termination idiom; " +
			"(E2d) Serialize/Len/String-style read-only methods of objects shared between goroutines do not write through their receiver; " +
			"(E1b.active-destination / mac-index-handle) active destinations are only touched under their shard lock; (E6.identity-delete) a peer is removed from the registry only if the registry still holds that very peer. Also: (E1a.balanced) every function that acquires a lock releases it on all exits (deferred closures verified); (E1c.blocking-under-lock) blocking channel operations that can run under sharedData.mu are exactly the reviewed, bounded sites; (E1c.counterpart-independent) where such a site is bounded because another goroutine consumes the channel, that goroutine — and, across WaitGroup.Wait, the goroutines it waits for — reaches neither mgmtOperation nor an acquisition of sharedData.mu synchronously; (E1c.reader-conn-closed) a state function that replaces the session connection while its reader goroutine runs closes the old connection before it returns, so its deferred wait for the reader ends and deleting the peer leaves no goroutine or connection behind. (E1d.waitgroup) goroutines that signal a WaitGroup do so on every path and are started after an Add. (E1e.handover-capacity) WaitGroup-counted goroutines hand results over through channels with capacity ≥ 1.",
		Not: "Races on state outside the guarded-by table, channel-induced deadlocks other than what the E1c rules cover, lost wake-ups, liveness/quiescence and actual goroutine termination are not decided; lock classes are per field, not per instance.",
		Run: func(c *Ctx) {
			c.ruleRatchets("C20")
			c.ruleLockOrder()
			c.ruleBalanced()
			c.ruleBlockingUnderLock()
			c.ruleCounterpartIndependent("E1c.counterpart-independent", 2)
			c.ruleReaderConnClosed("E1c.reader-conn-closed", 2)
			c.ruleAPICallbackUnderLock()
			c.ruleWaitGroupPairing()
			c.ruleHandoverCapacity()
			c.ruleReentry()
			c.ruleGuarded("E1b.guarded", guardTable, 150)
			c.ruleRequires("E1b.requires", requiresTable, 15)
			c.ruleBookkeepingLocks("E1b.bookkeeping")
			c.ruleRefreshExclusion()
			c.rulePurity("E2d.pure", []string{"pkg/packet/bgp"}, 500, "BGPOpen")
			c.ruleMacIndexHandles()
			c.ruleActiveDestinations()
			c.ruleIdentityDelete()
		},
	})
}
