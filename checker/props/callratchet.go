package props

import (
	"encoding/json"
	"fmt"
	"os"
	"path/filepath"
	"sort"
	"strings"

	"golang.org/x/tools/go/ssa"

	"gbverif/ir"
)

// callSig: the non-trivial direct callees of one function (closures included), by qualified name.
type callSig struct {
	Func    string   `json:"func"`
	File    string   `json:"file"`
	Callees []string `json:"callees"`
}

var trivialCalleePkgs = map[string]bool{"fmt": true, "errors": true, "log/slog": true, "strings": true, "strconv": true, "sort": true, "slices": true, "maps": true, "bytes": true, "math": true, "math/bits": true, "unicode": true, "reflect": true, "encoding/json": true, "context": true, "net/netip": true, "net": true, "time": true, "runtime": true, "os": true, "regexp": true, "encoding/binary": true, "google.golang.org/protobuf/proto": true}
var trivialCalleeNames = map[string]bool{"String": true, "Error": true, "Len": true, "MarshalJSON": true}

func calleeName(c *Ctx, call *ssa.CallCommon) string {
	if call.IsInvoke() {
		m := call.Method
		if trivialCalleeNames[m.Name()] {
			return ""
		}
		if m.Pkg() != nil && trivialCalleePkgs[m.Pkg().Path()] {
			return ""
		}
		return "invoke " + m.Name()
	}
	callee := call.StaticCallee()
	if callee == nil {
		return ""
	}
	if callee.Parent() != nil {
		return "" // closures are folded into their parent
	}
	if trivialCalleeNames[callee.Name()] {
		return ""
	}
	if callee.Pkg != nil && trivialCalleePkgs[callee.Pkg.Pkg.Path()] {
		return ""
	}
	if callee.Pkg == nil && callee.Signature.Recv() == nil {
		return ""
	}
	k := ir.FuncKey(callee)
	// generic instantiations: strip type arguments
	if i := strings.Index(k, "["); i > 0 {
		k = k[:i]
	}
	// a method called on a struct field: which field (two maps cleared by the same Clear are two steps)
	if callee.Signature.Recv() != nil && len(call.Args) > 0 {
		recv := call.Args[0]
		if u, ok := recv.(*ssa.UnOp); ok {
			recv = u.X
		}
		if fa, ok := recv.(*ssa.FieldAddr); ok {
			k += "@" + fieldVarOf(fa).Name()
		}
	}
	return k
}

// directCallees: callees of fn and of the closures nested in it.
func directCallees(c *Ctx, fn *ssa.Function, out map[string]bool, mods map[*ssa.Function]bool) {
	var walk func(f *ssa.Function)
	walk = func(f *ssa.Function) {
		for _, b := range f.Blocks {
			for _, in := range b.Instrs {
				ci, ok := in.(ssa.CallInstruction)
				if !ok {
					continue
				}
				if n := calleeName(c, ci.Common()); n != "" {
					out[n] = true
				}
				if cal := ci.Common().StaticCallee(); cal != nil && cal.Parent() == nil && cal.Blocks != nil && c.P.InModule(cal) && mods != nil {
					mods[cal] = true
				}
			}
		}
		for _, an := range f.AnonFuncs {
			walk(an)
		}
	}
	walk(fn)
}

func (c *Ctx) callSigs(pkgs []string) []callSig {
	var out []callSig
	for _, short := range pkgs {
		for _, fn := range c.P.FuncsIn(short) {
			if fn.Parent() != nil || fn.Blocks == nil {
				continue
			}
			file := c.P.Pos(fn.Pos())
			if i := strings.LastIndex(file, ":"); i > 0 {
				file = file[:i]
			}
			if strings.HasSuffix(file, ".pb.go") || strings.HasSuffix(file, "_string.go") || file == "-" {
				continue
			}
			set := map[string]bool{}
			directCallees(c, fn, set, nil)
			if len(set) == 0 {
				continue
			}
			out = append(out, callSig{Func: ir.FuncKey(fn), File: file, Callees: sortedKeys(set)})
		}
	}
	sort.Slice(out, func(i, j int) bool { return out[i].Func < out[j].Func })
	return out
}

var callPkgs = []string{"pkg/server", "internal/pkg/table", "pkg/apiutil", "pkg/config/oc", "pkg/packet/bgp", "pkg/packet/mrt", "pkg/packet/bmp", "pkg/packet/rtr", "pkg/packet/bfd", "pkg/zebra"}

// ruleCallRatchet: no call that the reviewed tree makes has silently disappeared from its function.
func (c *Ctx) ruleCallRatchet(rule string, pkgs []string, fileFilter func(file string) bool, baselineFile string, min int) {
	r := c.R
	r.Rule(rule, "dropped-call ratchet: the committed baseline records, for every function of the anchored code, the non-trivial functions and methods it calls directly (closures included; logging, formatting and pure library helpers left out). A function that still exists but neither calls a recorded callee any more, nor reaches it through module functions it calls (depth ≤ 3, so extracting a helper is not an alarm), has dropped a step — a bookkeeping update, a reset, a notification, a lock — that the reviewed behaviour included. Callees that no longer exist anywhere are not decided", min)
	var base []callSig
	b, err := os.ReadFile(filepath.Join(homeDir(), baselineFile))
	if err != nil || json.Unmarshal(b, &base) != nil {
		r.Undec(rule, "-", "baseline:"+baselineFile, "-", "baseline file missing or unreadable")
		return
	}
	// names that still exist as callees anywhere / as functions
	exists := map[string]bool{}
	for _, fn := range c.P.Funcs {
		if fn.Parent() == nil {
			k := ir.FuncKey(fn)
			if i := strings.Index(k, "["); i > 0 {
				k = k[:i]
			}
			exists[k] = true
		}
	}
	for _, bs := range base {
		inPkgs := false
		for _, pk := range pkgs {
			if strings.Contains(bs.Func, pk+".") {
				inPkgs = true
			}
		}
		if !inPkgs || (fileFilter != nil && !fileFilter(bs.File)) {
			continue
		}
		fn := c.P.Func(bs.Func)
		cons := fmt.Sprintf("%d recorded callees", len(bs.Callees))
		if fn == nil || fn.Blocks == nil {
			r.Add(oblT(rule, bs.Func, cons, bs.File, "ok", "the function no longer exists: not decided", nil, true))
			continue
		}
		// reachable callee names within depth 3
		reach := map[string]bool{}
		seen := map[*ssa.Function]bool{fn: true}
		frontier := []*ssa.Function{fn}
		for depth := 0; depth <= 3 && len(frontier) > 0; depth++ {
			next := map[*ssa.Function]bool{}
			for _, f := range frontier {
				directCallees(c, f, reach, next)
			}
			frontier = nil
			for f := range next {
				if !seen[f] {
					seen[f] = true
					frontier = append(frontier, f)
				}
			}
		}
		var missing []string
		for _, k := range bs.Callees {
			if reach[k] {
				continue
			}
			kk := k
			if i := strings.Index(kk, "@"); i > 0 {
				kk = kk[:i]
			}
			if !strings.HasPrefix(k, "invoke ") && (strings.Contains(k, "pkg/") || strings.HasPrefix(k, "api.") || strings.HasPrefix(k, "(*api.")) && !exists[kk] {
				continue // the callee itself was removed or renamed: not decided
			}
			missing = append(missing, k)
		}
		if len(missing) == 0 {
			r.Ok(rule, bs.Func, cons, bs.File, "all still called (directly or through helpers)")
		} else {
			r.Bad(rule, bs.Func, cons, bs.File, "the function no longer calls "+strings.Join(missing, ", ")+" (neither directly nor through the module functions it calls): a step of the reviewed behaviour was dropped")
		}
	}
}
