package props

import (
	"encoding/json"
	"fmt"
	"go/token"
	"go/types"
	"hash/fnv"
	"os"
	"path/filepath"
	"sort"
	"strings"

	"golang.org/x/tools/go/ssa"

	"gbverif/ir"
)

// callSig: the non-trivial direct callees of one function (closures included), by qualified name.
type callSig struct {
	Func    string   `json:"func"`
	File    string   `json:"file"`
	Callees []string `json:"callees"`
	// NEvents: number of calls and field stores in the function body (closures excluded)
	NEvents int `json:"nevents"`
	// Returns: number of return statements of the function body (closures excluded)
	Returns int `json:"returns"`
	// Counts: number of call sites per callee (closures included)
	Counts map[string]int `json:"counts,omitempty"`
	// Order: pairs "A => B" of callees the function body itself (closures excluded) calls exactly once, where A executes before B on every path that reaches B
	Order []string `json:"order,omitempty"`
	// Always: the event classes of which some member runs on every path from entry to a return
	Always []string `json:"always,omitempty"`
}

// events: the calls and field stores of fn's own body (closures and defers excluded), grouped into classes: two
// occurrences belong to the same class when they have the same name and their receiver / arguments (stores: target
// and value) are described alike. Source positions play no part, so moving code about without changing the control
// flow changes nothing.
func events(c *Ctx, fn *ssa.Function) map[string][]ssa.Instruction {
	out := map[string][]ssa.Instruction{}
	sig := func(vals ...ssa.Value) string {
		h := fnv.New32a()
		for _, v := range vals {
			h.Write([]byte(describeVal(v, 0)))
			h.Write([]byte{0})
		}
		return fmt.Sprintf("%08x", h.Sum32())
	}
	for _, b := range fn.Blocks {
		for _, in := range b.Instrs {
			if n := storeName(in); n != "" {
				var k string
				switch x := in.(type) {
				case *ssa.Store:
					if fa, ok := x.Addr.(*ssa.FieldAddr); ok {
						k = sig(fa.X, x.Val)
					} else if ia, ok := x.Addr.(*ssa.IndexAddr); ok {
						k = sig(ia.X, x.Val)
					}
				case *ssa.MapUpdate:
					k = sig(x.Map, x.Key)
				case *ssa.Call:
					k = sig(x.Call.Args...)
				}
				out[n+"~"+k] = append(out[n+"~"+k], in)
				continue
			}
			ci, ok := in.(ssa.CallInstruction)
			if !ok {
				continue
			}
			if _, isDefer := in.(*ssa.Defer); isDefer {
				continue
			}
			if n := calleeName(c, ci.Common()); n != "" {
				vals := append([]ssa.Value{}, ci.Common().Args...)
				if ci.Common().IsInvoke() {
					vals = append(vals, ci.Common().Value)
				}
				k := n + "~" + sig(vals...)
				out[k] = append(out[k], in)
			}
		}
	}
	return out
}

func countEvents(evs map[string][]ssa.Instruction) int {
	n := 0
	for _, l := range evs {
		n += len(l)
	}
	return n
}

// classBefore: every occurrence of class a strictly precedes every occurrence of class b.
func classBefore(a, b []ssa.Instruction) bool {
	for _, x := range a {
		for _, y := range b {
			if !executesBefore(x, y) {
				return false
			}
		}
	}
	return true
}

// orderEdges: the transitive reduction of the strict control-flow order between the event classes of fn.
func orderEdges(c *Ctx, fn *ssa.Function) []string {
	evs := events(c, fn)
	if len(evs) > 150 {
		return nil
	}
	var names []string
	for n := range evs {
		names = append(names, n)
	}
	sort.Strings(names)
	n := len(names)
	before := make([][]bool, n)
	for i := range before {
		before[i] = make([]bool, n)
	}
	for i, a := range names {
		for j, b := range names {
			if i != j && classBefore(evs[a], evs[b]) {
				before[i][j] = true
			}
		}
	}
	var out []string
	for i := 0; i < n; i++ {
		for j := 0; j < n; j++ {
			if !before[i][j] {
				continue
			}
			direct := true
			for k := 0; k < n && direct; k++ {
				if before[i][k] && before[k][j] {
					direct = false
				}
			}
			if direct {
				out = append(out, names[i]+" => "+names[j])
			}
		}
	}
	return out
}

// alwaysEvents: the classes one of whose members executes on every path from the entry to a return statement
// (paths that end in a panic do not count).
func alwaysEvents(evs map[string][]ssa.Instruction, fn *ssa.Function) []string {
	var out []string
	for k, members := range evs {
		if runsOnEveryPath(fn, members) {
			out = append(out, k)
		}
	}
	sort.Strings(out)
	return out
}

func runsOnEveryPath(fn *ssa.Function, members []ssa.Instruction) bool {
	blocked := map[*ssa.BasicBlock]bool{}
	for _, m := range members {
		blocked[m.Block()] = true
	}
	seen := map[*ssa.BasicBlock]bool{}
	work := []*ssa.BasicBlock{fn.Blocks[0]}
	for len(work) > 0 {
		b := work[len(work)-1]
		work = work[:len(work)-1]
		if seen[b] || blocked[b] {
			continue
		}
		seen[b] = true
		if ret, isRet := b.Instrs[len(b.Instrs)-1].(*ssa.Return); isRet {
			if isErrorReturn(ret) {
				continue // giving up with an error is not a way of skipping the step
			}
			return false // a return reached without passing a member
		}
		work = append(work, b.Succs...)
	}
	return true
}

// errNonNilAt: block b lies on the "v != nil" edge of a test of this very error value.
func errNonNilAt(v ssa.Value, b *ssa.BasicBlock) bool {
	if v.Referrers() == nil {
		return false
	}
	for _, ref := range *v.Referrers() {
		bo, ok := ref.(*ssa.BinOp)
		if !ok || (bo.Op != token.NEQ && bo.Op != token.EQL) || bo.Referrers() == nil {
			continue
		}
		other := bo.Y
		if other == v {
			other = bo.X
		}
		if k, ok := other.(*ssa.Const); !ok || !k.IsNil() {
			continue
		}
		for _, r2 := range *bo.Referrers() {
			iff, ok := r2.(*ssa.If)
			if !ok {
				continue
			}
			edge := 0
			if bo.Op == token.EQL {
				edge = 1
			}
			s := iff.Block().Succs[edge]
			if len(s.Preds) == 1 && (s == b || s.Dominates(b)) {
				return true
			}
		}
	}
	return false
}

// isErrorReturn: the return statement hands back a non-nil error (last result of type error): a constant-nil or
// unknown value counts as success.
func isErrorReturn(ret *ssa.Return) bool {
	if len(ret.Results) == 0 {
		return false
	}
	v := ret.Results[len(ret.Results)-1]
	if n, ok := v.Type().(*types.Named); !ok || n.Obj().Name() != "error" || n.Obj().Pkg() != nil {
		return false
	}
	if errNonNilAt(v, ret.Block()) {
		return true
	}
	switch x := v.(type) {
	case *ssa.Const:
		return false
	case *ssa.MakeInterface:
		return true
	case *ssa.Call:
		// return fmt.Errorf(...) / NewMessageError(...): a constructor of errors
		if cal := x.Call.StaticCallee(); cal != nil && (strings.Contains(cal.Name(), "Error") || cal.Name() == "New") {
			return true
		}
		return false
	case *ssa.UnOp:
		// named result spilled because of a defer: the last store in this block decides
		al, ok := x.X.(*ssa.Alloc)
		if !ok {
			return false
		}
		var last ssa.Value
		for _, in := range ret.Block().Instrs {
			if st, ok := in.(*ssa.Store); ok && st.Addr == ssa.Value(al) {
				last = st.Val
			}
		}
		if last == nil {
			return false
		}
		if k, ok := last.(*ssa.Const); ok && k.IsNil() {
			return false
		}
		if _, ok := last.(*ssa.MakeInterface); ok {
			return true
		}
		if call, ok := last.(*ssa.Call); ok {
			if cal := call.Call.StaticCallee(); cal != nil && (strings.Contains(cal.Name(), "Error") || cal.Name() == "New") {
				return true
			}
		}
		return false
	}
	return false
}

// nothingToDoFastPath: every branch the step now depends on tests whether one of the step's own arguments (or its
// receiver) is empty or nil — "if len(xs) == 0 { return }" in front of "process(xs)".
func nothingToDoFastPath(fn *ssa.Function, members []ssa.Instruction) bool {
	return fastPath(fn, members, false, nil)
}

// fastPath: as above; for a step that writes, sends and starts nothing (pureStep) every branch it now depends on
// only has to be an emptiness / nil test of something — "if len(value) == 0 { return nil }" in front of a pure
// lookup whose result only the skipped loop would have used. Tests the step depended on on the reviewed tree
// (recorded by the guard ratchet: the checks in front of error returns) are not new and are left out.
func fastPath(fn *ssa.Function, members []ssa.Instruction, pureStep bool, recorded map[string]bool) bool {
	if len(members) != 1 {
		return false
	}
	ci, ok := members[0].(ssa.CallInstruction)
	if !ok {
		return false
	}
	atoms, ok := controllingAtoms(fn, members[0].Block())
	if !ok || len(atoms) == 0 {
		return false
	}
	var args []string
	for _, a := range ci.Common().Args {
		args = append(args, describeVal(a, 0))
	}
	if ci.Common().IsInvoke() {
		args = append(args, describeVal(ci.Common().Value, 0))
	}
	for a := range atoms {
		okAtom := recorded[a] // a test the step already depended on (the guard in front of an error return)
		for _, d := range args {
			if a == "0 =?= len("+d+")" || a == d+" =?= nil" || a == "nil =?= "+d || a == "0 <? len("+d+")" {
				okAtom = true
			}
		}
		if !okAtom && pureStep {
			okAtom = (strings.HasPrefix(a, "0 =?= len(") || strings.HasPrefix(a, "0 <? len(")) && strings.HasSuffix(a, ")") ||
				strings.HasSuffix(a, " =?= nil") || strings.HasPrefix(a, "nil =?= ")
		}
		if !okAtom {
			return false
		}
	}
	return true
}

// ruleAlwaysRatchet: a step that ran on every path still does.
func (c *Ctx) ruleAlwaysRatchet(rule string, pkgs []string, fileFilter func(file string) bool, baselineFile string, min int) {
	r := c.R
	r.Rule(rule, "bypass ratchet: the committed baseline records, per function, the calls and field stores (classes as in the order ratchet) that run on every path from the entry to a return that does not hand back a freshly made error. If each of those steps is still in the function and one of them can now be bypassed (other than by a fast path that only tests whether the step's own argument is empty, or — for a step that writes, sends and starts nothing — whether anything is empty or nil) — a new early return or branch around a cancel, a wait, a drain, a reset — the reviewed behaviour 'this always happens' is gone", min)
	var base []callSig
	b, err := os.ReadFile(filepath.Join(homeDir(), baselineFile))
	if err != nil || json.Unmarshal(b, &base) != nil {
		r.Undec(rule, "-", "baseline:"+baselineFile, "-", "baseline file missing or unreadable")
		return
	}
	// the tests each step depended on on the reviewed tree (guard ratchet's baseline)
	recordedGuards := map[string]map[string]map[string]bool{}
	if rg, ok := loadRG("baselines/readguard.json"); ok {
		for _, x := range rg {
			m := map[string]map[string]bool{}
			for k, rec := range x.Guards {
				set := map[string]bool{}
				for _, a := range rec {
					if !strings.HasPrefix(a, "=") {
						set[a] = true
					}
				}
				m[k] = set
			}
			recordedGuards[x.Func] = m
		}
	}
	for _, bs := range base {
		inPkgs := false
		for _, pk := range pkgs {
			if strings.Contains(bs.Func, pk+".") {
				inPkgs = true
			}
		}
		if !inPkgs || len(bs.Always) < 1 || (fileFilter != nil && !fileFilter(bs.File)) {
			continue
		}
		fn := c.unitFunc(bs.Func)
		cons := fmt.Sprintf("%d unconditional steps", len(bs.Always))
		if fn == nil || fn.Blocks == nil {
			r.Add(oblT(rule, bs.Func, cons, bs.File, "ok", "the function no longer exists: not decided", nil, true))
			continue
		}
		uc := events(c, fn)
		// decided when every recorded unconditional step is still there (other steps may have come or gone: a new
		// guard usually brings a call of its own)
		same := true
		for _, k := range bs.Always {
			if _, ok := uc[k]; !ok {
				same = false
			}
		}
		if !same {
			r.Add(oblT(rule, bs.Func, cons, bs.File, "ok", "an unconditional step of the reviewed tree is no longer in the function (moved or rewritten): not decided", nil, true))
			continue
		}
		lost := ""
		for _, k := range bs.Always {
			if !runsOnEveryPath(fn, uc[k]) {
				if fastPath(fn, uc[k], len(uc[k]) == 1 && c.effectFreeEvent(uc[k][0]), recordedGuards[bs.Func][k]) {
					continue // skipped only when what it works on is empty: a fast path, not a bypass
				}
				name := k
				if j := strings.LastIndex(k, "~"); j > 0 {
					name = k[:j]
				}
				lost = name + " (" + c.P.InstrPos(uc[k][0]) + ")"
				break
			}
		}
		if lost == "" {
			r.Ok(rule, bs.Func, cons, bs.File, "every unconditional step still runs on every path")
		} else {
			r.Bad(rule, bs.Func, cons, bs.File, "a step that ran on every path can now be bypassed: "+lost)
		}
	}
}

// executesBefore: x can be followed by y, and y can never be followed by x (strict order along control flow).
func executesBefore(x, y ssa.Instruction) bool {
	return instrReaches(x, y) && !instrReaches(y, x)
}

// instrReaches: some control-flow path leads from x to y.
func instrReaches(x, y ssa.Instruction) bool {
	bx, by := x.Block(), y.Block()
	if bx == by {
		xi, yi := -1, -1
		for i, in := range bx.Instrs {
			if in == x {
				xi = i
			}
			if in == y {
				yi = i
			}
		}
		if xi < yi {
			return true
		}
		// later in the same block: only around a cycle
		for _, s := range bx.Succs {
			if s == bx || reaches(s, bx) {
				return true
			}
		}
		return false
	}
	return reaches(bx, by)
}

var trivialCalleePkgs = map[string]bool{"fmt": true, "errors": true, "log/slog": true, "strings": true, "strconv": true, "sort": true, "slices": true, "maps": true, "bytes": true, "math": true, "math/bits": true, "unicode": true, "reflect": true, "encoding/json": true, "context": true, "net/netip": true, "net": true, "time": true, "runtime": true, "os": true, "regexp": true, "encoding/binary": true, "google.golang.org/protobuf/proto": true}
var trivialCalleeNames = map[string]bool{"String": true, "Error": true, "Len": true, "MarshalJSON": true}

// cloneSliceCall: the call makes a private copy of a slice or map: copy(dst, src), slices.Clone, maps.Clone,
// append(<nil or empty>, src...). All of them are one kind of step ("clone"), so that rewriting one form into
// another changes nothing while dropping the copy — working on the shared backing array instead — does.
func cloneSliceCall(call *ssa.CallCommon) bool {
	if b, ok := call.Value.(*ssa.Builtin); ok {
		switch b.Name() {
		case "copy":
			return true
		case "append":
			if len(call.Args) != 2 {
				return false
			}
			switch x := call.Args[0].(type) {
			case *ssa.Const:
				return x.IsNil()
			case *ssa.Slice:
				// xs[:0:0] or an empty literal
				if k, ok := x.High.(*ssa.Const); ok && k.Value != nil && k.Value.String() == "0" {
					return true
				}
			case *ssa.MakeSlice:
				if k, ok := x.Len.(*ssa.Const); ok && k.Value != nil && k.Value.String() == "0" {
					return true
				}
			}
		}
		return false
	}
	if cal := call.StaticCallee(); cal != nil {
		n := cal.String()
		return strings.HasPrefix(n, "slices.Clone") || strings.HasPrefix(n, "maps.Clone")
	}
	return false
}

func calleeName(c *Ctx, call *ssa.CallCommon) string {
	if cloneSliceCall(call) {
		return "clone"
	}
	if call.IsInvoke() {
		m := call.Method
		if trivialCalleeNames[m.Name()] {
			return ""
		}
		if m.Pkg() != nil && trivialCalleePkgs[m.Pkg().Path()] {
			return ""
		}
		return "invoke " + m.Name()
	}
	callee := call.StaticCallee()
	if callee == nil {
		return ""
	}
	if callee.Parent() != nil {
		return "" // closures are folded into their parent
	}
	if trivialCalleeNames[callee.Name()] {
		return ""
	}
	if callee.Pkg != nil && trivialCalleePkgs[callee.Pkg.Pkg.Path()] {
		return ""
	}
	if callee.Pkg == nil && callee.Signature.Recv() == nil {
		return ""
	}
	k := ir.FuncKey(callee)
	// generic instantiations: strip type arguments
	k = stripTypeArgs(k)
	// a method called on a struct field: which field (two maps cleared by the same Clear are two steps)
	if callee.Signature.Recv() != nil && len(call.Args) > 0 {
		recv := call.Args[0]
		if u, ok := recv.(*ssa.UnOp); ok {
			recv = u.X
		}
		if fa, ok := recv.(*ssa.FieldAddr); ok {
			k += "@" + fieldVarOf(fa).Name()
		}
	}
	return k
}

// effectFree: fn (with its closures) writes nothing but its own locals, sends nothing, starts nothing, and calls
// only functions of which the same holds. Unknown callees (interface methods, function values, library code outside
// the trivial set) count as effects.
var effectFreeMemo = map[*ssa.Function]int{} // 1 = in progress / assumed, 2 = yes, 3 = no

func (c *Ctx) effectFree(fn *ssa.Function) bool {
	switch effectFreeMemo[fn] {
	case 1, 2:
		return true
	case 3:
		return false
	}
	if fn.Blocks == nil {
		ok := fn.Pkg != nil && trivialCalleePkgs[fn.Pkg.Pkg.Path()]
		if ok {
			effectFreeMemo[fn] = 2
		} else {
			effectFreeMemo[fn] = 3
		}
		return ok
	}
	effectFreeMemo[fn] = 1
	ok := true
	localAddr := func(v ssa.Value) bool {
		for {
			switch x := v.(type) {
			case *ssa.FieldAddr:
				v = x.X
				continue
			case *ssa.IndexAddr:
				v = x.X
				continue
			case *ssa.Alloc:
				return true
			}
			return false
		}
	}
	var walk func(f *ssa.Function)
	walk = func(f *ssa.Function) {
		for _, b := range f.Blocks {
			for _, in := range b.Instrs {
				switch x := in.(type) {
				case *ssa.Store:
					if !localAddr(x.Addr) {
						ok = false
					}
				case *ssa.MapUpdate, *ssa.Send, *ssa.Go, *ssa.Defer, *ssa.Panic, *ssa.Select:
					ok = false
				case *ssa.UnOp:
					if x.Op == token.ARROW {
						ok = false
					}
				case *ssa.Call:
					if _, isB := x.Call.Value.(*ssa.Builtin); isB {
						continue
					}
					cal := x.Call.StaticCallee()
					if cal == nil || (cal.Parent() == nil && !c.effectFree(cal)) {
						ok = false
					}
				}
			}
		}
		for _, an := range f.AnonFuncs {
			walk(an)
		}
	}
	walk(fn)
	if ok {
		effectFreeMemo[fn] = 2
	} else {
		effectFreeMemo[fn] = 3
	}
	return ok
}

// effectFreeEvent: the event is a call of an effect-free function (stores are effects by definition).
func (c *Ctx) effectFreeEvent(in ssa.Instruction) bool {
	call, ok := in.(*ssa.Call)
	if !ok {
		return false
	}
	cal := call.Call.StaticCallee()
	return cal != nil && c.effectFree(cal)
}

// stripTypeArgs removes every balanced [...] group: "(*bart.Table[V]).Supernets" -> "(*bart.Table).Supernets".
func stripTypeArgs(k string) string {
	var b strings.Builder
	depth := 0
	for _, r := range k {
		switch {
		case r == '[':
			depth++
		case r == ']' && depth > 0:
			depth--
		case depth == 0:
			b.WriteRune(r)
		}
	}
	return b.String()
}

// storeName: a store into a field of an existing object (not a local being built) is an effect too.
func storeName(in ssa.Instruction) string {
	// writes into a map that was not made in this function are effects too
	localMap := func(m ssa.Value) bool {
		for {
			switch x := m.(type) {
			case *ssa.MakeMap:
				return true
			case *ssa.ChangeType:
				m = x.X
				continue
			case *ssa.Phi:
				for _, e := range x.Edges {
					if _, ok := e.(*ssa.MakeMap); !ok {
						return false
					}
				}
				return true
			}
			return false
		}
	}
	if mu, ok := in.(*ssa.MapUpdate); ok {
		if localMap(mu.Map) {
			return ""
		}
		return "mapstore " + shortType(mu.Map.Type())
	}
	if call, ok := in.(*ssa.Call); ok {
		if bi, ok := call.Call.Value.(*ssa.Builtin); ok && bi.Name() == "delete" && len(call.Call.Args) == 2 {
			if localMap(call.Call.Args[0]) {
				return ""
			}
			return "mapdelete " + shortType(call.Call.Args[0].Type())
		}
	}
	st, ok := in.(*ssa.Store)
	if !ok {
		return ""
	}
	// an element of a slice that was not made here: x[i] = v writes memory someone else holds
	if ia, ok := st.Addr.(*ssa.IndexAddr); ok {
		if _, isSlice := ia.X.Type().Underlying().(*types.Slice); !isSlice {
			return ""
		}
		for v, i := ia.X, 0; i < 6; i++ {
			switch x := v.(type) {
			case *ssa.MakeSlice, *ssa.Alloc:
				return ""
			case *ssa.Slice:
				v = x.X
				continue
			case *ssa.Phi:
				allLocal := true
				for _, e := range x.Edges {
					switch e.(type) {
					case *ssa.MakeSlice:
					default:
						if c, ok := e.(*ssa.Call); ok {
							if b, ok := c.Call.Value.(*ssa.Builtin); ok && b.Name() == "append" {
								continue
							}
						}
						allLocal = false
					}
				}
				if allLocal {
					return ""
				}
			case *ssa.Call:
				if b, ok := x.Call.Value.(*ssa.Builtin); ok && b.Name() == "append" {
					v = x.Call.Args[0]
					continue
				}
			}
			break
		}
		return "elemstore " + shortType(ia.X.Type())
	}
	fa, ok := st.Addr.(*ssa.FieldAddr)
	if !ok {
		return ""
	}
	base := fa.X
	for {
		if inner, ok := base.(*ssa.FieldAddr); ok {
			base = inner.X
			continue
		}
		break
	}
	if _, isLocal := base.(*ssa.Alloc); isLocal {
		return ""
	}
	n := ir.NamedOf(ir.Deref(fa.X.Type()))
	if n == nil {
		return ""
	}
	return "store " + n.Obj().Name() + "." + fieldOfName(fa)
}

// directCallees: callees of fn and of the closures nested in it.
func directCallees(c *Ctx, fn *ssa.Function, out map[string]bool, mods map[*ssa.Function]bool) {
	directCalleeCounts(c, fn, out, nil, mods)
}

// counts[n] is the number of DISTINCT sites of n: call sites whose receiver and arguments (stores: whose target
// object) are described alike count once, so hoisting a repeated getter call into a local, or merging the two
// stores of an if/else into one, changes nothing, while dropping the same test on another value does.
func directCalleeCounts(c *Ctx, fn *ssa.Function, out map[string]bool, counts map[string]int, mods map[*ssa.Function]bool) {
	distinct := map[string]bool{}
	// names of effect-free callees called by fn (computed on demand below)
	pureNames := map[string]bool{}
	var mark func(f *ssa.Function)
	mark = func(f *ssa.Function) {
		for _, b := range f.Blocks {
			for _, in := range b.Instrs {
				if ci, ok := in.(ssa.CallInstruction); ok {
					if cal := ci.Common().StaticCallee(); cal != nil && cal.Parent() == nil && c.effectFree(cal) {
						if n := calleeName(c, ci.Common()); n != "" {
							pureNames[n] = true
						}
					}
				}
			}
		}
		for _, an := range f.AnonFuncs {
			mark(an)
		}
	}
	if counts != nil {
		mark(fn)
	}
	bump := func(n, desc string) {
		if counts == nil || distinct[n+"|"+desc] {
			return
		}
		// a getter that writes, sends and starts nothing may be read once instead of twice when both reads are known
		// to agree; the forms of a private copy merge freely: for those only presence is recorded
		if n == "clone" || pureNames[n] {
			if counts[n] == 0 {
				counts[n] = 1
			}
			return
		}
		distinct[n+"|"+desc] = true
		counts[n]++
	}
	var walk func(f *ssa.Function)
	walk = func(f *ssa.Function) {
		for _, b := range f.Blocks {
			for _, in := range b.Instrs {
				if n := storeName(in); n != "" {
					if out != nil {
						out[n] = true
					}
					switch x := in.(type) {
					case *ssa.Store:
						if fa, ok := x.Addr.(*ssa.FieldAddr); ok {
							bump(n, describeVal(fa.X, 0))
						} else if ia, ok := x.Addr.(*ssa.IndexAddr); ok {
							bump(n, describeVal(ia.X, 0))
						}
					case *ssa.MapUpdate:
						bump(n, describeVal(x.Map, 0))
					case *ssa.Call:
						bump(n, describeVal(x.Call.Args[0], 0))
					}
					continue
				}
				ci, ok := in.(ssa.CallInstruction)
				if !ok {
					continue
				}
				if n := calleeName(c, ci.Common()); n != "" {
					if out != nil {
						out[n] = true
					}
					var ds []string
					if ci.Common().IsInvoke() {
						ds = append(ds, describeVal(ci.Common().Value, 0))
					}
					for _, a := range ci.Common().Args {
						ds = append(ds, describeVal(a, 0))
					}
					bump(n, strings.Join(ds, ","))
				}
				if cal := ci.Common().StaticCallee(); cal != nil && cal.Parent() == nil && cal.Blocks != nil && c.P.InModule(cal) && mods != nil {
					mods[cal] = true
				}
				// a method or function handed over as a value (slices.ContainsFunc(xs, h.HasRouteTarget)) is a use of it too
				for _, a := range ci.Common().Args {
					if _, isSig := a.Type().Underlying().(*types.Signature); !isSig {
						continue
					}
					fv := funcValue(a)
					if fv == nil || fv.Parent() != nil || !c.P.InModule(fv) {
						continue
					}
					k := stripTypeArgs(ir.FuncKey(fv))
					if mc, ok := a.(*ssa.MakeClosure); ok && len(mc.Bindings) == 1 {
						recv := mc.Bindings[0]
						if u, ok := recv.(*ssa.UnOp); ok {
							recv = u.X
						}
						if fa, ok := recv.(*ssa.FieldAddr); ok {
							k += "@" + fieldVarOf(fa).Name()
						}
					}
					if trivialCalleeNames[fv.Name()] {
						continue
					}
					if out != nil {
						out[k] = true
					}
					bump(k, describeVal(a, 0))
					if mods != nil && fv.Blocks != nil {
						mods[fv] = true
					}
				}
			}
		}
		for _, an := range f.AnonFuncs {
			walk(an)
		}
	}
	walk(fn)
}

func (c *Ctx) callSigs(pkgs []string) []callSig {
	var out []callSig
	for _, short := range pkgs {
		for _, fn := range c.P.FuncsIn(short) {
			if fn.Parent() != nil || fn.Blocks == nil {
				continue
			}
			file := c.P.Pos(fn.Pos())
			if i := strings.LastIndex(file, ":"); i > 0 {
				file = file[:i]
			}
			if strings.HasSuffix(file, ".pb.go") || strings.HasSuffix(file, "_string.go") || file == "-" {
				continue
			}
			set := map[string]bool{}
			counts := map[string]int{}
			directCalleeCounts(c, fn, set, counts, nil)
			if len(set) == 0 {
				continue
			}
			for k, n := range counts {
				if n < 2 {
					delete(counts, k) // only multiplicities worth recording
				}
			}
			order := orderEdges(c, fn)
			out = append(out, callSig{Func: ir.FuncKey(fn), File: file, Callees: sortedKeys(set), Counts: counts, Order: order, Always: alwaysEvents(events(c, fn), fn), NEvents: countEvents(events(c, fn)), Returns: countReturns(fn)})
			// function literals: units of the order and bypass ratchets under a role key (units.go); their callees are
			// already part of the enclosing function's set
			for _, u := range c.closureUnits(ir.FuncKey(fn), fn) {
				uo := orderEdges(c, u.Fn)
				ua := alwaysEvents(events(c, u.Fn), u.Fn)
				if len(uo) == 0 && len(ua) == 0 {
					continue
				}
				out = append(out, callSig{Func: u.Key, File: file, Order: uo, Always: ua, NEvents: countEvents(events(c, u.Fn)), Returns: countReturns(u.Fn)})
			}
		}
	}
	sort.Slice(out, func(i, j int) bool { return out[i].Func < out[j].Func })
	return out
}

var callPkgs = []string{"pkg/server", "internal/pkg/table", "pkg/apiutil", "pkg/config/oc", "pkg/packet/bgp", "pkg/packet/mrt", "pkg/packet/bmp", "pkg/packet/rtr", "pkg/packet/bfd", "pkg/zebra"}

// ruleCallRatchet: no call that the reviewed tree makes has silently disappeared from its function.
func (c *Ctx) ruleCallRatchet(rule string, pkgs []string, fileFilter func(file string) bool, baselineFile string, min int) {
	r := c.R
	r.Rule(rule, "dropped-call ratchet: the committed baseline records, for every function of the anchored code, the non-trivial functions and methods it calls directly and the fields of existing objects it stores to (closures included; logging, formatting and pure library helpers left out). A function that still exists but neither calls a recorded callee any more, nor reaches it through a module function it has newly started to call (depth ≤ 3, so extracting a helper is not an alarm), has dropped a step — a bookkeeping update, a reset, a notification, a lock — that the reviewed behaviour included. Callees that no longer exist anywhere are not decided", min)
	var base []callSig
	b, err := os.ReadFile(filepath.Join(homeDir(), baselineFile))
	if err != nil || json.Unmarshal(b, &base) != nil {
		r.Undec(rule, "-", "baseline:"+baselineFile, "-", "baseline file missing or unreadable")
		return
	}
	// names that still exist as callees anywhere / as functions
	exists := map[string]bool{}
	for _, fn := range c.P.Funcs {
		if fn.Parent() == nil {
			k := ir.FuncKey(fn)
			k = stripTypeArgs(k)
			exists[k] = true
		}
	}
	for _, bs := range base {
		inPkgs := false
		for _, pk := range pkgs {
			if strings.Contains(bs.Func, pk+".") {
				inPkgs = true
			}
		}
		if !inPkgs || (fileFilter != nil && !fileFilter(bs.File)) || isClosureUnit(bs.Func) {
			continue
		}
		fn := c.P.Func(bs.Func)
		cons := fmt.Sprintf("%d recorded callees", len(bs.Callees))
		if fn == nil || fn.Blocks == nil {
			r.Add(oblT(rule, bs.Func, cons, bs.File, "ok", "the function no longer exists: not decided", nil, true))
			continue
		}
		// what the function calls now; a recorded callee may also have moved into a helper that the function
		// did not call on the reviewed tree (extraction), so follow only the newly called module functions
		reach := map[string]bool{}
		direct := map[*ssa.Function]bool{}
		directCallees(c, fn, reach, direct)
		recorded := map[string]bool{}
		for _, k := range bs.Callees {
			recorded[k] = true
		}
		var frontier []*ssa.Function
		seen := map[*ssa.Function]bool{fn: true}
		for f := range direct {
			k := ir.FuncKey(f)
			k = stripTypeArgs(k)
			isNew := true
			for rk := range recorded {
				if rk == k || strings.HasPrefix(rk, k+"@") {
					isNew = false
				}
			}
			if isNew && !seen[f] {
				seen[f] = true
				frontier = append(frontier, f)
			}
		}
		reachNew := map[string]bool{}
		for depth := 0; depth < 3 && len(frontier) > 0; depth++ {
			next := map[*ssa.Function]bool{}
			for _, f := range frontier {
				directCallees(c, f, reach, next)
				directCallees(c, f, reachNew, nil)
			}
			frontier = nil
			for f := range next {
				if !seen[f] {
					seen[f] = true
					frontier = append(frontier, f)
				}
			}
		}
		nowCounts := map[string]int{}
		directCalleeCounts(c, fn, nil, nowCounts, nil)
		// a method's key carries "@field" when its receiver is loaded straight from a struct field; whether it is
		// depends on how the receiver is held (a local captured by a literal is not), so the suffix only tells sites
		// apart where both sides have one
		plainNow := map[string]bool{}
		for k := range reach {
			if i := strings.Index(k, "@"); i > 0 {
				plainNow[k[:i]] = true
			}
		}
		var missing []string
		for _, k := range bs.Callees {
			if !reach[k] && !strings.Contains(k, "@") && plainNow[k] {
				continue
			}
			if reach[k] {
				n0 := bs.Counts[k]
				if n0 == 0 {
					n0 = 1
				}
				if nowCounts[k] < n0 && !reachNew[k] {
					missing = append(missing, fmt.Sprintf("%s (%d of %d call sites left)", k, nowCounts[k], n0))
				}
				continue
			}
			kk := k
			if i := strings.Index(kk, "@"); i > 0 {
				kk = kk[:i]
				// recorded as a method called on a field (X@f); the same method is still called, now on a receiver
				// that is not a direct field load (the field was read into a local first): the same step
				if reach[kk] {
					continue
				}
			}
			if !strings.HasPrefix(k, "invoke ") && (strings.Contains(k, "pkg/") || strings.HasPrefix(k, "api.") || strings.HasPrefix(k, "(*api.")) && !exists[kk] {
				continue // the callee itself was removed or renamed: not decided
			}
			missing = append(missing, k)
		}
		if len(missing) == 0 {
			r.Ok(rule, bs.Func, cons, bs.File, "all still called (directly or through helpers)")
		} else {
			r.Bad(rule, bs.Func, cons, bs.File, "the function no longer calls "+strings.Join(missing, ", ")+" (neither directly nor through the module functions it calls): a step of the reviewed behaviour was dropped")
		}
	}
}

// ruleOrderRatchet: two steps of a function have not changed places.
func (c *Ctx) ruleOrderRatchet(rule string, pkgs []string, fileFilter func(file string) bool, baselineFile string, min int) {
	r := c.R
	r.Rule(rule, "swapped-order ratchet: the committed baseline records, per function, the immediate-successor pairs (A, B) of the strict control-flow order between the calls and field stores of its body (A can be followed by B, B never by A; occurrences are told apart by their receiver and arguments, not by where they stand in the source, and occurrences that look alike form one class ordered only if all of its members are). If the function still performs exactly the same events and now some B is strictly before some A (same block earlier, or B's block dominates A's), two steps have changed places (two calls of functions that write, send and start nothing commute and are not reported) — a check after the use, a bookkeeping update before the test it depends on, a strip before the policy that may set the attribute", min)
	var base []callSig
	b, err := os.ReadFile(filepath.Join(homeDir(), baselineFile))
	if err != nil || json.Unmarshal(b, &base) != nil {
		r.Undec(rule, "-", "baseline:"+baselineFile, "-", "baseline file missing or unreadable")
		return
	}
	for _, bs := range base {
		inPkgs := false
		for _, pk := range pkgs {
			if strings.Contains(bs.Func, pk+".") {
				inPkgs = true
			}
		}
		if !inPkgs || len(bs.Order) < 1 || (fileFilter != nil && !fileFilter(bs.File)) {
			continue
		}
		fn := c.unitFunc(bs.Func)
		cons := fmt.Sprintf("%d order edges", len(bs.Order))
		if fn == nil || fn.Blocks == nil {
			r.Add(oblT(rule, bs.Func, cons, bs.File, "ok", "the function no longer exists: not decided", nil, true))
			continue
		}
		uc := events(c, fn)
		// the ratchet only speaks when the function still performs exactly the recorded events
		recordedEv := map[string]bool{}
		for _, pr := range bs.Order {
			if i := strings.Index(pr, " => "); i > 0 {
				recordedEv[pr[:i]] = true
				recordedEv[pr[i+4:]] = true
			}
		}
		// aligned when the function performs the same number of events; an edge is judged when both of its classes
		// are still there (a class whose arguments are now derived differently has another signature and is skipped)
		sameEvents := true
		present := 0
		for e := range recordedEv {
			if _, ok := uc[e]; ok {
				present++
			}
		}
		if present*2 < len(recordedEv) {
			sameEvents = false // most steps look different: not the same function any more
		}
		if !sameEvents || countEvents(uc) != bs.NEvents {
			r.Add(oblT(rule, bs.Func, cons, bs.File, "ok", "the function's calls and stores changed: not decided", nil, true))
			continue
		}
		swapped := ""
		for _, pr := range bs.Order {
			i := strings.Index(pr, " => ")
			if i < 0 {
				continue
			}
			as, okA := uc[pr[:i]]
			bbs, okB := uc[pr[i+4:]]
			if !okA || !okB {
				continue
			}
			for _, a := range as {
				for _, bb := range bbs {
					if swapped != "" || !executesBefore(bb, a) {
						continue
					}
					if c.effectFreeEvent(a) && c.effectFreeEvent(bb) {
						continue // two reads that change nothing commute
					}
					short := func(k string) string {
						if j := strings.LastIndex(k, "~"); j > 0 {
							return k[:j]
						}
						return k
					}
					swapped = short(pr[i+4:]) + " now runs before " + short(pr[:i]) + " (" + c.P.InstrPos(bb) + ")"
				}
			}
		}
		if swapped == "" {
			r.Ok(rule, bs.Func, cons, bs.File, "relative order unchanged")
		} else {
			r.Bad(rule, bs.Func, cons, bs.File, "two steps changed places: "+swapped)
		}
	}
}

func countReturns(fn *ssa.Function) int {
	n := 0
	for _, b := range fn.Blocks {
		if _, ok := b.Instrs[len(b.Instrs)-1].(*ssa.Return); ok {
			n++
		}
	}
	return n
}

// ruleExitRatchet: no new way out of a function whose steps are otherwise unchanged.
func (c *Ctx) ruleExitRatchet(rule string, pkgs []string, fileFilter func(file string) bool, baselineFile string, min int) {
	r := c.R
	r.Rule(rule, "early-exit ratchet: the committed baseline records, per function, the number of return statements. A function that calls exactly the same non-trivial callees as on the reviewed tree but has more return statements has gained an exit that skips the steps after it (a validation that is no longer reached, a drain loop that no longer runs). Functions whose callees changed are not decided", min)
	var base []callSig
	b, err := os.ReadFile(filepath.Join(homeDir(), baselineFile))
	if err != nil || json.Unmarshal(b, &base) != nil {
		r.Undec(rule, "-", "baseline:"+baselineFile, "-", "baseline file missing or unreadable")
		return
	}
	for _, bs := range base {
		inPkgs := false
		for _, pk := range pkgs {
			if strings.Contains(bs.Func, pk+".") {
				inPkgs = true
			}
		}
		if !inPkgs || (fileFilter != nil && !fileFilter(bs.File)) {
			continue
		}
		fn := c.P.Func(bs.Func)
		cons := fmt.Sprintf("%d returns", bs.Returns)
		if fn == nil || fn.Blocks == nil {
			r.Add(oblT(rule, bs.Func, cons, bs.File, "ok", "the function no longer exists: not decided", nil, true))
			continue
		}
		set := map[string]bool{}
		directCallees(c, fn, set, nil)
		if strings.Join(sortedKeys(set), ",") != strings.Join(bs.Callees, ",") {
			r.Add(oblT(rule, bs.Func, cons, bs.File, "ok", "the function's callees changed: not decided", nil, true))
			continue
		}
		if n := countReturns(fn); n > bs.Returns {
			r.Bad(rule, bs.Func, cons, bs.File, fmt.Sprintf("the function now has %d return statements: a new exit skips steps that the reviewed behaviour always performed", n))
		} else {
			r.Ok(rule, bs.Func, cons, bs.File, "no new exit")
		}
	}
}
