package props

import (
	"fmt"
	"go/ast"
	"go/constant"
	"go/token"
	"go/types"
	"sort"
	"strings"

	"golang.org/x/tools/go/ssa"

	"gbverif/ir"
)

// ---- AST helpers ------------------------------------------------------------

func (c *Ctx) infoFor(fn *ssa.Function) *types.Info {
	pk := ir.PkgOf(fn)
	if pk == nil {
		return nil
	}
	p := c.P.ByPath[pk.Path()]
	if p == nil {
		return nil
	}
	return p.TypesInfo
}

func funcBody(fn *ssa.Function) *ast.BlockStmt {
	switch s := fn.Syntax().(type) {
	case *ast.FuncDecl:
		return s.Body
	case *ast.FuncLit:
		return s.Body
	}
	return nil
}

// switchInfo is one value switch found in a function.
type switchInfo struct {
	Stmt       *ast.SwitchStmt
	TagType    types.Type
	Cases      map[string]*ast.CaseClause // constant name (or exact value) -> clause
	Values     map[string]constant.Value
	HasDefault bool
	Default    *ast.CaseClause
}

// valueSwitches returns the switches in fn whose tag has the given named type.
func (c *Ctx) valueSwitches(fn *ssa.Function, tagType *types.Named) []*switchInfo {
	info := c.infoFor(fn)
	body := funcBody(fn)
	if info == nil || body == nil {
		return nil
	}
	var out []*switchInfo
	ast.Inspect(body, func(n ast.Node) bool {
		if _, isLit := n.(*ast.FuncLit); isLit {
			return false
		}
		sw, ok := n.(*ast.SwitchStmt)
		if !ok || sw.Tag == nil {
			return true
		}
		tt := info.TypeOf(sw.Tag)
		if tt == nil || !types.Identical(tt, tagType) {
			return true
		}
		si := &switchInfo{Stmt: sw, TagType: tt, Cases: map[string]*ast.CaseClause{}, Values: map[string]constant.Value{}}
		for _, st := range sw.Body.List {
			cc := st.(*ast.CaseClause)
			if cc.List == nil {
				si.HasDefault = true
				si.Default = cc
				continue
			}
			for _, e := range cc.List {
				tv := info.Types[e]
				name := constName(info, e)
				if name == "" && tv.Value != nil {
					name = tv.Value.ExactString()
				}
				si.Cases[name] = cc
				si.Values[name] = tv.Value
			}
		}
		out = append(out, si)
		return true
	})
	return out
}

func constName(info *types.Info, e ast.Expr) string {
	switch x := e.(type) {
	case *ast.Ident:
		if cobj, ok := info.Uses[x].(*types.Const); ok {
			return cobj.Name()
		}
	case *ast.SelectorExpr:
		if cobj, ok := info.Uses[x.Sel].(*types.Const); ok {
			return cobj.Name()
		}
	case *ast.ParenExpr:
		return constName(info, x.X)
	}
	return ""
}

// constsOf lists the package-level constants of a named type (name -> value).
func constsOf(n *types.Named) map[string]constant.Value {
	out := map[string]constant.Value{}
	sc := n.Obj().Pkg().Scope()
	for _, name := range sc.Names() {
		if cobj, ok := sc.Lookup(name).(*types.Const); ok && types.Identical(cobj.Type(), n) {
			out[name] = cobj.Val()
		}
	}
	return out
}

// mapLiteralKeys returns the constant keys of a package-level map literal variable.
func (c *Ctx) mapLiteralKeys(pkgShort, varName string) (map[string]ast.Expr, token.Pos) {
	pk := c.P.Pkg(pkgShort)
	if pk == nil {
		return nil, token.NoPos
	}
	for _, f := range pk.Syntax {
		for _, d := range f.Decls {
			gd, ok := d.(*ast.GenDecl)
			if !ok || gd.Tok != token.VAR {
				continue
			}
			for _, sp := range gd.Specs {
				vs := sp.(*ast.ValueSpec)
				for i, nm := range vs.Names {
					if nm.Name != varName || i >= len(vs.Values) {
						continue
					}
					cl, ok := vs.Values[i].(*ast.CompositeLit)
					if !ok {
						return nil, nm.Pos()
					}
					out := map[string]ast.Expr{}
					for _, el := range cl.Elts {
						kv, ok := el.(*ast.KeyValueExpr)
						if !ok {
							continue
						}
						name := constName(pk.TypesInfo, kv.Key)
						if name == "" {
							if tv := pk.TypesInfo.Types[kv.Key]; tv.Value != nil {
								name = tv.Value.ExactString()
							}
						}
						out[name] = kv.Value
					}
					return out, nm.Pos()
				}
			}
		}
	}
	return nil, token.NoPos
}

// ---- factory universes -------------------------------------------------------

// returnedTypes: the concrete named types a function may return in result index ri
// (through MakeInterface, phis, and calls to module functions returning the same result type).
func (c *Ctx) returnedTypes(fn *ssa.Function, ri int) map[*types.Named]bool {
	out := map[*types.Named]bool{}
	seenFn := map[*ssa.Function]bool{}
	var fromValue func(v ssa.Value, d int)
	var fromFn func(f *ssa.Function, ri int, d int)
	seenV := map[ssa.Value]bool{}
	fromValue = func(v ssa.Value, d int) {
		if v == nil || seenV[v] || d > 12 {
			return
		}
		seenV[v] = true
		switch x := v.(type) {
		case *ssa.MakeInterface:
			if n := ir.NamedOf(x.X.Type()); n != nil {
				out[n] = true
			}
		case *ssa.Phi:
			for _, e := range x.Edges {
				fromValue(e, d+1)
			}
		case *ssa.ChangeInterface:
			fromValue(x.X, d+1)
		case *ssa.Extract:
			if call, ok := x.Tuple.(*ssa.Call); ok {
				for _, callee := range c.P.Callees(call) {
					if c.P.InModule(callee) {
						fromFn(callee, x.Index, d+1)
					}
				}
			}
		case *ssa.Call:
			for _, callee := range c.P.Callees(x) {
				if c.P.InModule(callee) {
					fromFn(callee, 0, d+1)
				}
			}
		case *ssa.UnOp:
			// load of a local variable: follow its stores
			if al, ok := x.X.(*ssa.Alloc); ok {
				for _, ref := range *al.Referrers() {
					if st, ok := ref.(*ssa.Store); ok && st.Addr == al {
						fromValue(st.Val, d+1)
					}
				}
			}
		case *ssa.Alloc, *ssa.Const:
		default:
			if n := ir.NamedOf(v.Type()); n != nil {
				if _, isIface := n.Underlying().(*types.Interface); !isIface {
					out[n] = true
				}
			}
		}
	}
	fromFn = func(f *ssa.Function, ri int, d int) {
		if seenFn[f] && d > 0 {
			return
		}
		seenFn[f] = true
		for _, b := range f.Blocks {
			if ret, ok := b.Instrs[len(b.Instrs)-1].(*ssa.Return); ok && ri < len(ret.Results) {
				fromValue(ret.Results[ri], d)
			}
		}
		// named results spilled through an Alloc are read back by a load handled in fromValue
	}
	fromFn(fn, ri, 0)
	return out
}

// implementers: named non-interface types of the package implementing the interface.
func implementers(pk *types.Package, it *types.Interface) []*types.Named {
	var out []*types.Named
	sc := pk.Scope()
	for _, n := range sc.Names() {
		tn, ok := sc.Lookup(n).(*types.TypeName)
		if !ok || tn.IsAlias() {
			continue
		}
		named, ok := tn.Type().(*types.Named)
		if !ok {
			continue
		}
		if _, isIface := named.Underlying().(*types.Interface); isIface {
			continue
		}
		if types.Implements(types.NewPointer(named), it) || types.Implements(named, it) {
			out = append(out, named)
		}
	}
	return out
}

// ruleFactoryComplete: every implementer of the factory's result interface that is declared in
// the package is one of the types the factory can return (else the decoder can never produce it
// and a round trip changes the type), modulo reviewed exceptions.
func (c *Ctx) ruleFactoryComplete(rule, factoryKey string, ri int, ifaceName string, except map[string]string, min int) map[*types.Named]bool {
	r := c.R
	r.Rule(rule, "decoder factory completeness: every concrete type of the package that implements the factory's result interface can be returned by the factory (collected from SSA returns through callees); a type the factory cannot produce never survives a round trip", min)
	fn := c.P.Func(factoryKey)
	if fn == nil {
		r.Undec(rule, factoryKey, "anchor", "-", "factory function not found")
		return nil
	}
	pk := ir.PkgOf(fn)
	o := pk.Scope().Lookup(ifaceName)
	if o == nil {
		r.Undec(rule, factoryKey, "anchor:"+ifaceName, "-", "interface not found")
		return nil
	}
	it, ok := o.Type().Underlying().(*types.Interface)
	if !ok {
		r.Undec(rule, factoryKey, "anchor:"+ifaceName, "-", "not an interface")
		return nil
	}
	ret := c.returnedTypes(fn, ri)
	for _, n := range implementers(pk, it) {
		name := n.Obj().Name()
		pos := c.P.Pos(n.Obj().Pos())
		if ret[n] {
			r.Ok(rule, factoryKey, name, pos, "returned by the factory")
			continue
		}
		if why, ok := except[name]; ok {
			r.Except(rule, factoryKey, name, pos, why)
			continue
		}
		r.Bad(rule, factoryKey, name, pos, fmt.Sprintf("type implements %s but %s can never return it: the decoder has no row for it", ifaceName, factoryKey))
	}
	return ret
}

// ruleTypeSwitchCovers: a type switch in fn over values of interface ifaceT covers the universe
// (or ends in a default that does not drop the value).
func (c *Ctx) typeSwitchCases(fn *ssa.Function, match func(tagType types.Type) bool) []map[*types.Named]bool {
	sets, _, _ := c.typeSwitchCasesT(fn, match)
	return sets
}

// typeSwitchCasesT also returns, per switch, the static type of the switched expression and its position.
func (c *Ctx) typeSwitchCasesT(fn *ssa.Function, match func(tagType types.Type) bool) ([]map[*types.Named]bool, []types.Type, []token.Pos) {
	var tags []types.Type
	var poss []token.Pos
	sets := c.typeSwitchCases0(fn, match, &tags, &poss)
	return sets, tags, poss
}

func (c *Ctx) typeSwitchCases0(fn *ssa.Function, match func(tagType types.Type) bool, tags *[]types.Type, poss *[]token.Pos) []map[*types.Named]bool {
	info := c.infoFor(fn)
	body := funcBody(fn)
	if info == nil || body == nil {
		return nil
	}
	var out []map[*types.Named]bool
	ast.Inspect(body, func(n ast.Node) bool {
		ts, ok := n.(*ast.TypeSwitchStmt)
		if !ok {
			return true
		}
		var x ast.Expr
		switch a := ts.Assign.(type) {
		case *ast.AssignStmt:
			x = a.Rhs[0].(*ast.TypeAssertExpr).X
		case *ast.ExprStmt:
			x = a.X.(*ast.TypeAssertExpr).X
		}
		if x == nil || !match(info.TypeOf(x)) {
			return true
		}
		set := map[*types.Named]bool{}
		for _, st := range ts.Body.List {
			cc := st.(*ast.CaseClause)
			if cc.List == nil {
				set[nil] = true // default
				continue
			}
			for _, e := range cc.List {
				if n := ir.NamedOf(info.TypeOf(e)); n != nil {
					set[n] = true
				}
			}
		}
		out = append(out, set)
		if tags != nil {
			*tags = append(*tags, info.TypeOf(x))
			*poss = append(*poss, ts.Pos())
		}
		return true
	})
	return out
}

func sortedNames(m map[*types.Named]bool) []string {
	var out []string
	for n := range m {
		if n != nil {
			out = append(out, n.Obj().Name())
		}
	}
	sort.Strings(out)
	return out
}

func joinShort(ss []string, max int) string {
	if len(ss) > max {
		return strings.Join(ss[:max], ", ") + fmt.Sprintf(", … (%d)", len(ss))
	}
	return strings.Join(ss, ", ")
}

func constInt(v constant.Value) (int64, bool) {
	if v == nil || v.Kind() != constant.Int {
		return 0, false
	}
	return constant.Int64Val(v)
}

// switchesOn returns value switches in body whose tag type satisfies pred.
func switchesOn(body *ast.BlockStmt, info *types.Info, pred func(types.Type) bool) []*switchInfo {
	var out []*switchInfo
	ast.Inspect(body, func(n ast.Node) bool {
		sw, ok := n.(*ast.SwitchStmt)
		if !ok || sw.Tag == nil {
			return true
		}
		tt := info.TypeOf(sw.Tag)
		if tt == nil || !pred(tt) {
			return true
		}
		si := &switchInfo{Stmt: sw, TagType: tt, Cases: map[string]*ast.CaseClause{}, Values: map[string]constant.Value{}}
		for _, st := range sw.Body.List {
			cc := st.(*ast.CaseClause)
			if cc.List == nil {
				si.HasDefault = true
				si.Default = cc
				continue
			}
			for _, e := range cc.List {
				name := constName(info, e)
				if name == "" {
					if tv := info.Types[e]; tv.Value != nil {
						name = tv.Value.ExactString()
					}
				}
				si.Cases[name] = cc
			}
		}
		out = append(out, si)
		return true
	})
	return out
}

// mentionsConst: the node uses the named constant.
func mentionsConst(n ast.Node, info *types.Info, name string) bool {
	found := false
	ast.Inspect(n, func(x ast.Node) bool {
		if id, ok := x.(*ast.Ident); ok {
			if cobj, ok := info.Uses[id].(*types.Const); ok && cobj.Name() == name {
				found = true
			}
		}
		return !found
	})
	return found
}

// decodeInterfaceUniverse: for every interface type of the package, the concrete types that
// decode-side code converts to it (MakeInterface in functions reachable from the parse entry
// points). This is the exact set of types a decoded value of that interface type can have.
func (c *Ctx) decodeInterfaceUniverse(short string) map[*types.Named]map[*types.Named]bool {
	out := map[*types.Named]map[*types.Named]bool{}
	var roots []*ssa.Function
	for _, k := range decodeEntryPoints {
		if strings.Contains(k, short+".") {
			if fn := c.P.Func(k); fn != nil {
				roots = append(roots, fn)
			}
		}
	}
	for fn := range c.reachableFrom(roots) {
		for _, b := range fn.Blocks {
			for _, in := range b.Instrs {
				mi, ok := in.(*ssa.MakeInterface)
				if !ok {
					continue
				}
				it, ok := mi.Type().(*types.Named)
				if !ok {
					continue
				}
				n := ir.NamedOf(mi.X.Type())
				if n == nil {
					continue
				}
				if out[it] == nil {
					out[it] = map[*types.Named]bool{}
				}
				out[it][n] = true
			}
		}
	}
	return out
}

// withHelpers: fn, its closures and the functions of the same package they call statically, to the given depth.
// Rules that look for a construct "in fn" use it so that extracting the construct into a helper changes nothing.
func (c *Ctx) withHelpers(fn *ssa.Function, depth int) []*ssa.Function {
	seen := map[*ssa.Function]bool{}
	var out []*ssa.Function
	var add func(f *ssa.Function, d int)
	add = func(f *ssa.Function, d int) {
		if f == nil || seen[f] || f.Blocks == nil {
			return
		}
		seen[f] = true
		out = append(out, f)
		for _, an := range f.AnonFuncs {
			add(an, d)
		}
		if d == 0 {
			return
		}
		for _, b := range f.Blocks {
			for _, in := range b.Instrs {
				if ci, ok := in.(ssa.CallInstruction); ok {
					if cal := ci.Common().StaticCallee(); cal != nil && cal.Pkg != nil && cal.Pkg == ir.Outer(fn).Pkg {
						add(cal, d-1)
					}
				}
			}
		}
	}
	add(fn, depth)
	return out
}

// funcValue: the function a value denotes when that is evident: a function, a closure, a bound method (unwrapped to
// the method), or a load of a local variable that was assigned such a value exactly once.
func funcValue(v ssa.Value) *ssa.Function {
	switch x := v.(type) {
	case *ssa.Function:
		return ir.Unwrap(x)
	case *ssa.MakeClosure:
		if f, ok := x.Fn.(*ssa.Function); ok {
			return ir.Unwrap(f)
		}
	case *ssa.UnOp:
		if x.Op != token.MUL {
			return nil
		}
		cell := x.X
		if fv, ok := cell.(*ssa.FreeVar); ok {
			cell = cellOfFreeVar(fv)
		}
		al, ok := cell.(*ssa.Alloc)
		if !ok || al.Referrers() == nil {
			return nil
		}
		var only *ssa.Function
		for _, ref := range *al.Referrers() {
			if st, ok := ref.(*ssa.Store); ok && st.Addr == ssa.Value(al) {
				f := funcValue(st.Val)
				if f == nil || (only != nil && only != f) {
					return nil
				}
				only = f
			}
		}
		return only
	case *ssa.ChangeType:
		return funcValue(x.X)
	}
	return nil
}

// calleeOf: the function a call invokes when that is evident (static callee, closure, variable holding a closure).
func calleeOf(call *ssa.CallCommon) *ssa.Function {
	if call.IsInvoke() {
		return nil
	}
	if f := call.StaticCallee(); f != nil {
		return ir.Unwrap(f)
	}
	return funcValue(call.Value)
}

// callsNamed: fn (with closures) calls a function of that name, directly or through module functions to the depth.
func (c *Ctx) callsNamed(fn *ssa.Function, name string, depth int) bool {
	seen := map[*ssa.Function]bool{}
	var walk func(f *ssa.Function, d int) bool
	walk = func(f *ssa.Function, d int) bool {
		if f == nil || seen[f] || f.Blocks == nil {
			return false
		}
		seen[f] = true
		for _, b := range f.Blocks {
			for _, in := range b.Instrs {
				ci, ok := in.(ssa.CallInstruction)
				if !ok {
					continue
				}
				cal := calleeOf(ci.Common())
				if cal == nil {
					continue
				}
				if cal.Name() == name {
					return true
				}
				if d > 0 && c.P.InModule(cal) && walk(cal, d-1) {
					return true
				}
			}
		}
		for _, an := range f.AnonFuncs {
			if walk(an, d) {
				return true
			}
		}
		return false
	}
	return walk(fn, depth)
}

// withPrivateHelpers: fn, its closures, and the functions of the same package that only this family calls
// (the shape an "extract function" refactoring produces), to the given depth.
func (c *Ctx) withPrivateHelpers(fn *ssa.Function, depth int) []*ssa.Function {
	fam := map[*ssa.Function]bool{}
	var out []*ssa.Function
	var addClosures func(f *ssa.Function)
	addClosures = func(f *ssa.Function) {
		if fam[f] {
			return
		}
		fam[f] = true
		out = append(out, f)
		for _, an := range f.AnonFuncs {
			addClosures(an)
		}
	}
	addClosures(fn)
	for d := 0; d < depth; d++ {
		var cands []*ssa.Function
		for _, f := range out {
			for _, b := range f.Blocks {
				for _, in := range b.Instrs {
					if ci, ok := in.(ssa.CallInstruction); ok {
						if cal := ci.Common().StaticCallee(); cal != nil && !fam[cal] && cal.Blocks != nil && cal.Parent() == nil && cal.Pkg != nil && cal.Pkg == ir.Outer(fn).Pkg {
							cands = append(cands, cal)
						}
					}
				}
			}
		}
		for _, cal := range cands {
			private := true
			for _, e := range c.P.Callers(cal) {
				if !fam[ir.Outer(e.Caller.Func)] && !fam[e.Caller.Func] {
					private = false
				}
			}
			if private {
				addClosures(cal)
			}
		}
	}
	return out
}

// familyKey: if fn is one of the named functions, a closure of one, or a private helper of one (a function of the same
// package that only that family calls — what "extract function" produces), the name of that function; else "".
func (c *Ctx) familyKey(fn *ssa.Function, keys []string) string {
	ok := ir.OuterKey(fn)
	for _, k := range keys {
		if k == ok {
			return k
		}
	}
	if c.famMemo == nil {
		c.famMemo = map[string]map[*ssa.Function]bool{}
	}
	for _, k := range keys {
		fam, done := c.famMemo[k]
		if !done {
			fam = map[*ssa.Function]bool{}
			if root := c.P.Func(k); root != nil {
				for _, f := range c.withPrivateHelpers(root, 2) {
					fam[f] = true
				}
			}
			c.famMemo[k] = fam
		}
		if fam[fn] || fam[ir.Outer(fn)] {
			return k
		}
	}
	return ""
}
