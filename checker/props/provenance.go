package props

import (
	"encoding/json"
	"fmt"
	"os"
	"path/filepath"
	"sort"
	"strings"

	"go/token"
	"go/types"
	"golang.org/x/tools/go/ssa"

	"gbverif/ir"
)

// pvSig: for every callee a function body (closures excluded) calls exactly once, where each argument comes from.
type pvSig struct {
	Func  string              `json:"func"`
	File  string              `json:"file"`
	Sites map[string][]string `json:"sites"`
}

// provOf: where v comes from, as far as that is a matter of the function's shape: a parameter (the k-th of its type),
// the result of a call, a field of such a thing, or the merge of several of these (a variable assigned on several
// paths, a value carried round a loop).
func provOf(fn *ssa.Function, v ssa.Value, depth int, seen map[*ssa.Phi]bool) string {
	if depth > 6 {
		return "other"
	}
	switch x := v.(type) {
	case *ssa.Parameter:
		k := 0
		for _, p := range fn.Params {
			if p == x {
				break
			}
			if types.Identical(p.Type(), x.Type()) {
				k++
			}
		}
		return fmt.Sprintf("param:%s#%d", ir.Short(x.Type().String()), k)
	case *ssa.Convert:
		return provOf(fn, x.X, depth+1, seen)
	case *ssa.ChangeType:
		return provOf(fn, x.X, depth+1, seen)
	case *ssa.MakeInterface:
		return provOf(fn, x.X, depth+1, seen)
	case *ssa.ChangeInterface:
		return provOf(fn, x.X, depth+1, seen)
	case *ssa.Phi:
		if seen[x] {
			return "self"
		}
		seen[x] = true
		set := map[string]bool{}
		for _, e := range x.Edges {
			p := provOf(fn, e, depth+1, seen)
			if p == "self" {
				continue
			}
			if strings.HasPrefix(p, "phi{") {
				for _, q := range strings.Split(strings.TrimSuffix(strings.TrimPrefix(p, "phi{"), "}"), ",") {
					set[q] = true
				}
				continue
			}
			set[p] = true
		}
		delete(seen, x)
		var l []string
		for k := range set {
			l = append(l, k)
		}
		sort.Strings(l)
		if len(l) == 1 {
			return l[0]
		}
		return "phi{" + strings.Join(l, ",") + "}"
	case *ssa.Extract:
		if call, ok := x.Tuple.(*ssa.Call); ok {
			if cal := calleeOf(call.Common()); cal != nil {
				return fmt.Sprintf("ret:%s#%d", stripTypeArgs(ir.FuncKey(cal)), x.Index)
			}
		}
		return "other"
	case *ssa.Call:
		if cal := calleeOf(x.Common()); cal != nil {
			return "ret:" + stripTypeArgs(ir.FuncKey(cal))
		}
		return "other"
	case *ssa.Const:
		return "const"
	case *ssa.UnOp:
		if x.Op == token.MUL {
			if fa, ok := x.X.(*ssa.FieldAddr); ok {
				if n := ir.NamedOf(ir.Deref(fa.X.Type())); n != nil {
					return "field:" + qualTypeName(n) + "." + fieldOfName(fa) + "@" + provOf(fn, fa.X, depth+1, seen)
				}
			}
		}
		return "other"
	}
	return "other"
}

func (c *Ctx) pvSites(fn *ssa.Function) map[string][]string {
	count := map[string]int{}
	site := map[string]*ssa.CallCommon{}
	for _, b := range fn.Blocks {
		for _, in := range b.Instrs {
			ci, ok := in.(ssa.CallInstruction)
			if !ok {
				continue
			}
			k := calleeName(c, ci.Common())
			if k == "" || k == "clone" {
				continue
			}
			count[k]++
			site[k] = ci.Common()
		}
	}
	out := map[string][]string{}
	for k, n := range count {
		if n != 1 {
			continue
		}
		call := site[k]
		var ps []string
		if call.IsInvoke() {
			ps = append(ps, provOf(fn, call.Value, 0, map[*ssa.Phi]bool{}))
		}
		for _, a := range call.Args {
			ps = append(ps, provOf(fn, a, 0, map[*ssa.Phi]bool{}))
		}
		out[k] = ps
	}
	return out
}

func (c *Ctx) pvSigs(pkgs []string) []pvSig {
	var out []pvSig
	for _, fn := range c.P.FuncsIn(pkgs...) {
		if fn.Parent() != nil || fn.Blocks == nil || fn.Synthetic != "" {
			continue
		}
		s := c.pvSites(fn)
		if len(s) == 0 {
			continue
		}
		out = append(out, pvSig{Func: ir.FuncKey(fn), File: strings.TrimPrefix(c.P.Fset.Position(fn.Pos()).Filename, c.P.Dir+"/"), Sites: s})
	}
	sort.Slice(out, func(i, j int) bool { return out[i].Func < out[j].Func })
	return out
}

func phiMembers(p string) []string {
	if !strings.HasPrefix(p, "phi{") {
		return nil
	}
	return strings.Split(strings.TrimSuffix(strings.TrimPrefix(p, "phi{"), "}"), ",")
}

// ruleProvenanceRatchet: the one call of a callee still receives the variable it received.
func (c *Ctx) ruleProvenanceRatchet(rule string, pkgs []string, fileFilter func(string) bool, baselineFile string, min int) {
	r := c.R
	r.Rule(rule, "wrong-variable ratchet: the committed baseline records, for every callee a function body calls exactly once, where each argument (receiver included) comes from: which parameter (the k-th of its type), the result of which call, which field of those, or the merge of several of them (a variable assigned on several paths or carried round a loop). Judged are only the two exchanges that no behaviour-preserving edit produces: an argument that was one parameter and is now another parameter of the same type (path for old), and an argument that was the merge of a parameter with a call's result — the running value of an accumulation, fed back round the loop — and is now that parameter alone, so that every round starts from the original again. Anything else (a new helper, a getter for a field, a reshaped function) is not compared", min)
	var base []pvSig
	b, err := os.ReadFile(filepath.Join(homeDir(), baselineFile))
	if err != nil || json.Unmarshal(b, &base) != nil {
		r.Undec(rule, "-", "baseline:"+baselineFile, "-", "baseline file missing or unreadable")
		return
	}
	for _, bs := range base {
		inPkgs := false
		for _, pk := range pkgs {
			if strings.Contains(bs.Func, pk+".") {
				inPkgs = true
			}
		}
		if !inPkgs || (fileFilter != nil && !fileFilter(bs.File)) {
			continue
		}
		fn := c.P.Func(bs.Func)
		cons := fmt.Sprintf("%d single call sites", len(bs.Sites))
		if fn == nil || fn.Blocks == nil {
			r.Add(oblT(rule, bs.Func, cons, bs.File, "ok", "the function no longer exists: not decided", nil, true))
			continue
		}
		now := c.pvSites(fn)
		// the parameter list itself changed: positions of parameters are not comparable
		var bad []string
		keys := make([]string, 0, len(bs.Sites))
		for k := range bs.Sites {
			keys = append(keys, k)
		}
		sort.Strings(keys)
		for _, k := range keys {
			old := bs.Sites[k]
			cur, ok := now[k]
			if !ok || len(cur) != len(old) {
				continue
			}
			for i := range old {
				o, n := old[i], cur[i]
				if o == n {
					continue
				}
				switch {
				case strings.HasPrefix(o, "param:") && strings.HasPrefix(n, "param:") && o[:strings.LastIndex(o, "#")] == n[:strings.LastIndex(n, "#")]:
					// another parameter of the same type — unless the other arguments were permuted with it (the callee's parameters reordered)
					swapped := false
					for j := range old {
						if j != i && old[j] == n && cur[j] == o {
							swapped = true
						}
					}
					if !swapped {
						bad = append(bad, fmt.Sprintf("%s argument %d: was %s, is %s", k, i, o, n))
					}
				case strings.HasPrefix(n, "param:") && phiMembers(o) != nil:
					ms := phiMembers(o)
					hasParam, hasRet, onlyThese := false, false, true
					for _, m := range ms {
						switch {
						case m == n:
							hasParam = true
						case strings.HasPrefix(m, "ret:"):
							hasRet = true
						default:
							onlyThese = false
						}
					}
					if hasParam && hasRet && onlyThese {
						bad = append(bad, fmt.Sprintf("%s argument %d: was the running value %s, is %s alone", k, i, o, n))
					}
				}
			}
		}
		if len(bad) == 0 {
			r.Ok(rule, bs.Func, cons, bs.File, "no argument of a single call site changed to another parameter")
		} else {
			r.Bad(rule, bs.Func, cons, bs.File, "a call receives another variable than on the reviewed tree — "+strings.Join(bad, "; "))
		}
	}
}
