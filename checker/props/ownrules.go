package props

import (
	"fmt"
	"go/types"
	"sort"
	"strings"

	"golang.org/x/tools/go/ssa"

	"gbverif/ir"
	"gbverif/own"
)

func (c *Ctx) ownEng() *own.Eng {
	if c.oe == nil {
		if e := sharedOE[c.P]; e != nil {
			c.oe = e
		} else {
			c.oe = own.New(c.P)
			sharedOE[c.P] = c.oe
		}
	}
	return c.oe
}

// readOnlyMethodNames: method names of the interfaces declared in a package, minus decoders.
func readOnlyMethodNames(pk *types.Package) map[string]bool {
	out := map[string]bool{}
	sc := pk.Scope()
	for _, n := range sc.Names() {
		tn, ok := sc.Lookup(n).(*types.TypeName)
		if !ok {
			continue
		}
		it, ok := tn.Type().Underlying().(*types.Interface)
		if !ok {
			continue
		}
		for i := 0; i < it.NumMethods(); i++ {
			m := it.Method(i).Name()
			lm := strings.ToLower(m)
			if strings.HasPrefix(lm, "decode") || strings.HasPrefix(lm, "parse") || strings.HasPrefix(lm, "set") || strings.HasPrefix(lm, "unmarshal") {
				continue
			}
			out[m] = true
		}
	}
	return out
}

// pathStoredTypes: the named types of pkg/packet/bgp whose values can be stored in a
// table.Path: implementers of the attribute and NLRI interfaces, closed under field
// types (struct fields, elements, and implementers of bgp interfaces used as fields).
func (c *Ctx) pathStoredTypes(extraRoots ...string) map[*types.Named]bool {
	pk := c.P.Pkg("pkg/packet/bgp")
	out := map[*types.Named]bool{}
	if pk == nil {
		return out
	}
	sc := pk.Types.Scope()
	var all []*types.Named
	for _, n := range sc.Names() {
		if tn, ok := sc.Lookup(n).(*types.TypeName); ok && !tn.IsAlias() {
			if named, ok := tn.Type().(*types.Named); ok {
				if _, isIface := named.Underlying().(*types.Interface); !isIface {
					all = append(all, named)
				}
			}
		}
	}
	impl := func(it *types.Interface) []*types.Named {
		var r []*types.Named
		if it.NumMethods() == 0 {
			return nil
		}
		for _, n := range all {
			if types.Implements(types.NewPointer(n), it) || types.Implements(n, it) {
				r = append(r, n)
			}
		}
		return r
	}
	var work []*types.Named
	add := func(n *types.Named) {
		if n != nil && !out[n] && n.Obj().Pkg() == pk.Types {
			out[n] = true
			work = append(work, n)
		}
	}
	for _, root := range []string{"PathAttributeInterface", "NLRI"} {
		o := sc.Lookup(root)
		if o == nil {
			c.R.Undec("E2d.universe", "-", "anchor:"+root, "-", "interface not found")
			continue
		}
		for _, n := range impl(o.Type().Underlying().(*types.Interface)) {
			add(n)
		}
	}
	// further roots: struct types that are shared between goroutines although no path stores them (the received
	// OPEN: fsm.recvOpen is read by the management context, handed to watchers and serialised by the BMP goroutine)
	for _, root := range extraRoots {
		if o, ok := sc.Lookup(root).(*types.TypeName); ok {
			if n, ok := o.Type().(*types.Named); ok {
				add(n)
				continue
			}
		}
		c.R.Undec("E2d.universe", "-", "anchor:"+root, "-", "type not found")
	}
	var visit func(t types.Type, d int)
	visit = func(t types.Type, d int) {
		if d > 6 {
			return
		}
		switch u := t.(type) {
		case *types.Named:
			if it, ok := u.Underlying().(*types.Interface); ok {
				if u.Obj().Pkg() == pk.Types {
					for _, n := range impl(it) {
						add(n)
					}
				}
				return
			}
			add(u)
		case *types.Pointer:
			visit(u.Elem(), d+1)
		case *types.Slice:
			visit(u.Elem(), d+1)
		case *types.Array:
			visit(u.Elem(), d+1)
		case *types.Map:
			visit(u.Elem(), d+1)
			visit(u.Key(), d+1)
		case *types.Alias:
			visit(types.Unalias(u), d+1)
		}
	}
	for len(work) > 0 {
		n := work[0]
		work = work[1:]
		if st, ok := n.Underlying().(*types.Struct); ok {
			for i := 0; i < st.NumFields(); i++ {
				visit(st.Field(i).Type(), 0)
			}
		} else {
			visit(n.Underlying(), 0)
		}
	}
	return out
}

// rulePurity (E2d): read-only methods of codec objects do not write through their receiver.
func (c *Ctx) rulePurity(rule string, pkgs []string, min int, extraRoots ...string) {
	universe := c.pathStoredTypes(extraRoots...)
	c.R.Extra["E2d_universe_types"] = len(universe)
	r := c.R
	e := c.ownEng()
	r.Rule(rule, "read-only methods (the non-decoding methods of the package's interfaces: Serialize, Len, String, MarshalJSON, Flat, GetType, …) of every named type perform no store, map update, append-in-place, copy or in-place library mutation on memory reachable from their receiver, transitively through callees", min)
	for _, short := range pkgs {
		pk := c.P.Pkg(short)
		if pk == nil {
			r.Undec(rule, "-", "anchor:"+short, "-", "package not found")
			continue
		}
		roots := map[string]own.Sink{}
		affected := map[string][]string{}
		names := readOnlyMethodNames(pk.Types)
		names["String"], names["MarshalJSON"], names["Len"], names["Serialize"] = true, true, true, true
		sc := pk.Types.Scope()
		for round := 0; round < 2; round++ {
			for _, n := range sc.Names() {
				tn, ok := sc.Lookup(n).(*types.TypeName)
				if !ok || tn.IsAlias() {
					continue
				}
				named, ok := tn.Type().(*types.Named)
				if !ok {
					continue
				}
				if _, isIface := named.Underlying().(*types.Interface); isIface {
					continue
				}
				if !universe[named] {
					continue
				}
				ms := types.NewMethodSet(types.NewPointer(named))
				for i := 0; i < ms.Len(); i++ {
					sel := ms.At(i)
					if !names[sel.Obj().Name()] {
						continue
					}
					if len(sel.Index()) > 1 {
						continue // promoted: checked on the embedded type
					}
					fn := c.P.SSA.FuncValue(sel.Obj().(*types.Func))
					if fn == nil || fn.Blocks == nil {
						continue
					}
					sinks := own.Dedup(c.P, e.WritesParam(fn, 0))
					if round == 0 {
						continue
					}
					fk := ir.FuncKey(fn)
					if len(sinks) == 0 {
						r.Ok(rule, fk, "receiver", c.P.Pos(fn.Pos()), "no write reachable from the receiver")
						continue
					}
					for _, s := range sinks {
						o := s.Origin()
						cons := "writes " + o.Field
						if o.Field == "" {
							cons = "writes (" + o.Kind + ")"
						}
						rk := ir.FuncKey(o.Fn) + "|" + cons
						affected[rk] = append(affected[rk], fk)
						if _, seen := roots[rk]; !seen {
							roots[rk] = o
						}
					}
				}
			}
			if round == 0 {
				e.ResetDone()
			}
		}
		var rks []string
		for k := range roots {
			rks = append(rks, k)
		}
		sort.Strings(rks)
		for _, k := range rks {
			o := roots[k]
			af := affected[k]
			sort.Strings(af)
			n := len(af)
			if len(af) > 6 {
				af = af[:6]
			}
			parts := strings.SplitN(k, "|", 2)
			r.Add(obl(rule, parts[0], parts[1], c.P.InstrPos(o.Instr), "violation",
				fmt.Sprintf("a read-only method writes the object it is called on (%s): attribute/NLRI objects are shared between the RIB and every peer's sender goroutine; %d read-only methods reach this write, e.g. %v", o.Kind, n, af), nil))
		}
	}
}

// decodeEntryPoints are the parse entry points of the codec packages.
var decodeEntryPoints = []string{
	"pkg/packet/bgp.ParseBGPMessage", "pkg/packet/bgp.ParseBGPBody", "pkg/packet/bgp.GetPathAttribute", "pkg/packet/bgp.NLRIFromSlice",
	"pkg/packet/bgp.DecodeCapability", "pkg/packet/bgp.ParseExtended", "pkg/packet/bgp.ParseRouteDistinguisher",
	"pkg/packet/mrt.ParseHeader", "pkg/packet/mrt.ParseBody", "pkg/packet/mrt.SplitMrt",
	"pkg/packet/bmp.ParseBMPMessage", "pkg/packet/bmp.ParseBMPMessageWithOptions", "pkg/packet/bmp.SplitBMP",
	"pkg/packet/rtr.ParseRTR", "pkg/packet/rtr.SplitRTR",
	"(*pkg/packet/bfd.BFDHeader).UnmarshalBinary", "(*pkg/packet/bfd.BFDControlPacket).UnmarshalBinary",
	"pkg/zebra.ReceiveSingleMsg", "(*pkg/zebra.Header).decodeFromBytes", "(*pkg/zebra.Message).parseMessage",
}

// reachableFrom: functions reachable over static + VTA call edges, restricted to the module.
func (c *Ctx) reachableFrom(roots []*ssa.Function) map[*ssa.Function]bool {
	seen := map[*ssa.Function]bool{}
	work := append([]*ssa.Function{}, roots...)
	for _, f := range roots {
		seen[f] = true
	}
	for len(work) > 0 {
		f := work[0]
		work = work[1:]
		var visit func(fn *ssa.Function)
		visit = func(fn *ssa.Function) {
			for _, b := range fn.Blocks {
				for _, in := range b.Instrs {
					ci, ok := in.(ssa.CallInstruction)
					if !ok {
						continue
					}
					for _, callee := range c.P.Callees(ci) {
						if !seen[callee] && c.P.InModule(callee) && callee.Blocks != nil {
							seen[callee] = true
							work = append(work, callee)
						}
					}
				}
			}
			for _, an := range fn.AnonFuncs {
				if !seen[an] {
					seen[an] = true
					work = append(work, an)
				}
			}
		}
		visit(f)
	}
	return seen
}

func isByteSlice(t types.Type) bool {
	s, ok := t.Underlying().(*types.Slice)
	if !ok {
		return false
	}
	b, ok := s.Elem().Underlying().(*types.Basic)
	return ok && b.Kind() == types.Uint8
}

// ruleInputImmutable (E2c): decoders never write the buffer they are given, and fields
// that retain a sub-slice of the input are never written through either.
func (c *Ctx) ruleInputImmutable(rule string, pkgPrefix []string, min int) {
	r := c.R
	e := c.ownEng()
	r.Rule(rule, "no function on the decode side (reachable from the parse entry points) writes, copies into, appends in place to or mutates a []byte parameter or anything derived from it", min)
	rmin := 5
	if min < 60 {
		rmin = 0
	}
	r.Rule(rule+".retained", "fields of decoded objects that retain a sub-slice of the input are not written through by any function of the module", rmin)
	var roots []*ssa.Function
	for _, k := range decodeEntryPoints {
		ok := false
		for _, pfx := range pkgPrefix {
			if strings.Contains(k, pfx+".") {
				ok = true
			}
		}
		if !ok {
			continue
		}
		fn := c.P.Func(k)
		if fn == nil {
			// optional entry points are skipped silently only if the package has others; report missing anchors
			r.Add(oblT(rule, k, "anchor", "-", "ok", "entry point not present in this tree (optional)", nil, true))
			continue
		}
		roots = append(roots, fn)
	}
	if len(roots) == 0 {
		r.Undec(rule, "-", "anchor:entry-points", "-", "no parse entry point found")
		return
	}
	reach := c.reachableFrom(roots)
	var fns []*ssa.Function
	for fn := range reach {
		pk := ir.PkgOf(fn)
		if pk == nil {
			continue
		}
		in := false
		for _, pfx := range pkgPrefix {
			if pk.Path() == ir.ModPath+"/"+pfx {
				in = true
			}
		}
		if in {
			fns = append(fns, fn)
		}
	}
	sort.Slice(fns, func(i, j int) bool { return fns[i].String() < fns[j].String() })
	retained := map[*types.Var]types.Type{}
	for round := 0; round < 2; round++ {
		for _, fn := range fns {
			for i, prm := range fn.Params {
				if !isByteSlice(prm.Type()) {
					continue
				}
				sinks := own.Dedup(c.P, e.WritesParam(fn, i))
				if round == 0 {
					continue
				}
				for _, es := range e.Escapes(fn, i) {
					// only memory typed as bytes can be (part of) the input buffer: a []T field whose elements
					// merely hold such slices has its own backing array
					if es.Field != nil && canAliasBytes(es.Field.Type()) {
						retained[es.Field] = es.Base
					}
				}
				fk := ir.FuncKey(fn)
				if len(sinks) == 0 {
					r.Ok(rule, fk, "param "+prm.Name(), c.P.Pos(fn.Pos()), "input buffer not written")
					continue
				}
				for _, s := range sinks {
					r.Add(obl(rule, fk, "param "+prm.Name()+" "+s.Kind, c.P.InstrPos(s.Instr), "violation",
						"decoder writes the caller's buffer (or memory derived from it)", s.Path))
				}
			}
		}
		if round == 0 {
			e.ResetDone()
		}
	}
	// retained sub-slices
	c.retainedFields(rule+".retained", retained)
}

// canAliasBytes: a value of this type can point into a []byte's backing array.
func canAliasBytes(t types.Type) bool {
	switch u := t.Underlying().(type) {
	case *types.Slice:
		b, ok := u.Elem().Underlying().(*types.Basic)
		return ok && (b.Kind() == types.Uint8 || b.Kind() == types.Int8)
	case *types.Pointer:
		switch e := u.Elem().Underlying().(type) {
		case *types.Basic:
			return e.Kind() == types.Uint8 || e.Kind() == types.Int8
		case *types.Array:
			b, ok := e.Elem().Underlying().(*types.Basic)
			return ok && (b.Kind() == types.Uint8 || b.Kind() == types.Int8)
		}
	case *types.Interface:
		return true
	}
	return false
}

func (c *Ctx) retainedFields(rule string, retained map[*types.Var]types.Type) {
	r := c.R
	e := c.ownEng()
	var fields []*types.Var
	for f := range retained {
		fields = append(fields, f)
	}
	sort.Slice(fields, func(i, j int) bool { return fields[i].Pos() < fields[j].Pos() })
	for _, f := range fields {
		key := ir.TypeKey(retained[f]) + "." + f.Name()
		nload := 0
		bad := 0
		for _, fn := range c.P.Funcs {
			var loads []ssa.Value
			for _, b := range fn.Blocks {
				for _, in := range b.Instrs {
					u, ok := in.(*ssa.UnOp)
					if !ok {
						continue
					}
					fa, ok := u.X.(*ssa.FieldAddr)
					if !ok || ir.FieldOf(fa) != f {
						continue
					}
					if freshStoreDominates(fa, u) {
						continue
					}
					loads = append(loads, u)
				}
			}
			if len(loads) == 0 {
				continue
			}
			nload += len(loads)
			sinks, _ := e.AnalyzeShared(fn, loads)
			for _, s := range own.Dedup(c.P, sinks) {
				bad++
				r.Add(obl(rule, ir.FuncKey(fn), "writes through "+key+" ("+s.Kind+")", c.P.InstrPos(s.Instr), "violation",
					"this field retains a sub-slice of the decoder's input; writing through it modifies the caller's buffer", s.Path))
			}
		}
		if bad == 0 {
			r.Ok(rule, "-", key, c.P.Pos(f.Pos()), fmt.Sprintf("retains input; %d loads in the module, none written through", nload))
		}
	}
}

// freshStoreDominates: a store of a freshly made value to the same field of the same base
// dominates the load (the field no longer aliases the input there).
func freshStoreDominates(fa *ssa.FieldAddr, load *ssa.UnOp) bool {
	fn := load.Parent()
	for _, b := range fn.Blocks {
		for _, in := range b.Instrs {
			st, ok := in.(*ssa.Store)
			if !ok {
				continue
			}
			sfa, ok := st.Addr.(*ssa.FieldAddr)
			if !ok || sfa.X != fa.X || sfa.Field != fa.Field {
				continue
			}
			if !isFreshSlice(st.Val) {
				continue
			}
			if st.Block() == load.Block() {
				for _, i2 := range st.Block().Instrs {
					if i2 == ssa.Instruction(st) {
						return true
					}
					if i2 == ssa.Instruction(load) {
						break
					}
				}
			} else if st.Block().Dominates(load.Block()) {
				return true
			}
		}
	}
	return false
}

func isFreshSlice(v ssa.Value) bool {
	switch x := v.(type) {
	case *ssa.MakeSlice:
		return true
	case *ssa.Slice:
		if a, ok := x.X.(*ssa.Alloc); ok {
			return a.Heap || true
		}
	case *ssa.Call:
		if b, ok := x.Call.Value.(*ssa.Builtin); ok && b.Name() == "append" && len(x.Call.Args) > 0 {
			if c, ok := x.Call.Args[0].(*ssa.Const); ok && c.IsNil() {
				return true
			}
		}
	}
	return false
}
