package props

import (
	"fmt"
	"go/types"
	"sort"

	"golang.org/x/tools/go/ssa"

	"gbverif/ir"
	"gbverif/locks"
	"gbverif/own"
)

var knownPathListWriters = map[string]string{
	"(*internal/pkg/table.destination).explicitWithdraw": "removes the withdrawn path",
	"(*internal/pkg/table.destination).implicitWithdraw": "removes the replaced path",
	"(*internal/pkg/table.destination).insertSort":       "sorted insertion",
	"(*internal/pkg/table.AdjRib).Update":                "Adj-RIB-In keeps one path per (destination, path-id)",
	"(*internal/pkg/table.AdjRib).UpdateAdjRibOut":       "scratch Adj-RIB-Out built for listing",
	"(*internal/pkg/table.AdjRib).StaleAll":              "replaces stored paths by stale clones",
	"(*internal/pkg/table.AdjRib).MarkLLGRStaleOrDrop":   "replaces stored paths by LLGR-stale clones",
}

// ruleWhoMayWrite: only the reviewed functions store to destination.knownPathList.
func (c *Ctx) ruleWhoMayWrite() {
	r := c.R
	rule := "E6.who-may-write"
	r.Rule(rule, "writer confinement: the only functions that store to destination.knownPathList (outside constructors working on a fresh object) are the withdraw/insert primitives and the Adj-RIB maintenance functions; a new writer bypasses sorted insertion and per-source uniqueness", 6)
	dn := c.P.NamedType("internal/pkg/table", "destination")
	f := ir.Field(dn, "knownPathList")
	if f == nil {
		r.Undec(rule, "-", "anchor:destination.knownPathList", "-", "field not found")
		return
	}
	acc := locks.FieldAccesses(c.P, func(n *types.Named, fv *types.Var) bool { return fv == f })
	seen := map[string]bool{}
	for _, a := range acc {
		if !a.Write {
			continue
		}
		fk := ir.OuterKey(a.Fn)
		if seen[fk] {
			continue
		}
		seen[fk] = true
		pos := c.P.InstrPos(a.Instr)
		switch {
		case a.Fresh:
			r.Add(oblT(rule, fk, "writes knownPathList", pos, "ok", "fresh object (constructor/snapshot)", nil, true))
		case knownPathListWriters[fk] != "":
			r.Ok(rule, fk, "writes knownPathList", pos, knownPathListWriters[fk])
		default:
			r.Bad(rule, fk, "writes knownPathList", pos, "a function outside the reviewed writer set modifies the path list of a destination")
		}
	}
}

// ruleUpdateCriticalSection: get-or-create, Calculate, delete and index update of one RIB
// change happen inside one uninterrupted shard critical section.
func (c *Ctx) ruleUpdateCriticalSection() {
	r := c.R
	a := c.lockAnalysis()
	rule := "E6.update-critical-section"
	r.Rule(rule, "in Table.update the shard lock is taken once, released only by a defer, and get-or-create / Calculate / delete / index update all run with it held exclusively", 4)
	fn := c.P.Func("(*internal/pkg/table.Table).update")
	if fn == nil {
		r.Undec(rule, "-", "anchor:Table.update", "-", "function not found")
		return
	}
	fk := ir.FuncKey(fn)
	want := map[string]bool{"getOrCreateDest": false, "Calculate": false, "deleteDest": false, "updateVPNIdx": false}
	for _, b := range fn.Blocks {
		for _, in := range b.Instrs {
			call, ok := in.(*ssa.Call)
			if !ok {
				continue
			}
			callee := call.Call.StaticCallee()
			if callee == nil {
				continue
			}
			if callee.Name() == "Unlock" || callee.Name() == "RUnlock" {
				if cls := a.ClassOf(call.Call.Args[0]); len(cls) == 1 && cls[0] == lkShard {
					r.Bad(rule, fk, "explicit Unlock", c.P.InstrPos(call), "the shard lock is released in the middle of the update: another goroutine can observe or change the destination between Calculate and the index update")
				}
			}
			if _, ok := want[callee.Name()]; ok {
				want[callee.Name()] = true
				_, must, _ := a.At(call)
				if c.localMust(a, call, lkShard) && must[lkShard] == locks.W {
					r.Ok(rule, fk, "call "+callee.Name(), c.P.InstrPos(call), "under this function's exclusive shard lock")
				} else {
					r.Bad(rule, fk, "call "+callee.Name(), c.P.InstrPos(call), "not inside this function's exclusive shard critical section")
				}
			}
		}
	}
	for k, v := range want {
		if !v {
			r.Undec(rule, fk, "call "+k, c.P.Pos(fn.Pos()), "expected step of the update sequence not found")
		}
	}
}

func (c *Ctx) localMust(a *locks.Analysis, in ssa.Instruction, class string) bool {
	return a.LocallyHeld(in, class)
}

// ---- active destinations never escape their shard lock ---------------------------------

func isShardMapLoad(v ssa.Value, depth int) bool {
	if depth > 8 {
		return false
	}
	switch x := v.(type) {
	case *ssa.UnOp:
		if fa, ok := x.X.(*ssa.FieldAddr); ok {
			f := ir.FieldOf(fa)
			if n := ir.NamedOf(fa.X.Type()); n != nil && f.Name() == "mp" && n.Obj().Name() == "destinationShard" {
				return true
			}
		}
		return isShardMapLoad(x.X, depth+1)
	case *ssa.Lookup:
		return isShardMapLoad(x.X, depth+1)
	case *ssa.Index:
		return isShardMapLoad(x.X, depth+1)
	case *ssa.IndexAddr:
		return isShardMapLoad(x.X, depth+1)
	case *ssa.Extract:
		return isShardMapLoad(x.Tuple, depth+1)
	case *ssa.Next:
		return isShardMapLoad(x.Iter, depth+1)
	case *ssa.Range:
		return isShardMapLoad(x.X, depth+1)
	case *ssa.Phi:
		for _, e := range x.Edges {
			if isShardMapLoad(e, depth+1) {
				return true
			}
		}
	}
	return false
}

func (c *Ctx) ruleActiveDestinations() {
	r := c.R
	a := c.lockAnalysis()
	rule := "E1b.active-destination"
	r.Rule(rule, "escape confinement: a *destination taken out of a shard map (an active destination) is used only while that shard lock is held, and is never returned (except by requires-lock helpers), stored outside the shard/MAC index, or sent elsewhere; readers get snapshots", 11)
	dn := c.P.NamedType("internal/pkg/table", "destination")
	pathT := c.P.NamedType("internal/pkg/table", "Path")
	if dn == nil || pathT == nil {
		r.Undec(rule, "-", "anchor:destination", "-", "type not found")
		return
	}
	isDestPtr := func(t types.Type) bool {
		p, ok := t.Underlying().(*types.Pointer)
		return ok && ir.NamedOf(p.Elem()) == dn && p.Elem() == types.Type(dn)
	}
	e := own.New(c.P)
	e.StopAt = func(t types.Type) bool {
		// Path objects, NLRI, loggers are separate ownership regions (shared, immutable-by-convention)
		n := ir.NamedOf(t)
		if n == pathT {
			return true
		}
		if _, isIface := t.Underlying().(*types.Interface); isIface {
			return true
		}
		return false
	}
	// functions returning an active destination (their results are sources in callers)
	returnsActive := map[*ssa.Function]bool{}
	for round := 0; round < 3; round++ {
		for _, fn := range c.P.FuncsIn("internal/pkg/table") {
			srcs := c.activeSources(fn, isDestPtr, returnsActive)
			if len(srcs) == 0 {
				continue
			}
			fl := e.AnalyzeFlow(fn, srcs)
			if fl.Returned && fn.Signature.Results().Len() > 0 && isDestPtr(fn.Signature.Results().At(0).Type()) {
				returnsActive[fn] = true
			}
		}
	}
	for _, fn := range c.P.FuncsIn("internal/pkg/table") {
		srcs := c.activeSources(fn, isDestPtr, returnsActive)
		if len(srcs) == 0 {
			continue
		}
		fk := ir.OuterKey(fn)
		fl := e.AnalyzeFlow(fn, srcs)
		// every source must be obtained under the shard lock
		for _, s := range srcs {
			in, ok := s.(ssa.Instruction)
			if !ok {
				continue
			}
			_, must, reached := a.At(in)
			cons := "obtains active destination " + s.Name()
			if !reached {
				r.Add(oblT(rule, fk, cons, c.P.InstrPos(in), "ok", "unreachable", nil, true))
				continue
			}
			if must[lkShard] >= locks.R {
				r.Ok(rule, fk, cons, c.P.InstrPos(in), "shard lock held: "+must.String())
			} else {
				r.Add(obl(rule, fk, cons, c.P.InstrPos(in), "violation", "an active destination is taken out of the shard map without the shard lock: "+must.String(), c.unlockedPath(a, fn, lkShard, locks.R)))
			}
		}
		if fl.Returned {
			if returnsActive[fn] {
				// allowed only for helpers whose every caller holds the shard lock exclusively
				okAll := true
				for _, e2 := range a.In[fn] {
					_, must, reached := a.At(e2.Site)
					if reached && must[lkShard] < locks.R {
						okAll = false
					}
				}
				if okAll && len(a.In[fn]) > 0 {
					r.Ok(rule, fk, "returns active destination", c.P.Pos(fn.Pos()), "helper: every caller holds the shard lock")
				} else {
					r.Bad(rule, fk, "returns active destination", c.P.Pos(fn.Pos()), "an active destination is handed to a caller that does not hold the shard lock")
				}
			} else {
				r.Bad(rule, fk, "returns memory of an active destination", c.P.Pos(fn.Pos()), "the function returns a pointer into an active destination (e.g. its path list) instead of a snapshot")
			}
		}
		if fl.ReturnedFresh && !fl.Returned && a.IsRoot(ir.Outer(fn)) == false {
			// a fresh object (e.g. a "snapshot") that still holds pointers into the active destination
			locked := true
			for _, e2 := range a.In[fn] {
				_, must, reached := a.At(e2.Site)
				if reached && must[lkShard] < locks.R {
					locked = false
				}
			}
			if locked && len(a.In[fn]) > 0 {
				r.Ok(rule, fk, "returns object holding active memory", c.P.Pos(fn.Pos()), "helper: every caller holds the shard lock")
			} else {
				r.Bad(rule, fk, "returns object holding active memory", c.P.Pos(fn.Pos()), "the returned object is fresh but still points into an active destination (for instance it shares the path list's backing array): it is not a snapshot, and its reader runs without the shard lock")
			}
		}
		for _, es := range fl.Escapes {
			target := "?"
			if es.Field != nil {
				target = es.Field.Name()
				if es.Base != nil {
					target = ir.TypeKey(es.Base) + "." + target
				}
			}
			if ms, ok := es.Instr.(*ssa.MapUpdate); ok && isShardMapLoad(ms.Map, 0) {
				continue
			}
			if es.Field != nil && es.Field.Name() == "mp" {
				continue
			}
			if recv := es.Fn.Signature.Recv(); recv != nil {
				if n := ir.NamedOf(recv.Type()); n != nil && n.Obj().Name() == "EVPNMacNLRIs" {
					continue // the MAC index holds handles; see E1b.mac-index-handle
				}
			}
			if st, ok := es.Instr.(*ssa.Store); ok && isShardMapAddr(st.Addr, 0) {
				continue
			}
			r.Bad(rule, fk, "stores active destination into "+target, c.P.InstrPos(es.Instr), "an active destination (or its path list) is stored outside the shard map / MAC index: it can then be read without the shard lock")
		}
	}
}

func isShardMapAddr(v ssa.Value, depth int) bool {
	if depth > 6 {
		return false
	}
	switch x := v.(type) {
	case *ssa.IndexAddr:
		return isShardMapLoad(x.X, 0) || isShardMapAddr(x.X, depth+1)
	case *ssa.FieldAddr:
		f := ir.FieldOf(x)
		return f.Name() == "mp"
	}
	return false
}

func (c *Ctx) activeSources(fn *ssa.Function, isDestPtr func(types.Type) bool, returnsActive map[*ssa.Function]bool) []ssa.Value {
	var out []ssa.Value
	for _, b := range fn.Blocks {
		for _, in := range b.Instrs {
			v, ok := in.(ssa.Value)
			if !ok || !isDestPtr(v.Type()) {
				continue
			}
			switch x := v.(type) {
			case *ssa.Lookup, *ssa.Index, *ssa.Extract:
				if isShardMapLoad(v, 0) {
					out = append(out, v)
				}
			case *ssa.UnOp:
				if _, isIA := x.X.(*ssa.IndexAddr); isIA && isShardMapLoad(x.X, 0) {
					out = append(out, v)
				}
			case *ssa.Call:
				if callee := x.Call.StaticCallee(); callee != nil && returnsActive[callee] {
					out = append(out, v)
				}
			}
		}
	}
	// callbacks of iterateAllDestinations: their parameter is an active destination
	if fn.Parent() != nil && len(fn.Params) == 1 && isDestPtr(fn.Params[0].Type()) {
		iter := c.P.Func("(*internal/pkg/table.Destinations).iterateAllDestinations")
		if iter != nil {
			for _, b := range fn.Parent().Blocks {
				for _, in := range b.Instrs {
					if call, ok := in.(*ssa.Call); ok && call.Call.StaticCallee() == iter {
						for _, a := range call.Call.Args {
							if mc, ok := a.(*ssa.MakeClosure); ok && mc.Fn == ssa.Value(fn) {
								out = append(out, fn.Params[0])
							}
						}
					}
				}
			}
		}
	}
	sort.Slice(out, func(i, j int) bool { return out[i].Name() < out[j].Name() })
	return out
}

// ruleMacIndexHandles: destinations handed out by the MAC index are handles; they are only
// dereferenced (method calls) under their shard lock.
func (c *Ctx) ruleMacIndexHandles() {
	r := c.R
	a := c.lockAnalysis()
	rule := "E1b.mac-index-handle"
	r.Rule(rule, "a *destination obtained from the EVPN MAC index is only used (method calls) while its shard lock is held", 2)
	get := c.P.Func("(*internal/pkg/table.EVPNMacNLRIs).Get")
	dn := c.P.NamedType("internal/pkg/table", "destination")
	if get == nil || dn == nil {
		r.Undec(rule, "-", "anchor:EVPNMacNLRIs.Get", "-", "not found")
		return
	}
	for _, e := range a.In[get] {
		fn := e.Caller
		for _, b := range fn.Blocks {
			for _, in := range b.Instrs {
				call, ok := in.(*ssa.Call)
				if !ok || len(call.Call.Args) == 0 {
					continue
				}
				callee := call.Call.StaticCallee()
				if callee == nil || callee.Signature.Recv() == nil || ir.NamedOf(callee.Signature.Recv().Type()) != dn {
					continue
				}
				_, must, _ := a.At(call)
				cons := "call destination." + callee.Name()
				if must[lkShard] >= locks.R {
					r.Ok(rule, ir.OuterKey(fn), cons, c.P.InstrPos(call), "shard lock held")
				} else {
					r.Bad(rule, ir.OuterKey(fn), cons, c.P.InstrPos(call), "an active destination taken from the MAC index is read without its shard lock")
				}
			}
		}
	}
}

var c02Guard = []guardRow{}

func init() {
	for _, g := range guardTable {
		switch g.Struct {
		case "destinationShard", "destination", "TableManager", "AdjRib", "EVPNMacNLRIs", "VPNPathIndex":
			c02Guard = append(c02Guard, g)
		}
	}
	register(&Check{
		ID: "C02",
		Expl: "Decides the disciplines that keep the RIB structures consistent under every interleaving: (E1b) shard maps, destination path lists, table/VRF maps, RT and MAC indexes and the Adj-RIB are only written (and, where armed, read) with their lock in the interprocedural must-held set, and the requires-lock helpers are only called with the shard lock held; " +
			"(E1b.active-destination) active destinations never leave their shard's critical section — readers get snapshots; (E6.who-may-write) only the withdraw/insert primitives and Adj-RIB maintenance write a path list; (E6.update-critical-section) one RIB change is one uninterrupted exclusive shard section. Also: (E6.stale-session-guard) messages stamped before the current session's Uptime are dropped before handleUpdate; (E3.adj-clone-rejected) clones kept in the Adj-RIB-In keep the rejected mark. (E4.case-ratchet) against a committed baseline, no switch of the code this property is anchored in has lost a named case. (E6.call-ratchet) against a committed baseline, no function of that code has stopped calling (directly or through helpers) a non-trivial callee it called on the reviewed tree.",
		Not: "Implicit/explicit withdraw matching, counters, lookups, best-path event replay and 'exactly the latest un-withdrawn route' over all histories are value-level and not decided.",
		Run: func(c *Ctx) {
			c.ruleRatchets("C02")
			c.ruleGuarded("E1b.guarded", c02Guard, 40)
			var req []reqRow
			for _, q := range requiresTable {
				if q.Lock == lkShard {
					req = append(req, q)
				}
			}
			c.ruleRequires("E1b.requires", req, 6)
			c.ruleWhoMayWrite()
			c.ruleSortedInsertionOnly()
			c.ruleUpdateCriticalSection()
			c.ruleActiveDestinations()
			c.ruleMacIndexHandles()
			c.ruleAdjRibStoresIncoming()
			c.ruleStaleSessionGuard("E6.stale-session-guard")
			c.ruleAdjCloneKeepsRejection()
		},
	})
	register(&Check{
		ID:   "C16",
		Expl: "Decides: (E1b.requires) the ROA table mutators (Add, Delete, DeleteAll) are only called with sharedData.mu held exclusively (the management context), so validation never observes a half-applied RTR update; (E4.decode-produces) every RTR PDU type with a serialiser is built by ParseRTR; (E4.rtr-handled) the handler's type switch covers every PDU type the parser can return; (E2c) the RTR parser never writes its input; (E6.rtr-session-change) the session id is overwritten only after it was compared with the old one and the old session's records purged on change. Also: (E4.confed-pair) the origin-AS switch of Validate names both confederation segment types; (E6.roa-delete-guarded) Delete changes the table only on the true edge of ROA.Equal. (E4.case-ratchet) against a committed baseline, no switch of the code this property is anchored in has lost a named case. (E6.call-ratchet) against a committed baseline, no function of that code has stopped calling (directly or through helpers) a non-trivial callee it called on the reviewed tree.",
		Not:  "RFC 6811 classification (valid / invalid / not-found), covering-prefix walks and ROA-set equality after PDU sequences are value-level and not decided.",
		Run: func(c *Ctx) {
			c.ruleRatchets("C16")
			var req []reqRow
			for _, q := range requiresTable {
				if q.Lock == lkShared {
					req = append(req, q)
				}
			}
			c.ruleRequires("E1b.requires", req, 3)
			var roa []guardRow
			for _, g := range guardTable {
				if g.Struct == "roaClient" {
					roa = append(roa, g)
				}
			}
			c.ruleGuarded("E1b.guarded", roa, 4)
			c.ruleDecodeProduces("E4.decode-produces", []string{"pkg/packet/rtr"}, 8)
			c.ruleInputImmutable("E2c.input", []string{"pkg/packet/rtr"}, 4)
			c.ruleRTRHandled()
			c.ruleSessionChangeDetected()
			c.ruleConfedPair("E4.confed-pair")
			c.ruleROADeleteGuarded("E6.roa-delete-guarded")
		},
	})
}

// ruleRTRHandled: the RTR handler's type switch covers what ParseRTR can return.
func (c *Ctx) ruleRTRHandled() {
	r := c.R
	rule := "E4.rtr-handled"
	r.Rule(rule, "every PDU type ParseRTR can return has a case in the type switch of the RTR message handler in pkg/server (or the switch has a default)", 6)
	parse := c.P.Func("pkg/packet/rtr.ParseRTR")
	if parse == nil {
		r.Undec(rule, "-", "anchor:ParseRTR", "-", "not found")
		return
	}
	uni := c.returnedTypes(parse, 0)
	msgT := c.P.NamedType("pkg/packet/rtr", "RTRMessage")
	found := false
	for _, fn := range c.P.FuncsIn("pkg/server") {
		sets := c.typeSwitchCases(fn, func(t types.Type) bool { return t != nil && ir.NamedOf(t) == msgT })
		for _, set := range sets {
			found = true
			fk := ir.FuncKey(fn)
			for n := range uni {
				if set[n] || set[nil] {
					r.Ok(rule, fk, n.Obj().Name(), c.P.Pos(fn.Pos()), "handled")
				} else if why, ok := rtrNotHandled[n.Obj().Name()]; ok {
					r.Except(rule, fk, n.Obj().Name(), c.P.Pos(fn.Pos()), why)
				} else {
					r.Bad(rule, fk, n.Obj().Name(), c.P.Pos(fn.Pos()), "the parser can return this PDU but the handler has no case for it: it is silently ignored")
				}
			}
		}
	}
	if !found {
		r.Undec(rule, "-", "anchor:handler type switch", "-", fmt.Sprintf("no type switch over RTRMessage in pkg/server (universe %d types)", len(uni)))
	}
}

var rtrNotHandled = map[string]string{
	"RTRSerialQuery": "router-to-cache PDU: a cache never sends it to a router",
	"RTRResetQuery":  "router-to-cache PDU: a cache never sends it to a router",
}

// ruleAdjRibStoresIncoming: Adj-RIB-In keeps the most recent announcement: on the announce
// branch of AdjRib.Update the incoming path is stored on every path (replacing or appended).
func (c *Ctx) ruleAdjRibStoresIncoming() {
	r := c.R
	rule := "E6.adj-in-stores-latest"
	r.Rule(rule, "in AdjRib.Update, once an incoming path is not a withdrawal, every path through the loop body stores that very path into the destination's list (element store or append) — the stored route per (destination, path-id) is always the most recent announcement", 1)
	fn := c.P.Func("(*internal/pkg/table.AdjRib).Update")
	dn := c.P.NamedType("internal/pkg/table", "destination")
	if fn == nil || dn == nil {
		r.Undec(rule, "-", "anchor:AdjRib.Update", "-", "not found")
		return
	}
	kpl := ir.Field(dn, "knownPathList")
	fk := ir.FuncKey(fn)
	// the branch on path.IsWithdraw
	found := 0
	for _, b := range fn.Blocks {
		iff, ok := b.Instrs[len(b.Instrs)-1].(*ssa.If)
		if !ok {
			continue
		}
		u, ok := iff.Cond.(*ssa.UnOp)
		if !ok {
			continue
		}
		fa, ok := u.X.(*ssa.FieldAddr)
		if !ok || ir.FieldOf(fa).Name() != "IsWithdraw" {
			continue
		}
		path := fa.X
		found++
		entry := b.Succs[1]
		// the loop head: a block dominating b that b can return to
		isStore := func(bb *ssa.BasicBlock) bool {
			for _, in := range bb.Instrs {
				st, ok := in.(*ssa.Store)
				if !ok {
					continue
				}
				switch a := st.Addr.(type) {
				case *ssa.IndexAddr:
					if sameSym(st.Val, path) { // the same value, or a reload of the same (captured) loop variable
						if ul, ok := a.X.(*ssa.UnOp); ok {
							if f2, ok := ul.X.(*ssa.FieldAddr); ok && ir.FieldOf(f2) == kpl {
								return true
							}
						}
					}
				case *ssa.FieldAddr:
					if ir.FieldOf(a) == kpl {
						if call, ok := st.Val.(*ssa.Call); ok {
							if bi, ok := call.Call.Value.(*ssa.Builtin); ok && bi.Name() == "append" {
								for _, arg := range call.Call.Args[1:] {
									if els, ok := sliceLiteralElems(arg); ok {
										for _, el := range els {
											if sameSym(el, path) {
												return true
											}
										}
									}
								}
							}
						}
					}
				}
			}
			return false
		}
		// walk from entry until we leave the iteration (reach a block that dominates b = loop head) or exit
		seen := map[*ssa.BasicBlock]bool{}
		work := []*ssa.BasicBlock{entry}
		bad := false
		for len(work) > 0 {
			bb := work[0]
			work = work[1:]
			if seen[bb] {
				continue
			}
			seen[bb] = true
			if isStore(bb) {
				continue
			}
			if ir.IsExit(bb) {
				bad = true
				continue
			}
			for _, s := range bb.Succs {
				if s != b && s.Dominates(b) {
					bad = true // back at the loop head without having stored the path
					continue
				}
				work = append(work, s)
			}
		}
		if bad {
			r.Bad(rule, fk, "announce ⇒ incoming path stored", c.P.Pos(iff.Pos()), "some path through the announce branch leaves the previously stored path in place: Adj-RIB-In no longer holds the most recent announcement (e.g. a stale clone survives an identical re-announcement)")
		} else {
			r.Ok(rule, fk, "announce ⇒ incoming path stored", c.P.Pos(iff.Pos()), "")
		}
	}
	if found == 0 {
		r.Undec(rule, fk, "anchor:branch on path.IsWithdraw", c.P.Pos(fn.Pos()), "not found")
	}
}
