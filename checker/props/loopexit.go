package props

import (
	"encoding/json"
	"fmt"
	"os"
	"path/filepath"
	"sort"
	"strings"

	"golang.org/x/tools/go/ssa"

	"gbverif/ir"
)

// lpSig: the loops of a function (closures excluded) that run to the end of what they iterate over — no break,
// return or goto leaves them from inside the body — and have an effect in the body, each keyed by those effects.
type lpSig struct {
	Func  string   `json:"func"`
	File  string   `json:"file"`
	Loops []string `json:"loops"`
}

type loopInfo struct {
	key       string
	earlyExit bool
	pos       string
}

// loopsOf: the natural loops of fn whose header tests the iteration (range over slice, map, string, channel; for with a
// condition), with the effects of their bodies and whether some edge other than the header's own leaves them.
func (c *Ctx) loopsOf(fn *ssa.Function) []loopInfo {
	var out []loopInfo
	for _, h := range fn.Blocks {
		if h.Comment != "rangeindex.loop" && h.Comment != "rangeiter.loop" && h.Comment != "for.loop" {
			continue
		}
		if len(h.Succs) != 2 {
			continue
		}
		// natural loop: nodes that reach a back edge's source without passing the header
		in := map[*ssa.BasicBlock]bool{h: true}
		var work []*ssa.BasicBlock
		for _, p := range h.Preds {
			if h.Dominates(p) && !in[p] {
				in[p] = true
				work = append(work, p)
			}
		}
		if len(work) == 0 {
			continue
		}
		for len(work) > 0 {
			b := work[len(work)-1]
			work = work[:len(work)-1]
			for _, p := range b.Preds {
				if !in[p] && h.Dominates(p) {
					in[p] = true
					work = append(work, p)
				}
			}
		}
		early := false
		set := map[string]bool{}
		for b := range in {
			if b != h {
				for _, s := range b.Succs {
					if !in[s] {
						early = true
					}
				}
			}
			for _, inst := range b.Instrs {
				if n := storeName(inst); n != "" {
					set[n] = true
					continue
				}
				if ci, ok := inst.(ssa.CallInstruction); ok {
					if _, isDefer := inst.(*ssa.Defer); isDefer {
						continue
					}
					if k := calleeName(c, ci.Common()); k != "" && k != "clone" && !c.effectFreeEvent(inst) {
						set[k] = true
					}
				}
			}
		}
		if len(set) == 0 {
			continue
		}
		var l []string
		for k := range set {
			l = append(l, k)
		}
		sort.Strings(l)
		out = append(out, loopInfo{key: h.Comment[:strings.Index(h.Comment, ".")] + "{" + strings.Join(l, "; ") + "}", earlyExit: early, pos: c.P.InstrPos(h.Instrs[0])})
	}
	return out
}

func (c *Ctx) lpSigs(pkgs []string) []lpSig {
	var out []lpSig
	for _, fn := range c.P.FuncsIn(pkgs...) {
		if fn.Parent() != nil || fn.Blocks == nil || fn.Synthetic != "" {
			continue
		}
		cnt := map[string]int{}
		ls := c.loopsOf(fn)
		for _, l := range ls {
			cnt[l.key]++
		}
		s := lpSig{Func: ir.FuncKey(fn), File: strings.TrimPrefix(c.P.Fset.Position(fn.Pos()).Filename, c.P.Dir+"/")}
		for _, l := range ls {
			if !l.earlyExit && cnt[l.key] == 1 {
				s.Loops = append(s.Loops, l.key)
			}
		}
		if len(s.Loops) > 0 {
			sort.Strings(s.Loops)
			out = append(out, s)
		}
	}
	sort.Slice(out, func(i, j int) bool { return out[i].Func < out[j].Func })
	return out
}

// ruleLoopExitRatchet: a loop that visited every element still does.
func (c *Ctx) ruleLoopExitRatchet(rule string, pkgs []string, fileFilter func(string) bool, baselineFile string, min int) {
	r := c.R
	r.Rule(rule, "complete-loop ratchet: the committed baseline records, per function body, the loops (range over a slice, map, string or channel, or for with a condition) that had an effect in their body — a call with effects, a field store, a map update or delete — and that nothing left from inside the body: no break, return or goto, so that the effect was applied for every element. A function that still has exactly one loop with the same effects, out of which there now is an exit from inside the body, stops at some element and leaves the rest untouched (an index from which a route is removed under its first route target only). Loops whose effects changed, or that occur twice, are not compared", min)
	var base []lpSig
	b, err := os.ReadFile(filepath.Join(homeDir(), baselineFile))
	if err != nil || json.Unmarshal(b, &base) != nil {
		r.Undec(rule, "-", "baseline:"+baselineFile, "-", "baseline file missing or unreadable")
		return
	}
	for _, bs := range base {
		inPkgs := false
		for _, pk := range pkgs {
			if strings.Contains(bs.Func, pk+".") {
				inPkgs = true
			}
		}
		if !inPkgs || (fileFilter != nil && !fileFilter(bs.File)) {
			continue
		}
		fn := c.P.Func(bs.Func)
		cons := fmt.Sprintf("%d complete loops", len(bs.Loops))
		if fn == nil || fn.Blocks == nil {
			r.Add(oblT(rule, bs.Func, cons, bs.File, "ok", "the function no longer exists: not decided", nil, true))
			continue
		}
		now := c.loopsOf(fn)
		cnt := map[string]int{}
		for _, l := range now {
			cnt[l.key]++
		}
		var bad []string
		for _, k := range bs.Loops {
			if cnt[k] != 1 {
				continue
			}
			for _, l := range now {
				if l.key == k && l.earlyExit {
					bad = append(bad, fmt.Sprintf("the loop at %s over %s", l.pos, k))
				}
			}
		}
		if len(bad) == 0 {
			r.Ok(rule, bs.Func, cons, bs.File, "every recorded loop still runs to the end")
		} else {
			r.Bad(rule, bs.Func, cons, bs.File, "a loop that applied its effect to every element can now be left from inside its body — "+strings.Join(bad, "; "))
		}
	}
}
