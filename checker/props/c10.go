package props

import (
	"fmt"
	"go/token"
	"go/types"
	"sort"

	"golang.org/x/tools/go/ssa"

	"gbverif/ir"
)

// ruleSiblingCompleteness: every implementer of an interface (a) returns a distinct constant from its
// Type() method covering the whole enum, (b) is allocated in code reachable from the producers,
// (c) has a case in every type switch over the interface inside the listed functions.
func (c *Ctx) ruleSiblingCompleteness(rule, pkgShort, iface, enum string, producers, switches []string, min int) {
	r := c.R
	r.Rule(rule, "sibling completeness for "+iface+": every "+enum+" constant is the Type() of an implementing type; every implementing type can be built from configuration (allocated in code reachable from "+fmt.Sprint(producers)+"); every type switch over "+iface+" in "+fmt.Sprint(switches)+" has a case for it — so no condition/action is lost between configuration, evaluation and read-back", min)
	pk := c.P.Pkg(pkgShort)
	if pk == nil {
		r.Undec(rule, "-", "anchor:"+pkgShort, "-", "package not found")
		return
	}
	o := pk.Types.Scope().Lookup(iface)
	en := c.P.NamedType(pkgShort, enum)
	if o == nil || en == nil {
		r.Undec(rule, "-", "anchor:"+iface, "-", "interface or enum not found")
		return
	}
	it, ok := o.Type().Underlying().(*types.Interface)
	if !ok {
		r.Undec(rule, "-", "anchor:"+iface, "-", "not an interface")
		return
	}
	impls := implementers(pk.Types, it)
	// (a) enum coverage through Type()
	consts := enumConsts(en)
	byVal := map[int64]string{}
	for k, v := range consts {
		byVal[v] = k
	}
	covered := map[string]string{}
	for _, im := range impls {
		ms := types.NewMethodSet(types.NewPointer(im))
		sel := ms.Lookup(pk.Types, "Type")
		if sel == nil {
			continue
		}
		fn := c.P.SSA.FuncValue(sel.Obj().(*types.Func))
		if fn == nil {
			continue
		}
		for _, b := range fn.Blocks {
			if ret, ok := b.Instrs[len(b.Instrs)-1].(*ssa.Return); ok && len(ret.Results) == 1 {
				if k, ok := ret.Results[0].(*ssa.Const); ok {
					if v, ok := constInt(k.Value); ok {
						covered[byVal[v]] = im.Obj().Name()
					}
				}
			}
		}
	}
	var names []string
	for k := range consts {
		names = append(names, k)
	}
	sort.Strings(names)
	for _, k := range names {
		if t, ok := covered[k]; ok {
			r.Ok(rule, pkgShort, k, c.P.Pos(en.Obj().Pos()), "Type() of "+t)
		} else {
			r.Bad(rule, pkgShort, k, c.P.Pos(en.Obj().Pos()), "no implementation of "+iface+" reports this type: the constant is dead or an implementation was lost")
		}
	}
	// (b) producers
	var roots []*ssa.Function
	for _, p := range producers {
		if fn := c.P.Func(p); fn != nil {
			roots = append(roots, fn)
		} else {
			r.Undec(rule, p, "anchor", "-", "producer not found")
		}
	}
	alloc := map[*types.Named]bool{}
	for fn := range c.reachableFrom(roots) {
		for _, b := range fn.Blocks {
			for _, in := range b.Instrs {
				if al, ok := in.(*ssa.Alloc); ok {
					if n := ir.NamedOf(al.Type()); n != nil {
						alloc[n] = true
					}
				}
			}
		}
	}
	for _, im := range impls {
		if alloc[im] {
			r.Ok(rule, "producers", im.Obj().Name(), c.P.Pos(im.Obj().Pos()), "constructible from configuration")
		} else {
			r.Bad(rule, "producers", im.Obj().Name(), c.P.Pos(im.Obj().Pos()), "no code reachable from the configuration entry points builds this "+iface)
		}
	}
	// (c) type switches
	for _, sk := range switches {
		fn := c.P.Func(sk)
		if fn == nil {
			r.Undec(rule, sk, "anchor", "-", "function not found")
			continue
		}
		sets := c.typeSwitchCases(fn, func(t types.Type) bool {
			return t != nil && types.Identical(t, o.Type())
		})
		if len(sets) == 0 {
			r.Undec(rule, sk, "type switch over "+iface, c.P.Pos(fn.Pos()), "expected a type switch over "+iface)
			continue
		}
		for _, set := range sets {
			for _, im := range impls {
				name := im.Obj().Name()
				if set[im] || set[nil] {
					r.Ok(rule, sk, name, c.P.Pos(fn.Pos()), "has a case")
				} else if why := switchExceptions[sk+"|"+name]; why != "" {
					r.Except(rule, sk, name, c.P.Pos(fn.Pos()), why)
				} else {
					r.Bad(rule, sk, name, c.P.Pos(fn.Pos()), "the type switch has no case for this "+iface+": it is dropped when the statement is read back")
				}
			}
		}
	}
}

var switchExceptions = map[string]string{
	"(*internal/pkg/table.Statement).ToConfig|RoutingAction": "the route action is kept in Statement.RouteAction and converted separately",
}

func init() {
	register(&Check{
		ID:   "C10",
		Expl: "Decides (E2a/E2b) the non-interference clause for policy: no action writes through attribute storage obtained from a Path getter, and every action is applied to the clone Statement.Apply makes (or to a value passed through from it), never to the caller's route; (E4.policy-types) every condition and action type is complete across its siblings: enum constant ↔ implementation ↔ constructor reachable from NewStatement ↔ case in Statement.ToConfig; (E6.compiled-coherence) editing a community set always rebuilds its compiled matchers, so a set read back through the API and the set that is evaluated stay the same object. Also: (E1b.requires) Policy.Apply / Statement.Apply run with the policy lock held at every call site, so an evaluation sees one configuration. (E4.case-ratchet) against a committed baseline, no switch of the code this property is anchored in has lost a named case. (E6.call-ratchet) against a committed baseline, no function of that code has stopped calling (directly or through helpers) a non-trivial callee it called on the reviewed tree.",
		Not:  "Condition semantics (prefix containment, regular expressions, comparisons), evaluation order results and equality with an interpreter of the documented model are not decided.",
		Run: func(c *Ctx) {
			c.ruleRatchets("C10")
			c.ruleDefinedSetIdentity()
			c.ruleSharedAttrWrites("E2a.shared-write", []string{"internal/pkg/table"}, 30)
			c.ruleOwnedPathMutation("E2b.owned-path", 30)
			c.ruleSiblingCompleteness("E4.policy-conditions", "internal/pkg/table", "Condition", "ConditionType", []string{"internal/pkg/table.NewStatement"}, []string{"(*internal/pkg/table.Statement).ToConfig"}, 30)
			c.ruleCompiledSetCoherence()
			c.ruleRequires("E1b.requires", requiresFor(lkPolicy), 2)
			c.ruleSiblingCompleteness("E4.policy-actions", "internal/pkg/table", "Action", "ActionType", []string{"internal/pkg/table.NewStatement"}, []string{"(*internal/pkg/table.Statement).ToConfig"}, 18)
		},
	})
}

// ruleDefinedSetIdentity: an installed defined set is edited in place, never swapped for another object.
func (c *Ctx) ruleDefinedSetIdentity() {
	r := c.R
	rule := "E6.defined-set-identity"
	r.Rule(rule, "statements hold pointers to the defined-set objects they were built with, so the set that is listed through the API and the set that is evaluated are the same only as long as the registry never puts a different object under an existing name: every store m[name] = set into a map[string]DefinedSet by a RoutingPolicy method lies on the 'name absent' edge of a lookup of that very name in that very map (an existing set is changed through its own Append / Remove / Replace)", 1)
	ds := c.P.NamedType("internal/pkg/table", "DefinedSet")
	rp := c.P.NamedType("internal/pkg/table", "RoutingPolicy")
	if ds == nil || rp == nil {
		r.Undec(rule, "-", "anchor:DefinedSet/RoutingPolicy", "-", "not found")
		return
	}
	n := 0
	for _, fn := range c.P.FuncsIn("internal/pkg/table") {
		if fn.Blocks == nil {
			continue
		}
		outer := ir.Outer(fn)
		if outer.Signature.Recv() == nil || ir.NamedOf(ir.Deref(outer.Signature.Recv().Type())) != rp {
			continue
		}
		for _, b := range fn.Blocks {
			for _, in := range b.Instrs {
				mu, ok := in.(*ssa.MapUpdate)
				if !ok {
					continue
				}
				mt, ok := mu.Map.Type().Underlying().(*types.Map)
				if !ok || ir.NamedOf(mt.Elem()) != ds {
					continue
				}
				// a map made in this function is a fresh registry being filled
				fresh := false
				for v, i := ssa.Value(mu.Map), 0; i < 4; i++ {
					switch x := v.(type) {
					case *ssa.MakeMap:
						fresh = true
					case *ssa.Lookup:
						v = x.X
						continue
					case *ssa.Extract:
						v = x.Tuple
						continue
					}
					break
				}
				if fresh {
					continue // a registry built from scratch together with the statements that will point into it
				}
				n++
				cons := fmt.Sprintf("store into the set registry #%d", n)
				guarded := false
				for _, g := range fn.Blocks {
					for _, gi := range g.Instrs {
						lk, ok := gi.(*ssa.Lookup)
						if !ok || !lk.CommaOk || !sameSym(lk.X, mu.Map) || !sameKeyExpr(lk.Index, mu.Key) {
							continue
						}
						for _, ref := range *lk.Referrers() {
							ex, ok := ref.(*ssa.Extract)
							if !ok || ex.Index != 1 || ex.Referrers() == nil {
								continue
							}
							for _, r2 := range *ex.Referrers() {
								if iff, ok := r2.(*ssa.If); ok && iff.Cond == ssa.Value(ex) && edgeDominates(iff.Block(), 1, b) {
									guarded = true
								}
								// if !ok { ... } / switch { case !ok: ... }
								if not, ok := r2.(*ssa.UnOp); ok && not.Op == token.NOT && not.Referrers() != nil {
									for _, r3 := range *not.Referrers() {
										if iff, ok := r3.(*ssa.If); ok && iff.Cond == ssa.Value(not) && edgeDominates(iff.Block(), 0, b) {
											guarded = true
										}
									}
								}
							}
						}
					}
				}
				fk := ir.OuterKey(fn)
				if guarded {
					r.Ok(rule, fk, cons, c.P.InstrPos(mu), "only when the name is not registered yet")
				} else {
					r.Bad(rule, fk, cons, c.P.InstrPos(mu), "a set object is stored under a name that may already be registered: statements keep evaluating the old object while the API lists the new one")
				}
			}
		}
	}
}

// sameKeyExpr: the same value, or two calls of the same argument-less method on the same receiver (s.Name() twice).
func sameKeyExpr(a, b ssa.Value) bool {
	if sameSym(a, b) {
		return true
	}
	ca, ok1 := a.(*ssa.Call)
	cb, ok2 := b.(*ssa.Call)
	if !ok1 || !ok2 {
		return false
	}
	if ca.Call.IsInvoke() && cb.Call.IsInvoke() {
		return ca.Call.Method == cb.Call.Method && ca.Call.Value == cb.Call.Value && len(ca.Call.Args) == 0 && len(cb.Call.Args) == 0
	}
	fa, fb := ca.Call.StaticCallee(), cb.Call.StaticCallee()
	return fa != nil && fa == fb && len(ca.Call.Args) == 1 && len(cb.Call.Args) == 1 && ca.Call.Args[0] == cb.Call.Args[0]
}
