package props

import (
	"fmt"
	"go/types"
	"sort"

	"golang.org/x/tools/go/ssa"

	"gbverif/ir"
)

// ruleSiblingCompleteness: every implementer of an interface (a) returns a distinct constant from its
// Type() method covering the whole enum, (b) is allocated in code reachable from the producers,
// (c) has a case in every type switch over the interface inside the listed functions.
func (c *Ctx) ruleSiblingCompleteness(rule, pkgShort, iface, enum string, producers, switches []string, min int) {
	r := c.R
	r.Rule(rule, "sibling completeness for "+iface+": every "+enum+" constant is the Type() of an implementing type; every implementing type can be built from configuration (allocated in code reachable from "+fmt.Sprint(producers)+"); every type switch over "+iface+" in "+fmt.Sprint(switches)+" has a case for it — so no condition/action is lost between configuration, evaluation and read-back", min)
	pk := c.P.Pkg(pkgShort)
	if pk == nil {
		r.Undec(rule, "-", "anchor:"+pkgShort, "-", "package not found")
		return
	}
	o := pk.Types.Scope().Lookup(iface)
	en := c.P.NamedType(pkgShort, enum)
	if o == nil || en == nil {
		r.Undec(rule, "-", "anchor:"+iface, "-", "interface or enum not found")
		return
	}
	it, ok := o.Type().Underlying().(*types.Interface)
	if !ok {
		r.Undec(rule, "-", "anchor:"+iface, "-", "not an interface")
		return
	}
	impls := implementers(pk.Types, it)
	// (a) enum coverage through Type()
	consts := enumConsts(en)
	byVal := map[int64]string{}
	for k, v := range consts {
		byVal[v] = k
	}
	covered := map[string]string{}
	for _, im := range impls {
		ms := types.NewMethodSet(types.NewPointer(im))
		sel := ms.Lookup(pk.Types, "Type")
		if sel == nil {
			continue
		}
		fn := c.P.SSA.FuncValue(sel.Obj().(*types.Func))
		if fn == nil {
			continue
		}
		for _, b := range fn.Blocks {
			if ret, ok := b.Instrs[len(b.Instrs)-1].(*ssa.Return); ok && len(ret.Results) == 1 {
				if k, ok := ret.Results[0].(*ssa.Const); ok {
					if v, ok := constInt(k.Value); ok {
						covered[byVal[v]] = im.Obj().Name()
					}
				}
			}
		}
	}
	var names []string
	for k := range consts {
		names = append(names, k)
	}
	sort.Strings(names)
	for _, k := range names {
		if t, ok := covered[k]; ok {
			r.Ok(rule, pkgShort, k, c.P.Pos(en.Obj().Pos()), "Type() of "+t)
		} else {
			r.Bad(rule, pkgShort, k, c.P.Pos(en.Obj().Pos()), "no implementation of "+iface+" reports this type: the constant is dead or an implementation was lost")
		}
	}
	// (b) producers
	var roots []*ssa.Function
	for _, p := range producers {
		if fn := c.P.Func(p); fn != nil {
			roots = append(roots, fn)
		} else {
			r.Undec(rule, p, "anchor", "-", "producer not found")
		}
	}
	alloc := map[*types.Named]bool{}
	for fn := range c.reachableFrom(roots) {
		for _, b := range fn.Blocks {
			for _, in := range b.Instrs {
				if al, ok := in.(*ssa.Alloc); ok {
					if n := ir.NamedOf(al.Type()); n != nil {
						alloc[n] = true
					}
				}
			}
		}
	}
	for _, im := range impls {
		if alloc[im] {
			r.Ok(rule, "producers", im.Obj().Name(), c.P.Pos(im.Obj().Pos()), "constructible from configuration")
		} else {
			r.Bad(rule, "producers", im.Obj().Name(), c.P.Pos(im.Obj().Pos()), "no code reachable from the configuration entry points builds this "+iface)
		}
	}
	// (c) type switches
	for _, sk := range switches {
		fn := c.P.Func(sk)
		if fn == nil {
			r.Undec(rule, sk, "anchor", "-", "function not found")
			continue
		}
		sets := c.typeSwitchCases(fn, func(t types.Type) bool {
			return t != nil && types.Identical(t, o.Type())
		})
		if len(sets) == 0 {
			r.Undec(rule, sk, "type switch over "+iface, c.P.Pos(fn.Pos()), "expected a type switch over "+iface)
			continue
		}
		for _, set := range sets {
			for _, im := range impls {
				name := im.Obj().Name()
				if set[im] || set[nil] {
					r.Ok(rule, sk, name, c.P.Pos(fn.Pos()), "has a case")
				} else if why := switchExceptions[sk+"|"+name]; why != "" {
					r.Except(rule, sk, name, c.P.Pos(fn.Pos()), why)
				} else {
					r.Bad(rule, sk, name, c.P.Pos(fn.Pos()), "the type switch has no case for this "+iface+": it is dropped when the statement is read back")
				}
			}
		}
	}
}

var switchExceptions = map[string]string{
	"(*internal/pkg/table.Statement).ToConfig|RoutingAction": "the route action is kept in Statement.RouteAction and converted separately",
}

func init() {
	register(&Check{
		ID:   "C10",
		Expl: "Decides (E2a/E2b) the non-interference clause for policy: no action writes through attribute storage obtained from a Path getter, and every action is applied to the clone Statement.Apply makes (or to a value passed through from it), never to the caller's route; (E4.policy-types) every condition and action type is complete across its siblings: enum constant ↔ implementation ↔ constructor reachable from NewStatement ↔ case in Statement.ToConfig; (E6.compiled-coherence) editing a community set always rebuilds its compiled matchers, so a set read back through the API and the set that is evaluated stay the same object. Also: (E1b.requires) Policy.Apply / Statement.Apply run with the policy lock held at every call site, so an evaluation sees one configuration. (E4.case-ratchet) against a committed baseline, no switch of the code this property is anchored in has lost a named case. (E6.call-ratchet) against a committed baseline, no function of that code has stopped calling (directly or through helpers) a non-trivial callee it called on the reviewed tree.",
		Not:  "Condition semantics (prefix containment, regular expressions, comparisons), evaluation order results and equality with an interpreter of the documented model are not decided.",
		Run: func(c *Ctx) {
			c.ruleRatchets("C10")
			c.ruleSharedAttrWrites("E2a.shared-write", []string{"internal/pkg/table"}, 30)
			c.ruleOwnedPathMutation("E2b.owned-path", 30)
			c.ruleSiblingCompleteness("E4.policy-conditions", "internal/pkg/table", "Condition", "ConditionType", []string{"internal/pkg/table.NewStatement"}, []string{"(*internal/pkg/table.Statement).ToConfig"}, 30)
			c.ruleCompiledSetCoherence()
			c.ruleRequires("E1b.requires", requiresFor(lkPolicy), 2)
			c.ruleSiblingCompleteness("E4.policy-actions", "internal/pkg/table", "Action", "ActionType", []string{"internal/pkg/table.NewStatement"}, []string{"(*internal/pkg/table.Statement).ToConfig"}, 18)
		},
	})
}
