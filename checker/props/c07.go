package props

import (
	"fmt"
	"go/token"
	"go/types"
	"sort"
	"strings"

	"golang.org/x/tools/go/ssa"

	"gbverif/ir"
)

// returnedConsts: the integer constants result ri of fn may take (through phis, defer-spilled
// result cells and calls to module functions); ok=false if some value cannot be resolved.
func (c *Ctx) returnedConsts(fn *ssa.Function, ri int) (map[int64]bool, bool) {
	out := map[int64]bool{}
	ok := true
	seenFn := map[*ssa.Function]bool{}
	seenV := map[ssa.Value]bool{}
	var val func(v ssa.Value, d int)
	var fun func(f *ssa.Function, ri int, d int)
	val = func(v ssa.Value, d int) {
		if seenV[v] {
			return
		}
		seenV[v] = true
		if d > 12 {
			ok = false
			return
		}
		switch x := stripConv(v).(type) {
		case *ssa.Const:
			if i, isInt := constInt(x.Value); isInt {
				out[i] = true
			} else {
				ok = false
			}
		case *ssa.Phi:
			for _, e := range x.Edges {
				val(e, d+1)
			}
		case *ssa.UnOp:
			if x.Op == token.SUB {
				if k, isK := x.X.(*ssa.Const); isK {
					if i, isInt := constInt(k.Value); isInt {
						out[-i] = true
						return
					}
				}
			}
			if al, isAl := x.X.(*ssa.Alloc); isAl {
				n := 0
				for _, ref := range *al.Referrers() {
					if st, isSt := ref.(*ssa.Store); isSt && st.Addr == ssa.Value(al) {
						n++
						val(st.Val, d+1)
					}
				}
				if n == 0 {
					ok = false
				}
				return
			}
			ok = false
		case *ssa.Extract:
			if call, isCall := x.Tuple.(*ssa.Call); isCall {
				for _, callee := range c.P.Callees(call) {
					if callee.Blocks != nil && c.P.InModule(callee) {
						fun(callee, x.Index, d+1)
					} else {
						ok = false
					}
				}
				return
			}
			ok = false
		case *ssa.Call:
			for _, callee := range c.P.Callees(x) {
				if callee.Blocks != nil && c.P.InModule(callee) {
					fun(callee, 0, d+1)
				} else {
					ok = false
				}
			}
		default:
			ok = false
		}
	}
	fun = func(f *ssa.Function, ri int, d int) {
		if seenFn[f] {
			return
		}
		seenFn[f] = true
		for _, b := range f.Blocks {
			if ret, isRet := b.Instrs[len(b.Instrs)-1].(*ssa.Return); isRet && ri < len(ret.Results) {
				val(ret.Results[ri], d)
			}
		}
	}
	fun(fn, ri, 0)
	return out, ok
}

// blocksReturningConst: blocks in which result 0 is set to the constant (directly in a Return, or by
// a store to the defer-spilled result cell).
func blocksReturningConst(fn *ssa.Function, k int64) []*ssa.BasicBlock {
	var out []*ssa.BasicBlock
	isK := func(v ssa.Value) bool {
		c, ok := stripConv(v).(*ssa.Const)
		if !ok {
			return false
		}
		i, ok := constInt(c.Value)
		return ok && i == k
	}
	// result cells
	cells := map[*ssa.Alloc]bool{}
	for _, b := range fn.Blocks {
		if ret, ok := b.Instrs[len(b.Instrs)-1].(*ssa.Return); ok && len(ret.Results) > 0 {
			if isK(ret.Results[0]) {
				out = append(out, b)
			}
			if u, ok := ret.Results[0].(*ssa.UnOp); ok {
				if al, ok := u.X.(*ssa.Alloc); ok {
					cells[al] = true
				}
			}
		}
	}
	for _, b := range fn.Blocks {
		for _, in := range b.Instrs {
			if st, ok := in.(*ssa.Store); ok {
				if al, ok := st.Addr.(*ssa.Alloc); ok && cells[al] && isK(st.Val) {
					out = append(out, b)
				}
			}
		}
	}
	return out
}

func (c *Ctx) ruleFSMTransitions() {
	r := c.R
	rule := "E5.transitions"
	r.Rule(rule, "transition relation extracted from the state handlers (constants each handler can return as next state, through phis, defer-spilled results and handleOpen) is contained in the RFC 4271 §8 relation restricted to gobgp's states", 5)
	st := c.P.NamedType("pkg/packet/bgp", "FSMState")
	if st == nil {
		r.Undec(rule, "-", "anchor:FSMState", "-", "not found")
		return
	}
	sv := enumConsts(st)
	name := map[int64]string{-1: "dying(-1)"}
	for k, v := range sv {
		name[v] = strings.TrimPrefix(k, "BGP_FSM_")
	}
	allowed := map[string][]string{
		"idle":        {"IDLE", "ACTIVE"},
		"active":      {"IDLE", "OPENSENT", "OPENCONFIRM"},
		"opensent":    {"IDLE", "OPENCONFIRM"},
		"openconfirm": {"IDLE", "ESTABLISHED"},
		"established": {"IDLE"},
	}
	for _, h := range []string{"idle", "active", "opensent", "openconfirm", "established"} {
		fn := c.P.Func("(*pkg/server.fsmHandler)." + h)
		if fn == nil {
			r.Undec(rule, h, "anchor", "-", "state handler not found")
			continue
		}
		set, ok := c.returnedConsts(fn, 0)
		fk := ir.FuncKey(fn)
		if !ok {
			r.Undec(rule, fk, "next states", c.P.Pos(fn.Pos()), "a returned next state could not be resolved to constants")
			continue
		}
		al := map[string]bool{"dying(-1)": true}
		for _, a := range allowed[h] {
			al[a] = true
		}
		var got []string
		bad := []string{}
		for v := range set {
			n := name[v]
			if n == "" {
				n = fmt.Sprint(v)
			}
			got = append(got, n)
			if !al[n] {
				bad = append(bad, n)
			}
		}
		sort.Strings(got)
		sort.Strings(bad)
		if len(bad) == 0 {
			r.Ok(rule, fk, "next states", c.P.Pos(fn.Pos()), h+" → {"+strings.Join(got, ", ")+"}")
		} else {
			r.Bad(rule, fk, "next states", c.P.Pos(fn.Pos()), fmt.Sprintf("%s can move to %v, which RFC 4271 does not allow from this state (allowed: %v)", h, bad, allowed[h]))
		}
	}
	// gates
	gate := "E6.fsm-gates"
	r.Rule(gate, "Established is only entered on a KEEPALIVE received in OpenConfirm; OpenConfirm only after handleOpen accepted the peer's OPEN (or from the outgoing-connection manager, which itself only hands over a connection after handleOpen accepted); Idle leaves for Active only while administratively up", 4)
	est, oc2, act := sv["BGP_FSM_ESTABLISHED"], sv["BGP_FSM_OPENCONFIRM"], sv["BGP_FSM_ACTIVE"]
	mt := enumMsgTypes(c)
	if fn := c.P.Func("(*pkg/server.fsmHandler).openconfirm"); fn != nil {
		for i, b := range blocksReturningConst(fn, est) {
			ok := false
			for _, g := range fn.Blocks {
				iff, isIf := g.Instrs[len(g.Instrs)-1].(*ssa.If)
				if !isIf {
					continue
				}
				bo, isB := iff.Cond.(*ssa.BinOp)
				if !isB || bo.Op != token.EQL {
					continue
				}
				k, isK := stripConv(bo.Y).(*ssa.Const)
				if !isK {
					continue
				}
				if kv, _ := constInt(k.Value); kv == mt["BGP_MSG_KEEPALIVE"] && fieldLoadName(bo.X) == "Type" && edgeDominates(g, 0, b) {
					ok = true
				}
			}
			cons := fmt.Sprintf("return ESTABLISHED #%d", i+1)
			if ok {
				r.Ok(gate, ir.FuncKey(fn), cons, c.P.Pos(b.Instrs[0].Pos()), "under Header.Type == KEEPALIVE")
			} else {
				r.Bad(gate, ir.FuncKey(fn), cons, c.P.Pos(b.Instrs[0].Pos()), "the session can become Established on something other than a KEEPALIVE received in OpenConfirm")
			}
		}
	}
	handleOpen := c.P.Func("(*pkg/server.fsm).handleOpen")
	for _, h := range []string{"opensent", "active"} {
		fn := c.P.Func("(*pkg/server.fsmHandler)." + h)
		if fn == nil {
			continue
		}
		for i, b := range blocksReturningConst(fn, oc2) {
			why := ""
			for _, g := range fn.Blocks {
				iff, isIf := g.Instrs[len(g.Instrs)-1].(*ssa.If)
				if !isIf {
					continue
				}
				bo, isB := iff.Cond.(*ssa.BinOp)
				if !isB {
					continue
				}
				k, isK := stripConv(bo.Y).(*ssa.Const)
				ex, isEx := bo.X.(*ssa.Extract)
				if !isK || !isEx {
					continue
				}
				call, isCall := ex.Tuple.(*ssa.Call)
				if !isCall || call.Call.StaticCallee() != handleOpen {
					continue
				}
				kv, _ := constInt(k.Value)
				if kv != oc2 {
					continue
				}
				edge := 1
				if bo.Op == token.EQL {
					edge = 0
				}
				if edgeDominates(g, edge, b) {
					why = "after handleOpen returned OPENCONFIRM"
				}
			}
			if why == "" && dominatedByRecvFrom(b, "outgoingConnCh") {
				why = "connection handed over by the outgoing-connection manager"
			}
			cons := fmt.Sprintf("return OPENCONFIRM #%d", i+1)
			if why != "" {
				r.Ok(gate, ir.FuncKey(fn), cons, c.P.Pos(b.Instrs[0].Pos()), why)
			} else {
				r.Bad(gate, ir.FuncKey(fn), cons, c.P.Pos(b.Instrs[0].Pos()), "OpenConfirm can be entered without a validated OPEN from the peer")
			}
		}
	}
	// the manager only hands a connection over after handleOpen accepted
	if run := c.P.Func("(*pkg/server.outgoingConnManager).run"); run != nil {
		n := 0
		for _, b := range run.Blocks {
			for _, in := range b.Instrs {
				snd, isSend := in.(*ssa.Send)
				if !isSend || !strings.Contains(snd.X.Type().String(), "outgoingConn") {
					continue
				}
				n++
				ok := false
				for _, g := range run.Blocks {
					iff, isIf := g.Instrs[len(g.Instrs)-1].(*ssa.If)
					if !isIf {
						continue
					}
					bo, isB := iff.Cond.(*ssa.BinOp)
					if !isB {
						continue
					}
					ex, isEx := bo.X.(*ssa.Extract)
					k, isK := stripConv(bo.Y).(*ssa.Const)
					if !isEx || !isK {
						continue
					}
					call, isCall := ex.Tuple.(*ssa.Call)
					if !isCall || call.Call.StaticCallee() != handleOpen {
						continue
					}
					if kv, _ := constInt(k.Value); kv == oc2 {
						edge := 1
						if bo.Op == token.EQL {
							edge = 0
						}
						if edgeDominates(g, edge, b) {
							ok = true
						}
					}
				}
				if ok {
					r.Ok(gate, ir.FuncKey(run), "hand-over of outgoing connection", c.P.InstrPos(snd), "after handleOpen returned OPENCONFIRM")
				} else {
					r.Bad(gate, ir.FuncKey(run), "hand-over of outgoing connection", c.P.InstrPos(snd), "an outgoing connection is handed to the FSM without a validated OPEN")
				}
			}
		}
		if n == 0 {
			r.Undec(gate, ir.FuncKey(run), "anchor:send on outgoingConnCh", c.P.Pos(run.Pos()), "not found")
		}
	}
	// idle → active only when admin state is up (enum-domain)
	if fn := c.P.Func("(*pkg/server.fsmHandler).idle"); fn != nil {
		as := c.P.NamedType("pkg/server", "adminState")
		av := enumConsts(as)
		var hs []ssa.Value
		for _, b := range fn.Blocks {
			for _, in := range b.Instrs {
				if call, ok := in.(*ssa.Call); ok && as != nil && types.Identical(call.Type(), as) {
					hs = append(hs, call)
				}
			}
		}
		targets := blocksReturningConst(fn, act)
		if len(hs) == 0 || len(targets) == 0 || as == nil {
			r.Undec(gate, ir.FuncKey(fn), "anchor:admin-state test before Active", c.P.Pos(fn.Pos()), "not found")
		} else {
			var names []string
			for k := range av {
				names = append(names, k)
			}
			sort.Strings(names)
			for _, k := range names {
				reach := false
				for _, tb := range targets {
					if reachableUnderAll(fn, hs, av[k], tb) {
						reach = true
					}
				}
				want := k == "adminStateUp"
				cons := "Idle→Active when " + k
				if reach == want {
					r.Ok(gate, ir.FuncKey(fn), cons, c.P.Pos(fn.Pos()), map[bool]string{true: "allowed", false: "blocked"}[reach])
				} else if reach {
					r.Bad(gate, ir.FuncKey(fn), cons, c.P.Pos(fn.Pos()), "the peer leaves Idle on its own while it is administratively held down ("+k+")")
				} else {
					r.Bad(gate, ir.FuncKey(fn), cons, c.P.Pos(fn.Pos()), "an administratively enabled peer never leaves Idle")
				}
			}
		}
	}
}

func enumMsgTypes(c *Ctx) map[string]int64 {
	out := map[string]int64{}
	pk := c.P.Pkg("pkg/packet/bgp")
	if pk == nil {
		return out
	}
	for _, n := range []string{"BGP_MSG_OPEN", "BGP_MSG_UPDATE", "BGP_MSG_NOTIFICATION", "BGP_MSG_KEEPALIVE", "BGP_MSG_ROUTE_REFRESH"} {
		if cobj, ok := pk.Types.Scope().Lookup(n).(*types.Const); ok {
			if v, ok := constInt(cobj.Val()); ok {
				out[n] = v
			}
		}
	}
	return out
}

// dominatedByRecvFrom: the block is dominated by a block of the select that received from the named channel field.
func dominatedByRecvFrom(b *ssa.BasicBlock, field string) bool {
	fn := b.Parent()
	// find Select instructions and the index of the state receiving from the channel field
	for _, sb := range fn.Blocks {
		for _, in := range sb.Instrs {
			sel, ok := in.(*ssa.Select)
			if !ok {
				continue
			}
			for i, st := range sel.States {
				if fieldLoadName(st.Chan) != field {
					continue
				}
				// the dispatch: If(index == i) true edge
				for _, g := range fn.Blocks {
					iff, ok := g.Instrs[len(g.Instrs)-1].(*ssa.If)
					if !ok {
						continue
					}
					bo, ok := iff.Cond.(*ssa.BinOp)
					if !ok || bo.Op != token.EQL {
						continue
					}
					ex, ok := bo.X.(*ssa.Extract)
					k, ok2 := bo.Y.(*ssa.Const)
					if !ok || !ok2 || ex.Tuple != ssa.Value(sel) || ex.Index != 0 {
						continue
					}
					if kv, _ := constInt(k.Value); kv == int64(i) && edgeDominates(g, 0, b) {
						return true
					}
				}
			}
		}
	}
	return false
}

// ruleNotifications: each exit that the RFC answers with a NOTIFICATION builds the prescribed code/subcode.
func (c *Ctx) ruleNotifications() {
	r := c.R
	rule := "E6.notification-per-exit"
	r.Rule(rule, "NOTIFICATION code/subcode per exit (RFC 4271 §6/§8, RFC 4486): the listed functions construct a NOTIFICATION with exactly these constants", 7)
	nb := c.P.Func("pkg/packet/bgp.NewBGPNotificationMessage")
	if nb == nil {
		r.Undec(rule, "-", "anchor:NewBGPNotificationMessage", "-", "not found")
		return
	}
	pk := c.P.Pkg("pkg/packet/bgp").Types.Scope()
	cv := func(n string) int64 {
		if cobj, ok := pk.Lookup(n).(*types.Const); ok {
			v, _ := constInt(cobj.Val())
			return v
		}
		return -999
	}
	type need struct {
		fn, what  string
		code, sub int64
	}
	needs := []need{
		{"(*pkg/server.fsmHandler).opensent", "hold timer expired in OpenSent", cv("BGP_ERROR_HOLD_TIMER_EXPIRED"), 0},
		{"(*pkg/server.fsmHandler).openconfirm", "hold timer expired in OpenConfirm", cv("BGP_ERROR_HOLD_TIMER_EXPIRED"), 0},
		{"(*pkg/server.fsmHandler).established", "hold timer expired in Established", cv("BGP_ERROR_HOLD_TIMER_EXPIRED"), 0},
		{"(*pkg/server.outgoingConnManager).run", "hold timer expired on the outgoing connection", cv("BGP_ERROR_HOLD_TIMER_EXPIRED"), 0},
		{"(*pkg/server.fsmHandler).established", "administrative shutdown", cv("BGP_ERROR_CEASE"), cv("BGP_ERROR_SUB_ADMINISTRATIVE_SHUTDOWN")},
		{"(*pkg/server.fsmHandler).established", "prefix limit reached", cv("BGP_ERROR_CEASE"), cv("BGP_ERROR_SUB_MAXIMUM_NUMBER_OF_PREFIXES_REACHED")},
		{"(*pkg/server.fsm).handleOpen", "non-OPEN message while waiting for OPEN (FSM error in OpenSent)", cv("BGP_ERROR_FSM_ERROR"), 1},
	}
	for _, nd := range needs {
		fn := c.P.Func(nd.fn)
		if fn == nil {
			r.Undec(rule, nd.fn, "anchor", "-", "function not found")
			continue
		}
		found := false
		var visit func(f *ssa.Function)
		visit = func(f *ssa.Function) {
			for _, b := range f.Blocks {
				for _, in := range b.Instrs {
					call, ok := in.(*ssa.Call)
					if !ok || call.Call.StaticCallee() != nb {
						continue
					}
					k0, ok0 := stripConv(call.Call.Args[0]).(*ssa.Const)
					k1, ok1 := stripConv(call.Call.Args[1]).(*ssa.Const)
					if !ok0 || !ok1 {
						continue
					}
					a, _ := constInt(k0.Value)
					s, _ := constInt(k1.Value)
					if a == nd.code && s == nd.sub {
						found = true
					}
				}
			}
			for _, an := range f.AnonFuncs {
				visit(an)
			}
		}
		visit(fn)
		cons := fmt.Sprintf("%s → NOTIFICATION(%d,%d)", nd.what, nd.code, nd.sub)
		if found {
			r.Ok(rule, nd.fn, cons, c.P.Pos(fn.Pos()), "")
		} else {
			r.Bad(rule, nd.fn, cons, c.P.Pos(fn.Pos()), "this exit no longer sends the NOTIFICATION code/subcode the RFC prescribes")
		}
	}
}

// ruleEstablishedOnlyRIB: routing messages change a RIB only when the session is Established.
func (c *Ctx) ruleEstablishedOnlyRIB() {
	r := c.R
	rule := "E6.established-gate"
	r.Rule(rule, "in handleFSMMessage, handleUpdate / handleRouteRefresh / propagateUpdate for a received BGP message are only reachable past the test 'peer.State() != ESTABLISHED → return'", 2)
	fn := c.P.Func("(*pkg/server.BgpServer).handleFSMMessage")
	st := c.P.NamedType("pkg/packet/bgp", "FSMState")
	if fn == nil || st == nil {
		r.Undec(rule, "-", "anchor:handleFSMMessage", "-", "not found")
		return
	}
	est := enumConsts(st)["BGP_FSM_ESTABLISHED"]
	var gates []*ssa.BasicBlock // blocks whose false edge means "state is Established"
	for _, g := range fn.Blocks {
		iff, ok := g.Instrs[len(g.Instrs)-1].(*ssa.If)
		if !ok {
			continue
		}
		bo, ok := iff.Cond.(*ssa.BinOp)
		if !ok || bo.Op != token.NEQ {
			continue
		}
		call, ok := bo.X.(*ssa.Call)
		k, ok2 := stripConv(bo.Y).(*ssa.Const)
		if !ok || !ok2 || call.Call.StaticCallee() == nil || call.Call.StaticCallee().Name() != "State" {
			continue
		}
		if kv, _ := constInt(k.Value); kv == est {
			gates = append(gates, g)
		}
	}
	if len(gates) == 0 {
		r.Undec(rule, ir.FuncKey(fn), "anchor:State() != ESTABLISHED test", c.P.Pos(fn.Pos()), "not found")
		return
	}
	targets := map[string]bool{"handleUpdate": true, "handleRouteRefresh": true}
	n := 0
	for _, b := range fn.Blocks {
		for _, in := range b.Instrs {
			call, ok := in.(*ssa.Call)
			if !ok || call.Call.StaticCallee() == nil || !targets[call.Call.StaticCallee().Name()] {
				continue
			}
			n++
			ok2 := false
			for _, g := range gates {
				if g.Succs[1].Dominates(b) || g.Succs[1] == b {
					ok2 = true
				}
			}
			cons := "call " + call.Call.StaticCallee().Name()
			if ok2 {
				r.Ok(rule, ir.FuncKey(fn), cons, c.P.InstrPos(call), "past the Established test")
			} else {
				r.Bad(rule, ir.FuncKey(fn), cons, c.P.InstrPos(call), "a routing message received outside Established can reach the RIB")
			}
		}
	}
	if n < 2 {
		r.Undec(rule, ir.FuncKey(fn), "anchor:message handlers", c.P.Pos(fn.Pos()), fmt.Sprintf("found %d of handleUpdate/handleRouteRefresh", n))
	}
}

func init() {
	register(&Check{
		ID: "C07",
		Expl: "(E6.holdtime-min) the session runs on min(local, remote) hold time and a keepalive interval of a third of it whenever that is below the configured one. Decides the part of the session state machine visible in the handlers' shape: (E5.transitions) the next states each state handler can return ⊆ RFC 4271 §8 (extracted through phis, defer-spilled results and handleOpen); (E6.fsm-gates) Established only behind a KEEPALIVE in OpenConfirm, OpenConfirm only behind a validated OPEN (incl. the outgoing-connection manager's hand-over), Idle→Active only while administratively up (finite-domain evaluation over the admin states); " +
			"(E6.notification-per-exit) hold-timer, administrative-shutdown, prefix-limit and FSM-error exits build the prescribed NOTIFICATION code/subcode; (E6.unexpected-message) OpenConfirm answers OPEN/UPDATE/ROUTE-REFRESH with FSM-error/2 on every path (evaluated per message type), Established dispatches on every message type and answers OPEN with FSM-error/3, both outcomes of each collision decision close the loser with Cease/7; (E6.established-gate) received routing messages reach the RIB only past the Established test; (E6.as-trans) collision resolution compares the real (4-octet aware) AS. Also: (E6.hold-reset) only UPDATE and KEEPALIVE restart the hold timer (per message type); (E6.hold-timer-source) timer code never reads the locally configured hold time; (E6.prefix-limit-every-family) the prefix-limit test cannot be skipped for a configured family; (E1c.reader-conn-closed) a state function that replaces the session connection while its reader goroutine runs closes the old connection before it returns, so the state never parks behind a silent connection with its hold timer unserved. (E4.case-ratchet) against a committed baseline, no switch of the code this property is anchored in has lost a named case. (E6.call-ratchet) against a committed baseline, no function of that code has stopped calling (directly or through helpers) a non-trivial callee it called on the reviewed tree.",
		Not: "Timer instants, event orders, which connection survives a collision for given identifiers, and the correspondence of reported and real state over histories are not decided. Not armed: connections accepted while a session is already in progress are closed without a Cease, and the OpenSent FSM-error NOTIFICATION carries no data octet (both noted while triaging F9–F11, DESIGN.md §8.4).",
		Run: func(c *Ctx) {
			c.ruleRatchets("C07")
			c.ruleHoldTimeMin()
			c.ruleValidatorTestsSubject("E6.validator-tests-message", map[string]int{"pkg/packet/bgp.ValidateOpenMsg": 0, "pkg/packet/bgp.ValidateUpdateMsg": 0, "pkg/packet/bgp.ValidateAttribute": 0}, 3)
			c.ruleFSMTransitions()
			c.ruleNotifications()
			c.ruleUnexpectedMessages()
			c.ruleHoldResetOnlyOnLiveness("E6.hold-reset")
			c.ruleHoldTimerSource("E6.hold-timer-source")
			c.rulePrefixLimitEveryFamily("E6.prefix-limit-every-family")
			c.ruleReaderConnClosed("E1c.reader-conn-closed", 2)
			c.ruleEstablishedOnlyRIB()
			c.ruleASNReaders()
		},
	})
}

// sendsNotificationWith: the call (directly, or through a module helper up to depth 2) hands
// fsm.sendNotification a NOTIFICATION built with exactly these code/subcode constants.
func (c *Ctx) sendsNotificationWith(call *ssa.Call, code, sub int64, depth int) bool {
	callee := call.Call.StaticCallee()
	if callee == nil {
		return false
	}
	isNotif := func(v ssa.Value) bool {
		nc, ok := v.(*ssa.Call)
		if !ok || nc.Call.StaticCallee() == nil || nc.Call.StaticCallee().Name() != "NewBGPNotificationMessage" {
			return false
		}
		k0, ok0 := stripConv(nc.Call.Args[0]).(*ssa.Const)
		k1, ok1 := stripConv(nc.Call.Args[1]).(*ssa.Const)
		if !ok0 || !ok1 {
			return false
		}
		a, _ := constInt(k0.Value)
		s, _ := constInt(k1.Value)
		return a == code && s == sub
	}
	if callee.Name() == "sendNotification" {
		return isNotif(call.Call.Args[len(call.Call.Args)-1])
	}
	if depth >= 2 || !c.P.InModule(callee) || callee.Blocks == nil {
		return false
	}
	for _, b := range callee.Blocks {
		for _, in := range b.Instrs {
			if c2, ok := in.(*ssa.Call); ok && c.sendsNotificationWith(c2, code, sub, depth+1) {
				return true
			}
		}
	}
	return false
}

// ruleUnexpectedMessages: what the FSM does with a message it must not get in the current state.
func (c *Ctx) ruleUnexpectedMessages() {
	r := c.R
	rule := "E6.unexpected-message"
	r.Rule(rule, "RFC 4271 §8.2.2 / RFC 6608 / RFC 4486: (a) in OpenConfirm, evaluated for each message type, an OPEN, UPDATE or ROUTE-REFRESH cannot reach a return without a NOTIFICATION FSM-error/2 having been sent, while KEEPALIVE and NOTIFICATION send none; (b) the Established receive loop dispatches on every BGP message type and answers OPEN with FSM-error/3; (c) on both outcomes of every collision decision (isDominant) the losing connection is closed by a NOTIFICATION Cease/7 and never by a bare Close", 8)
	pk := c.P.Pkg("pkg/packet/bgp").Types.Scope()
	cv := func(n string) int64 {
		if cobj, ok := pk.Lookup(n).(*types.Const); ok {
			v, _ := constInt(cobj.Val())
			return v
		}
		return -999
	}
	mt := enumMsgTypes(c)
	fsmErr := cv("BGP_ERROR_FSM_ERROR")
	// (a) OpenConfirm
	if fn := c.P.Func("(*pkg/server.fsmHandler).openconfirm"); fn == nil {
		r.Undec(rule, "openconfirm", "anchor", "-", "not found")
	} else {
		fk := ir.FuncKey(fn)
		// the message-type value and the first test on it
		var h ssa.Value
		var start *ssa.BasicBlock
		for _, b := range fn.Blocks {
			iff, ok := b.Instrs[len(b.Instrs)-1].(*ssa.If)
			if !ok {
				continue
			}
			bo, ok := iff.Cond.(*ssa.BinOp)
			if !ok {
				continue
			}
			for _, side := range []ssa.Value{bo.X, bo.Y} {
				if fieldLoadName(side) == "Type" && strings.HasSuffix(fieldPath(side), "Header.Type") {
					if start == nil || b.Dominates(start) {
						h, start = side, b
					}
				}
			}
		}
		if start == nil {
			r.Bad(rule, fk, "dispatch on message type", c.P.Pos(fn.Pos()), "OpenConfirm no longer looks at the type of a received message")
		} else {
			for _, name := range []string{"BGP_MSG_OPEN", "BGP_MSG_UPDATE", "BGP_MSG_ROUTE_REFRESH", "BGP_MSG_KEEPALIVE", "BGP_MSG_NOTIFICATION"} {
				d := mt[name]
				mustNotify := name == "BGP_MSG_OPEN" || name == "BGP_MSG_UPDATE" || name == "BGP_MSG_ROUTE_REFRESH"
				// explore from start under h == d; stop at blocks that send the NOTIFICATION
				silentReturn, notified := false, false
				seen := map[*ssa.BasicBlock]bool{}
				work := []*ssa.BasicBlock{start}
				for len(work) > 0 {
					b := work[0]
					work = work[1:]
					if seen[b] {
						continue
					}
					seen[b] = true
					sent := false
					for _, in := range b.Instrs {
						if call, ok := in.(*ssa.Call); ok && c.sendsNotificationWith(call, fsmErr, 2, 0) {
							sent = true
						}
					}
					if sent {
						notified = true
						continue
					}
					last := b.Instrs[len(b.Instrs)-1]
					if _, ok := last.(*ssa.Return); ok {
						silentReturn = true
						continue
					}
					if iff, ok := last.(*ssa.If); ok {
						if v, ok := decideIf(iff.Cond, h, d); ok {
							if v {
								work = append(work, b.Succs[0])
							} else {
								work = append(work, b.Succs[1])
							}
							continue
						}
					}
					// do not leave the handling of this message: stay inside the region dominated by the dispatch
					for _, s := range b.Succs {
						if start.Dominates(s) && s != start {
							work = append(work, s)
						}
					}
				}
				cons := "OpenConfirm receives " + strings.TrimPrefix(name, "BGP_MSG_")
				switch {
				case mustNotify && silentReturn:
					r.Bad(rule, fk, cons, c.P.InstrPos(start.Instrs[len(start.Instrs)-1]), "the handler can return without having sent NOTIFICATION FSM-error/2 (Receive Unexpected Message in OpenConfirm State): the peer sees a bare TCP close")
				case mustNotify && !notified:
					r.Bad(rule, fk, cons, c.P.InstrPos(start.Instrs[len(start.Instrs)-1]), "no NOTIFICATION FSM-error/2 is sent for this message type")
				case mustNotify:
					r.Ok(rule, fk, cons, c.P.InstrPos(start.Instrs[len(start.Instrs)-1]), "every path to a return sends FSM-error/2")
				case notified && !silentReturn:
					r.Bad(rule, fk, cons, c.P.InstrPos(start.Instrs[len(start.Instrs)-1]), "an expected message is answered with an FSM-error NOTIFICATION")
				default:
					r.Ok(rule, fk, cons, c.P.InstrPos(start.Instrs[len(start.Instrs)-1]), "no FSM-error NOTIFICATION required")
				}
			}
		}
	}
	// (b) Established dispatch
	if fn := c.P.Func("(*pkg/server.fsmHandler).recvMessageloop"); fn == nil {
		r.Undec(rule, "recvMessageloop", "anchor", "-", "not found")
	} else {
		fk := ir.FuncKey(fn)
		info := c.infoFor(fn)
		var best *switchInfo
		for _, sw := range switchesOn(funcBody(fn), info, func(t types.Type) bool {
			b, ok := t.Underlying().(*types.Basic)
			return ok && b.Kind() == types.Uint8
		}) {
			if _, ok := sw.Cases["BGP_MSG_UPDATE"]; ok {
				best = sw
			}
		}
		if best == nil {
			r.Bad(rule, fk, "dispatch on message type", c.P.Pos(fn.Pos()), "the Established receive loop has no switch on the message type")
		} else {
			for _, name := range []string{"BGP_MSG_OPEN", "BGP_MSG_UPDATE", "BGP_MSG_NOTIFICATION", "BGP_MSG_KEEPALIVE", "BGP_MSG_ROUTE_REFRESH"} {
				cc := best.Cases[name]
				cons := "Established receives " + strings.TrimPrefix(name, "BGP_MSG_")
				switch {
				case cc == nil && best.HasDefault:
					r.Ok(rule, fk, cons, c.P.Pos(best.Stmt.Pos()), "handled by the default clause")
				case cc == nil:
					r.Bad(rule, fk, cons, c.P.Pos(best.Stmt.Pos()), "no case for this message type: the message is passed on as if it were expected")
				case name == "BGP_MSG_OPEN" && !(mentionsConst(cc, info, "BGP_ERROR_FSM_ERROR") && mentionsConst(cc, info, "BGP_ERROR_SUB_RECEIVE_UNEXPECTED_MESSAGE_IN_ESTABLISHED_STATE")):
					r.Bad(rule, fk, cons, c.P.Pos(cc.Pos()), "an OPEN in Established is not answered with NOTIFICATION FSM-error/3")
				default:
					r.Ok(rule, fk, cons, c.P.Pos(cc.Pos()), "has a case")
				}
			}
		}
	}
	// (c) collision
	if fn := c.P.Func("(*pkg/server.fsmHandler).opensent"); fn == nil {
		r.Undec(rule, "opensent", "anchor", "-", "not found")
	} else {
		fk := ir.FuncKey(fn)
		cease, coll := cv("BGP_ERROR_CEASE"), cv("BGP_ERROR_SUB_CONNECTION_COLLISION_RESOLUTION")
		n := 0
		for _, dc := range staticCallsOf(fn, false, "isDominant") {
			for _, ref := range *dc.Referrers() {
				iff, ok := ref.(*ssa.If)
				if !ok {
					continue
				}
				for edge := 0; edge < 2; edge++ {
					n++
					sends, bare := false, ""
					for _, b := range fn.Blocks {
						if !edgeDominates(iff.Block(), edge, b) {
							continue
						}
						for _, in := range b.Instrs {
							call, ok := in.(*ssa.Call)
							if !ok {
								continue
							}
							if c.sendsNotificationWith(call, cease, coll, 0) {
								sends = true
							}
							if call.Call.IsInvoke() && call.Call.Method.Name() == "Close" {
								bare = c.P.InstrPos(call)
							}
						}
					}
					cons := fmt.Sprintf("collision decision #%d, %s side wins", (n+1)/2, map[int]string{0: "active", 1: "passive"}[edge])
					switch {
					case bare != "":
						r.Bad(rule, fk, cons, bare, "the connection that loses the collision is closed with a bare Close(): RFC 4271 §6.8 prescribes a NOTIFICATION Cease (RFC 4486 subcode 7)")
					case !sends:
						r.Bad(rule, fk, cons, c.P.InstrPos(iff), "the losing connection is not closed with NOTIFICATION Cease/7")
					default:
						r.Ok(rule, fk, cons, c.P.InstrPos(iff), "loser closed by NOTIFICATION Cease/7")
					}
				}
			}
		}
		if n == 0 {
			r.Bad(rule, fk, "collision decision", c.P.Pos(fn.Pos()), "no collision decision found")
		}
	}
}
