package props

import (
	"fmt"
	"go/token"
	"go/types"
	"sort"
	"strings"

	"golang.org/x/tools/go/ssa"

	"gbverif/ir"
)

// reachBool: is target reachable from the entry block when the boolean SSA values classified by
// val take the given truth values (every other branch is taken both ways)?
func reachBool(fn *ssa.Function, val func(ssa.Value) (bool, bool), target *ssa.BasicBlock) bool {
	var eval func(v ssa.Value) (bool, bool)
	eval = func(v ssa.Value) (bool, bool) {
		if x, ok := val(v); ok {
			return x, true
		}
		if u, ok := v.(*ssa.UnOp); ok && u.Op == token.NOT {
			if x, ok := eval(u.X); ok {
				return !x, true
			}
		}
		if k, ok := v.(*ssa.Const); ok && k.Value != nil && k.Value.Kind().String() == "Bool" {
			return k.Value.String() == "true", true
		}
		return false, false
	}
	seen := map[*ssa.BasicBlock]bool{}
	work := []*ssa.BasicBlock{fn.Blocks[0]}
	for len(work) > 0 {
		b := work[0]
		work = work[1:]
		if seen[b] {
			continue
		}
		seen[b] = true
		if b == target {
			return true
		}
		if iff, ok := b.Instrs[len(b.Instrs)-1].(*ssa.If); ok {
			if x, ok := eval(iff.Cond); ok {
				if x {
					work = append(work, b.Succs[0])
				} else {
					work = append(work, b.Succs[1])
				}
				continue
			}
		}
		work = append(work, b.Succs...)
	}
	return false
}

// familyCases: the address-family constants named in the case clauses of fn's switches on a bgp.Family value.
func (c *Ctx) familyCases(fn *ssa.Function) map[string]bool {
	info := c.infoFor(fn)
	body := funcBody(fn)
	out := map[string]bool{}
	if info == nil || body == nil {
		return out
	}
	for _, sw := range switchesOn(body, info, func(t types.Type) bool {
		n, ok := t.(*types.Named)
		return ok && n.Obj().Name() == "Family" && strings.HasSuffix(n.Obj().Pkg().Path(), "pkg/packet/bgp")
	}) {
		for name := range sw.Cases {
			if strings.HasPrefix(name, "RF_") {
				out[name] = true
			}
		}
	}
	return out
}

func setStr(m map[string]bool) string {
	var s []string
	for k := range m {
		s = append(s, k)
	}
	sort.Strings(s)
	return strings.Join(s, ",")
}

// ruleVrfImportGate: conversion of a VPN route to a plain VRF route only behind the import test.
func (c *Ctx) ruleVrfImportGate() {
	r := c.R
	rule := "E6.vrf-import-gate"
	r.Rule(rule, "every conversion of a VPN route to a plain route (Path.ToLocal) lies on the true edge of CanImportToVrf(vrf, thatPath): a VPN route is shown in / re-advertised from a VRF only if one of its transitive route targets is in the VRF's import set; the import test itself only counts transitive communities and only consults ImportRt", 4)
	exceptions := map[string]string{
		"pkg/server.filteredPathForPeer": "builds withdrawal candidates for soft reset out from routes the export pipeline rejected; the result is only ever offered as a withdrawal and only if hasPathAlreadyBeenSent (checked in C15 E6.replay-partition)",
	}
	tl := c.P.Func("(*internal/pkg/table.Path).ToLocal")
	if tl == nil {
		r.Undec(rule, "-", "anchor:ToLocal", "-", "not found")
		return
	}
	for _, e := range c.P.Callers(tl) {
		caller := e.Caller.Func
		if !c.P.InModule(caller) {
			continue
		}
		call, ok := e.Site.(*ssa.Call)
		fk := ir.FuncKey(caller)
		pos := c.P.InstrPos(e.Site)
		if why, ok := exceptions[fk]; ok {
			r.Except(rule, fk, "ToLocal", pos, why)
			continue
		}
		if !ok {
			r.Bad(rule, fk, "ToLocal", pos, "deferred or asynchronous conversion")
			continue
		}
		guarded := false
		for _, g := range staticCallsOf(caller, false, "CanImportToVrf") {
			if g.Call.Args[1] != call.Call.Args[0] && !sameSym(g.Call.Args[1], call.Call.Args[0]) {
				continue
			}
			for _, ref := range *g.Referrers() {
				if i, ok := ref.(*ssa.If); ok && edgeDominates(i.Block(), 0, call.Block()) {
					guarded = true
				}
			}
		}
		if guarded {
			r.Ok(rule, fk, "ToLocal", pos, "on the true edge of CanImportToVrf for the same path")
		} else {
			r.Bad(rule, fk, "ToLocal", pos, "a VPN route is converted to a plain VRF route without the import route-target test on that route: routes leak into a VRF whose import set does not match")
		}
	}
	// the import test
	ci := c.P.Func("internal/pkg/table.CanImportToVrf")
	if ci == nil {
		r.Undec(rule, "-", "anchor:CanImportToVrf", "-", "not found")
		return
	}
	fk := ir.FuncKey(ci)
	var lookups, trans int
	// the test itself, a predicate closure it hands to slices.ContainsFunc, or a helper of the package
	for _, cf := range c.withHelpers(ci, 1) {
		for _, b := range cf.Blocks {
			for _, in := range b.Instrs {
				switch x := in.(type) {
				case *ssa.Lookup:
					if fieldLoadName(x.X) == "ImportRt" {
						lookups++
						// dominated by the transitive test's true edge
						for _, t := range staticCallsOf(cf, false, "isTransitiveType") {
							for _, ref := range *t.Referrers() {
								if i, ok := ref.(*ssa.If); ok && edgeDominates(i.Block(), 0, b) {
									trans++
								}
							}
						}
					} else if n := fieldLoadName(x.X); n != "" {
						r.Bad(rule, fk, "import set", c.P.InstrPos(x), "the import test consults "+n+" instead of the import route-target set")
					}
				}
			}
		}
	}
	if lookups > 0 && trans == lookups {
		r.Ok(rule, fk, "import set", c.P.Pos(ci.Pos()), "ImportRt lookup only for transitive communities")
	} else {
		r.Bad(rule, fk, "import set", c.P.Pos(ci.Pos()), fmt.Sprintf("ImportRt lookups=%d, of which behind the transitive-type test=%d", lookups, trans))
	}
}

// ruleVrfExport: the VRF->global conversions stamp RD, label and export targets; family tables agree.
func (c *Ctx) ruleVrfExport() {
	r := c.R
	rule := "E3.vrf-export"
	r.Rule(rule, "both VRF→global conversions (Path.ToGlobal for routes received from a VRF peer, Vrf.ToGlobalPath for routes originated through the API) read the VRF's Rd, MplsLabel and ExportRt and install ExportRt with SetExtCommunities; the two convert the same set of address families, and that set covers the inverse of every family ToLocal / the VRF export path converts back; a VRF peer's routes enter the RIB only through ToGlobal", 6)
	vrf := c.P.NamedType("internal/pkg/table", "Vrf")
	tg := c.P.Func("(*internal/pkg/table.Path).ToGlobal")
	tgp := c.P.Func("(*internal/pkg/table.Vrf).ToGlobalPath")
	tl := c.P.Func("(*internal/pkg/table.Path).ToLocal")
	if vrf == nil || tg == nil || tgp == nil || tl == nil {
		r.Undec(rule, "-", "anchor", "-", "Vrf/ToGlobal/ToGlobalPath/ToLocal not found")
		return
	}
	for _, fn := range []*ssa.Function{tg, tgp} {
		fk := ir.FuncKey(fn)
		read := map[string]bool{}
		exportInstalled := false
		for _, b := range fn.Blocks {
			for _, in := range b.Instrs {
				if fa, ok := in.(*ssa.FieldAddr); ok && ir.NamedOf(ir.Deref(fa.X.Type())) == vrf {
					read[ir.FieldOf(fa).Name()] = true
				}
				if call, ok := in.(*ssa.Call); ok && call.Call.StaticCallee() != nil && call.Call.StaticCallee().Name() == "SetExtCommunities" {
					if fieldLoadName(call.Call.Args[1]) == "ExportRt" {
						exportInstalled = true
					}
				}
			}
		}
		for _, f := range []string{"Rd", "MplsLabel", "ExportRt"} {
			if read[f] {
				r.Ok(rule, fk, "stamps "+f, c.P.Pos(fn.Pos()), "read from the VRF")
			} else {
				r.Bad(rule, fk, "stamps "+f, c.P.Pos(fn.Pos()), "the conversion no longer uses the VRF's "+f+": exported routes would not carry it")
			}
		}
		if exportInstalled {
			r.Ok(rule, fk, "installs ExportRt", c.P.Pos(fn.Pos()), "SetExtCommunities(vrf.ExportRt, …)")
		} else {
			r.Bad(rule, fk, "installs ExportRt", c.P.Pos(fn.Pos()), "export route targets are not attached to the exported route")
		}
	}
	// family tables
	a, b := c.familyCases(tg), c.familyCases(tgp)
	for name := range b {
		if a[name] {
			r.Ok(rule, ir.FuncKey(tg), "family "+name, c.P.Pos(tg.Pos()), "converted by both")
		} else {
			r.Bad(rule, ir.FuncKey(tg), "family "+name, c.P.Pos(tg.Pos()), "Vrf.ToGlobalPath converts "+name+" to its VPN form but Path.ToGlobal returns the route unchanged: such a route received from a VRF peer enters the global table without RD and export targets (visible to every non-VRF peer, invisible to importing VRFs)")
		}
	}
	for name := range a {
		if !b[name] {
			r.Bad(rule, ir.FuncKey(tgp), "family "+name, c.P.Pos(tgp.Pos()), "Path.ToGlobal converts "+name+" but Vrf.ToGlobalPath does not")
		}
	}
	back := c.familyCases(tl)
	for name := range back {
		inv := strings.TrimSuffix(name, "_VPN") + "_UC"
		if !strings.HasSuffix(name, "_VPN") {
			continue
		}
		if a[inv] && b[inv] {
			r.Ok(rule, ir.FuncKey(tl), "inverse of "+name, c.P.Pos(tl.Pos()), inv+" handled by both VRF→global conversions")
		} else if !b[inv] {
			r.Bad(rule, ir.FuncKey(tl), "inverse of "+name, c.P.Pos(tl.Pos()), "ToLocal converts "+name+" for VRF peers but no VRF→global conversion handles "+inv)
		}
	}
	for _, sib := range []string{"pkg/server.filteredPathForPeer", "(*pkg/server.BgpServer).propagateUpdateToNeighbors"} {
		fn := c.P.Func(sib)
		if fn == nil {
			r.Undec(rule, sib, "anchor", "-", "not found")
			continue
		}
		got := map[string]bool{}
		for _, f := range c.withPrivateHelpers(fn, 1) { // the function, its closures and helpers extracted from it
			for k := range c.familyCases(f) {
				if strings.HasSuffix(k, "_VPN") {
					got[k] = true
				}
			}
		}
		if setStr(got) == setStr(back) {
			r.Ok(rule, sib, "VPN family table", c.P.Pos(fn.Pos()), setStr(got))
		} else {
			r.Bad(rule, sib, "VPN family table", c.P.Pos(fn.Pos()), "handles {"+setStr(got)+"} but ToLocal converts {"+setStr(back)+"}")
		}
	}
	// ingress: propagateUpdate converts under the peer's VRF flag before anything else
	pu := c.P.Func("(*pkg/server.BgpServer).propagateUpdate")
	if pu == nil {
		r.Undec(rule, "propagateUpdate", "anchor", "-", "not found")
		return
	}
	pk := ir.FuncKey(pu)
	tgs := staticCallsOf(pu, false, "ToGlobal")
	okIngress := false
	for _, t := range tgs {
		// its result reaches the per-path closure call
		for _, b2 := range pu.Blocks {
			for _, in := range b2.Instrs {
				call, ok := in.(*ssa.Call)
				if !ok || call.Call.StaticCallee() == nil || call.Call.StaticCallee().Parent() != pu {
					continue
				}
				for _, a := range call.Call.Args {
					if phi, ok := a.(*ssa.Phi); ok {
						for _, e := range phi.Edges {
							if e == ssa.Value(t) {
								okIngress = true
							}
						}
					}
					if a == ssa.Value(t) {
						okIngress = true
					}
				}
			}
		}
	}
	if okIngress {
		r.Ok(rule, pk, "VRF ingress conversion", c.P.InstrPos(tgs[0]), "ToGlobal result is what import policy and the RIB see")
	} else {
		r.Bad(rule, pk, "VRF ingress conversion", c.P.Pos(pu.Pos()), "routes from a VRF peer are not converted with ToGlobal before import policy and RIB update")
	}
}

// ruleVPNIndex: the RT index follows every table update.
func (c *Ctx) ruleVPNIndex() {
	r := c.R
	rule := "E6.vpn-index"
	r.Rule(rule, "the RT→paths index is maintained on every table update: updateVPNIdx post-dominates every destination.Calculate call, only updateVPNIdx registers/unregisters, and in it every non-ADD-PATH path to a return passes the old-best/new-best comparison whose unequal edge unregisters the old best and registers the new one (ADD-PATH: unregister old, and register new unless withdrawn)", 5)
	calc := c.P.Func("(*internal/pkg/table.destination).Calculate")
	upd := c.P.Func("(*internal/pkg/table.Table).updateVPNIdx")
	if calc == nil || upd == nil {
		r.Undec(rule, "-", "anchor", "-", "Calculate/updateVPNIdx not found")
		return
	}
	for _, e := range c.P.Callers(calc) {
		caller := e.Caller.Func
		if !c.P.InModule(caller) {
			continue
		}
		fk := ir.FuncKey(caller)
		site := e.Site
		// every path from the call to an exit passes updateVPNIdx
		marks := map[*ssa.BasicBlock]bool{}
		same := false
		for _, u := range staticCallsOf(caller, false, "updateVPNIdx") {
			if u.Block() == site.Block() {
				same = dominatesInstr(site, u)
			}
			marks[u.Block()] = true
		}
		ok := same
		if !ok {
			ok = true
			for _, s := range site.Block().Succs {
				if !mustPassThrough(s, func(b *ssa.BasicBlock) bool { return marks[b] }) {
					ok = false
				}
			}
			if len(site.Block().Succs) == 0 {
				ok = false
			}
		}
		if ok {
			r.Ok(rule, fk, "index follows Calculate", c.P.InstrPos(site), "updateVPNIdx on every path after the call")
		} else {
			r.Bad(rule, fk, "index follows Calculate", c.P.InstrPos(site), "a table update can return without refreshing the RT index: later membership changes would advertise stale paths or miss current ones")
		}
	}
	for _, name := range []string{"RegisterPath", "UnregisterPath"} {
		fn := c.P.Func("(*internal/pkg/table.VPNPathIndex)." + name)
		if fn == nil {
			r.Undec(rule, name, "anchor", "-", "not found")
			continue
		}
		for _, e := range c.P.Callers(fn) {
			if !c.P.InModule(e.Caller.Func) {
				continue
			}
			if e.Caller.Func == upd {
				continue
			}
			r.Bad(rule, ir.FuncKey(e.Caller.Func), name+" outside updateVPNIdx", c.P.InstrPos(e.Site), "the RT index is modified outside its single maintenance point")
		}
		r.Ok(rule, ir.FuncKey(fn), "single writer", c.P.Pos(fn.Pos()), "only updateVPNIdx calls it")
	}
	// inside updateVPNIdx
	uk := ir.FuncKey(upd)
	var cmp *ssa.BinOp
	fromList := func(v ssa.Value, field string) bool {
		phi, ok := v.(*ssa.Phi)
		if !ok {
			return false
		}
		for _, e := range phi.Edges {
			if u, ok := e.(*ssa.UnOp); ok {
				if ia, ok := u.X.(*ssa.IndexAddr); ok && fieldLoadName(ia.X) == field {
					if k, ok := ia.Index.(*ssa.Const); ok && k.Int64() == 0 {
						return true
					}
				}
			}
		}
		return false
	}
	for _, b := range upd.Blocks {
		for _, in := range b.Instrs {
			if bo, ok := in.(*ssa.BinOp); ok && (bo.Op == token.NEQ || bo.Op == token.EQL) {
				if fromList(bo.X, "OldKnownPathList") && fromList(bo.Y, "KnownPathList") || fromList(bo.Y, "OldKnownPathList") && fromList(bo.X, "KnownPathList") {
					cmp = bo
				}
			}
		}
	}
	if cmp == nil {
		r.Bad(rule, uk, "best-path comparison", c.P.Pos(upd.Pos()), "no comparison of OldKnownPathList[0] with KnownPathList[0]")
		return
	}
	// the add-path split
	var split *ssa.If
	for _, b := range upd.Blocks {
		if iff, ok := b.Instrs[len(b.Instrs)-1].(*ssa.If); ok {
			if bo, ok := iff.Cond.(*ssa.BinOp); ok {
				if call, ok := bo.X.(*ssa.Call); ok && call.Call.StaticCallee() != nil && call.Call.StaticCallee().Name() == "RemoteID" {
					split = iff
				}
			}
		}
	}
	if split == nil {
		r.Bad(rule, uk, "ADD-PATH split", c.P.Pos(upd.Pos()), "no test of the path identifier")
		return
	}
	nonAP := 1
	if bo := split.Cond.(*ssa.BinOp); bo.Op == token.EQL {
		nonAP = 0
	}
	if mustPassThrough(split.Block().Succs[nonAP], func(b *ssa.BasicBlock) bool { return b == cmp.Block() }) {
		r.Ok(rule, uk, "non-ADD-PATH reaches comparison", c.P.InstrPos(cmp), "every path to a return passes the old-best/new-best comparison")
	} else {
		r.Bad(rule, uk, "non-ADD-PATH reaches comparison", c.P.InstrPos(split), "a non-ADD-PATH update can return before comparing old and new best path: the index keeps a path that is no longer best and never learns the new one")
	}
	// unequal edge does both
	var cmpIf *ssa.If
	for _, ref := range *cmp.Referrers() {
		if i, ok := ref.(*ssa.If); ok {
			cmpIf = i
		}
	}
	if cmpIf == nil {
		r.Bad(rule, uk, "unequal edge updates", c.P.InstrPos(cmp), "comparison result unused")
		return
	}
	ne := 0
	if cmp.Op == token.EQL {
		ne = 1
	}
	var unreg, reg bool
	for _, call := range staticCallsOf(upd, false, "UnregisterPath", "RegisterPath") {
		if !edgeDominates(cmpIf.Block(), ne, call.Block()) {
			continue
		}
		arg := call.Call.Args[1]
		if call.Call.StaticCallee().Name() == "UnregisterPath" && fromList(arg, "OldKnownPathList") {
			unreg = true
		}
		if call.Call.StaticCallee().Name() == "RegisterPath" && fromList(arg, "KnownPathList") {
			reg = true
		}
	}
	if unreg && reg {
		r.Ok(rule, uk, "unequal edge updates", c.P.InstrPos(cmpIf), "UnregisterPath(oldBest) and RegisterPath(newBest)")
	} else {
		r.Bad(rule, uk, "unequal edge updates", c.P.InstrPos(cmpIf), fmt.Sprintf("on a best-path change: unregisters old best=%v, registers new best=%v", unreg, reg))
	}
}

// ruleRTCReevaluate: membership change handling.
func (c *Ctx) ruleRTCReevaluate() {
	r := c.R
	rule := "E5.rtc-reevaluate"
	r.Rule(rule, "membership bookkeeping changes only in processRTCMembership (SyncAfterImport) and DropAll (Reset); processRTCMembership samples membership of the target before and after the change and, evaluated over all 8 valuations of (withdraw, known-before, known-after), re-evaluates VPN routes for the first announcement and for the withdrawal that ends membership, and never for a withdrawal after which the peer is still a member; announcements go through the export pipeline", 5)
	who := map[string]map[string]bool{
		"(*internal/pkg/table.RouteTargetMembershipHandler).SyncAfterImport": {"(*pkg/server.BgpServer).processRTCMembership": true},
		"(*internal/pkg/table.RouteTargetMembershipHandler).Reset":           {"(*pkg/server.peer).DropAll": true},
	}
	for k, allowed := range who {
		fn := c.P.Func(k)
		if fn == nil {
			r.Undec(rule, k, "anchor", "-", "not found")
			continue
		}
		n := 0
		for _, e := range c.P.Callers(fn) {
			if !c.P.InModule(e.Caller.Func) {
				continue
			}
			ck := ir.FuncKey(e.Caller.Func)
			var akeys []string
			for a := range allowed {
				akeys = append(akeys, a)
			}
			sort.Strings(akeys)
			if c.familyKey(e.Caller.Func, akeys) != "" {
				n++
				r.Ok(rule, ck, fn.Name(), c.P.InstrPos(e.Site), "reviewed caller")
			} else {
				r.Bad(rule, ck, fn.Name(), c.P.InstrPos(e.Site), "membership set changed outside the place that re-evaluates the peer's VPN routes")
			}
		}
		if n == 0 {
			r.Bad(rule, k, "callers", c.P.Pos(fn.Pos()), "no caller: membership is never updated")
		}
	}
	pm := c.P.Func("(*pkg/server.BgpServer).processRTCMembership")
	if pm == nil {
		r.Undec(rule, "processRTCMembership", "anchor", "-", "not found")
		return
	}
	pk := ir.FuncKey(pm)
	syncs := staticCallsOf(pm, false, "SyncAfterImport")
	cands := staticCallsOf(pm, false, "rtcVPNCandidates")
	if len(syncs) != 1 || len(cands) != 1 {
		r.Bad(rule, pk, "shape", c.P.Pos(pm.Pos()), fmt.Sprintf("expected one SyncAfterImport and one rtcVPNCandidates call, found %d and %d", len(syncs), len(cands)))
		return
	}
	// membership samples: calls of a local closure that reads the handler
	var before, after []*ssa.Call
	for _, b := range pm.Blocks {
		for _, in := range b.Instrs {
			call, ok := in.(*ssa.Call)
			if !ok {
				continue
			}
			// a local closure, a variable holding one, or a helper of the package that asks the handler
			cl := calleeOf(&call.Call)
			if cl == nil || !c.P.InModule(cl) || cl.Name() == "HasRouteTarget" || !c.callsNamed(cl, "HasRouteTarget", 1) {
				continue
			}
			if cl.Name() == "SyncAfterImport" || cl.Name() == "rtcVPNCandidates" {
				continue
			}
			if dominatesInstr(call, syncs[0]) {
				before = append(before, call)
			} else if dominatesInstr(syncs[0], call) {
				after = append(after, call)
			}
		}
	}
	if len(before) != 1 || len(after) != 1 {
		r.Bad(rule, pk, "membership sampled before and after", c.P.InstrPos(syncs[0]), fmt.Sprintf("samples before=%d after=%d", len(before), len(after)))
		return
	}
	r.Ok(rule, pk, "membership sampled before and after", c.P.InstrPos(syncs[0]), "one sample on each side of SyncAfterImport")
	target := cands[0].Block()
	bad := []string{}
	for w := 0; w < 2; w++ {
		for bf := 0; bf < 2; bf++ {
			for af := 0; af < 2; af++ {
				W, B, A := w == 1, bf == 1, af == 1
				reach := reachBool(pm, func(v ssa.Value) (bool, bool) {
					switch {
					case v == ssa.Value(before[0]):
						return B, true
					case v == ssa.Value(after[0]):
						return A, true
					case fieldLoadName(v) == "IsWithdraw":
						return W, true
					}
					return false, false
				}, target)
				must := !W && !B || W && B && !A
				mustNot := W && A
				if must && !reach || mustNot && reach {
					bad = append(bad, fmt.Sprintf("withdraw=%v known-before=%v known-after=%v → re-evaluates=%v", W, B, A, reach))
				}
			}
		}
	}
	if len(bad) == 0 {
		r.Ok(rule, pk, "re-evaluation condition", c.P.InstrPos(cands[0]), "8 valuations agree with: first announcement and membership-ending withdrawal re-evaluate; withdrawal leaving membership does not")
	} else {
		r.Bad(rule, pk, "re-evaluation condition", c.P.InstrPos(cands[0]), strings.Join(bad, "; "))
	}
	// announcements pass the export pipeline
	var cb *ssa.Function
	for _, a := range cands[0].Call.Args {
		if _, isFn := a.Type().Underlying().(*types.Signature); isFn {
			if f := funcValue(a); f != nil {
				cb = f
			}
		}
	}
	if cb == nil {
		r.Bad(rule, pk, "announce through export pipeline", c.P.InstrPos(cands[0]), "callback not found")
		return
	}
	pops := staticCallsOf(cb, false, "processOutgoingPaths")
	okAnn := false
	for _, u := range staticCallsOf(cb, false, "updateRoutes") {
		for _, p := range pops {
			if len(u.Call.Args) > 1 && u.Call.Args[1] == ssa.Value(p) {
				okAnn = true
			}
		}
	}
	if okAnn {
		r.Ok(rule, pk, "announce through export pipeline", c.P.Pos(cb.Pos()), "announced list is the processOutgoingPaths result")
	} else {
		r.Bad(rule, pk, "announce through export pipeline", c.P.Pos(cb.Pos()), "VPN routes announced after a membership change bypass processOutgoingPaths/filterpath")
	}
}

// ruleRTCFilter: the export-side RTC test.
func (c *Ctx) ruleRTCFilter() {
	r := c.R
	rule := "E6.rtc-filter"
	r.Rule(rule, "the export filter tests peer.interestedIn(path) exactly when the peer negotiated RTC and the route is not itself an RTC route, and an uninteresting route without an interesting old version yields nil; interestedIn is true iff the default membership or one of the route's extended communities is an accepted membership", 3)
	fp := c.P.Func("pkg/server.filterpath")
	ii := c.P.Func("(*pkg/server.peer).interestedIn")
	if fp == nil || ii == nil {
		r.Undec(rule, "-", "anchor", "-", "filterpath/interestedIn not found")
		return
	}
	fk := ir.FuncKey(fp)
	fams := enumFamilies(c)
	calls := staticCallsOf(fp, false, "interestedIn")
	var first *ssa.Call
	for _, call := range calls {
		if first == nil || call.Pos() < first.Pos() {
			first = call
		}
	}
	if first == nil {
		r.Bad(rule, fk, "interestedIn test", c.P.Pos(fp.Pos()), "the export filter no longer applies Route Target Constraint")
	} else {
		// guard: IsFamilyEnabled(RF_RTC_UC) true edge dominates
		g := false
		for _, fe := range staticCallsOf(fp, false, "IsFamilyEnabled") {
			k, ok := stripConv(fe.Call.Args[1]).(*ssa.Const)
			if !ok {
				continue
			}
			if kv, _ := constInt(k.Value); kv != fams["RF_RTC_UC"] {
				continue
			}
			for _, ref := range *fe.Referrers() {
				if i, ok := ref.(*ssa.If); ok && edgeDominates(i.Block(), 0, first.Block()) {
					g = true
				}
			}
		}
		// the route under test is the function's path parameter
		onParam := first.Call.Args[1] == ssa.Value(fp.Params[1])
		// uninterested & old==nil → return nil
		nilRet := false
		for _, ref := range *first.Referrers() {
			i, ok := ref.(*ssa.If)
			if !ok {
				continue
			}
			un := i.Block().Succs[1]
			for _, b := range fp.Blocks {
				if ret, ok := b.Instrs[len(b.Instrs)-1].(*ssa.Return); ok && isNilConst(ret.Results[0]) && (b == un || un.Dominates(b)) {
					nilRet = true
				}
			}
		}
		switch {
		case !g:
			r.Bad(rule, fk, "interestedIn test", c.P.InstrPos(first), "RTC test is not conditioned on the peer having negotiated RTC")
		case !onParam:
			r.Bad(rule, fk, "interestedIn test", c.P.InstrPos(first), "RTC test is not applied to the route being exported")
		case !nilRet:
			r.Bad(rule, fk, "interestedIn test", c.P.InstrPos(first), "an uninteresting route is not dropped")
		default:
			r.Ok(rule, fk, "interestedIn test", c.P.InstrPos(first), "under IsFamilyEnabled(RTC); uninteresting → nil")
		}
	}
	// interestedIn
	ik := ir.FuncKey(ii)
	def := staticCallsOf(ii, false, "HasDefaultRouteTarget")
	has := staticCallsOf(ii, false, "HasRouteTarget")
	ext := staticCallsOf(ii, false, "GetExtCommunities")
	okI := len(def) > 0 && len(has) > 0 && len(ext) > 0 && inLoop(has[0].Block())
	// the same any-scan written with the library: slices.ContainsFunc(path.GetExtCommunities(), h.HasRouteTarget)
	var anyScan *ssa.Call
	for _, b := range ii.Blocks {
		for _, in := range b.Instrs {
			call, ok := in.(*ssa.Call)
			if !ok || len(call.Call.Args) != 2 {
				continue
			}
			cal := call.Call.StaticCallee()
			if cal == nil || !strings.HasPrefix(cal.String(), "slices.ContainsFunc") {
				continue
			}
			pred := funcValue(call.Call.Args[1])
			fromExt := false
			for _, e := range ext {
				if stripConv(call.Call.Args[0]) == ssa.Value(e) {
					fromExt = true
				}
			}
			if pred != nil && pred.Name() == "HasRouteTarget" && fromExt {
				anyScan = call
			}
		}
	}
	if !okI && anyScan != nil && len(def) > 0 {
		okI = true
		for _, b := range ii.Blocks {
			ret, ok := b.Instrs[len(b.Instrs)-1].(*ssa.Return)
			if !ok {
				continue
			}
			if ret.Results[0] == ssa.Value(anyScan) {
				continue
			}
			k, ok := ret.Results[0].(*ssa.Const)
			if !ok {
				okI = false
				continue
			}
			if k.Value.String() == "true" {
				j := false
				for _, t := range def {
					for _, ref := range *t.Referrers() {
						if i, ok := ref.(*ssa.If); ok && edgeDominates(i.Block(), 0, b) {
							j = true
						}
					}
				}
				if !j {
					okI = false
				}
			}
		}
	} else if okI {
		// true results only on a true edge of one of the two tests; the final return is false
		for _, b := range ii.Blocks {
			ret, ok := b.Instrs[len(b.Instrs)-1].(*ssa.Return)
			if !ok {
				continue
			}
			k, ok := ret.Results[0].(*ssa.Const)
			if !ok {
				okI = false
				continue
			}
			if k.Value.String() == "true" {
				j := false
				for _, t := range append(append([]*ssa.Call{}, def...), has...) {
					for _, ref := range *t.Referrers() {
						if i, ok := ref.(*ssa.If); ok && edgeDominates(i.Block(), 0, b) {
							j = true
						}
					}
				}
				if !j {
					okI = false
				}
			}
		}
	}
	if okI {
		r.Ok(rule, ik, "membership test", c.P.Pos(ii.Pos()), "true only on default membership or a matching extended community")
	} else {
		r.Bad(rule, ik, "membership test", c.P.Pos(ii.Pos()), "interestedIn is no longer 'default membership or some extended community of the route is an accepted membership'")
	}
	// HasRouteTarget / has
	hs := c.P.Func("(*internal/pkg/table.rtmSet).has")
	if hs != nil {
		okH := false
		for _, b := range hs.Blocks {
			for _, in := range b.Instrs {
				if lk, ok := in.(*ssa.Lookup); ok && lk.Index == ssa.Value(hs.Params[1]) {
					okH = true
				}
			}
		}
		if okH {
			r.Ok(rule, ir.FuncKey(hs), "lookup by target", c.P.Pos(hs.Pos()), "membership looked up under the given target hash")
		} else {
			r.Bad(rule, ir.FuncKey(hs), "lookup by target", c.P.Pos(hs.Pos()), "membership is not looked up under the given target hash")
		}
	}
}

func enumFamilies(c *Ctx) map[string]int64 {
	return enumConsts(c.P.NamedType("pkg/packet/bgp", "Family"))
}

func init() {
	register(&Check{
		ID: "C17",
		Expl: "Decides the structural preconditions: (E6.vrf-import-gate) VPN→plain conversion only behind CanImportToVrf on the same route, which consults only ImportRt for transitive communities; (E3.vrf-export) both VRF→global conversions stamp RD, label and export targets and agree on the families they convert; " +
			"(E6.vpn-index) the RT index follows every table update and compares old/new best on every non-ADD-PATH path; (E5.rtc-reevaluate) who may change membership, and the re-evaluation condition over all valuations of (withdraw, known-before, known-after); (E6.rtc-filter) the export-side RTC test; (E1.refresh-exclusion) membership changes and their re-advertisement run under the peer's exclusive route-refresh lock. Also: (E6.import-test-total) CanImportToVrf says false only after the loop over all extended communities; (E6.withdrawals-first) soft reset out merges withdrawals before advertisements.",
		Not: "The three-way relation between routes, memberships and VRFs over all histories (exactly-the-needed advertisements), and the contents of the rtmSet/VPNPathIndex maps after arbitrary sequences, are not decided.",
		Run: func(c *Ctx) {
			c.ruleRatchets("C17")
			c.ruleVrfImportGate()
			c.ruleVrfExport()
			c.ruleVPNIndex()
			c.ruleRTCReevaluate()
			c.ruleRTCFilter()
			c.ruleImportTestTotal("E6.import-test-total")
			c.ruleWithdrawalsFirst("E6.withdrawals-first")
			c.ruleRefreshExclusion()
		},
	})
}
