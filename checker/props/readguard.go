package props

import (
	"encoding/json"
	"fmt"
	"go/token"
	"go/types"
	"os"
	"path/filepath"
	"sort"
	"strings"

	"golang.org/x/tools/go/ssa"

	"gbverif/ir"
)

// rgSig: per function, the struct fields it reads and, per event class, the atoms of the conditions that control it.
type rgSig struct {
	Func   string              `json:"func"`
	File   string              `json:"file"`
	Reads  []string            `json:"reads,omitempty"`
	Guards map[string][]string `json:"guards,omitempty"`
}

// fieldReads: "Type.field" for every field of a named struct type that fn (with closures) loads.
func fieldReads(fn *ssa.Function, out map[string]bool) {
	var walk func(f *ssa.Function)
	walk = func(f *ssa.Function) {
		for _, b := range f.Blocks {
			for _, in := range b.Instrs {
				switch x := in.(type) {
				case *ssa.UnOp:
					if x.Op != token.MUL {
						continue
					}
					if fa, ok := x.X.(*ssa.FieldAddr); ok {
						if n := ir.NamedOf(ir.Deref(fa.X.Type())); n != nil {
							out[n.Obj().Name()+"."+fieldOfName(fa)] = true
						}
					}
				case *ssa.Field:
					if n := ir.NamedOf(x.X.Type()); n != nil {
						if st, ok := n.Underlying().(*types.Struct); ok && x.Field < st.NumFields() {
							out[n.Obj().Name()+"."+st.Field(x.Field).Name()] = true
						}
					}
				}
			}
		}
		for _, an := range f.AnonFuncs {
			walk(an)
		}
	}
	walk(fn)
}

// condAtoms: the comparisons / boolean sources a branch condition is made of; ok=false when it contains a phi
// (a stored boolean) whose make-up this reader does not reconstruct.
func condAtoms(v ssa.Value, out map[string]bool) bool {
	switch x := v.(type) {
	case *ssa.UnOp:
		if x.Op == token.NOT {
			return condAtoms(x.X, out)
		}
	case *ssa.BinOp:
		if loopBookkeeping(x) {
			return true // an index against a length: which iteration, not whether
		}
		if s := normCond(x); s != "" {
			out[s] = true
			return true
		}
	case *ssa.Phi:
		return false
	}
	out["bool:"+describeVal(v, 0)] = true
	return true
}

// loopBookkeeping: a comparison of a loop counter with a length or bound (range loops, index loops).
func loopBookkeeping(bo *ssa.BinOp) bool {
	isInd := func(v ssa.Value) bool {
		v = stripConv(v)
		if b, ok := v.(*ssa.BinOp); ok && b.Op == token.ADD {
			if ph, ok := b.X.(*ssa.Phi); ok {
				for _, e := range ph.Edges {
					if e == ssa.Value(b) {
						return true
					}
				}
			}
		}
		if ph, ok := v.(*ssa.Phi); ok {
			for _, e := range ph.Edges {
				if b, ok := e.(*ssa.BinOp); ok && (b.Op == token.ADD || b.Op == token.SUB) && b.X == ssa.Value(ph) {
					return true
				}
			}
		}
		return false
	}
	switch bo.Op {
	case token.LSS, token.LEQ, token.GTR, token.GEQ:
		return isInd(bo.X) || isInd(bo.Y)
	}
	return false
}

// controllingAtoms: the atoms of every branch the block is (transitively) control dependent on, in the standard
// sense: b is control dependent on the branch at g when one successor of g is bound to reach b (b post-dominates it)
// and the other is not.
func controllingAtoms(fn *ssa.Function, b *ssa.BasicBlock) (map[string]bool, bool) {
	out := map[string]bool{}
	ok := true
	seen := map[*ssa.BasicBlock]bool{}
	var visit func(x *ssa.BasicBlock)
	visit = func(x *ssa.BasicBlock) {
		if seen[x] {
			return
		}
		seen[x] = true
		for _, g := range fn.Blocks {
			iff, isIf := g.Instrs[len(g.Instrs)-1].(*ssa.If)
			if !isIf || len(g.Succs) != 2 {
				continue
			}
			p0, p1 := boundToReach(g.Succs[0], x), boundToReach(g.Succs[1], x)
			if p0 == p1 {
				continue
			}
			if !condAtoms(iff.Cond, out) {
				ok = false
			}
			visit(g)
		}
	}
	visit(b)
	return out, ok
}

// boundToReach: every path from s that reaches a return passes through b (b post-dominates s), and b is reachable.
func boundToReach(s, b *ssa.BasicBlock) bool {
	if s == b {
		return true
	}
	seen := map[*ssa.BasicBlock]bool{}
	work := []*ssa.BasicBlock{s}
	reachesB := false
	for len(work) > 0 {
		x := work[len(work)-1]
		work = work[:len(work)-1]
		if seen[x] {
			continue
		}
		seen[x] = true
		if x == b {
			reachesB = true
			continue
		}
		if _, isRet := x.Instrs[len(x.Instrs)-1].(*ssa.Return); isRet {
			return false // an exit reached without passing b
		}
		work = append(work, x.Succs...)
	}
	return reachesB
}

func (c *Ctx) rgSigs(pkgs []string) []rgSig {
	var out []rgSig
	for _, short := range pkgs {
		for _, fn := range c.P.FuncsIn(short) {
			if fn.Parent() != nil || fn.Blocks == nil {
				continue
			}
			file := c.P.Pos(fn.Pos())
			if i := strings.LastIndex(file, ":"); i > 0 {
				file = file[:i]
			}
			if strings.HasSuffix(file, ".pb.go") || strings.HasSuffix(file, "_string.go") || file == "-" {
				continue
			}
			rs := map[string]bool{}
			fieldReads(fn, rs)
			sig := rgSig{Func: ir.FuncKey(fn), File: file, Reads: sortedKeys(rs), Guards: map[string][]string{}}
			for k, members := range events(c, fn) {
				if len(members) != 1 {
					continue
				}
				atoms, ok := controllingAtoms(fn, members[0].Block())
				if !ok {
					continue
				}
				sig.Guards[k] = sortedKeys(atoms)
			}
			if len(sig.Reads) == 0 && len(sig.Guards) == 0 {
				continue
			}
			out = append(out, sig)
		}
	}
	sort.Slice(out, func(i, j int) bool { return out[i].Func < out[j].Func })
	return out
}

func loadRG(baselineFile string) ([]rgSig, bool) {
	var base []rgSig
	b, err := os.ReadFile(filepath.Join(homeDir(), baselineFile))
	if err != nil || json.Unmarshal(b, &base) != nil {
		return nil, false
	}
	return base, true
}

// ruleReadRatchet: a function still looks at every field it looked at.
func (c *Ctx) ruleReadRatchet(rule string, pkgs []string, fileFilter func(string) bool, baselineFile string, min int) {
	r := c.R
	r.Rule(rule, "dropped-read ratchet: the committed baseline records, per function, the struct fields it reads (closures included). A function that still exists and no longer reads a recorded field — nor reaches a read of it through a module function it has newly started to call — has stopped taking something into account: a term of an equality, a flag of a converter, a bound of a check. Fields that no longer exist are not decided", min)
	base, ok := loadRG(baselineFile)
	if !ok {
		r.Undec(rule, "-", "baseline:"+baselineFile, "-", "baseline file missing or unreadable")
		return
	}
	// fields that still exist (read anywhere in the module)
	exists := map[string]bool{}
	for _, fn := range c.P.Funcs {
		if fn.Parent() == nil && fn.Blocks != nil {
			fieldReads(fn, exists)
		}
	}
	for _, bs := range base {
		inPkgs := false
		for _, pk := range pkgs {
			if strings.Contains(bs.Func, pk+".") {
				inPkgs = true
			}
		}
		if !inPkgs || len(bs.Reads) == 0 || (fileFilter != nil && !fileFilter(bs.File)) {
			continue
		}
		fn := c.P.Func(bs.Func)
		cons := fmt.Sprintf("%d fields read", len(bs.Reads))
		if fn == nil || fn.Blocks == nil {
			r.Add(oblT(rule, bs.Func, cons, bs.File, "ok", "the function no longer exists: not decided", nil, true))
			continue
		}
		now := map[string]bool{}
		fieldReads(fn, now)
		// reads may have moved into helpers the function did not call before: follow module callees to depth 3
		seen := map[*ssa.Function]bool{fn: true}
		frontier := []*ssa.Function{fn}
		for d := 0; d < 3; d++ {
			var next []*ssa.Function
			for _, f := range frontier {
				var walk func(g *ssa.Function)
				walk = func(g *ssa.Function) {
					for _, b := range g.Blocks {
						for _, in := range b.Instrs {
							if ci, ok := in.(ssa.CallInstruction); ok {
								if cal := calleeOf(ci.Common()); cal != nil && !seen[cal] && cal.Blocks != nil && c.P.InModule(cal) {
									seen[cal] = true
									fieldReads(cal, now)
									next = append(next, cal)
								}
							}
						}
					}
					for _, an := range g.AnonFuncs {
						walk(an)
					}
				}
				walk(f)
			}
			frontier = next
		}
		var lost []string
		for _, rd := range bs.Reads {
			if !now[rd] && exists[rd] {
				lost = append(lost, rd)
			}
		}
		if len(lost) == 0 {
			r.Ok(rule, bs.Func, cons, bs.File, "every recorded field is still read")
		} else {
			r.Bad(rule, bs.Func, cons, bs.File, "the function no longer reads "+strings.Join(lost, ", ")+" (neither directly nor through the module functions it calls): something the reviewed behaviour depended on is ignored")
		}
	}
}

// ruleGuardRatchet: a step is still subject to the conditions it was subject to.
func (c *Ctx) ruleGuardRatchet(rule string, pkgs []string, fileFilter func(string) bool, baselineFile string, min int) {
	r := c.R
	r.Rule(rule, "lost-guard ratchet: the committed baseline records, for every call or field store that occurs once in a function (classes as in the order ratchet), the comparisons and boolean sources of the branches it is control dependent on (polarity and operand order normalised; branches on stored booleans are not reconstructed and make the step undecided). Loop bookkeeping (a counter against a length) is left out. If the step is still there, is under no condition it was not under before, and one of the recorded atoms no longer controls it, a guard was dropped — a purge that ran only for one mode now runs for all, a clone that was made under a test is made always", min)
	base, ok := loadRG(baselineFile)
	if !ok {
		r.Undec(rule, "-", "baseline:"+baselineFile, "-", "baseline file missing or unreadable")
		return
	}
	for _, bs := range base {
		inPkgs := false
		for _, pk := range pkgs {
			if strings.Contains(bs.Func, pk+".") {
				inPkgs = true
			}
		}
		if !inPkgs || len(bs.Guards) == 0 || (fileFilter != nil && !fileFilter(bs.File)) {
			continue
		}
		fn := c.P.Func(bs.Func)
		cons := fmt.Sprintf("%d guarded steps", len(bs.Guards))
		if fn == nil || fn.Blocks == nil {
			r.Add(oblT(rule, bs.Func, cons, bs.File, "ok", "the function no longer exists: not decided", nil, true))
			continue
		}
		evs := events(c, fn)
		var keys []string
		for k := range bs.Guards {
			keys = append(keys, k)
		}
		sort.Strings(keys)
		lost := ""
		decided := 0
		for _, k := range keys {
			members, ok := evs[k]
			if !ok || len(members) != 1 {
				continue
			}
			atoms, ok := controllingAtoms(fn, members[0].Block())
			if !ok {
				continue
			}
			decided++
			// only a pure removal is judged: if the step also came under a condition it was not under before, the
			// guards were rewritten (an operand re-derived, a test moved into a helper) and equivalence is not decidable here
			was := map[string]bool{}
			for _, a := range bs.Guards[k] {
				was[a] = true
			}
			gained := false
			for a := range atoms {
				if !was[a] {
					gained = true
				}
			}
			if gained {
				continue
			}
			for _, a := range bs.Guards[k] {
				if !atoms[a] {
					name := k
					if j := strings.LastIndex(k, "~"); j > 0 {
						name = k[:j]
					}
					lost = name + " (" + c.P.InstrPos(members[0]) + ") is no longer subject to [" + a + "]"
					break
				}
			}
			if lost != "" {
				break
			}
		}
		switch {
		case lost != "":
			r.Bad(rule, bs.Func, cons, bs.File, "a guard was dropped: "+lost)
		case decided == 0:
			r.Add(oblT(rule, bs.Func, cons, bs.File, "ok", "no recorded step could be aligned: not decided", nil, true))
		default:
			r.Ok(rule, bs.Func, cons, bs.File, fmt.Sprintf("%d steps keep their guards", decided))
		}
	}
}
