package props

import (
	"encoding/json"
	"fmt"
	"go/token"
	"go/types"
	"os"
	"path/filepath"
	"sort"
	"strings"

	"golang.org/x/tools/go/ssa"

	"gbverif/ir"
)

// rgSig: per function, the struct fields it reads and, per event class, the atoms of the conditions that control it.
type rgSig struct {
	Func   string              `json:"func"`
	File   string              `json:"file"`
	Reads  []string            `json:"reads,omitempty"`
	Guards map[string][]string `json:"guards,omitempty"`
}

// qualTypeName: the type's name with its package name in front. Converters between two packages that name their
// types alike (oc.IbgpConfig and api.IbgpConfig) read one and write the other: unqualified, the write of the one hid
// the read of the other (seed C18-e-2).
func qualTypeName(n *types.Named) string {
	if p := n.Obj().Pkg(); p != nil {
		return p.Name() + "." + n.Obj().Name()
	}
	return n.Obj().Name()
}

// fieldReads: "pkg.Type.field" for every field of a named struct type that fn (with closures) loads.
func fieldReads(fn *ssa.Function, dst map[string]bool) {
	out := map[string]bool{} // this function's own reads; merged into dst at the end
	defer func() {
		for k := range out {
			dst[k] = true
		}
	}()
	var walk func(f *ssa.Function)
	walk = func(f *ssa.Function) {
		for _, b := range f.Blocks {
			for _, in := range b.Instrs {
				switch x := in.(type) {
				case *ssa.UnOp:
					if x.Op != token.MUL {
						continue
					}
					if fa, ok := x.X.(*ssa.FieldAddr); ok {
						if n := ir.NamedOf(ir.Deref(fa.X.Type())); n != nil {
							out[qualTypeName(n)+"."+fieldOfName(fa)] = true
						}
					}
				case *ssa.Field:
					if n := ir.NamedOf(x.X.Type()); n != nil {
						if st, ok := n.Underlying().(*types.Struct); ok && x.Field < st.NumFields() {
							out[qualTypeName(n)+"."+st.Field(x.Field).Name()] = true
						}
					}
				}
			}
		}
		for _, an := range f.AnonFuncs {
			walk(an)
		}
	}
	walk(fn)
	// a field the function itself assigns is its product, not its input: reading it back (or no longer doing so
	// because the value is kept in a local) says nothing
	written := map[string]bool{}
	var wwalk func(f *ssa.Function)
	wwalk = func(f *ssa.Function) {
		for _, b := range f.Blocks {
			for _, in := range b.Instrs {
				if st, ok := in.(*ssa.Store); ok {
					if fa, ok := st.Addr.(*ssa.FieldAddr); ok {
						if n := ir.NamedOf(ir.Deref(fa.X.Type())); n != nil {
							written[qualTypeName(n)+"."+fieldOfName(fa)] = true
						}
					}
				}
			}
		}
		for _, an := range f.AnonFuncs {
			wwalk(an)
		}
	}
	wwalk(fn)
	for k := range written {
		delete(out, k)
	}
}

// condAtom: the atom a branch condition tests and the polarity with which it tests it (cond == atom or cond == !atom);
// ok=false for a stored boolean (phi) whose make-up this reader does not reconstruct, skip=true for loop bookkeeping.
func condAtom(v ssa.Value) (atom string, positive bool, ok bool, skip bool) {
	positive = true
	for {
		u, isU := v.(*ssa.UnOp)
		if !isU || u.Op != token.NOT {
			break
		}
		positive = !positive
		v = u.X
	}
	switch x := v.(type) {
	case *ssa.BinOp:
		if loopBookkeeping(x) {
			return "", true, true, true
		}
		l, r := describeVal(x.X, 0), describeVal(x.Y, 0)
		switch x.Op {
		case token.EQL, token.NEQ:
			if l > r {
				l, r = r, l
			}
			if x.Op == token.NEQ {
				positive = !positive
			}
			return l + " =?= " + r, positive, true, false
		case token.LSS: // l < r
			return l + " <? " + r, positive, true, false
		case token.GEQ: // !(l < r)
			return l + " <? " + r, !positive, true, false
		case token.GTR: // r < l
			return r + " <? " + l, positive, true, false
		case token.LEQ: // !(r < l)
			return r + " <? " + l, !positive, true, false
		}
	case *ssa.Phi:
		return "", true, false, false
	}
	return "bool:" + describeVal(v, 0), positive, true, false
}

// condAtoms: the atoms of a condition (kept for callers that only need the set).
func condAtoms(v ssa.Value, out map[string]bool) bool {
	a, _, ok, skip := condAtom(v)
	if !ok {
		return false
	}
	if !skip {
		out[a] = true
	}
	return true
}

// loopBookkeeping: a comparison of a loop counter with a length or bound (range loops, index loops).
func loopBookkeeping(bo *ssa.BinOp) bool {
	isInd := func(v ssa.Value) bool {
		v = stripConv(v)
		if b, ok := v.(*ssa.BinOp); ok && b.Op == token.ADD {
			if ph, ok := b.X.(*ssa.Phi); ok {
				for _, e := range ph.Edges {
					if e == ssa.Value(b) {
						return true
					}
				}
			}
		}
		if ph, ok := v.(*ssa.Phi); ok {
			for _, e := range ph.Edges {
				if b, ok := e.(*ssa.BinOp); ok && (b.Op == token.ADD || b.Op == token.SUB) && b.X == ssa.Value(ph) {
					return true
				}
			}
		}
		return false
	}
	switch bo.Op {
	case token.LSS, token.LEQ, token.GTR, token.GEQ:
		return isInd(bo.X) || isInd(bo.Y)
	}
	return false
}

// controllingAtoms: the atoms of every branch the block is (transitively) control dependent on, in the standard
// sense: b is control dependent on the branch at g when one successor of g is bound to reach b (b post-dominates it)
// and the other is not.
func controllingAtoms(fn *ssa.Function, b *ssa.BasicBlock) (map[string]bool, bool) {
	out := map[string]bool{}
	ok := true
	seen := map[*ssa.BasicBlock]bool{}
	var visit func(x *ssa.BasicBlock)
	visit = func(x *ssa.BasicBlock) {
		if seen[x] {
			return
		}
		seen[x] = true
		for _, g := range fn.Blocks {
			iff, isIf := g.Instrs[len(g.Instrs)-1].(*ssa.If)
			if !isIf || len(g.Succs) != 2 {
				continue
			}
			p0, p1 := boundToReach(g.Succs[0], x), boundToReach(g.Succs[1], x)
			if p0 == p1 {
				continue
			}
			if !condAtoms(iff.Cond, out) {
				ok = false
			}
			visit(g)
		}
	}
	visit(b)
	return out, ok
}

// guardTruth: the condition under which block b executes, as a boolean function of the atoms it is control dependent
// on: the sorted atoms that matter and the truth table over them ('1' = b can be reached under that valuation,
// atom i is bit i). ok=false when some controlling branch is not an atom, or there are too many atoms.
func guardTruth(fn *ssa.Function, b *ssa.BasicBlock) (atoms []string, table string, ok bool) {
	set, ok := controllingAtoms(fn, b)
	if !ok || len(set) > 8 {
		return nil, "", false
	}
	atoms = sortedKeys(set)
	idx := map[string]int{}
	for i, a := range atoms {
		idx[a] = i
	}
	n := len(atoms)
	eval := func(val int) bool {
		seen := map[*ssa.BasicBlock]bool{}
		work := []*ssa.BasicBlock{fn.Blocks[0]}
		for len(work) > 0 {
			x := work[len(work)-1]
			work = work[:len(work)-1]
			if seen[x] {
				continue
			}
			seen[x] = true
			if x == b {
				return true
			}
			if iff, isIf := x.Instrs[len(x.Instrs)-1].(*ssa.If); isIf {
				if a, pos, okA, skip := condAtom(iff.Cond); okA && !skip {
					if i, known := idx[a]; known {
						v := val&(1<<i) != 0
						if v == pos {
							work = append(work, x.Succs[0])
						} else {
							work = append(work, x.Succs[1])
						}
						continue
					}
				}
			}
			work = append(work, x.Succs...)
		}
		return false
	}
	tt := make([]bool, 1<<n)
	for v := range tt {
		tt[v] = eval(v)
	}
	// drop the atoms the function does not depend on
	var keep []int
	for i := 0; i < n; i++ {
		dep := false
		for v := range tt {
			if v&(1<<i) == 0 && tt[v] != tt[v|1<<i] {
				dep = true
				break
			}
		}
		if dep {
			keep = append(keep, i)
		}
	}
	var outAtoms []string
	for _, i := range keep {
		outAtoms = append(outAtoms, atoms[i])
	}
	var sb strings.Builder
	for v := 0; v < 1<<len(keep); v++ {
		full := 0
		for j, i := range keep {
			if v&(1<<j) != 0 {
				full |= 1 << i
			}
		}
		if tt[full] {
			sb.WriteByte('1')
		} else {
			sb.WriteByte('0')
		}
	}
	return outAtoms, sb.String(), true
}

// boundToReach: every path from s that reaches a return passes through b (b post-dominates s), and b is reachable.
func boundToReach(s, b *ssa.BasicBlock) bool {
	if s == b {
		return true
	}
	seen := map[*ssa.BasicBlock]bool{}
	work := []*ssa.BasicBlock{s}
	reachesB := false
	for len(work) > 0 {
		x := work[len(work)-1]
		work = work[:len(work)-1]
		if seen[x] {
			continue
		}
		seen[x] = true
		if x == b {
			reachesB = true
			continue
		}
		if _, isRet := x.Instrs[len(x.Instrs)-1].(*ssa.Return); isRet {
			return false // an exit reached without passing b
		}
		work = append(work, x.Succs...)
	}
	return reachesB
}

func (c *Ctx) rgSigs(pkgs []string) []rgSig {
	var out []rgSig
	for _, short := range pkgs {
		for _, fn := range c.P.FuncsIn(short) {
			if fn.Parent() != nil || fn.Blocks == nil {
				continue
			}
			file := c.P.Pos(fn.Pos())
			if i := strings.LastIndex(file, ":"); i > 0 {
				file = file[:i]
			}
			if strings.HasSuffix(file, ".pb.go") || strings.HasSuffix(file, "_string.go") || file == "-" {
				continue
			}
			rs := map[string]bool{}
			fieldReads(fn, rs)
			sig := rgSig{Func: ir.FuncKey(fn), File: file, Reads: sortedKeys(rs), Guards: map[string][]string{}}
			for k, members := range events(c, fn) {
				if len(members) != 1 {
					continue
				}
				atoms, table, ok := guardTruth(fn, members[0].Block())
				if !ok || len(atoms) == 0 {
					continue
				}
				sig.Guards[k] = append(append([]string{}, atoms...), "="+table)
			}
			if len(sig.Reads) != 0 || len(sig.Guards) != 0 {
				out = append(out, sig)
			}
			// function literals: units of the guard ratchet under a role key (units.go); their reads are part of
			// the enclosing function's set
			for _, u := range c.closureUnits(ir.FuncKey(fn), fn) {
				usig := rgSig{Func: u.Key, File: file, Guards: map[string][]string{}}
				for k, members := range events(c, u.Fn) {
					if len(members) != 1 {
						continue
					}
					atoms, table, ok := guardTruth(u.Fn, members[0].Block())
					if !ok || len(atoms) == 0 {
						continue
					}
					usig.Guards[k] = append(append([]string{}, atoms...), "="+table)
				}
				if len(usig.Guards) != 0 {
					out = append(out, usig)
				}
			}
		}
	}
	sort.Slice(out, func(i, j int) bool { return out[i].Func < out[j].Func })
	return out
}

func loadRG(baselineFile string) ([]rgSig, bool) {
	var base []rgSig
	b, err := os.ReadFile(filepath.Join(homeDir(), baselineFile))
	if err != nil || json.Unmarshal(b, &base) != nil {
		return nil, false
	}
	return base, true
}

// ruleReadRatchet: a function still looks at every field it looked at.
func (c *Ctx) ruleReadRatchet(rule string, pkgs []string, fileFilter func(string) bool, baselineFile string, min int) {
	r := c.R
	r.Rule(rule, "dropped-read ratchet: the committed baseline records, per function, the struct fields it reads (closures included). A function that still exists and no longer reads a recorded field — nor reaches a read of it through a module function it has newly started to call — has stopped taking something into account: a term of an equality, a flag of a converter, a bound of a check. Fields that no longer exist are not decided", min)
	base, ok := loadRG(baselineFile)
	if !ok {
		r.Undec(rule, "-", "baseline:"+baselineFile, "-", "baseline file missing or unreadable")
		return
	}
	// fields that still exist (read anywhere in the module)
	exists := map[string]bool{}
	for _, fn := range c.P.Funcs {
		if fn.Parent() == nil && fn.Blocks != nil {
			fieldReads(fn, exists)
		}
	}
	for _, bs := range base {
		inPkgs := false
		for _, pk := range pkgs {
			if strings.Contains(bs.Func, pk+".") {
				inPkgs = true
			}
		}
		if !inPkgs || len(bs.Reads) == 0 || (fileFilter != nil && !fileFilter(bs.File)) {
			continue
		}
		fn := c.P.Func(bs.Func)
		cons := fmt.Sprintf("%d fields read", len(bs.Reads))
		if fn == nil || fn.Blocks == nil {
			r.Add(oblT(rule, bs.Func, cons, bs.File, "ok", "the function no longer exists: not decided", nil, true))
			continue
		}
		now := map[string]bool{}
		fieldReads(fn, now)
		// reads may have moved into helpers the function did not call before: follow module callees to depth 3
		seen := map[*ssa.Function]bool{fn: true}
		frontier := []*ssa.Function{fn}
		for d := 0; d < 3; d++ {
			var next []*ssa.Function
			for _, f := range frontier {
				var walk func(g *ssa.Function)
				walk = func(g *ssa.Function) {
					for _, b := range g.Blocks {
						for _, in := range b.Instrs {
							if ci, ok := in.(ssa.CallInstruction); ok {
								if cal := calleeOf(ci.Common()); cal != nil && !seen[cal] && cal.Blocks != nil && c.P.InModule(cal) {
									seen[cal] = true
									fieldReads(cal, now)
									next = append(next, cal)
								}
							}
						}
					}
					for _, an := range g.AnonFuncs {
						walk(an)
					}
				}
				walk(f)
			}
			frontier = next
		}
		var lost []string
		for _, rd := range bs.Reads {
			if !now[rd] && exists[rd] {
				lost = append(lost, rd)
			}
		}
		if len(lost) == 0 {
			r.Ok(rule, bs.Func, cons, bs.File, "every recorded field is still read")
		} else {
			r.Bad(rule, bs.Func, cons, bs.File, "the function no longer reads "+strings.Join(lost, ", ")+" (neither directly nor through the module functions it calls): something the reviewed behaviour depended on is ignored")
		}
	}
}

// ruleGuardRatchet: a step is still subject to the conditions it was subject to.
func (c *Ctx) ruleGuardRatchet(rule string, pkgs []string, fileFilter func(string) bool, baselineFile string, min int) {
	r := c.R
	r.Rule(rule, "lost-guard ratchet: the committed baseline records, for every call or field store that occurs once in a function (classes as in the order ratchet), the comparisons and boolean sources of the branches it is control dependent on (polarity and operand order normalised; branches on stored booleans are not reconstructed and make the step undecided). Loop bookkeeping (a counter against a length) is left out. Recorded is the condition under which the step runs as a boolean function of those atoms: the atoms it really depends on and the truth table over them (reachability of the step evaluated under every valuation). If the step is still there and depends on no atom it did not depend on before, then an atom it no longer depends on, or a different truth table over the same atoms, is a dropped, widened or inverted guard; nested / merged ifs, guard clauses and De Morgan rewrites give the same table — a purge that ran only for one mode now runs for all, a clone that was made under a test is made always", min)
	base, ok := loadRG(baselineFile)
	if !ok {
		r.Undec(rule, "-", "baseline:"+baselineFile, "-", "baseline file missing or unreadable")
		return
	}
	// what each function called on the reviewed tree: a function that has started to call another module function
	// may have moved a test into it (extract function), so a vanished atom is not judged there
	recordedCallees := map[string]map[string]bool{}
	{
		var cs []callSig
		if b, err := os.ReadFile(filepath.Join(homeDir(), "baselines/calls.json")); err == nil && json.Unmarshal(b, &cs) == nil {
			for _, x := range cs {
				m := map[string]bool{}
				for _, k := range x.Callees {
					m[k] = true
				}
				recordedCallees[x.Func] = m
			}
		}
	}
	for _, bs := range base {
		inPkgs := false
		for _, pk := range pkgs {
			if strings.Contains(bs.Func, pk+".") {
				inPkgs = true
			}
		}
		if !inPkgs || len(bs.Guards) == 0 || (fileFilter != nil && !fileFilter(bs.File)) {
			continue
		}
		fn := c.unitFunc(bs.Func)
		cons := fmt.Sprintf("%d guarded steps", len(bs.Guards))
		callsNewHelper := false
		if fn != nil && fn.Blocks != nil {
			// (a function literal: what the enclosing named function calls, literals included)
			rec, have := recordedCallees[unitOuterKey(bs.Func)]
			set := map[string]bool{}
			directCallees(c, ir.Outer(fn), set, nil)
			for k := range set {
				if strings.HasPrefix(k, "store ") || strings.HasPrefix(k, "mapstore ") || strings.HasPrefix(k, "mapdelete ") || strings.HasPrefix(k, "invoke ") {
					continue
				}
				if !have || !rec[k] {
					callsNewHelper = true
				}
			}
		}
		if fn == nil || fn.Blocks == nil {
			r.Add(oblT(rule, bs.Func, cons, bs.File, "ok", "the function no longer exists: not decided", nil, true))
			continue
		}
		evs := events(c, fn)
		var keys []string
		for k := range bs.Guards {
			keys = append(keys, k)
		}
		sort.Strings(keys)
		lost := ""
		decided := 0
		for _, k := range keys {
			members, ok := evs[k]
			if !ok || len(members) != 1 {
				continue
			}
			atoms, table, ok := guardTruth(fn, members[0].Block())
			if !ok {
				continue
			}
			rec := bs.Guards[k]
			if len(rec) == 0 {
				continue
			}
			recAtoms, recTable := rec[:len(rec)-1], strings.TrimPrefix(rec[len(rec)-1], "=")
			name := k
			if j := strings.LastIndex(k, "~"); j > 0 {
				name = k[:j]
			}
			now := map[string]bool{}
			for _, a := range atoms {
				now[a] = true
			}
			was := map[string]bool{}
			for _, a := range recAtoms {
				was[a] = true
			}
			gained, dropped := false, ""
			for a := range now {
				if !was[a] {
					gained = true
				}
			}
			for _, a := range recAtoms {
				if !now[a] {
					dropped = a
				}
			}
			switch {
			case gained:
				// under a test it was not under before: a new guard, or the old ones rewritten — not judged
				continue
			case dropped != "" && callsNewHelper:
				continue
			case dropped != "":
				decided++
				lost = name + " (" + c.P.InstrPos(members[0]) + ") no longer depends on [" + dropped + "]"
			case table != recTable:
				decided++
				lost = name + " (" + c.P.InstrPos(members[0]) + ") runs under another combination of the same tests [" + strings.Join(recAtoms, "; ") + "]: truth table " + recTable + " became " + table
			default:
				decided++
			}
			if lost != "" {
				break
			}
		}
		switch {
		case lost != "":
			r.Bad(rule, bs.Func, cons, bs.File, "the condition under which a step runs changed: "+lost)
		case decided == 0:
			r.Add(oblT(rule, bs.Func, cons, bs.File, "ok", "no recorded step could be aligned: not decided", nil, true))
		default:
			r.Ok(rule, bs.Func, cons, bs.File, fmt.Sprintf("%d steps keep their guards", decided))
		}
	}
}
