package props

import (
	"fmt"
	"go/constant"
	"go/token"
	"go/types"

	"golang.org/x/tools/go/ssa"

	"gbverif/ir"
)

func uintMax(t types.Type) (uint64, bool) {
	b, ok := t.Underlying().(*types.Basic)
	if !ok {
		return 0, false
	}
	switch b.Kind() {
	case types.Uint8:
		return 1<<8 - 1, true
	case types.Uint16:
		return 1<<16 - 1, true
	case types.Uint32:
		return 1<<32 - 1, true
	}
	return 0, false
}

// upperBound: the largest value v can have at block at (saturating at 1<<40), from constants, widening
// conversions, phis of bounded values, sums/products of bounded values and dominating comparisons with constants.
func upperBound(v ssa.Value, at *ssa.BasicBlock, depth int) uint64 {
	return upperBoundE(v, at, depth, nil)
}

// upperBoundE is upperBound under an assumption about parameters (the constant arguments of one call site).
func upperBoundE(v ssa.Value, at *ssa.BasicBlock, depth int, env map[*ssa.Parameter]uint64) uint64 {
	const top = uint64(1) << 40
	tmax, okT := uintMax(v.Type())
	if !okT {
		tmax = top
	}
	if depth > 8 {
		return tmax
	}
	min := func(a, b uint64) uint64 {
		if a < b {
			return a
		}
		return b
	}
	bound := tmax
	switch x := v.(type) {
	case *ssa.Const:
		if x.Value != nil && x.Value.Kind() == constant.Int {
			if u, ok := constant.Uint64Val(x.Value); ok {
				return u
			}
		}
		return tmax
	case *ssa.Parameter:
		if b, ok := env[x]; ok {
			return min(bound, b)
		}
	case *ssa.Extract:
		if b, ok := extractBound(x, depth, env); ok {
			bound = min(bound, b)
		}
	case *ssa.Convert:
		bound = min(bound, upperBoundE(x.X, at, depth+1, env))
	case *ssa.ChangeType:
		bound = min(bound, upperBoundE(x.X, at, depth+1, env))
	case *ssa.Phi:
		m := uint64(0)
		for i, e := range x.Edges {
			pred := x.Block().Preds[i]
			// the edge itself may be conditional on the incoming value: the back edge of `for i := range K`
			// (rangeint) and of `for …; i < K; i++` is taken only when the incremented counter is below K
			if eb, ok := edgeBound(e, pred, x.Block()); ok {
				if eb > m {
					m = eb
				}
				continue
			}
			b := upperBoundE(e, pred, depth+1, env)
			if b > m {
				m = b
			}
		}
		bound = min(bound, m)
	case *ssa.BinOp:
		a, b := upperBoundE(x.X, at, depth+1, env), upperBoundE(x.Y, at, depth+1, env)
		switch x.Op {
		case token.ADD:
			bound = min(top, a+b)
		case token.MUL:
			if a < 1<<20 && b < 1<<20 {
				bound = min(top, a*b)
			} else {
				bound = top
			}
		case token.QUO, token.REM, token.SHR, token.AND:
			bound = min(bound, a)
			if x.Op == token.AND {
				bound = min(bound, b)
			}
		case token.SHL:
			if b < 32 && a < 1<<20 {
				bound = min(top, a<<b)
			} else {
				bound = top
			}
		}
		if x.Op != token.ADD && x.Op != token.MUL && x.Op != token.SHL {
			bound = min(bound, tmax)
		}
		return bound // unbounded-arithmetic value: the caller compares it with the type's maximum
	}
	// dominating comparisons with constants
	if at != nil {
		fn := at.Parent()
		for _, g := range fn.Blocks {
			iff, ok := g.Instrs[len(g.Instrs)-1].(*ssa.If)
			if !ok {
				continue
			}
			bo, ok := iff.Cond.(*ssa.BinOp)
			if !ok {
				continue
			}
			var k *ssa.Const
			left := false
			if sameSym(bo.X, v) {
				k, _ = bo.Y.(*ssa.Const)
				left = true
			} else if sameSym(bo.Y, v) {
				k, _ = bo.X.(*ssa.Const)
			}
			if k == nil || k.Value == nil || k.Value.Kind() != constant.Int {
				continue
			}
			kv, ok := constant.Uint64Val(k.Value)
			if !ok {
				continue
			}
			op := bo.Op
			if !left { // K op v  ==  v op' K
				switch op {
				case token.LSS:
					op = token.GTR
				case token.LEQ:
					op = token.GEQ
				case token.GTR:
					op = token.LSS
				case token.GEQ:
					op = token.LEQ
				}
			}
			onTrue := edgeDominates(g, 0, at)
			onFalse := edgeDominates(g, 1, at)
			switch {
			case op == token.LSS && onTrue && kv > 0:
				bound = min(bound, kv-1)
			case op == token.LEQ && onTrue:
				bound = min(bound, kv)
			case op == token.GEQ && onFalse && kv > 0:
				bound = min(bound, kv-1)
			case op == token.GTR && onFalse:
				bound = min(bound, kv)
			case op == token.EQL && onTrue:
				bound = min(bound, kv)
			case (op == token.EQL && onFalse || op == token.NEQ && onTrue) && kv == tmax && kv > 0:
				bound = min(bound, kv-1)
			}
		}
	}
	return bound
}

// extractBound: the bound of one result of a call — strconv.ParseUint(s, base, bitSize) yields at most 2^bitSize-1
// (and 0 on error); a module function with a static callee yields at most the largest of its returned values,
// evaluated with the call's bounded arguments assumed for the parameters.
func extractBound(x *ssa.Extract, depth int, env map[*ssa.Parameter]uint64) (uint64, bool) {
	call, ok := x.Tuple.(*ssa.Call)
	if !ok {
		return 0, false
	}
	cal := call.Call.StaticCallee()
	if cal == nil {
		return 0, false
	}
	if cal.Pkg != nil && cal.Pkg.Pkg.Path() == "strconv" && cal.Name() == "ParseUint" && x.Index == 0 && len(call.Call.Args) == 3 {
		bs := upperBoundE(call.Call.Args[2], call.Block(), depth+1, env)
		if bs >= 1 && bs < 40 { // bitSize 0 means 64
			if k, isK := call.Call.Args[2].(*ssa.Const); isK && k.Int64() == 0 {
				return 0, false
			}
			if _, isK := call.Call.Args[2].(*ssa.Const); isK || bs >= 1 {
				return uint64(1)<<bs - 1, true
			}
		}
		return 0, false
	}
	if cal.Blocks == nil || depth > 4 || cal.Recover != nil || call.Call.IsInvoke() {
		return 0, false
	}
	env2 := map[*ssa.Parameter]uint64{}
	for i, p := range cal.Params {
		if i < len(call.Call.Args) {
			if _, isInt := uintMax(p.Type()); isInt || isIntType(p.Type()) {
				env2[p] = upperBoundE(call.Call.Args[i], call.Block(), depth+1, env)
			}
		}
	}
	m, any := uint64(0), false
	for _, b := range cal.Blocks {
		ret, ok := b.Instrs[len(b.Instrs)-1].(*ssa.Return)
		if !ok || x.Index >= len(ret.Results) {
			continue
		}
		any = true
		if rb := upperBoundE(ret.Results[x.Index], b, depth+2, env2); rb > m {
			m = rb
		}
	}
	return m, any
}

func isIntType(t types.Type) bool {
	b, ok := t.Underlying().(*types.Basic)
	return ok && b.Info()&types.IsInteger != 0
}

// edgeBound: pred ends in `if v < K` (or v <= K) and reaches succ only over the true edge: v is bounded on that edge.
func edgeBound(v ssa.Value, pred, succ *ssa.BasicBlock) (uint64, bool) {
	if len(pred.Instrs) == 0 || len(pred.Succs) != 2 || pred.Succs[0] != succ || pred.Succs[1] == succ {
		return 0, false
	}
	iff, ok := pred.Instrs[len(pred.Instrs)-1].(*ssa.If)
	if !ok {
		return 0, false
	}
	bo, ok := iff.Cond.(*ssa.BinOp)
	if !ok || bo.X != v {
		return 0, false
	}
	k, ok := bo.Y.(*ssa.Const)
	if !ok || k.Value == nil || k.Value.Kind() != constant.Int {
		return 0, false
	}
	kv, ok := constant.Uint64Val(k.Value)
	if !ok {
		return 0, false
	}
	switch bo.Op {
	case token.LSS:
		if kv > 0 {
			return kv - 1, true
		}
	case token.LEQ:
		return kv, true
	}
	return 0, false
}

// ruleNarrowGuard: arithmetic in uint8/uint16 whose result is compared must be proven not to wrap.
// narrowReviewed: narrow sums that cannot wrap for a reason the interval analysis does not see (one function each).
var narrowReviewed = map[string]string{
	"(*pkg/packet/bgp.CapSoftwareVersion).DecodeFromBytes":       "1+c.SoftwareVersionLen: the field was assigned two lines above from a local already tested to be at most 64",
	"(*pkg/packet/bgp.PathAttributeTunnelEncap).DecodeFromBytes": "4+tlv.Length: TunnelEncapTLV.DecodeFromBytes has just refused a TLV longer than the remaining value, and an attribute value is at most 65535 octets, so Length <= 65531",
}

func (c *Ctx) ruleNarrowGuard(rule string, pkgs []string, min int) {
	r := c.R
	r.Rule(rule, "wrap-around in length guards: every +, * or << computed in uint8/uint16 on the decode side whose result is compared (a length or bounds guard), widened to a larger integer type, or used as a slice bound, index or allocation size has operands whose upper bounds — from constants, widening conversions, phis and dominating comparisons with constants — keep the exact result within the type; otherwise a peer-chosen length makes the guard pass on a wrapped value and the following slice expression panics", min)
	for _, short := range pkgs {
		for _, fn := range c.P.FuncsIn(short) {
			n := 0
			for _, b := range fn.Blocks {
				for _, in := range b.Instrs {
					bo, ok := in.(*ssa.BinOp)
					if !ok {
						continue
					}
					bt, ok := bo.Type().Underlying().(*types.Basic)
					if !ok || bt.Kind() != types.Uint8 && bt.Kind() != types.Uint16 {
						continue
					}
					if bo.Op != token.ADD && bo.Op != token.MUL && bo.Op != token.SHL {
						continue
					}
					if phi, ok := bo.X.(*ssa.Phi); ok {
						if phi.Comment == "rangeindex" {
							continue // rotated range loop counter: starts at -1 by construction
						}
						// induction variable of a counting loop (i+1 compared with the bound): i < n keeps i+1 within the type
						ind := false
						for _, e := range phi.Edges {
							if e == ssa.Value(bo) {
								ind = true
							}
						}
						if k, ok := bo.Y.(*ssa.Const); ok && ind && bo.Op == token.ADD && k.Value != nil && k.Value.String() == "1" {
							onlyLoopCond := true
							for _, ref := range *bo.Referrers() {
								if c2, ok := ref.(*ssa.BinOp); ok && !(c2.Op == token.LSS && c2.X == ssa.Value(bo)) {
									onlyLoopCond = false
								}
							}
							if onlyLoopCond {
								continue
							}
						}
					}
					cmp := false
					for _, ref := range *bo.Referrers() {
						if c2, ok := ref.(*ssa.BinOp); ok {
							switch c2.Op {
							case token.LSS, token.LEQ, token.GTR, token.GEQ, token.EQL, token.NEQ:
								cmp = true
							}
						}
					}
					// or widened afterwards / used as a length or offset: int(n * size), data[:n+2]
					for _, ref := range *bo.Referrers() {
						switch x := ref.(type) {
						case *ssa.Convert:
							if w, ok := x.Type().Underlying().(*types.Basic); ok && w.Info()&types.IsInteger != 0 {
								if wm, okm := uintMax(x.Type()); !okm || wm > func() uint64 { m, _ := uintMax(bo.Type()); return m }() {
									cmp = true
								}
							}
						case *ssa.Slice, *ssa.IndexAddr, *ssa.MakeSlice:
							cmp = true
						}
					}
					if !cmp {
						continue
					}
					// only on the decode side: some parameter is the wire bytes
					decode := false
					for _, p := range ir.Outer(fn).Params {
						if isByteSlice(p.Type()) {
							decode = true
						}
					}
					if !decode {
						continue
					}
					n++
					tmax, _ := uintMax(bo.Type())
					ub := upperBound(bo, b, 0)
					fk := ir.OuterKey(fn)
					cons := fmt.Sprintf("%s in %s #%d", bo.Op, bt.Name(), n)
					if why, ok := narrowReviewed[fk]; ok && ub > tmax {
						r.Except(rule, fk, cons, c.P.InstrPos(bo), why)
					} else if ub <= tmax {
						r.Ok(rule, fk, cons, c.P.InstrPos(bo), fmt.Sprintf("result ≤ %d", ub))
					} else {
						r.Bad(rule, fk, cons, c.P.InstrPos(bo), fmt.Sprintf("the exact result can reach %d but is computed in %s (max %d): the comparison, length or offset using it is computed from a wrapped value", ub, bt.Name(), tmax))
					}
				}
			}
		}
	}
}
