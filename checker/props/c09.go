package props

import (
	"fmt"
	"go/types"
	"sort"
	"strings"

	"golang.org/x/tools/go/ssa"

	"gbverif/ir"
	"gbverif/own"
)

// pathGetterKinds: for every method of *table.Path, how its results relate to the storage of
// the receiver (and of the attributes it shares with the stored route).
func (c *Ctx) pathGetterKinds(e *own.Eng) map[*ssa.Function]own.Kind {
	out := map[*ssa.Function]own.Kind{}
	pathT := c.P.NamedType("internal/pkg/table", "Path")
	if pathT == nil {
		return out
	}
	for round := 0; round < 2; round++ {
		for _, fn := range c.P.FuncsIn("internal/pkg/table") {
			if fn.Parent() != nil || fn.Signature.Recv() == nil || ir.NamedOf(fn.Signature.Recv().Type()) != pathT || fn.Blocks == nil {
				continue
			}
			if fn.Signature.Results().Len() == 0 {
				continue
			}
			// attribute storage only: results whose type comes from the BGP codec package (attribute, NLRI,
			// community objects and slices of them); *Path / originInfo results are the subject of E2b
			if mentionsPkg(fn.Signature.Results().At(0).Type(), ir.ModPath+"/internal/pkg/table", 0) {
				continue
			}
			if k := e.AliasKind(fn, 0); k != own.KindNone {
				out[fn] = k
			}
		}
		e.ResetDone()
	}
	return out
}

// ruleSharedAttrWrites (E2a): nothing obtained from a Path getter is written through.
func (c *Ctx) ruleSharedAttrWrites(rule string, pkgs []string, min int) {
	r := c.R
	r.Rule(rule, "copy-on-write of routes: memory handed out by a Path getter (the attribute objects and their slices, which a clone shares with the stored route and with every other peer's copy) is never stored into, appended to in place, copied into or sorted in place, in any function, transitively through callees", min)
	pathT := c.P.NamedType("internal/pkg/table", "Path")
	if pathT == nil {
		r.Undec(rule, "-", "anchor:table.Path", "-", "type not found")
		return
	}
	e := own.New(c.P)
	// the Path struct's own bookkeeping words are owned by the RIB code (guarded by locks), not shared attribute storage
	getters := c.pathGetterKinds(e)
	c.R.Extra["E2a_getters"] = len(getters)
	if len(getters) < 10 {
		r.Undec(rule, "-", "anchor:getters", "-", fmt.Sprintf("only %d Path methods hand out shared storage; expected ≥10", len(getters)))
	}
	roots := map[string]own.Sink{}
	affected := map[string][]string{}
	nsrc := 0
	var fns []*ssa.Function
	for _, fn := range c.P.FuncsIn(pkgs...) {
		fns = append(fns, fn)
	}
	for _, fn := range fns {
		src := map[ssa.Value]own.Kind{}
		for _, b := range fn.Blocks {
			for _, in := range b.Instrs {
				call, ok := in.(*ssa.Call)
				if !ok {
					continue
				}
				callee := call.Call.StaticCallee()
				if callee == nil {
					continue
				}
				if k, ok := getters[callee]; ok {
					// inside Path's own methods, results of sibling getters on the same receiver are still shared
					src[call] = k
				}
			}
		}
		if len(src) == 0 {
			continue
		}
		nsrc += len(src)
		fl := e.AnalyzeKinds(fn, src)
		fk := ir.OuterKey(fn)
		sinks := own.Dedup(c.P, fl.Sinks)
		if len(sinks) == 0 {
			r.Ok(rule, fk, fmt.Sprintf("%d getter results", len(src)), c.P.Pos(fn.Pos()), "never written through")
			continue
		}
		kept := 0
		for _, s := range sinks {
			o := s.Origin()
			if !attrStorageTarget(o.Target, 0) {
				continue // the write lands in a Path/destination/zebra structure, not in attribute storage
			}
			kept++
			cons := o.Kind
			if o.Field != "" {
				cons += " " + o.Field
			}
			rk := ir.OuterKey(o.Fn) + "|" + cons
			affected[rk] = append(affected[rk], fk)
			if _, seen := roots[rk]; !seen {
				roots[rk] = o
			}
		}
		if kept == 0 {
			r.Ok(rule, fk, fmt.Sprintf("%d getter results", len(src)), c.P.Pos(fn.Pos()), "never written through")
		}
	}
	c.R.Extra["E2a_getter_call_sites"] = nsrc
	var rks []string
	for k := range roots {
		rks = append(rks, k)
	}
	sort.Strings(rks)
	for _, k := range rks {
		o := roots[k]
		af := affected[k]
		sort.Strings(af)
		parts := strings.SplitN(k, "|", 2)
		if why := c.sharedWriteException(parts[0], parts[1]); why != "" {
			r.Except(rule, parts[0], parts[1], c.P.InstrPos(o.Instr), why)
			continue
		}
		r.Add(obl(rule, parts[0], parts[1], c.P.InstrPos(o.Instr), "violation",
			fmt.Sprintf("writes through storage obtained from a Path getter: the stored route and every other peer's copy share it (reached from %v)", af), nil))
	}
}

// sharedWriteException: reviewed writes into getter-obtained storage, each re-verified.
func (c *Ctx) sharedWriteException(fn, construct string) string {
	switch {
	case (fn == "pkg/packet/bgp.NewFlowSpecUnicast" || fn == "pkg/packet/bgp.NewFlowSpecVPN") && strings.HasPrefix(construct, "mutator:sort.SliceStable"):
		return "stable in-place sort of a FlowSpec component list that is already in strict type order (the constructors sort it when a NLRI is first built and ValidateUpdateMsg rejects received NLRI that violate the ordering), so no element moves"
	}
	return ""
}

// allCallersPassConst: every call of fn passes the given constant as argument idx (receiver = 0).
func (c *Ctx) allCallersPassConst(fnKey string, idx int, lit string) bool {
	fn := c.P.Func(fnKey)
	if fn == nil {
		return false
	}
	ins := c.P.Callers(fn)
	if len(ins) == 0 {
		return false
	}
	for _, e := range ins {
		if e.Site == nil || idx >= len(e.Site.Common().Args) {
			return false
		}
		k, ok := e.Site.Common().Args[idx].(*ssa.Const)
		if !ok || k.Value == nil || k.Value.ExactString() != lit {
			return false
		}
	}
	return true
}

// onlyCalledFrom: every caller of fn (static or dynamic) is the given function.
func (c *Ctx) onlyCalledFrom(fnKey string, callerKeys ...string) bool {
	fn := c.P.Func(fnKey)
	if fn == nil {
		return false
	}
	ins := c.P.Callers(fn)
	if len(ins) == 0 {
		return false
	}
	for _, e := range ins {
		ok := false
		for _, k := range callerKeys {
			if ir.OuterKey(e.Caller.Func) == k {
				ok = true
			}
		}
		if !ok {
			return false
		}
	}
	return true
}

// attrStorageTarget: the written address / slice is (part of) an object of the BGP codec
// package, or comes straight from a call or parameter (unknown origin: kept).
func attrStorageTarget(v ssa.Value, d int) bool {
	if v == nil || d > 10 {
		return true
	}
	switch x := v.(type) {
	case *ssa.FieldAddr:
		n := ir.NamedOf(x.X.Type())
		if n != nil && n.Obj().Pkg() != nil {
			return n.Obj().Pkg().Path() == ir.ModPath+"/pkg/packet/bgp"
		}
		return attrStorageTarget(x.X, d+1)
	case *ssa.IndexAddr:
		return attrStorageTarget(x.X, d+1)
	case *ssa.Slice:
		return attrStorageTarget(x.X, d+1)
	case *ssa.UnOp:
		return attrStorageTarget(x.X, d+1)
	case *ssa.Phi:
		for _, e := range x.Edges {
			if attrStorageTarget(e, d+1) {
				return true
			}
		}
		return false
	case *ssa.Alloc:
		return false
	}
	return true
}

// mentionsPkg: the type is, points to, or is a slice/array/map of a named type of the package.
func mentionsPkg(t types.Type, pkg string, d int) bool {
	if d > 4 {
		return false
	}
	switch u := t.(type) {
	case *types.Named:
		if u.Obj().Pkg() != nil && u.Obj().Pkg().Path() == pkg {
			switch u.Underlying().(type) {
			case *types.Basic:
				return false // scalars (Family, BGPAttrType, …) carry no storage
			}
			return true
		}
		return false
	case *types.Pointer:
		return mentionsPkg(u.Elem(), pkg, d+1)
	case *types.Slice:
		return mentionsPkg(u.Elem(), pkg, d+1)
	case *types.Array:
		return mentionsPkg(u.Elem(), pkg, d+1)
	case *types.Map:
		return mentionsPkg(u.Elem(), pkg, d+1)
	case *types.Alias:
		return mentionsPkg(types.Unalias(u), pkg, d+1)
	}
	return false
}

func init() {
	register(&Check{
		ID: "C09",
		Expl: "Decides the clause 'producing a peer's copy never alters the stored route': (E2a) no function of the table/server/apiutil packages writes through memory handed out by a Path getter (attribute objects and slices shared between a clone, the stored route and other peers' copies); (E2b) every call of a route-content mutator of Path is made on a path that is fresh in that function (Clone/NewPath/…) or is a reviewed ingress normalisation; " +
			"(E6.inbound-loop-checks) in handleUpdate the own-AS and ORIGINATOR_ID checks precede the append to the list handed to the RIB, and Adj-RIB-In is updated afterwards. Also: (E6.loop-check-full-path) the sequence-only AS list is used only by AS-path policy code, never by loop prevention; (E6.path-cache-reset) memoised Path fields are reset by the attribute mutators.",
		Not: "Which attributes each peer type must receive (AS prepend count, next-hop value, MED/LOCAL_PREF presence) and the split-horizon / reflection rule table depend on runtime peer attributes and are not decided.",
		Run: func(c *Ctx) {
			c.ruleRatchets("C09")
			c.ruleSharedAttrWrites("E2a.shared-write", []string{"internal/pkg/table", "pkg/server", "pkg/apiutil"}, 60)
			c.ruleOwnedPathMutation("E2b.owned-path", 30)
			c.ruleInboundLoopChecks()
			c.ruleSeqOnlyAccessor("E6.loop-check-full-path")
			c.rulePathCacheReset("E6.path-cache-reset")
		},
	})
}

// ruleInboundLoopChecks: in handleUpdate every received path is either handed on to the RIB,
// recorded as End-of-RIB, or marked rejected — never silently skipped while staying "accepted"
// in Adj-RIB-In — and Adj-RIB-In is updated with the whole list afterwards.
func (c *Ctx) ruleInboundLoopChecks() {
	r := c.R
	rule := "E6.inbound-loop-checks"
	r.Rule(rule, "in peer.handleUpdate, every iteration over the received paths ends in exactly one of: append to the list handed to the RIB, append to the End-of-RIB list, or SetRejected(true) (own-AS loop / ORIGINATOR_ID checks); and adjRibIn.Update(list) follows the loop", 2)
	fn := c.P.Func("(*pkg/server.peer).handleUpdate")
	if fn == nil {
		r.Undec(rule, "-", "anchor:handleUpdate", "-", "not found")
		return
	}
	fk := ir.FuncKey(fn)
	pathT := c.P.NamedType("internal/pkg/table", "Path")
	// the range loop over the []*Path returned by ProcessMessage
	var header *ssa.BasicBlock
	for _, b := range fn.Blocks {
		for _, in := range b.Instrs {
			// range over a slice compiles to an index loop: header has a phi and a bound test; find the
			// block that loads the element: IndexAddr on a []*Path whose origin is a call result
			if ia, ok := in.(*ssa.IndexAddr); ok {
				if sl, ok := ia.X.Type().Underlying().(*types.Slice); ok {
					if p, ok := sl.Elem().Underlying().(*types.Pointer); ok && ir.NamedOf(p.Elem()) == pathT {
						if _, isCall := ia.X.(*ssa.Call); isCall && header == nil {
							header = b
						}
					}
				}
			}
		}
	}
	if header == nil {
		r.Undec(rule, fk, "anchor:loop over received paths", c.P.Pos(fn.Pos()), "loop not found")
		return
	}
	// loop head = the predecessor of `header` that tests the index (it dominates header and is reached by the back edge)
	var loopHead *ssa.BasicBlock
	for _, p := range header.Preds {
		if p.Dominates(header) {
			loopHead = p
		}
	}
	if loopHead == nil {
		r.Undec(rule, fk, "anchor:loop head", c.P.Pos(fn.Pos()), "loop head not found")
		return
	}
	mark := func(b *ssa.BasicBlock) bool {
		for _, in := range b.Instrs {
			call, ok := in.(*ssa.Call)
			if !ok {
				continue
			}
			if bi, ok := call.Call.Value.(*ssa.Builtin); ok && bi.Name() == "append" {
				return true // paths = append(paths, path)  /  eor = append(eor, family)
			}
			if callee := call.Call.StaticCallee(); callee != nil && callee.Name() == "SetRejected" && len(call.Call.Args) == 2 {
				if k, ok := call.Call.Args[1].(*ssa.Const); ok && k.Value != nil && k.Value.String() == "true" {
					return true
				}
			}
		}
		return false
	}
	// walk from the element-loading block; reaching the loop head again without a mark is a silent skip
	seen := map[*ssa.BasicBlock]bool{}
	work := []*ssa.BasicBlock{header}
	bad := false
	for len(work) > 0 {
		b := work[0]
		work = work[1:]
		if seen[b] {
			continue
		}
		seen[b] = true
		if mark(b) {
			continue
		}
		for _, s := range b.Succs {
			if s == loopHead {
				bad = true
				continue
			}
			if loopHead.Dominates(s) {
				work = append(work, s)
			}
		}
	}
	if bad {
		r.Bad(rule, fk, "every received path is accepted, recorded as EOR, or marked rejected", c.P.Pos(header.Instrs[0].Pos()), "some branch of the loop skips a received path without marking it rejected: it stays in Adj-RIB-In as accepted and re-enters the decision process on soft reset or graceful restart")
	} else {
		r.Ok(rule, fk, "every received path is accepted, recorded as EOR, or marked rejected", c.P.Pos(header.Instrs[0].Pos()), "")
	}
	// adjRibIn.Update after the loop
	upd := c.P.Func("(*internal/pkg/table.AdjRib).Update")
	found := false
	for _, b := range fn.Blocks {
		for _, in := range b.Instrs {
			if call, ok := in.(*ssa.Call); ok && upd != nil && call.Call.StaticCallee() == upd {
				found = true
				if !loopHead.Dominates(b) || seen[b] {
					r.Bad(rule, fk, "adjRibIn.Update after the checks", c.P.InstrPos(call), "Adj-RIB-In is updated inside/before the loop checks")
				} else {
					r.Ok(rule, fk, "adjRibIn.Update after the checks", c.P.InstrPos(call), "")
				}
			}
		}
	}
	if !found {
		r.Bad(rule, fk, "adjRibIn.Update after the checks", c.P.Pos(fn.Pos()), "handleUpdate no longer stores the received paths in Adj-RIB-In")
	}
}
