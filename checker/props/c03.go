package props

import (
	"fmt"
	"go/types"
	"regexp"
	"sort"
	"strings"

	"golang.org/x/tools/go/ssa"

	"gbverif/cmpchain"
	"gbverif/ir"
)

// stageSpec is one row of the documented decision process.
type stageSpec struct {
	Name    string
	Key     string // substring identifying the key term (applied to both arguments)
	Bool    bool   // boolean key (else ordered key)
	Prefers string // for Bool: "false" or "true" wins; for ordered: "lower" or "higher" wins
}

// reviewed asymmetric cases: stage -> explanation (the case is described in the report)
var reviewedAsym = map[string]string{
	"local-origin":     "both paths local but with unequal sources: every local path carries the speaker's own PeerInfo, so Equal() holds and the stage has already returned nil; the remaining case is not reachable from the API",
	"neighbor-address": "both sources without a valid address (both local): no earlier stage can separate two local paths either; the tie falls to 'new path first', documented in the source",
}

func (c *Ctx) ruleComparatorChain() {
	r := c.R
	const rChain, rStage, rSym = "E7.chain", "E7.stage", "E7.symmetry"
	r.Rule(rChain, "the predicate given to sort.Search in destination.insertSort calls the pairwise comparators on (new path, existing path) in the documented order, and maps each result with '== path1 → true, == path2 → false'", 11)
	r.Rule(rStage, "each stage compares the documented key in the documented direction: whenever it decides and key(x) precedes key(y) it returns x (decision table enumerated over all consistent truth assignments of the comparisons it makes)", 8)
	r.Rule(rSym, "each stage is mirror-symmetric: under every consistent assignment f(x,y) and f(y,x) select the same path (antisymmetry of the pairwise relation, a necessary condition for binary insertion to be order independent)", 8)
	ins := c.P.Func("(*internal/pkg/table.destination).insertSort")
	if ins == nil {
		r.Undec(rChain, "-", "anchor:insertSort", "-", "destination.insertSort not found")
		return
	}
	// the closure passed to sort.Search
	var pred *ssa.Function
	for _, b := range ins.Blocks {
		for _, in := range b.Instrs {
			call, ok := in.(*ssa.Call)
			if !ok {
				continue
			}
			callee := call.Call.StaticCallee()
			if callee == nil || callee.Pkg == nil || callee.Pkg.Pkg.Path() != "sort" || callee.Name() != "Search" {
				continue
			}
			for _, a := range call.Call.Args {
				if mc, ok := a.(*ssa.MakeClosure); ok {
					pred = mc.Fn.(*ssa.Function)
				}
			}
		}
	}
	if pred == nil {
		r.Undec(rChain, ir.FuncKey(ins), "anchor:sort.Search predicate", c.P.Pos(ins.Pos()), "no closure passed to sort.Search (a table-driven rewrite must be reviewed)")
		return
	}
	pathT := c.P.NamedType("internal/pkg/table", "Path")
	isCmp := func(f *ssa.Function) bool {
		s := f.Signature
		if s.Recv() != nil || s.Params().Len() != 2 || s.Results().Len() < 1 || s.Results().Len() > 2 {
			return false
		}
		for i := 0; i < 2; i++ {
			if ir.NamedOf(s.Params().At(i).Type()) != pathT {
				return false
			}
		}
		return ir.NamedOf(s.Results().At(0).Type()) == pathT
	}
	// calls in dominance (block index within dominator pre-order) order
	type stage struct {
		call *ssa.Call
		fn   *ssa.Function
	}
	var chain []stage
	for _, b := range pred.DomPreorder() {
		for _, in := range b.Instrs {
			if call, ok := in.(*ssa.Call); ok {
				if f := call.Call.StaticCallee(); f != nil && isCmp(f) {
					chain = append(chain, stage{call, f})
				}
			}
		}
	}
	specs := []stageSpec{
		{"llgr-stale", "IsLLGRStale(", true, "false"},
		{"reachable-nexthop", ".IsNexthopInvalid", true, "false"},
		{"local-pref", "GetLocalPref(", false, "higher"},
		{"local-origin", "IsLocal(", true, "true"},
		{"as-path-length", "GetAsPathLen(", false, "lower"},
		{"origin", "ORIGIN", false, "lower"},
		{"med", "MED", false, "lower"},
		{"ebgp-over-ibgp", "IsIBGP(", true, "false"},
		{"age", "GetTimestamp(", false, "lower"},
		{"router-id", ".ID", false, "lower"},
		{"neighbor-address", ".Address", false, "lower"},
	}
	fk := ir.FuncKey(ins)
	if len(chain) != len(specs) {
		r.Bad(rChain, fk, "chain length", c.P.Pos(pred.Pos()), fmt.Sprintf("the predicate calls %d pairwise comparators, the documented decision process has %d stages", len(chain), len(specs)))
	} else {
		r.Ok(rChain, fk, "chain length", c.P.Pos(pred.Pos()), fmt.Sprintf("%d stages", len(chain)))
	}
	// orphans: comparators of the package not in the chain
	used := map[*ssa.Function]bool{}
	for _, s := range chain {
		used[s.fn] = true
	}
	for _, f := range c.P.FuncsIn("internal/pkg/table") {
		if f.Parent() == nil && isCmp(f) && !used[f] && f.Blocks != nil && strings.HasPrefix(f.Name(), "compare") {
			r.Bad(rChain, fk, "orphan "+f.Name(), c.P.Pos(f.Pos()), "a pairwise comparator of the package is not part of the chain")
		}
	}
	// argument order and result mapping
	var p1, p2 ssa.Value
	for i, s := range chain {
		name := fmt.Sprintf("stage %d", i+1)
		if i < len(specs) {
			name = specs[i].Name
		}
		a0, a1 := s.call.Call.Args[0], s.call.Call.Args[1]
		if i == 0 {
			p1, p2 = a0, a1
		}
		pos := c.P.InstrPos(s.call)
		if a0 != p1 || a1 != p2 {
			r.Bad(rChain, fk, name+" arguments", pos, "comparator is not called on (new path, existing path) in that order")
			continue
		}
		if why := resultMapping(s.call, p1, p2); why != "" {
			r.Bad(rChain, fk, name+" result mapping", pos, why)
			continue
		}
		r.Ok(rChain, fk, name+" call", pos, s.fn.Name()+"(path1, path2); == path1 → true; == path2 → false")
	}
	// per-stage tables
	attrConst := func(n string) string {
		if at := c.P.NamedType("pkg/packet/bgp", "BGPAttrType"); at != nil {
			if v, ok := constInt(constsOf(at)[n]); ok {
				return fmt.Sprint(v)
			}
		}
		return "?"
	}
	for i, s := range chain {
		if i >= len(specs) {
			break
		}
		sp := specs[i]
		ev := &cmpchain.Eval{}
		rows := ev.Run(s.fn, "X", "Y")
		sk := ir.FuncKey(s.fn)
		pos := c.P.Pos(s.fn.Pos())
		if len(ev.Problems) > 0 || len(rows) == 0 {
			r.Undec(rStage, sk, sp.Name, pos, "comparator could not be read by the evaluator: "+strings.Join(ev.Problems, "; "))
			continue
		}
		key := sp.Key
		switch sp.Name {
		case "origin":
			key = "," + attrConst("BGP_ATTR_TYPE_ORIGIN") + ")"
		case "med":
			key = c.medKey(s.fn, attrConst("BGP_ATTR_TYPE_MULTI_EXIT_DISC"))
			if key == "" {
				r.Bad(rStage, sk, sp.Name, pos, "no key closure of this stage reads the MULTI_EXIT_DISC attribute")
				continue
			}
		}
		if why := checkDirection(rows, sp, key); why != "" {
			r.Bad(rStage, sk, sp.Name, pos, why)
		} else {
			r.Ok(rStage, sk, sp.Name, pos, fmt.Sprintf("key %q, %s wins; %d table rows", key, sp.Prefers, len(rows)))
		}
		// option gates
		switch sp.Name {
		case "as-path-length":
			c.checkGate(rStage, sk, "option ignore-as-path-length", pos, rows, "IgnoreAsPathLength", true)
		case "med":
			c.checkMedGate(rStage, sk, pos, rows, key)
		}
		// mirror symmetry
		ev2 := &cmpchain.Eval{}
		asym := ""
		for _, row := range rows {
			for _, m := range ev2.RunUnder(s.fn, "Y", "X", row.Assign) {
				if m.Res != row.Res {
					asym = fmt.Sprintf("under %s: f(x,y) selects %s but f(y,x) selects %s", row, row.Res, m.Res)
				}
			}
		}
		if len(ev2.Problems) > 0 {
			r.Undec(rSym, sk, sp.Name, pos, strings.Join(ev2.Problems, "; "))
		} else if asym == "" {
			r.Ok(rSym, sk, sp.Name, pos, fmt.Sprintf("symmetric on all %d rows", len(rows)))
		} else if why, ok := reviewedAsym[sp.Name]; ok && asymIsReviewed(sp.Name, rows, s.fn) {
			r.Except(rSym, sk, sp.Name, pos, why+" ["+asym+"]")
		} else {
			r.Bad(rSym, sk, sp.Name, pos, "stage is not mirror-symmetric: "+asym+" — the sorted position of a path then depends on arrival order")
		}
	}
}

// asymIsReviewed: the only asymmetric rows are the reviewed "both sides lack the key" case.
func asymIsReviewed(stage string, rows []cmpchain.Outcome, fn *ssa.Function) bool {
	ev := &cmpchain.Eval{}
	for _, row := range rows {
		for _, m := range ev.RunUnder(fn, "Y", "X", row.Assign) {
			if m.Res == row.Res {
				continue
			}
			// accepted only when both arguments are in the same boolean class for every key atom
			all := map[string]bool{}
			for k, v := range row.Assign {
				all[k] = v
			}
			for k, v := range m.Assign {
				all[k] = v
			}
			switch stage {
			case "local-origin":
				if !(all["B(IsLocal(X))"] && all["B(IsLocal(Y))"]) {
					return false
				}
			case "neighbor-address":
				okX, hx := false, false
				for k, v := range all {
					if strings.HasPrefix(k, "B(IsValid(") && strings.Contains(k, "X") {
						hx = true
						okX = !v
					}
				}
				okY, hy := false, false
				for k, v := range all {
					if strings.HasPrefix(k, "B(IsValid(") && strings.Contains(k, "Y") {
						hy = true
						okY = !v
					}
				}
				if !(hx && hy && okX && okY) {
					return false
				}
			default:
				return false
			}
		}
	}
	return true
}

// resultMapping verifies "if b == path1 {return true} else if b == path2 {return false}".
func resultMapping(call *ssa.Call, p1, p2 ssa.Value) string {
	var res ssa.Value = call
	if call.Type().(interface{ Underlying() types.Type }) != nil {
		if _, isTuple := call.Type().(*types.Tuple); isTuple {
			res = nil
			for _, ref := range *call.Referrers() {
				if ex, ok := ref.(*ssa.Extract); ok && ex.Index == 0 {
					res = ex
				}
			}
			if res == nil {
				return "the comparator's result is ignored"
			}
		}
	}
	var first *ssa.If
	for _, ref := range *res.Referrers() {
		bo, ok := ref.(*ssa.BinOp)
		if !ok || bo.Op.String() != "==" {
			continue
		}
		other := bo.Y
		if bo.X != res {
			other = bo.X
		}
		for _, r2 := range *bo.Referrers() {
			iff, ok := r2.(*ssa.If)
			if !ok {
				continue
			}
			want := false
			switch other {
			case p1:
				want = true
				first = iff
			case p2:
				want = false
			default:
				continue
			}
			ret, ok := iff.Block().Succs[0].Instrs[len(iff.Block().Succs[0].Instrs)-1].(*ssa.Return)
			if !ok || len(ret.Results) != 1 {
				return "a result test does not lead to a return"
			}
			k, ok := ret.Results[0].(*ssa.Const)
			if !ok || k.Value == nil || (k.Value.String() == "true") != want {
				return fmt.Sprintf("result == path%d does not return %v", map[bool]int{true: 1, false: 2}[want], want)
			}
		}
	}
	if first == nil {
		return "the comparator's result is never tested against path1"
	}
	// the path2 test must follow on the false edge of the path1 test
	next := first.Block().Succs[1]
	ok := false
	for _, in := range next.Instrs {
		if bo, isB := in.(*ssa.BinOp); isB && (bo.X == res || bo.Y == res) && (bo.X == p2 || bo.Y == p2) {
			ok = true
		}
	}
	if !ok {
		return "the result is not tested against path2 after the path1 test"
	}
	return ""
}

var reLT = regexp.MustCompile(`^LT\((.*)\)$`)

// orderAtoms finds LT atoms comparing key(X) with key(Y) for a key containing sub.
func orderAtoms(rows []cmpchain.Outcome, sub string) (ltXY, ltYX string) {
	for _, row := range rows {
		for k := range row.Assign {
			if !strings.HasPrefix(k, "LT(") || !strings.Contains(k, sub) {
				continue
			}
			parts := splitTopLevel(k[3 : len(k)-1])
			if len(parts) != 2 {
				continue
			}
			a, b := parts[0], parts[1]
			if swapXY(a) == b && strings.Contains(a, "X") {
				ltXY = k
			}
			if swapXY(a) == b && strings.Contains(a, "Y") {
				ltYX = k
			}
		}
	}
	return
}

func swapXY(s string) string {
	var b strings.Builder
	for i := 0; i < len(s); i++ {
		ch := s[i]
		isSym := (ch == 'X' || ch == 'Y') && (i == 0 || !identByte(s[i-1])) && (i+1 >= len(s) || !identByte(s[i+1]))
		if isSym {
			if ch == 'X' {
				b.WriteByte('Y')
			} else {
				b.WriteByte('X')
			}
			continue
		}
		b.WriteByte(ch)
	}
	return b.String()
}

func identByte(c byte) bool {
	return c == '_' || c == ':' || (c >= 'a' && c <= 'z') || (c >= 'A' && c <= 'Z') || (c >= '0' && c <= '9')
}

func splitTopLevel(s string) []string {
	var out []string
	depth, start := 0, 0
	for i, r := range s {
		switch r {
		case '(', '[':
			depth++
		case ')', ']':
			depth--
		case ',':
			if depth == 0 {
				out = append(out, s[start:i])
				start = i + 1
			}
		}
	}
	return append(out, s[start:])
}

// checkDirection: whenever the stage decides and the key orders x before y, it returns x.
func checkDirection(rows []cmpchain.Outcome, sp stageSpec, key string) string {
	decided := 0
	if sp.Bool {
		var kx, ky string
		for _, row := range rows {
			for k := range row.Assign {
				if strings.HasPrefix(k, "B(") && strings.Contains(k, key) {
					if strings.Contains(k, "X") && !strings.Contains(k, "Y") {
						kx = k
					}
					if strings.Contains(k, "Y") && !strings.Contains(k, "X") {
						ky = k
					}
				}
			}
		}
		if kx == "" || ky == "" || swapXY(kx) != ky {
			return fmt.Sprintf("the stage does not test the boolean key %q on both paths", key)
		}
		for _, row := range rows {
			vx, okx := row.Assign[kx]
			vy, oky := row.Assign[ky]
			if !okx || !oky || vx == vy || (row.Res != cmpchain.First && row.Res != cmpchain.Second) {
				continue
			}
			decided++
			winnerIsX := row.Res == cmpchain.First
			xHasWinningValue := (sp.Prefers == "true") == vx
			if winnerIsX != xHasWinningValue {
				return fmt.Sprintf("under %s the stage prefers the path whose %s is %v; documented: %s wins", row, key, !xHasWinningValue == (sp.Prefers == "true"), sp.Prefers)
			}
		}
	} else {
		ltXY, ltYX := orderAtoms(rows, key)
		if ltXY == "" && ltYX == "" {
			return fmt.Sprintf("the stage does not order the two paths by the key %q", key)
		}
		for _, row := range rows {
			if row.Res != cmpchain.First && row.Res != cmpchain.Second {
				continue
			}
			xLess, known := false, false
			if v, ok := row.Assign[ltXY]; ok && ltXY != "" && v {
				xLess, known = true, true
			}
			if v, ok := row.Assign[ltYX]; ok && ltYX != "" && v {
				xLess, known = false, true
			}
			if !known {
				// decided although neither strict order holds explicitly: infer from the negations when both atoms exist
				vx, okx := row.Assign[ltXY]
				vy, oky := row.Assign[ltYX]
				eqKnownFalse := false
				for k, v := range row.Assign {
					if strings.HasPrefix(k, "EQ(") && strings.Contains(k, key) && !v {
						eqKnownFalse = true
					}
				}
				switch {
				case okx && !vx && eqKnownFalse:
					xLess, known = false, true
				case oky && !vy && eqKnownFalse:
					xLess, known = true, true
				}
			}
			if !known {
				continue
			}
			decided++
			winnerIsX := row.Res == cmpchain.First
			want := xLess == (sp.Prefers == "lower")
			if winnerIsX != want {
				return fmt.Sprintf("under %s the stage selects %s although the documented preference is '%s %s wins'", row, row.Res, sp.Prefers, key)
			}
		}
	}
	if decided == 0 {
		return fmt.Sprintf("no row of the decision table decides on the key %q", key)
	}
	return ""
}

// medKey finds the opaque key term of the MED stage: the closure that reads attribute MED.
func (c *Ctx) medKey(fn *ssa.Function, medConst string) string {
	// a closure of the comparator or a helper of the package it calls
	for _, an := range c.withHelpers(fn, 1) {
		if an == fn {
			continue
		}
		for _, b := range an.Blocks {
			for _, in := range b.Instrs {
				if call, ok := in.(*ssa.Call); ok {
					for _, a := range call.Call.Args {
						if k, ok := a.(*ssa.Const); ok && k.Value != nil && k.Value.ExactString() == medConst && call.Call.StaticCallee() != nil && call.Call.StaticCallee().Name() == "getPathAttr" {
							return an.Name() + "("
						}
					}
				}
			}
		}
	}
	return ""
}

// checkGate: when the option atom has the given value the stage never decides.
func (c *Ctx) checkGate(rule, fk, cons, pos string, rows []cmpchain.Outcome, optSub string, val bool) {
	found := false
	for _, row := range rows {
		for k, v := range row.Assign {
			if strings.Contains(k, optSub) && v == val {
				found = true
				if row.Res != cmpchain.Neither {
					c.R.Bad(rule, fk, cons, pos, fmt.Sprintf("with the option set the stage still decides: %s", row))
					return
				}
			}
		}
	}
	if !found {
		c.R.Bad(rule, fk, cons, pos, "the stage no longer consults the route-selection option "+optSub)
		return
	}
	c.R.Ok(rule, fk, cons, pos, "option disables the stage")
}

// checkMedGate: MED decides only under always-compare-med, or for two internal paths, or same first AS.
func (c *Ctx) checkMedGate(rule, fk, pos string, rows []cmpchain.Outcome, key string) {
	bad := ""
	sawOpt := false
	for _, row := range rows {
		optTrue, comparable := false, false
		var keys []string
		for k, v := range row.Assign {
			keys = append(keys, k)
			if strings.Contains(k, "AlwaysCompareMed") {
				sawOpt = true
				if v {
					optTrue = true
				}
			}
			if v && strings.HasPrefix(k, "EQ(") && !strings.Contains(k, key) {
				comparable = true // both AS_PATH lengths zero, or equal first AS
			}
		}
		sort.Strings(keys)
		if (row.Res == cmpchain.First || row.Res == cmpchain.Second) && !optTrue && !comparable {
			bad = row.String()
		}
	}
	switch {
	case !sawOpt:
		c.R.Bad(rule, fk, "option always-compare-med", pos, "the MED stage no longer consults always-compare-med")
	case bad != "":
		c.R.Bad(rule, fk, "option always-compare-med", pos, "MED decides between routes that are not comparable (different neighbour AS, option off): "+bad)
	default:
		c.R.Ok(rule, fk, "option always-compare-med", pos, "MED decides only under the option, for two internal paths, or for equal first AS")
	}
}

func init() {
	register(&Check{
		ID: "C03",
		Expl: "Decides the part of the decision process that is visible in its shape: the predicate of the binary insertion calls the eleven pairwise comparators on (new, existing) in the documented order and maps their results correctly (E7.chain); each stage compares the documented key in the documented direction and honours its route-selection option, and each stage is mirror-symmetric — " +
			"both decided by enumerating the stage's decision table over every consistent truth assignment of the comparisons it performs (E7.stage, E7.symmetry); and a path enters a destination's list only through the sorted insertion, which every announcement reaches (E7.sorted-insertion). The values are only touched through comparisons, so the table is finite and complete. Also: (E6.path-cache-reset) every memoised atomic field of Path is reset by both attribute mutators, so a rewritten clone is ranked by its own attributes.",
		Not: "Transitivity across stages (MED is known to be non-transitive), the value of AS_PATH length for SET/CONFED segments, multipath prefix selection beyond its shape, and independence from arrival order as a whole are not decided.",
		Run: func(c *Ctx) {
			c.ruleRatchets("C03")
			c.ruleComparatorChain()
			c.ruleSortedInsertionOnly()
			c.rulePathCacheReset("E6.path-cache-reset")
		},
	})
}

// ruleSortedInsertionOnly: a path enters a destination's list only through insertSort, and every
// announcement that reaches Calculate is inserted that way.
func (c *Ctx) ruleSortedInsertionOnly() {
	r := c.R
	rule := "E7.sorted-insertion"
	r.Rule(rule, "within the methods of destination, knownPathList only grows through insertSort (other writes only remove elements of the list itself), and in Calculate every non-withdraw path reaches insertSort(newPath) on all paths", 4)
	dn := c.P.NamedType("internal/pkg/table", "destination")
	ins := c.P.Func("(*internal/pkg/table.destination).insertSort")
	calc := c.P.Func("(*internal/pkg/table.destination).Calculate")
	f := ir.Field(dn, "knownPathList")
	if dn == nil || ins == nil || calc == nil || f == nil {
		r.Undec(rule, "-", "anchor", "-", "destination / insertSort / Calculate not found")
		return
	}
	isKPLLoad := func(v ssa.Value) bool {
		for i := 0; i < 6; i++ {
			switch x := v.(type) {
			case *ssa.Slice:
				v = x.X
				continue
			case *ssa.UnOp:
				if fa, ok := x.X.(*ssa.FieldAddr); ok && ir.FieldOf(fa) == f {
					return true
				}
			}
			break
		}
		return false
	}
	for _, fn := range c.P.FuncsIn("internal/pkg/table") {
		if fn.Signature.Recv() == nil || ir.NamedOf(fn.Signature.Recv().Type()) != dn || fn.Blocks == nil {
			continue
		}
		fk := ir.FuncKey(fn)
		for _, b := range fn.Blocks {
			for _, in := range b.Instrs {
				st, ok := in.(*ssa.Store)
				if !ok {
					continue
				}
				// receiver must be the method's own receiver (not a freshly built snapshot)
				switch addr := st.Addr.(type) {
				case *ssa.FieldAddr:
					if ir.FieldOf(addr) != f || !isParamValue(addr.X, fn.Params[0]) {
						continue
					}
					grows := true
					why := "stores a new list"
					if call, ok := st.Val.(*ssa.Call); ok {
						if bi, ok := call.Call.Value.(*ssa.Builtin); ok && bi.Name() == "append" {
							grows = false
							for _, a := range call.Call.Args {
								if !isKPLLoad(a) {
									grows = true
									why = "appends a value that does not come from the list itself"
								}
							}
						}
					}
					if isKPLLoad(st.Val) {
						grows = false
					}
					cons := "write knownPathList"
					switch {
					case !grows:
						r.Ok(rule, fk, cons, c.P.InstrPos(st), "removal / reslice of the list itself")
					case fn == ins:
						r.Ok(rule, fk, cons, c.P.InstrPos(st), "the sorted insertion")
					default:
						r.Bad(rule, fk, cons, c.P.InstrPos(st), "a path is put into the list outside insertSort ("+why+"): its position no longer follows the decision process")
					}
				case *ssa.IndexAddr:
					if isKPLLoad(addr.X) {
						if u, ok := addr.X.(*ssa.UnOp); ok {
							if fa, ok := u.X.(*ssa.FieldAddr); ok && isParamValue(fa.X, fn.Params[0]) {
								r.Bad(rule, fk, "store knownPathList[i]", c.P.InstrPos(st), "an element of the sorted list is overwritten in place: the new path keeps the old path's rank")
							}
						}
					}
				}
			}
		}
	}
	// Calculate: the announce branch always reaches insertSort(newPath)
	var newPath *ssa.Parameter
	for _, p := range calc.Params {
		if ir.NamedOf(p.Type()) == c.P.NamedType("internal/pkg/table", "Path") {
			newPath = p
		}
	}
	var entry *ssa.BasicBlock
	for _, b := range calc.Blocks {
		iff, ok := b.Instrs[len(b.Instrs)-1].(*ssa.If)
		if !ok {
			continue
		}
		if u, ok := iff.Cond.(*ssa.UnOp); ok {
			if fa, ok := u.X.(*ssa.FieldAddr); ok && ir.FieldOf(fa).Name() == "IsWithdraw" && newPath != nil && isParamValue(fa.X, newPath) {
				entry = b.Succs[1]
			}
		}
	}
	if entry == nil {
		r.Undec(rule, ir.FuncKey(calc), "anchor:branch on newPath.IsWithdraw", c.P.Pos(calc.Pos()), "not found")
		return
	}
	ok := mustPassThrough(entry, func(b *ssa.BasicBlock) bool {
		for _, in := range b.Instrs {
			if call, isCall := in.(*ssa.Call); isCall && call.Call.StaticCallee() == ins && len(call.Call.Args) == 2 && isParamValue(call.Call.Args[1], newPath) {
				return true
			}
		}
		return false
	})
	if ok {
		r.Ok(rule, ir.FuncKey(calc), "announce ⇒ insertSort(newPath)", c.P.Pos(entry.Instrs[0].Pos()), "on every path")
	} else {
		r.Bad(rule, ir.FuncKey(calc), "announce ⇒ insertSort(newPath)", c.P.Pos(calc.Pos()), "some path through the announce branch does not insert the new path by the sorted insertion (a fast path keeps the old rank)")
	}
}
