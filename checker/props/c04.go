package props

import (
	"fmt"
	"go/token"
	"go/types"
	"sort"
	"strings"

	"golang.org/x/tools/go/ssa"

	"gbverif/ir"
)

// allocatedOnDecodeSide: named types allocated in functions reachable from the parse entry points of a package.
func (c *Ctx) allocatedOnDecodeSide(short string) (map[*types.Named]bool, int) {
	var roots []*ssa.Function
	for _, k := range decodeEntryPoints {
		if strings.Contains(k, short+".") {
			if fn := c.P.Func(k); fn != nil {
				roots = append(roots, fn)
			}
		}
	}
	reach := c.reachableFrom(roots)
	alloc := map[*types.Named]bool{}
	for fn := range reach {
		for _, b := range fn.Blocks {
			for _, in := range b.Instrs {
				if al, ok := in.(*ssa.Alloc); ok {
					if n := ir.NamedOf(al.Type()); n != nil {
						alloc[n] = true
					}
				}
			}
		}
	}
	return alloc, len(reach)
}

// decodeProducesExceptions: types that implement a codec interface but are deliberately never built by a decoder.
var decodeProducesExceptions = map[string]string{
	"pkg/packet/bgp.DefaultParameterCapability": "embedded base of every capability; unknown codes decode into CapUnknown",
	"pkg/packet/bgp.MPLSLabelStack":             "label stack helper embedded by value in labelled NLRI; not an NLRI of its own",
	"pkg/packet/bgp.flowSpecMac":                "embedded base of FlowSpec{Source,Destination}Mac",
	"pkg/packet/bgp.flowSpecPrefix":             "embedded base of FlowSpec{Source,Destination}Prefix",
	"pkg/packet/bgp.flowSpecPrefix6":            "embedded base of FlowSpec{Source,Destination}Prefix6",
	"pkg/packet/bgp.LsTLVSourceRouterID":        "declared with a TODO in the source: no constructor, no API conversion and no decoder row; the type is unused",
	"pkg/packet/bgp.SRv6L3ServiceAttribute":     "deprecated in the source in favour of SRv6ServiceTLV, which is what the decoder builds for the same TLV",
	"pkg/packet/rtr.RTRCommon":                  "embedded base of serial notify/query PDUs",
	"pkg/packet/rtr.RTRReset":                   "embedded base of reset query / cache reset PDUs",
}

// ruleDecodeProduces (E4): every concrete type implementing one of the package's codec
// interfaces is allocated somewhere on the decode side, i.e. the decoder has a row for it.
func (c *Ctx) ruleDecodeProduces(rule string, shorts []string, min int) {
	r := c.R
	r.Rule(rule, "dispatch completeness: every concrete type that implements one of the package's codec interfaces (≥2 methods) is allocated in some function reachable from the package's parse entry points; a type no decoder can build cannot survive a round trip", min)
	for _, short := range shorts {
		pk := c.P.Pkg(short)
		if pk == nil {
			r.Undec(rule, "-", "anchor:"+short, "-", "package not found")
			continue
		}
		alloc, nreach := c.allocatedOnDecodeSide(short)
		if nreach == 0 {
			r.Undec(rule, "-", "anchor:entry:"+short, "-", "no parse entry point found")
			continue
		}
		seen := map[*types.Named]bool{}
		sc := pk.Types.Scope()
		for _, name := range sc.Names() {
			tn, ok := sc.Lookup(name).(*types.TypeName)
			if !ok {
				continue
			}
			it, ok := tn.Type().Underlying().(*types.Interface)
			if !ok || it.NumMethods() < 2 {
				continue
			}
			hasDecode := false
			for i := 0; i < it.NumMethods(); i++ {
				m := strings.ToLower(it.Method(i).Name())
				if strings.HasPrefix(m, "decode") || strings.HasPrefix(m, "parse") || m == "serialize" {
					hasDecode = true
				}
			}
			if !hasDecode {
				continue
			}
			for _, im := range implementers(pk.Types, it) {
				if seen[im] {
					continue
				}
				seen[im] = true
				key := short + "." + im.Obj().Name()
				pos := c.P.Pos(im.Obj().Pos())
				switch {
				case alloc[im]:
					r.Ok(rule, short, im.Obj().Name(), pos, "allocated on the decode side (via "+name+" or a sibling interface)")
				case decodeProducesExceptions[key] != "":
					r.Except(rule, short, im.Obj().Name(), pos, decodeProducesExceptions[key])
				default:
					r.Bad(rule, short, im.Obj().Name(), pos, fmt.Sprintf("implements %s but no function reachable from the parse entry points allocates it: the decoder has no row for this type, so bytes produced by its Serialize cannot parse back to it", name))
				}
			}
		}
	}
}

// ruleAttrTables: the attribute factory switch, the flag table and the RFC flag classes agree.
func (c *Ctx) ruleAttrTables() {
	r := c.R
	rule := "E4.attr-tables"
	r.Rule(rule, "per attribute type: a row in the GetPathAttribute switch ⇔ a row in PathAttrFlags, and the flag class equals the RFC 4271/IANA class embedded in the checker", 20)
	at := c.P.NamedType("pkg/packet/bgp", "BGPAttrType")
	fn := c.P.Func("pkg/packet/bgp.GetPathAttribute")
	if at == nil || fn == nil {
		r.Undec(rule, "-", "anchor", "-", "BGPAttrType / GetPathAttribute not found")
		return
	}
	sws := c.valueSwitches(fn, at)
	if len(sws) != 1 {
		r.Undec(rule, ir.FuncKey(fn), "dispatch switch", c.P.Pos(fn.Pos()), fmt.Sprintf("expected one switch on BGPAttrType, found %d", len(sws)))
		return
	}
	keys, pos := c.mapLiteralKeys("pkg/packet/bgp", "PathAttrFlags")
	if keys == nil {
		r.Undec(rule, "-", "anchor:PathAttrFlags", c.P.Pos(pos), "flag table literal not found")
		return
	}
	info := c.P.Pkg("pkg/packet/bgp").TypesInfo
	flagVal := func(name string) (int64, bool) {
		tv := info.Types[keys[name]]
		if tv.Value == nil {
			return 0, false
		}
		v, ok := constInt(tv.Value)
		return v, ok
	}
	const optional, transitive = 0x80, 0x40
	rfc := map[string]int64{ // RFC 4271 §5, RFC 4456, 4760, 1997, 4360, 6793, 6514, 9012, 5701, 7311, 8092, 9552, 8669
		"BGP_ATTR_TYPE_ORIGIN": transitive, "BGP_ATTR_TYPE_AS_PATH": transitive, "BGP_ATTR_TYPE_NEXT_HOP": transitive,
		"BGP_ATTR_TYPE_MULTI_EXIT_DISC": optional, "BGP_ATTR_TYPE_LOCAL_PREF": transitive, "BGP_ATTR_TYPE_ATOMIC_AGGREGATE": transitive,
		"BGP_ATTR_TYPE_AGGREGATOR": optional | transitive, "BGP_ATTR_TYPE_COMMUNITIES": optional | transitive,
		"BGP_ATTR_TYPE_ORIGINATOR_ID": optional, "BGP_ATTR_TYPE_CLUSTER_LIST": optional,
		"BGP_ATTR_TYPE_MP_REACH_NLRI": optional, "BGP_ATTR_TYPE_MP_UNREACH_NLRI": optional,
		"BGP_ATTR_TYPE_EXTENDED_COMMUNITIES": optional | transitive, "BGP_ATTR_TYPE_AS4_PATH": optional | transitive,
		"BGP_ATTR_TYPE_AS4_AGGREGATOR": optional | transitive, "BGP_ATTR_TYPE_PMSI_TUNNEL": optional | transitive,
		"BGP_ATTR_TYPE_TUNNEL_ENCAP": optional | transitive, "BGP_ATTR_TYPE_IP6_EXTENDED_COMMUNITIES": optional | transitive,
		"BGP_ATTR_TYPE_AIGP": optional, "BGP_ATTR_TYPE_LARGE_COMMUNITY": optional | transitive,
		"BGP_ATTR_TYPE_LS": optional, "BGP_ATTR_TYPE_PREFIX_SID": optional | transitive,
	}
	names := map[string]bool{}
	for k := range sws[0].Cases {
		names[k] = true
	}
	for k := range keys {
		names[k] = true
	}
	var ns []string
	for k := range names {
		ns = append(ns, k)
	}
	sort.Strings(ns)
	fk := ir.FuncKey(fn)
	for _, k := range ns {
		_, inSw := sws[0].Cases[k]
		_, inTab := keys[k]
		p := c.P.Pos(pos)
		switch {
		case inSw && !inTab:
			r.Bad(rule, fk, k, p, "attribute has a decoder row but no row in PathAttrFlags: constructors would emit flags 0")
		case !inSw && inTab:
			r.Bad(rule, fk, k, p, "attribute has a flag-table row but no decoder row: it decodes as PathAttributeUnknown")
		default:
			v, ok := flagVal(k)
			want, known := rfc[k]
			if !ok {
				r.Undec(rule, fk, k, p, "flag value is not a constant expression")
			} else if !known {
				r.Undec(rule, fk, k, p, "attribute not in the checker's RFC flag table: add its class (one line) after reading the defining RFC")
			} else if v != want {
				r.Bad(rule, fk, k, p, fmt.Sprintf("flag class 0x%02x differs from the RFC class 0x%02x", v, want))
			} else {
				r.Ok(rule, fk, k, p, fmt.Sprintf("decoder row, flag row, class 0x%02x = RFC", v))
			}
		}
	}
}

func init() {
	register(&Check{
		ID: "C04",
		Expl: "(E4.afi-addrlen) in the NLRI dispatch, the IPv4/IPv6 address length handed to the prefix decoders is evaluated for every family constant a case lists and must follow that family's AFI. Decides structural necessary conditions of the codec round trip in pkg/packet/bgp: (E4.decode-produces) every concrete type implementing a codec interface is allocated by some function reachable from the parse entry points, so the decoder has a row for every type a serialiser exists for; " +
			"(E4.attr-tables) the attribute factory switch, PathAttrFlags and the RFC flag classes agree row by row; (E2d) Serialize/Len/String/MarshalJSON/… of every type that can be stored in a route do not write their receiver (re-serialising is a fixpoint only if serialising has no side effect); " +
			"(E3.emitted-length) framing helpers derive header length and the extended-length flag from the bytes they emit, not from a stored Length; (E6.addpath-direction) decoders ask for the receive direction of ADD-PATH and serialisers for the send direction; (E3.guard-order) writer and reader of a type test the same option constants in the same order around wire-touching statements; (E3.decoded-fields) every field a decodable type's Serialize reads is filled somewhere on the decode side. (E4.case-ratchet) against a committed baseline, no switch of the code this property is anchored in has lost a named case. (E6.call-ratchet) against a committed baseline, no function of that code has stopped calling (directly or through helpers) a non-trivial callee it called on the reviewed tree.",
		Not: "Byte-level correctness of any encoder/decoder, Len()==bytes emitted, equality after a round trip and RFC well-formedness of emitted messages are value-level and not decided.",
		Run: func(c *Ctx) {
			c.ruleRatchets("C04")
			c.ruleCheckedIsEmitted("E3.checked-is-emitted")
			c.ruleMaskAgreement("E3.mask-agreement", []string{"pkg/packet/bgp"}, 1)
			c.ruleDeadByteStore("E3.dead-octet", []string{"pkg/packet/bgp"}, 5)
			c.ruleDecodeProduces("E4.decode-produces", []string{"pkg/packet/bgp"}, 150)
			c.ruleAttrTables()
			c.rulePurity("E2d.pure", []string{"pkg/packet/bgp"}, 500)
			c.ruleEmittedLength("E3.emitted-length", []string{"pkg/packet/bgp"}, 3)
			c.ruleAddPathDirection("E6.addpath-direction")
			c.ruleGuardOrder("E3.guard-order", []string{"pkg/packet/bgp"}, 2)
			c.ruleDecodedFields("E3.decoded-fields", []string{"pkg/packet/bgp"}, 110)
			c.ruleOptionScanAny("E6.option-scan-any")
			c.ruleAfiAddrLen("E4.afi-addrlen", 2)
		},
	})
	register(&Check{
		ID:   "C05",
		Expl: "(E6.session-options) the options the receive path parses under — extended-message limit, ADD-PATH modes, AS width — are rewritten on every establishment, so nothing survives from the previous session. Decides one clause of the statement — 'the caller's buffer is left unmodified' — for every function on the decode side of pkg/packet/bgp: no store, copy, append-in-place or in-place mutator targets a []byte parameter or memory derived from it (interprocedural taint with writes-param / returns-alias summaries), and no field that retains a sub-slice of the input is written through anywhere in the module. Also decides one cause of crashes exactly: (E5.narrow-guard) no length guard is computed in uint8/uint16 arithmetic that can wrap for some peer-chosen length (upper bounds from constants, widening conversions and dominating comparisons). Also: (E5.loop-progress) every decode loop whose continuation test depends on one loop variable changes that variable on every back edge; (E6.exact-body) ParseBGPMessage hands the body decoder exactly the declared message. (E3.decoded-non-nil) a successfully decoded object has every pointer/interface field assigned that its Serialize dereferences unguarded; (E5.bounds-ratchet) against a committed baseline, no decode function with unchanged accesses has fewer constant-offset accesses provably in bounds than on the reviewed tree. (E5.errors-checked) every error returned to decode-side code by a module function is used.",
		Not:  "Crash-freedom, termination, bounded allocation and in-bounds access are NOT decided: a length-guard prover was prototyped and left 181 of 453 slice accesses unproven (value relations between cached lengths and slices), so it is not armed (DESIGN.md §6.1).",
		Run: func(c *Ctx) {
			c.ruleRatchets("C05")
			c.ruleDecoderErrorType("E5.decoder-error-type", 20)
			c.ruleSessionOptionsRefreshed("E6.session-options", map[string]bool{"extendedMessage": true, "familyMap": true, "twoByteAsTrans": true}, 3)
			c.ruleInputImmutable("E2c.input", []string{"pkg/packet/bgp"}, 120)
			c.ruleNarrowGuard("E5.narrow-guard", []string{"pkg/packet/bgp"}, 2)
			c.ruleLoopProgress("E5.loop-progress", []string{"pkg/packet/bgp"}, 30)
			c.ruleParseExactBody("E6.exact-body")
			c.ruleDecodedNonNil("E3.decoded-non-nil", []string{"pkg/packet/bgp"}, 4)
			c.ruleConstBounds("E5.bounds-ratchet", []string{"pkg/packet/bgp"}, "baselines/bounds.json", 100)
			c.ruleErrorsChecked("E5.errors-checked", []string{"pkg/packet/bgp"}, errorsDiscardedReviewed, 400)
			c.ruleErrorExitRatchet("E5.error-exit-ratchet", []string{"pkg/packet/bgp"}, "baselines/errexits.json", 150)
			c.ruleNoPrefilledPointers("E3.no-prefilled-pointers", []string{"pkg/packet/bgp", "pkg/packet/mrt", "pkg/packet/bmp", "pkg/packet/rtr", "pkg/zebra"}, 2)
		},
	})
	register(&Check{
		ID:   "C19",
		Expl: "Decides for pkg/packet/{mrt,bmp,rtr,bfd} and pkg/zebra: (E2c) decoders never write their input buffer nor anything that retains a part of it; (E4.decode-produces) every message/TLV type with a serialiser is allocated on the decode side; (E6.split) stream splitters compare len(input) — not cap — with the very bound they slice by; (E3.guard-order) the writer and the reader of one structure test the same flag constants in the same order around their wire-touching statements and under the same protocol versions (finite version domain); (E4.mrt-rib-families) the MRT reader, Rib.Serialize and the dump writer agree on which families have AFI/SAFI-specific RIB subtypes; (E3.decoded-fields) every field a decodable type's Serialize reads is filled somewhere on the decode side. Also: (E5.loop-progress) decode loops change their loop variable on every back edge. (E5.bounds-ratchet) the same length-guard ratchet for the MRT, BMP, RTR, BFD and ZAPI decoders. (E5.errors-checked) every error returned to decode-side code by a module function is used. (E4.case-ratchet) against a committed baseline, no switch of the code this property is anchored in has lost a named case. (E6.call-ratchet) against a committed baseline, no function of that code has stopped calling (directly or through helpers) a non-trivial callee it called on the reviewed tree.",
		Not:  "Crash-freedom and termination of the decoders, and round-trip equality, are value-level and not decided. ZAPI field symmetry is excluded (request and response bodies are directional).",
		Run: func(c *Ctx) {
			c.ruleRatchets("C19")
			c.ruleMaskAgreement("E3.mask-agreement", []string{"pkg/packet/bfd", "pkg/packet/bmp", "pkg/packet/mrt", "pkg/packet/rtr", "pkg/zebra"}, 1)
			c.ruleDeadByteStore("E3.dead-octet", []string{"pkg/packet/bfd", "pkg/packet/bmp", "pkg/packet/mrt", "pkg/packet/rtr", "pkg/zebra"}, 3)
			c.rulePackSerializeSameOptions("E6.pack-serialize-same-options", 2)
			c.ruleInputImmutable("E2c.input", []string{"pkg/packet/mrt", "pkg/packet/bmp", "pkg/packet/rtr", "pkg/packet/bfd", "pkg/zebra"}, 45)
			c.ruleDecodeProduces("E4.decode-produces", []string{"pkg/packet/bmp", "pkg/packet/mrt", "pkg/packet/rtr"}, 20)
			c.ruleSplitters()
			c.ruleGuardOrder("E3.guard-order", []string{"pkg/zebra", "pkg/packet/mrt", "pkg/packet/bmp", "pkg/packet/rtr", "pkg/packet/bfd"}, 3)
			c.ruleMRTRibFamilies()
			c.ruleDecodedFields("E3.decoded-fields", []string{"pkg/packet/mrt", "pkg/packet/bmp", "pkg/packet/rtr"}, 20)
			c.ruleLoopProgress("E5.loop-progress", []string{"pkg/packet/mrt", "pkg/packet/bmp", "pkg/packet/rtr", "pkg/packet/bfd", "pkg/zebra"}, 6)
			c.ruleConstBounds("E5.bounds-ratchet", []string{"pkg/packet/mrt", "pkg/packet/bmp", "pkg/packet/rtr", "pkg/packet/bfd", "pkg/zebra"}, "baselines/bounds.json", 20)
			c.ruleErrorsChecked("E5.errors-checked", []string{"pkg/packet/mrt", "pkg/packet/bmp", "pkg/packet/rtr", "pkg/zebra"}, errorsDiscardedReviewed, 40)
			c.ruleErrorExitRatchet("E5.error-exit-ratchet", []string{"pkg/packet/mrt", "pkg/packet/bmp", "pkg/packet/rtr", "pkg/packet/bfd", "pkg/zebra"}, "baselines/errexits.json", 30)
		},
	})
}

// ruleEmittedLength: framing helpers take the already-serialised value and write the header for it;
// the length they test and write must be that of the value they emit, not a stored Length field.
func (c *Ctx) ruleEmittedLength(rule string, pkgs []string, min int) {
	r := c.R
	r.Rule(rule, "framing helpers (methods that receive the serialised value as a []byte parameter and return the framed bytes): every read of the receiver's stored Length/Len field is tied to the bytes actually emitted — the field was assigned len(value) earlier in the same function, or the function compares it with len(value) and fails on mismatch; otherwise header length/flags can disagree with the body when the value grew after construction or decoding (ADD-PATH ids, edited Value)", min)
	for _, fn := range c.P.FuncsIn(pkgs...) {
		if fn.Parent() != nil || fn.Signature.Recv() == nil || len(fn.Params) < 2 || fn.Blocks == nil {
			continue
		}
		if fn.Name() != "Serialize" && fn.Name() != "serialize" {
			continue
		}
		var value *ssa.Parameter
		for _, p := range fn.Params[1:] {
			if isByteSlice(p.Type()) {
				value = p
			}
		}
		if value == nil {
			continue
		}
		isLenValue := func(v ssa.Value) bool {
			v = stripConv(v)
			call, ok := v.(*ssa.Call)
			if !ok {
				return false
			}
			b, ok := call.Call.Value.(*ssa.Builtin)
			return ok && b.Name() == "len" && call.Call.Args[0] == ssa.Value(value)
		}
		recv := fn.Params[0]
		isLenField := func(addr ssa.Value) (*ssa.FieldAddr, bool) {
			fa, ok := addr.(*ssa.FieldAddr)
			if !ok || fa.X != ssa.Value(recv) {
				return nil, false
			}
			n := ir.FieldOf(fa).Name()
			return fa, n == "Length" || n == "Len"
		}
		var stores []*ssa.Store
		var cmps []*ssa.BinOp
		var loads []*ssa.UnOp
		for _, b := range fn.Blocks {
			for _, in := range b.Instrs {
				switch x := in.(type) {
				case *ssa.Store:
					if _, ok := isLenField(x.Addr); ok && isLenValue(x.Val) {
						stores = append(stores, x)
					}
				case *ssa.UnOp:
					if x.Op == token.MUL {
						if _, ok := isLenField(x.X); ok {
							loads = append(loads, x)
						}
					}
				}
			}
		}
		// derived: the stored length, possibly through +/- constants or a receiver accessor that reads it
		var derived func(v ssa.Value, depth int) bool
		derived = func(v ssa.Value, depth int) bool {
			v = stripConv(v)
			switch x := v.(type) {
			case *ssa.UnOp:
				if x.Op == token.MUL {
					_, ok := isLenField(x.X)
					return ok
				}
			case *ssa.BinOp:
				if _, ok := x.Y.(*ssa.Const); ok && (x.Op == token.ADD || x.Op == token.SUB) {
					return derived(x.X, depth)
				}
			case *ssa.Call:
				callee := x.Call.StaticCallee()
				if callee == nil || depth > 0 || callee.Signature.Recv() == nil || len(x.Call.Args) == 0 || x.Call.Args[0] != ssa.Value(recv) || callee.Blocks == nil {
					return false
				}
				for _, b := range callee.Blocks {
					for _, in := range b.Instrs {
						if fa, ok := in.(*ssa.FieldAddr); ok && fa.X == ssa.Value(callee.Params[0]) {
							if n := ir.FieldOf(fa).Name(); n == "Length" || n == "Len" {
								return true
							}
						}
					}
				}
			}
			return false
		}
		for _, b := range fn.Blocks {
			for _, in := range b.Instrs {
				bo, ok := in.(*ssa.BinOp)
				if !ok || bo.Op != token.NEQ && bo.Op != token.EQL {
					continue
				}
				if derived(bo.X, 0) && isLenValue(bo.Y) || derived(bo.Y, 0) && isLenValue(bo.X) {
					cmps = append(cmps, bo)
				}
			}
		}
		fk := ir.FuncKey(fn)
		if len(loads) == 0 {
			r.Ok(rule, fk, "header from emitted value", c.P.Pos(fn.Pos()), "stored length is not read")
			continue
		}
		bad := ""
		for _, l := range loads {
			tied := false
			for _, st := range stores {
				if dominatesInstr(st, l) {
					tied = true
				}
			}
			for _, cmp := range cmps {
				if stripConv(cmp.X) == ssa.Value(l) || stripConv(cmp.Y) == ssa.Value(l) || cmp.Block().Dominates(l.Block()) {
					tied = true
				}
			}
			if !tied {
				bad = c.P.InstrPos(l)
			}
		}
		if bad == "" {
			r.Ok(rule, fk, "header from emitted value", c.P.Pos(fn.Pos()), fmt.Sprintf("%d stored-length reads, each tied to len(value)", len(loads)))
		} else {
			r.Bad(rule, fk, "header from emitted value", bad, "the stored Length field is read without being tied to len(value): the header (length octets / extended-length flag) is derived from a number that can differ from the bytes emitted")
		}
	}
}
