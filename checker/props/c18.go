package props

import (
	"fmt"
	"go/ast"
	"go/token"
	"go/types"
	"sort"
	"strings"

	"golang.org/x/tools/go/ssa"

	"gbverif/ir"
)

// typeSwitchInfo: one type switch with its tag type, cases and whether its default keeps the value.
type typeSwitchInfo struct {
	Tag              types.Type
	Cases            map[*types.Named]bool
	HasDefault       bool
	DefaultUsesValue bool
	DefaultFails     bool
	Pos              string
}

func (c *Ctx) typeSwitches(fn *ssa.Function) []typeSwitchInfo {
	info := c.infoFor(fn)
	body := funcBody(fn)
	if info == nil || body == nil {
		return nil
	}
	var out []typeSwitchInfo
	ast.Inspect(body, func(n ast.Node) bool {
		ts, ok := n.(*ast.TypeSwitchStmt)
		if !ok {
			return true
		}
		var x ast.Expr
		var bound *ast.Ident
		switch a := ts.Assign.(type) {
		case *ast.AssignStmt:
			x = a.Rhs[0].(*ast.TypeAssertExpr).X
			bound, _ = a.Lhs[0].(*ast.Ident)
		case *ast.ExprStmt:
			x = a.X.(*ast.TypeAssertExpr).X
		}
		if x == nil {
			return true
		}
		ti := typeSwitchInfo{Tag: info.TypeOf(x), Cases: map[*types.Named]bool{}, Pos: c.P.Pos(ts.Pos())}
		for _, st := range ts.Body.List {
			cc := st.(*ast.CaseClause)
			if cc.List == nil {
				ti.HasDefault = true
				// does the default body use the switched value (bound variable or the expression itself)?
				xs := types.ExprString(x)
				ast.Inspect(cc, func(m ast.Node) bool {
					if rs, ok := m.(*ast.ReturnStmt); ok && len(rs.Results) > 0 {
						last := rs.Results[len(rs.Results)-1]
						if id, ok := last.(*ast.Ident); !ok || id.Name != "nil" {
							if tv := info.TypeOf(last); tv != nil && tv.String() == "error" {
								ti.DefaultFails = true
							}
						}
					}
					switch y := m.(type) {
					case *ast.Ident:
						if bound != nil && y.Name == bound.Name && info.Implicits[cc] != nil && info.Uses[y] == info.Implicits[cc] {
							ti.DefaultUsesValue = true
						}
						if y.Name == xs && ast.Expr(y) != x {
							ti.DefaultUsesValue = true
						}
					case ast.Expr:
						if types.ExprString(y) == xs && y != x {
							ti.DefaultUsesValue = true
						}
					}
					return true
				})
				continue
			}
			for _, e := range cc.List {
				if n := ir.NamedOf(info.TypeOf(e)); n != nil {
					ti.Cases[n] = true
				}
			}
		}
		out = append(out, ti)
		return true
	})
	return out
}

// reviewed partial cases: "function|interface|type" -> reason
var apiSwitchExceptions = map[string]string{
	"pkg/apiutil.NewExtendedCommunitiesAttributeFromNative|ExtendedCommunityInterface|IPv6AddressSpecificExtended":         "IPv6-address-specific communities are carried by the IP6 extended-communities attribute, converted by NewIP6ExtendedCommunitiesAttributeFromNative",
	"pkg/apiutil.NewExtendedCommunitiesAttributeFromNative|ExtendedCommunityInterface|RedirectIPv6AddressSpecificExtended": "IPv6-address-specific communities are carried by the IP6 extended-communities attribute",
	"pkg/apiutil.NewExtendedCommunitiesAttributeFromNative|ExtendedCommunityInterface|UnknownIP6Extended":                  "IPv6-address-specific communities are carried by the IP6 extended-communities attribute",
	"pkg/apiutil.NewTunnelEncapAttributeFromNative|TunnelEncapSubTLVInterface|SegmentTypeA":                                "segments live inside the segment-list sub-TLV and are converted by MarshalSRSegments",
	"pkg/apiutil.NewTunnelEncapAttributeFromNative|TunnelEncapSubTLVInterface|SegmentTypeB":                                "segments live inside the segment-list sub-TLV and are converted by MarshalSRSegments",
}

// the native→API converters that must be total over what the decoder can produce
var apiTotalMarshal = map[string]bool{
	"pkg/apiutil.MarshalPathAttributes":                     true,
	"pkg/apiutil.MarshalNLRI":                               true,
	"pkg/apiutil.MarshalCapability":                         true,
	"pkg/apiutil.MarshalFlowSpecRules":                      true,
	"pkg/apiutil.MarshalMUPTLVs":                            true,
	"pkg/apiutil.NewAigpAttributeFromNative":                true,
	"pkg/apiutil.NewExtendedCommunitiesAttributeFromNative": true,
	"pkg/apiutil.NewTunnelEncapAttributeFromNative":         true,
	"pkg/apiutil.MarshalRD":                                 true,
}

func (c *Ctx) ruleAPIMarshalTotal() {
	r := c.R
	rule := "E4.api-marshal"
	r.Rule(rule, "factory ↔ type-switch agreement: in every total native→API converter, each type switch over a BGP codec interface has a case for every concrete type decode-side code converts to that interface (exact universe from MakeInterface instructions), or a default branch that still uses the value", 60)
	bgpPk := c.P.Pkg("pkg/packet/bgp")
	if bgpPk == nil {
		r.Undec(rule, "-", "anchor", "-", "bgp package not found")
		return
	}
	uni := c.decodeInterfaceUniverse("pkg/packet/bgp")
	seenFn := map[string]bool{}
	for _, fn := range c.P.FuncsIn("pkg/apiutil") {
		fk := ir.FuncKey(fn)
		if fn.Parent() != nil || !apiTotalMarshal[fk] {
			continue
		}
		seenFn[fk] = true
		for _, ts := range c.typeSwitches(fn) {
			in, ok := ts.Tag.(*types.Named)
			if !ok || in.Obj().Pkg() != bgpPk.Types {
				continue
			}
			if _, isI := in.Underlying().(*types.Interface); !isI {
				continue
			}
			var names []string
			byName := map[string]*types.Named{}
			for im := range uni[in] {
				names = append(names, im.Obj().Name())
				byName[im.Obj().Name()] = im
			}
			sort.Strings(names)
			for _, nm := range names {
				cons := in.Obj().Name() + ": " + nm
				switch {
				case ts.Cases[byName[nm]]:
					r.Ok(rule, fk, cons, ts.Pos, "has a case")
				case ts.HasDefault && ts.DefaultUsesValue && !ts.DefaultFails:
					r.Ok(rule, fk, cons, ts.Pos, "falls to a default that keeps the value (opaque/unknown carrier)")
				case apiSwitchExceptions[fk+"|"+in.Obj().Name()+"|"+nm] != "":
					r.Except(rule, fk, cons, ts.Pos, apiSwitchExceptions[fk+"|"+in.Obj().Name()+"|"+nm])
				default:
					r.Bad(rule, fk, cons, ts.Pos, fmt.Sprintf("the decoder can produce a %s but this converter has no case for it (default present: %v): the value is dropped or the conversion fails, so a route received from a peer cannot be shown or re-injected through the API", nm, ts.HasDefault))
				}
			}
		}
	}
	for k := range apiTotalMarshal {
		if !seenFn[k] {
			r.Undec(rule, k, "anchor", "-", "converter not found (renamed?)")
		}
	}
}

// ruleAPIUnmarshalTotal: API→native converters cover the sealed oneof wrappers.
func (c *Ctx) ruleAPIUnmarshalTotal() {
	r := c.R
	rule := "E4.api-unmarshal"
	r.Rule(rule, "every type switch in pkg/apiutil over a protobuf oneof (sealed interface of package api) has a case for every wrapper type of that oneof, or a default branch", 60)
	apiPk := c.P.Pkg("api")
	if apiPk == nil {
		r.Undec(rule, "-", "anchor:api", "-", "package not found")
		return
	}
	for _, fn := range c.P.FuncsIn("pkg/apiutil") {
		if fn.Parent() != nil {
			continue
		}
		fk := ir.FuncKey(fn)
		for _, ts := range c.typeSwitches(fn) {
			in, ok := ts.Tag.(*types.Named)
			if !ok || in.Obj().Pkg() != apiPk.Types {
				continue
			}
			it, isI := in.Underlying().(*types.Interface)
			if !isI || it.NumMethods() == 0 {
				continue
			}
			impls := implementers(apiPk.Types, it)
			for _, im := range impls {
				nm := im.Obj().Name()
				cons := in.Obj().Name() + ": " + nm
				if ts.Cases[im] || ts.HasDefault {
					r.Ok(rule, fk, cons, ts.Pos, "covered")
				} else if why := apiSwitchExceptions[fk+"|"+in.Obj().Name()+"|"+nm]; why != "" {
					r.Except(rule, fk, cons, ts.Pos, why)
				} else {
					r.Bad(rule, fk, cons, ts.Pos, "the API accepts this oneof member but the API→native converter has no case (and no default): the value is silently ignored")
				}
			}
		}
	}
}

var _ = strings.Contains

func init() {
	register(&Check{
		ID: "C18",
		Expl: "Decides that no type is dropped by a conversion direction: (E4.api-marshal) every total native→API converter has a case (or a value-preserving default) for every concrete type the decoders can put into the interface it switches on — the universe is exact, taken from the MakeInterface instructions of decode-side code; (E4.api-unmarshal) every API→native type switch over a protobuf oneof covers all wrapper types of that oneof; " +
			"(E4.decode-produces) conversely, every native type has a decoder row; (E3.config-api-symmetry) every neighbour / peer-group / global configuration field the API→config converters accept is written back by the config→API converters; (E3.statement-provenance) the listed conditions of a policy statement are computed from its conditions and the listed actions from its actions. Also: (E2.loop-carried-struct) a struct copied into a collection per loop element is declared or wholly overwritten inside the iteration. (E4.case-ratchet) against a committed baseline, no switch of the code this property is anchored in has lost a named case. (E6.call-ratchet) against a committed baseline, no function of that code has stopped calling (directly or through helpers) a non-trivial callee it called on the reviewed tree.",
		Not: "That each value is converted correctly (field by field, byte for byte) and that API→native→API is the identity are value-level and not decided.",
		Run: func(c *Ctx) {
			c.ruleRatchets("C18")
			c.ruleFlagRecomposition("E3.flag-recomposition", []string{"pkg/apiutil", "pkg/server", "pkg/config/oc"}, 2)
			c.ruleAPIMarshalTotal()
			c.ruleAPIUnmarshalTotal()
			c.ruleDecodeProduces("E4.decode-produces", []string{"pkg/packet/bgp"}, 150)
			c.ruleConfigAPISymmetry()
			c.ruleStatementProvenance()
			c.ruleCaseRatchet("E4.case-ratchet", []string{"pkg/apiutil", "pkg/config/oc", "pkg/server"}, func(f string) bool {
				return !strings.Contains(f, "pkg/server/") || strings.HasSuffix(f, "grpc_server.go")
			}, "baselines/switches.json", 50)
			c.ruleLoopCarriedStruct("E2.loop-carried-struct", []string{"pkg/server", "pkg/config/oc", "pkg/apiutil"}, 5)
		},
	})
}

// ruleConfigAPISymmetry: what the API→config converter accepts, the config→API converter reports.
func (c *Ctx) ruleConfigAPISymmetry() {
	r := c.R
	rule := "E3.config-api-symmetry"
	r.Rule(rule, "for neighbour, peer-group and global configuration: every field of an API message that the API→config converter reads (directly or through a getter, including its helpers) is written by the config→API converter of the same object; a field that is accepted but never reported back cannot convert 'to the native form and back to an equal API value'", 250)
	pairs := [][2]string{
		{"pkg/config/oc.NewPeerFromConfigStruct", "pkg/server.newNeighborFromAPIStruct"},
		{"pkg/config/oc.NewPeerGroupFromConfigStruct", "pkg/server.newPeerGroupFromAPIStruct"},
		{"pkg/config/oc.NewGlobalFromConfigStruct", "pkg/server.newGlobalFromAPIStruct"},
		{"internal/pkg/table.toStatementApi", "pkg/server.newStatementFromApiStruct"},
		{"pkg/server.toStatementApi", "pkg/server.newStatementFromApiStruct"},
		{"internal/pkg/table.ToPolicyApi", "pkg/server.newPolicyFromApiStruct"},
		{"pkg/config/oc.NewAPIDefinedSetsFromConfigStruct", "pkg/server.newConfigDefinedSetsFromApiStruct"},
	}
	apiPkg := c.P.Pkg("api")
	if apiPkg == nil {
		r.Undec(rule, "-", "anchor:api", "-", "package not found")
		return
	}
	fieldsOf := func(root *ssa.Function, write bool) map[string]bool {
		out := map[string]bool{}
		seen := map[*ssa.Function]bool{}
		var walk func(f *ssa.Function, d int)
		walk = func(f *ssa.Function, d int) {
			if f == nil || seen[f] || d > 5 || f.Blocks == nil {
				return
			}
			seen[f] = true
			for _, an := range f.AnonFuncs {
				walk(an, d)
			}
			for _, b := range f.Blocks {
				for _, in := range b.Instrs {
					switch x := in.(type) {
					case *ssa.FieldAddr:
						n := ir.NamedOf(ir.Deref(x.X.Type()))
						if n == nil || n.Obj().Pkg() != apiPkg.Types {
							continue
						}
						fv := fieldVarOf(x)
						if !fv.Exported() {
							continue
						}
						isStore := false
						for _, ref := range *x.Referrers() {
							if st, ok := ref.(*ssa.Store); ok && st.Addr == ssa.Value(x) {
								isStore = true
							}
						}
						if isStore == write {
							out[n.Obj().Name()+"."+fv.Name()] = true
						}
					case ssa.CallInstruction:
						cal := x.Common().StaticCallee()
						if cal == nil {
							continue
						}
						if !write && cal.Signature.Recv() != nil && strings.HasPrefix(cal.Name(), "Get") {
							if n := ir.NamedOf(cal.Signature.Recv().Type()); n != nil && n.Obj().Pkg() == apiPkg.Types {
								out[n.Obj().Name()+"."+strings.TrimPrefix(cal.Name(), "Get")] = true
								continue
							}
						}
						if c.P.InModule(cal) && cal.Pkg != nil && cal.Pkg.Pkg != apiPkg.Types {
							walk(cal, d+1)
						}
					}
				}
			}
		}
		walk(root, 0)
		return out
	}
	for _, pr := range pairs {
		wf, rf := c.P.Func(pr[0]), c.P.Func(pr[1])
		if wf == nil || rf == nil {
			r.Undec(rule, pr[1], "anchor", "-", "converter not found")
			continue
		}
		w := fieldsOf(wf, true)
		rd := fieldsOf(rf, false)
		var keys []string
		for k := range rd {
			keys = append(keys, k)
		}
		sort.Strings(keys)
		for _, k := range keys {
			if w[k] {
				r.Ok(rule, ir.FuncKey(rf), "accepts "+k, c.P.Pos(rf.Pos()), "reported back by "+wf.Name())
			} else {
				r.Bad(rule, ir.FuncKey(rf), "accepts "+k, c.P.Pos(rf.Pos()), "the field is accepted from the API and stored in the configuration, but "+wf.Name()+" never writes it: listing the object back reports the zero value")
			}
		}
	}
}

// ruleStatementProvenance: the API view of a statement's conditions is computed from its conditions, of its actions from its actions.
func (c *Ctx) ruleStatementProvenance() {
	r := c.R
	rule := "E3.statement-provenance"
	r.Rule(rule, "in every config→API statement converter (functions named toStatementApi): each value stored into a field of api.Conditions — and every branch condition that selects it — reads the statement's Conditions and never its Actions, and symmetrically for api.Actions; a condition reported from an action's setting is a different policy from the one that was configured", 4)
	for _, fn := range c.P.Funcs {
		if fn.Parent() != nil || fn.Name() != "toStatementApi" || fn.Blocks == nil {
			continue
		}
		info := c.infoFor(fn)
		body := funcBody(fn)
		if info == nil || body == nil {
			continue
		}
		fk := ir.FuncKey(fn)
		// mentions: does the expression read <statement>.Conditions / <statement>.Actions ?
		mentions := func(n ast.Node, which string) bool {
			found := false
			if n == nil {
				return false
			}
			ast.Inspect(n, func(x ast.Node) bool {
				if se, ok := x.(*ast.SelectorExpr); ok && se.Sel.Name == which {
					if t := info.TypeOf(se.X); t != nil {
						if nt := ir.NamedOf(ir.Deref(t)); nt != nil && nt.Obj().Name() == "Statement" {
							found = true
						}
					}
				}
				return !found
			})
			return found
		}
		apiKind := func(t types.Type) string {
			nt := ir.NamedOf(ir.Deref(t))
			if nt == nil || nt.Obj().Pkg() == nil || !strings.HasSuffix(nt.Obj().Pkg().Path(), "/api") {
				return ""
			}
			switch nt.Obj().Name() {
			case "Conditions":
				return "Conditions"
			case "Actions":
				return "Actions"
			}
			return ""
		}
		other := map[string]string{"Conditions": "Actions", "Actions": "Conditions"}
		count := map[string]int{}
		var visit func(n ast.Node, conds []ast.Expr)
		check := func(kind, field string, pos token.Pos, value ast.Node, conds []ast.Expr) {
			count[kind]++
			bad := mentions(value, other[kind])
			for _, cnd := range conds {
				if mentions(cnd, other[kind]) {
					bad = true
				}
			}
			cons := "api." + kind + "." + field
			if bad {
				r.Bad(rule, fk, cons, c.P.Pos(pos), "the value reported for this "+strings.ToLower(kind[:len(kind)-1])+" field is computed or selected from the statement's "+other[kind]+": the listed policy differs from the configured one")
			} else {
				r.Ok(rule, fk, cons, c.P.Pos(pos), "derived from the statement's "+kind)
			}
		}
		visit = func(n ast.Node, conds []ast.Expr) {
			switch s := n.(type) {
			case nil:
				return
			case *ast.BlockStmt:
				for _, st := range s.List {
					visit(st, conds)
				}
			case *ast.IfStmt:
				visit(s.Body, append(append([]ast.Expr{}, conds...), s.Cond))
				if s.Else != nil {
					visit(s.Else, append(append([]ast.Expr{}, conds...), s.Cond))
				}
			case *ast.SwitchStmt:
				cs := conds
				if s.Tag != nil {
					cs = append(append([]ast.Expr{}, conds...), s.Tag)
				}
				for _, cc := range s.Body.List {
					for _, st := range cc.(*ast.CaseClause).Body {
						visit(st, cs)
					}
				}
			case *ast.ForStmt:
				visit(s.Body, conds)
			case *ast.RangeStmt:
				visit(s.Body, conds)
			case *ast.AssignStmt:
				for i, lhs := range s.Lhs {
					if se, ok := lhs.(*ast.SelectorExpr); ok {
						if k := apiKind(info.TypeOf(se.X)); k != "" && i < len(s.Rhs) {
							check(k, se.Sel.Name, s.Pos(), s.Rhs[i], conds)
						}
					}
				}
				for _, rhs := range s.Rhs {
					visitExpr(rhs, conds, info, apiKind, check)
				}
			case *ast.ReturnStmt:
				for _, e := range s.Results {
					visitExpr(e, conds, info, apiKind, check)
				}
			case *ast.ExprStmt:
				visitExpr(s.X, conds, info, apiKind, check)
			case *ast.DeclStmt:
				ast.Inspect(s, func(x ast.Node) bool {
					if e, ok := x.(ast.Expr); ok {
						visitExpr(e, conds, info, apiKind, check)
						return false
					}
					return true
				})
			}
		}
		visit(body, nil)
		if count["Conditions"] == 0 || count["Actions"] == 0 {
			r.Bad(rule, fk, "converter shape", c.P.Pos(fn.Pos()), "no assignment to api.Conditions / api.Actions fields found")
		}
	}
}

// visitExpr finds composite literals of api.Conditions / api.Actions inside an expression and checks each keyed field.
func visitExpr(e ast.Expr, conds []ast.Expr, info *types.Info, apiKind func(types.Type) string, check func(kind, field string, pos token.Pos, value ast.Node, conds []ast.Expr)) {
	ast.Inspect(e, func(x ast.Node) bool {
		cl, ok := x.(*ast.CompositeLit)
		if !ok {
			return true
		}
		k := apiKind(info.TypeOf(cl))
		if k == "" {
			return true
		}
		for _, el := range cl.Elts {
			if kv, ok := el.(*ast.KeyValueExpr); ok {
				if id, ok := kv.Key.(*ast.Ident); ok {
					check(k, id.Name, kv.Pos(), kv.Value, conds)
				}
			}
		}
		return false
	})
}
