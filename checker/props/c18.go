package props

import (
	"fmt"
	"go/ast"
	"go/types"
	"sort"
	"strings"

	"golang.org/x/tools/go/ssa"

	"gbverif/ir"
)

// typeSwitchInfo: one type switch with its tag type, cases and whether its default keeps the value.
type typeSwitchInfo struct {
	Tag        types.Type
	Cases      map[*types.Named]bool
	HasDefault bool
	DefaultUsesValue bool
	DefaultFails     bool
	Pos        string
}

func (c *Ctx) typeSwitches(fn *ssa.Function) []typeSwitchInfo {
	info := c.infoFor(fn)
	body := funcBody(fn)
	if info == nil || body == nil {
		return nil
	}
	var out []typeSwitchInfo
	ast.Inspect(body, func(n ast.Node) bool {
		ts, ok := n.(*ast.TypeSwitchStmt)
		if !ok {
			return true
		}
		var x ast.Expr
		var bound *ast.Ident
		switch a := ts.Assign.(type) {
		case *ast.AssignStmt:
			x = a.Rhs[0].(*ast.TypeAssertExpr).X
			bound, _ = a.Lhs[0].(*ast.Ident)
		case *ast.ExprStmt:
			x = a.X.(*ast.TypeAssertExpr).X
		}
		if x == nil {
			return true
		}
		ti := typeSwitchInfo{Tag: info.TypeOf(x), Cases: map[*types.Named]bool{}, Pos: c.P.Pos(ts.Pos())}
		for _, st := range ts.Body.List {
			cc := st.(*ast.CaseClause)
			if cc.List == nil {
				ti.HasDefault = true
				// does the default body use the switched value (bound variable or the expression itself)?
				xs := types.ExprString(x)
				ast.Inspect(cc, func(m ast.Node) bool {
					if rs, ok := m.(*ast.ReturnStmt); ok && len(rs.Results) > 0 {
						last := rs.Results[len(rs.Results)-1]
						if id, ok := last.(*ast.Ident); !ok || id.Name != "nil" {
							if tv := info.TypeOf(last); tv != nil && tv.String() == "error" {
								ti.DefaultFails = true
							}
						}
					}
					switch y := m.(type) {
					case *ast.Ident:
						if bound != nil && y.Name == bound.Name && info.Implicits[cc] != nil && info.Uses[y] == info.Implicits[cc] {
							ti.DefaultUsesValue = true
						}
						if y.Name == xs && ast.Expr(y) != x {
							ti.DefaultUsesValue = true
						}
					case ast.Expr:
						if types.ExprString(y) == xs && y != x {
							ti.DefaultUsesValue = true
						}
					}
					return true
				})
				continue
			}
			for _, e := range cc.List {
				if n := ir.NamedOf(info.TypeOf(e)); n != nil {
					ti.Cases[n] = true
				}
			}
		}
		out = append(out, ti)
		return true
	})
	return out
}

// reviewed partial cases: "function|interface|type" -> reason
var apiSwitchExceptions = map[string]string{
	"pkg/apiutil.NewExtendedCommunitiesAttributeFromNative|ExtendedCommunityInterface|IPv6AddressSpecificExtended":         "IPv6-address-specific communities are carried by the IP6 extended-communities attribute, converted by NewIP6ExtendedCommunitiesAttributeFromNative",
	"pkg/apiutil.NewExtendedCommunitiesAttributeFromNative|ExtendedCommunityInterface|RedirectIPv6AddressSpecificExtended": "IPv6-address-specific communities are carried by the IP6 extended-communities attribute",
	"pkg/apiutil.NewExtendedCommunitiesAttributeFromNative|ExtendedCommunityInterface|UnknownIP6Extended":                  "IPv6-address-specific communities are carried by the IP6 extended-communities attribute",
	"pkg/apiutil.NewTunnelEncapAttributeFromNative|TunnelEncapSubTLVInterface|SegmentTypeA":                                "segments live inside the segment-list sub-TLV and are converted by MarshalSRSegments",
	"pkg/apiutil.NewTunnelEncapAttributeFromNative|TunnelEncapSubTLVInterface|SegmentTypeB":                                "segments live inside the segment-list sub-TLV and are converted by MarshalSRSegments",
}

// the native→API converters that must be total over what the decoder can produce
var apiTotalMarshal = map[string]bool{
	"pkg/apiutil.MarshalPathAttributes":                     true,
	"pkg/apiutil.MarshalNLRI":                               true,
	"pkg/apiutil.MarshalCapability":                         true,
	"pkg/apiutil.MarshalFlowSpecRules":                      true,
	"pkg/apiutil.MarshalMUPTLVs":                            true,
	"pkg/apiutil.NewAigpAttributeFromNative":                true,
	"pkg/apiutil.NewExtendedCommunitiesAttributeFromNative": true,
	"pkg/apiutil.NewTunnelEncapAttributeFromNative":         true,
	"pkg/apiutil.MarshalRD":                                 true,
}

func (c *Ctx) ruleAPIMarshalTotal() {
	r := c.R
	rule := "E4.api-marshal"
	r.Rule(rule, "factory ↔ type-switch agreement: in every total native→API converter, each type switch over a BGP codec interface has a case for every concrete type decode-side code converts to that interface (exact universe from MakeInterface instructions), or a default branch that still uses the value", 60)
	bgpPk := c.P.Pkg("pkg/packet/bgp")
	if bgpPk == nil {
		r.Undec(rule, "-", "anchor", "-", "bgp package not found")
		return
	}
	uni := c.decodeInterfaceUniverse("pkg/packet/bgp")
	seenFn := map[string]bool{}
	for _, fn := range c.P.FuncsIn("pkg/apiutil") {
		fk := ir.FuncKey(fn)
		if fn.Parent() != nil || !apiTotalMarshal[fk] {
			continue
		}
		seenFn[fk] = true
		for _, ts := range c.typeSwitches(fn) {
			in, ok := ts.Tag.(*types.Named)
			if !ok || in.Obj().Pkg() != bgpPk.Types {
				continue
			}
			if _, isI := in.Underlying().(*types.Interface); !isI {
				continue
			}
			var names []string
			byName := map[string]*types.Named{}
			for im := range uni[in] {
				names = append(names, im.Obj().Name())
				byName[im.Obj().Name()] = im
			}
			sort.Strings(names)
			for _, nm := range names {
				cons := in.Obj().Name() + ": " + nm
				switch {
				case ts.Cases[byName[nm]]:
					r.Ok(rule, fk, cons, ts.Pos, "has a case")
				case ts.HasDefault && ts.DefaultUsesValue && !ts.DefaultFails:
					r.Ok(rule, fk, cons, ts.Pos, "falls to a default that keeps the value (opaque/unknown carrier)")
				case apiSwitchExceptions[fk+"|"+in.Obj().Name()+"|"+nm] != "":
					r.Except(rule, fk, cons, ts.Pos, apiSwitchExceptions[fk+"|"+in.Obj().Name()+"|"+nm])
				default:
					r.Bad(rule, fk, cons, ts.Pos, fmt.Sprintf("the decoder can produce a %s but this converter has no case for it (default present: %v): the value is dropped or the conversion fails, so a route received from a peer cannot be shown or re-injected through the API", nm, ts.HasDefault))
				}
			}
		}
	}
	for k := range apiTotalMarshal {
		if !seenFn[k] {
			r.Undec(rule, k, "anchor", "-", "converter not found (renamed?)")
		}
	}
}

// ruleAPIUnmarshalTotal: API→native converters cover the sealed oneof wrappers.
func (c *Ctx) ruleAPIUnmarshalTotal() {
	r := c.R
	rule := "E4.api-unmarshal"
	r.Rule(rule, "every type switch in pkg/apiutil over a protobuf oneof (sealed interface of package api) has a case for every wrapper type of that oneof, or a default branch", 60)
	apiPk := c.P.Pkg("api")
	if apiPk == nil {
		r.Undec(rule, "-", "anchor:api", "-", "package not found")
		return
	}
	for _, fn := range c.P.FuncsIn("pkg/apiutil") {
		if fn.Parent() != nil {
			continue
		}
		fk := ir.FuncKey(fn)
		for _, ts := range c.typeSwitches(fn) {
			in, ok := ts.Tag.(*types.Named)
			if !ok || in.Obj().Pkg() != apiPk.Types {
				continue
			}
			it, isI := in.Underlying().(*types.Interface)
			if !isI || it.NumMethods() == 0 {
				continue
			}
			impls := implementers(apiPk.Types, it)
			for _, im := range impls {
				nm := im.Obj().Name()
				cons := in.Obj().Name() + ": " + nm
				if ts.Cases[im] || ts.HasDefault {
					r.Ok(rule, fk, cons, ts.Pos, "covered")
				} else if why := apiSwitchExceptions[fk+"|"+in.Obj().Name()+"|"+nm]; why != "" {
					r.Except(rule, fk, cons, ts.Pos, why)
				} else {
					r.Bad(rule, fk, cons, ts.Pos, "the API accepts this oneof member but the API→native converter has no case (and no default): the value is silently ignored")
				}
			}
		}
	}
}

var _ = strings.Contains

func init() {
	register(&Check{
		ID: "C18",
		Expl: "Decides that no type is dropped by a conversion direction: (E4.api-marshal) every total native→API converter has a case (or a value-preserving default) for every concrete type the decoders can put into the interface it switches on — the universe is exact, taken from the MakeInterface instructions of decode-side code; (E4.api-unmarshal) every API→native type switch over a protobuf oneof covers all wrapper types of that oneof; " +
			"(E4.decode-produces) conversely, every native type has a decoder row.",
		Not: "That each value is converted correctly (field by field, byte for byte) and that API→native→API is the identity are value-level and not decided.",
		Run: func(c *Ctx) {
			c.ruleAPIMarshalTotal()
			c.ruleAPIUnmarshalTotal()
			c.ruleDecodeProduces("E4.decode-produces", []string{"pkg/packet/bgp"}, 200)
		},
	})
}
