package props

import (
	"fmt"
	"go/constant"
	"go/token"
	"go/types"

	"golang.org/x/tools/go/ssa"

	"gbverif/ir"
)

// loopVarsOf: header phis that the loop's continuation condition tests (directly or through len()).
func condPhis(cond ssa.Value, header *ssa.BasicBlock, depth int, out map[*ssa.Phi]bool) {
	if depth > 6 {
		return
	}
	switch x := cond.(type) {
	case *ssa.Phi:
		if x.Block() == header {
			out[x] = true
		}
	case *ssa.BinOp:
		condPhis(x.X, header, depth+1, out)
		condPhis(x.Y, header, depth+1, out)
	case *ssa.UnOp:
		condPhis(x.X, header, depth+1, out)
	case *ssa.Convert:
		condPhis(x.X, header, depth+1, out)
	case *ssa.Call:
		if b, ok := x.Call.Value.(*ssa.Builtin); ok && b.Name() == "len" {
			condPhis(x.Call.Args[0], header, depth+1, out)
		}
	}
}

// mayBeUnchanged: can v be the very value of phi (no progress)?
func mayBeUnchanged(v ssa.Value, phi *ssa.Phi, seen map[ssa.Value]bool) bool {
	if v == ssa.Value(phi) {
		return true
	}
	if seen[v] {
		return false
	}
	seen[v] = true
	switch x := v.(type) {
	case *ssa.Phi:
		for _, e := range x.Edges {
			if mayBeUnchanged(e, phi, seen) {
				return true
			}
		}
	case *ssa.Slice:
		lowZero := x.Low == nil
		if k, ok := x.Low.(*ssa.Const); ok && k.Value != nil && k.Value.Kind() == constant.Int && constant.Sign(k.Value) == 0 {
			lowZero = true
		}
		if lowZero {
			return mayBeUnchanged(x.X, phi, seen)
		}
	case *ssa.BinOp:
		// i + 0 / i - 0
		if k, ok := x.Y.(*ssa.Const); ok && (x.Op == token.ADD || x.Op == token.SUB) && k.Value != nil && k.Value.Kind() == constant.Int && constant.Sign(k.Value) == 0 {
			return mayBeUnchanged(x.X, phi, seen)
		}
	}
	return false
}

// ruleLoopProgress: decode loops advance on every iteration.
func (c *Ctx) ruleLoopProgress(rule string, pkgs []string, min int) {
	r := c.R
	r.Rule(rule, "termination of decode loops: in every function that takes wire bytes, for every loop whose continuation test depends on exactly one loop variable (a remaining-bytes slice through len(), or a position/count), no path around the loop can carry that variable back to the loop head unchanged (x, x[:n], x[0:] or i+0 on a back edge): an iteration that does not consume input repeats forever", min)
	for _, short := range pkgs {
		for _, fn := range c.P.FuncsIn(short) {
			if fn.Blocks == nil {
				continue
			}
			decode := false
			for _, p := range ir.Outer(fn).Params {
				if isByteSlice(p.Type()) {
					decode = true
				}
			}
			if !decode {
				continue
			}
			n := 0
			for _, h := range fn.Blocks {
				// loop header: has a back edge (a predecessor it dominates)
				var back []*ssa.BasicBlock
				for _, p := range h.Preds {
					if h.Dominates(p) {
						back = append(back, p)
					}
				}
				if len(back) == 0 {
					continue
				}
				// the continuation condition: the If of the header, or of the first block after it
				var iff *ssa.If
				if i, ok := h.Instrs[len(h.Instrs)-1].(*ssa.If); ok {
					iff = i
				}
				if iff == nil {
					continue // unconditional loops (for {}) exit by return/break; not judged
				}
				phis := map[*ssa.Phi]bool{}
				condPhis(iff.Cond, h, 0, phis)
				if len(phis) != 1 {
					continue
				}
				var phi *ssa.Phi
				for p := range phis {
					phi = p
				}
				if phi.Comment == "rangeindex" || phi.Comment == "rangeint" {
					continue
				}
				switch phi.Type().Underlying().(type) {
				case *types.Slice, *types.Basic:
				default:
					continue
				}
				n++
				stuck := ""
				for i, e := range phi.Edges {
					pred := h.Preds[i]
					if !h.Dominates(pred) {
						continue // loop entry
					}
					if mayBeUnchanged(e, phi, map[ssa.Value]bool{}) {
						stuck = c.P.InstrPos(pred.Instrs[len(pred.Instrs)-1])
					}
				}
				fk := ir.OuterKey(fn)
				cons := fmt.Sprintf("loop #%d on %s", n, phi.Type().String())
				pos := c.P.InstrPos(iff)
				if stuck == "" {
					r.Ok(rule, fk, cons, pos, "every back edge changes the loop variable")
				} else {
					r.Bad(rule, fk, cons, pos, "a path through the loop body returns to the loop head with the loop variable unchanged (back edge at "+stuck+"): on such input the decoder never terminates")
				}
			}
		}
	}
}
