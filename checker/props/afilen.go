package props

import (
	"fmt"
	"go/constant"
	"go/token"
	"go/types"
	"sort"

	"golang.org/x/tools/go/ssa"

	"gbverif/ir"
)

// evalConst evaluates v as a function of the values bound in env: constants, conversions, integer and comparison
// operators, and calls of single-block module functions (accessors such as Family.Afi). ok=false when v depends on anything else.
func evalConst(v ssa.Value, env map[ssa.Value]uint64, depth int) (uint64, bool) {
	if depth > 8 {
		return 0, false
	}
	if k, ok := env[v]; ok {
		return k, true
	}
	trunc := func(x uint64, t types.Type) uint64 {
		if m, ok := uintMax(t); ok {
			return x & m
		}
		return x
	}
	b2u := func(b bool) uint64 {
		if b {
			return 1
		}
		return 0
	}
	switch x := v.(type) {
	case *ssa.Const:
		if x.Value == nil {
			return 0, false
		}
		switch x.Value.Kind() {
		case constant.Int:
			u, ok := constant.Uint64Val(x.Value)
			return u, ok
		case constant.Bool:
			return b2u(constant.BoolVal(x.Value)), true
		}
		return 0, false
	case *ssa.Convert:
		a, ok := evalConst(x.X, env, depth+1)
		if !ok || !isIntType(x.Type()) {
			return 0, false
		}
		return trunc(a, x.Type()), true
	case *ssa.ChangeType:
		return evalConst(x.X, env, depth+1)
	case *ssa.UnOp:
		if x.Op == token.NOT {
			a, ok := evalConst(x.X, env, depth+1)
			return 1 - a&1, ok
		}
		return 0, false
	case *ssa.BinOp:
		a, ok1 := evalConst(x.X, env, depth+1)
		b, ok2 := evalConst(x.Y, env, depth+1)
		if !ok1 || !ok2 {
			return 0, false
		}
		switch x.Op {
		case token.SHR:
			if b > 63 {
				return 0, true
			}
			return a >> b, true
		case token.SHL:
			if b > 63 {
				return 0, true
			}
			return trunc(a<<b, x.Type()), true
		case token.AND:
			return a & b, true
		case token.OR:
			return a | b, true
		case token.ADD:
			return trunc(a+b, x.Type()), true
		case token.EQL:
			return b2u(a == b), true
		case token.NEQ:
			return b2u(a != b), true
		case token.LSS:
			return b2u(a < b), true
		case token.LEQ:
			return b2u(a <= b), true
		case token.GTR:
			return b2u(a > b), true
		case token.GEQ:
			return b2u(a >= b), true
		}
		return 0, false
	case *ssa.Call:
		cal := x.Call.StaticCallee()
		if cal == nil || len(cal.Blocks) != 1 || x.Call.IsInvoke() {
			return 0, false
		}
		ret, ok := cal.Blocks[0].Instrs[len(cal.Blocks[0].Instrs)-1].(*ssa.Return)
		if !ok || len(ret.Results) != 1 || len(cal.Params) != len(x.Call.Args) {
			return 0, false
		}
		env2 := map[ssa.Value]uint64{}
		for i, p := range cal.Params {
			a, ok := evalConst(x.Call.Args[i], env, depth+1)
			if !ok {
				return 0, false
			}
			env2[p] = a
		}
		return evalConst(ret.Results[0], env2, depth+1)
	}
	return 0, false
}

// switchCandidates: the constants K for which control reaches block at only over the true edge of a test V == K
// (the members of the case list `case A, B, C:` whose body holds at); nil when at is not inside such a case.
func switchCandidates(at *ssa.BasicBlock) (ssa.Value, []uint64) {
	for s := at; s != nil; s = s.Idom() {
		if len(s.Preds) == 0 {
			continue
		}
		var root ssa.Value
		var ks []uint64
		good := true
		for _, p := range s.Preds {
			iff, ok := p.Instrs[len(p.Instrs)-1].(*ssa.If)
			if !ok || p.Succs[0] != s || p.Succs[1] == s {
				good = false
				break
			}
			bo, ok := iff.Cond.(*ssa.BinOp)
			if !ok || bo.Op != token.EQL {
				good = false
				break
			}
			k, ok := bo.Y.(*ssa.Const)
			if !ok || k.Value == nil || k.Value.Kind() != constant.Int {
				good = false
				break
			}
			if root == nil {
				root = bo.X
			} else if root != bo.X {
				good = false
				break
			}
			u, ok := constant.Uint64Val(k.Value)
			if !ok {
				good = false
				break
			}
			ks = append(ks, u)
		}
		if good && root != nil && len(ks) > 0 {
			return root, ks
		}
	}
	return nil, nil
}

// afiAccessor: a parameterless method of t that returns the upper 16 bits of the value (verified by evaluation).
func (c *Ctx) afiAccessor(t types.Type) *ssa.Function {
	ms := c.P.SSA.MethodSets.MethodSet(t)
	for i := 0; i < ms.Len(); i++ {
		fn := c.P.SSA.MethodValue(ms.At(i))
		if fn == nil || len(fn.Blocks) != 1 || len(fn.Params) != 1 || fn.Signature.Results().Len() != 1 {
			continue
		}
		ret, ok := fn.Blocks[0].Instrs[len(fn.Blocks[0].Instrs)-1].(*ssa.Return)
		if !ok || len(ret.Results) != 1 {
			continue
		}
		a, ok1 := evalConst(ret.Results[0], map[ssa.Value]uint64{fn.Params[0]: 0x00020080}, 0)
		b, ok2 := evalConst(ret.Results[0], map[ssa.Value]uint64{fn.Params[0]: 0x40040047}, 0)
		if ok1 && ok2 && a == 2 && b == 0x4004 {
			return fn
		}
	}
	return nil
}

// ruleAfiAddrLen: inside a case that lists several address families, the address length follows the family's AFI.
func (c *Ctx) ruleAfiAddrLen(rule string, min int) {
	r := c.R
	r.Rule(rule, "address length by AFI: in the wire codec, wherever a value is chosen between the constants 4 and 16 (the IPv4 and IPv6 address lengths) by a test that depends only on the address family being dispatched on, inside a case that lists the families explicitly, the choice is evaluated for every listed family constant (the test is constant-folded through the family's accessor methods): it must be 16 exactly for the families whose AFI — read through the accessor the tree itself defines, found by evaluation, not by name — is 2, and 4 for AFI 1. A family for which the decoder assumes the other address length cannot parse what the encoder, which goes by the prefix itself, emits for it", min)
	for _, fn := range c.P.FuncsIn("pkg/packet/bgp") {
		if fn.Blocks == nil {
			continue
		}
		n := 0
		for _, b := range fn.Blocks {
			for _, in := range b.Instrs {
				phi, ok := in.(*ssa.Phi)
				if !ok || len(phi.Edges) != 2 || len(b.Preds) != 2 {
					continue
				}
				vals := [2]uint64{}
				good := true
				for i, e := range phi.Edges {
					k, ok := e.(*ssa.Const)
					if !ok || k.Value == nil || k.Value.Kind() != constant.Int || !isIntType(k.Type()) {
						good = false
						break
					}
					vals[i], _ = constant.Uint64Val(k.Value)
				}
				if !good || !(vals[0] == 4 && vals[1] == 16 || vals[0] == 16 && vals[1] == 4) {
					continue
				}
				x := b.Idom()
				if x == nil || len(x.Instrs) == 0 {
					continue
				}
				iff, ok := x.Instrs[len(x.Instrs)-1].(*ssa.If)
				if !ok {
					continue
				}
				// which constant goes with the true outcome
				onTrue, found := uint64(0), false
				for i, p := range b.Preds {
					viaTrue := (p == x && x.Succs[0] == b && x.Succs[1] != b) || (p != x && len(x.Succs[0].Preds) == 1 && (x.Succs[0] == p || x.Succs[0].Dominates(p)))
					viaFalse := (p == x && x.Succs[1] == b && x.Succs[0] != b) || (p != x && len(x.Succs[1].Preds) == 1 && (x.Succs[1] == p || x.Succs[1].Dominates(p)))
					if viaTrue && !viaFalse {
						onTrue, found = vals[i], true
					}
				}
				if !found {
					continue
				}
				root, ks := switchCandidates(x)
				if root == nil {
					continue
				}
				acc := c.afiAccessor(root.Type())
				n++
				fk := ir.OuterKey(fn)
				cons := fmt.Sprintf("choice of 4/16 #%d over %d listed families", n, len(ks))
				if acc == nil {
					r.Undec(rule, fk, cons, c.P.InstrPos(phi), "the dispatched type has no accessor returning its upper 16 bits (the AFI): premise of the rule not found in the tree")
					continue
				}
				sort.Slice(ks, func(i, j int) bool { return ks[i] < ks[j] })
				var bad []string
				decided := 0
				for _, k := range ks {
					cv, ok := evalConst(iff.Cond, map[ssa.Value]uint64{root: k}, 0)
					if !ok {
						decided = -1
						break
					}
					chosen := onTrue
					if cv == 0 {
						chosen = 20 - onTrue
					}
					afi := k >> 16
					want := uint64(0)
					switch afi {
					case 1:
						want = 4
					case 2:
						want = 16
					default:
						continue
					}
					decided++
					if chosen != want {
						bad = append(bad, fmt.Sprintf("family %#x (AFI %d): %d chosen, %d expected", k, afi, chosen, want))
					}
				}
				switch {
				case decided < 0:
					r.Ok(rule, fk, cons, c.P.InstrPos(phi), "the test depends on more than the dispatched family: not decided")
				case len(bad) > 0:
					r.Bad(rule, fk, cons, c.P.InstrPos(phi), "the address length does not follow the AFI of every listed family — "+fmt.Sprint(bad))
				default:
					r.Ok(rule, fk, cons, c.P.InstrPos(phi), fmt.Sprintf("the choice follows the AFI for all %d listed IPv4/IPv6 families", decided))
				}
			}
		}
	}
}
