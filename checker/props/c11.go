package props

import (
	"fmt"
	"go/types"
	"strings"

	"golang.org/x/tools/go/ssa"

	"gbverif/ir"
)

// ruleCageReuse: routes share an UPDATE only after a byte comparison of their attribute sets (and next-hop key).
func (c *Ctx) ruleCageReuse() {
	r := c.R
	rule := "E6.cage-reuse"
	r.Rule(rule, "in both packers a route joins an existing cage (shares a message) only on the true edge of bytes.Equal(cage.attrsBytes, candidate bytes), and for MP families also of cage.nhKey == candidate key; the hash only selects the bucket", 2)
	n := 0
	for _, fn := range c.P.FuncsIn("internal/pkg/table") {
		for _, b := range fn.Blocks {
			for _, in := range b.Instrs {
				st, ok := in.(*ssa.Store)
				if !ok {
					continue
				}
				fa, ok := st.Addr.(*ssa.FieldAddr)
				if !ok || ir.FieldOf(fa).Name() != "paths" {
					continue
				}
				tn := ir.NamedOf(fa.X.Type())
				if tn == nil || !(tn.Obj().Name() == "cage" || tn.Obj().Name() == "mpCage") {
					continue
				}
				call, ok := st.Val.(*ssa.Call)
				if !ok {
					continue
				}
				if bi, ok := call.Call.Value.(*ssa.Builtin); !ok || bi.Name() != "append" {
					continue
				}
				if derivesFromAllocValue(fa.X) {
					continue
				}
				n++
				eq, nh := false, false
				for _, g := range fn.Blocks {
					iff, ok := g.Instrs[len(g.Instrs)-1].(*ssa.If)
					if !ok || !edgeDominates(g, 0, b) {
						continue
					}
					if cc, ok := iff.Cond.(*ssa.Call); ok && cc.Call.StaticCallee() != nil && cc.Call.StaticCallee().String() == "bytes.Equal" {
						if fieldLoadName(cc.Call.Args[0]) == "attrsBytes" || fieldLoadName(cc.Call.Args[1]) == "attrsBytes" {
							eq = true
						}
					}
					if bo, ok := iff.Cond.(*ssa.BinOp); ok && bo.Op.String() == "==" {
						if fieldLoadName(bo.X) == "nhKey" || fieldLoadName(bo.Y) == "nhKey" {
							nh = true
						}
					}
				}
				fk := ir.OuterKey(fn)
				cons := "join " + tn.Obj().Name()
				needNH := tn.Obj().Name() == "mpCage"
				if eq && (nh || !needNH) {
					r.Ok(rule, fk, cons, c.P.InstrPos(st), "under bytes.Equal on the attribute bytes"+map[bool]string{true: " and equal next-hop key", false: ""}[needNH])
				} else {
					r.Bad(rule, fk, cons, c.P.InstrPos(st), fmt.Sprintf("a route is merged into another route's message without comparing the attribute bytes (compared: %v) / next-hop key (compared: %v): a hash collision or a different next hop would be advertised with the wrong attributes", eq, nh))
				}
			}
		}
	}
	if n < 2 {
		r.Undec(rule, "-", "anchor:cage joins", "-", fmt.Sprintf("found %d cage joins, expected the v4 and the MP packer", n))
	}
}

// ruleNexthopKey: the grouping key of MP routes covers every next hop that goes into the message.
func (c *Ctx) ruleNexthopKey() {
	r := c.R
	rule := "E6.nexthop-key"
	r.Rule(rule, "the function that yields (next hops, grouping key) for an MP route derives the key from every address it puts into the next-hop list: each append of an address is matched by that address's String() in the backward slice of the returned key", 2)
	var fn *ssa.Function
	for _, f := range c.P.FuncsIn("internal/pkg/table") {
		s := f.Signature
		if f.Parent() != nil || s.Results().Len() != 2 {
			continue
		}
		if sl, ok := s.Results().At(0).Type().Underlying().(*types.Slice); ok && sl.Elem().String() == "net/netip.Addr" {
			if b, ok := s.Results().At(1).Type().Underlying().(*types.Basic); ok && b.Kind() == types.String {
				fn = f
			}
		}
	}
	if fn == nil {
		r.Undec(rule, "-", "anchor:func(...) ([]netip.Addr, string)", "-", "not found")
		return
	}
	fk := ir.FuncKey(fn)
	// per return: addresses in the list vs addresses whose String() feeds the key
	n := 0
	for _, b := range fn.Blocks {
		ret, ok := b.Instrs[len(b.Instrs)-1].(*ssa.Return)
		if !ok || len(ret.Results) != 2 {
			continue
		}
		listAddrs := map[string]bool{}
		collectListAddrs(ret.Results[0], listAddrs, map[ssa.Value]bool{})
		keyAddrs := map[string]bool{}
		collectKeyAddrs(ret.Results[1], keyAddrs, map[ssa.Value]bool{})
		for a := range listAddrs {
			n++
			cons := "next hop " + a
			if keyAddrs[a] {
				r.Ok(rule, fk, cons, c.P.Pos(ret.Pos()), "contributes to the key")
			} else {
				r.Bad(rule, fk, cons, c.P.Pos(ret.Pos()), "an address that goes into the message's next-hop field does not contribute to the grouping key: routes that differ only in it are merged and all but the first are advertised with the wrong next hop")
			}
		}
	}
	if n < 2 {
		r.Undec(rule, fk, "anchor:next hops", c.P.Pos(fn.Pos()), fmt.Sprintf("found %d addresses", n))
	}
}

// addrName: a stable name for an address expression (field path or call).
func addrName(v ssa.Value) string {
	switch x := v.(type) {
	case *ssa.UnOp:
		if p := fieldPath(x.X); p != "" {
			return p
		}
	case *ssa.Call:
		if f := x.Call.StaticCallee(); f != nil {
			return f.Name() + "()"
		}
	}
	return v.Name()
}

func collectListAddrs(v ssa.Value, out map[string]bool, seen map[ssa.Value]bool) {
	if seen[v] {
		return
	}
	seen[v] = true
	switch x := v.(type) {
	case *ssa.Phi:
		for _, e := range x.Edges {
			collectListAddrs(e, out, seen)
		}
	case *ssa.Call:
		if bi, ok := x.Call.Value.(*ssa.Builtin); ok && bi.Name() == "append" {
			collectListAddrs(x.Call.Args[0], out, seen)
			for _, a := range x.Call.Args[1:] {
				if els, ok := sliceLiteralElems(a); ok {
					for _, el := range els {
						out[addrName(el)] = true
					}
				}
			}
		}
	case *ssa.Slice:
		if els, ok := sliceLiteralElems(x); ok {
			for _, el := range els {
				out[addrName(el)] = true
			}
		}
	}
}

func collectKeyAddrs(v ssa.Value, out map[string]bool, seen map[ssa.Value]bool) {
	if seen[v] {
		return
	}
	seen[v] = true
	switch x := v.(type) {
	case *ssa.Phi:
		for _, e := range x.Edges {
			collectKeyAddrs(e, out, seen)
		}
	case *ssa.BinOp:
		collectKeyAddrs(x.X, out, seen)
		collectKeyAddrs(x.Y, out, seen)
	case *ssa.Call:
		if f := x.Call.StaticCallee(); f != nil && f.Name() == "String" && len(x.Call.Args) == 1 {
			out[addrName(x.Call.Args[0])] = true
		}
	}
}

// ruleSizeBudget: the packers' budget uses the two protocol maxima under the extended-message predicate.
func (c *Ctx) ruleSizeBudget() {
	r := c.R
	rule := "E4.size-budget"
	r.Rule(rule, "the packers' size budget is BGP_MAX_EXTENDED_MESSAGE_LENGTH exactly under IsExtendedMessageSerialization(options) and BGP_MAX_MESSAGE_LENGTH otherwise — the same two constants and predicate the serialiser's final check uses", 1)
	fn := c.P.Func("internal/pkg/table.maxUpdateMessageLength")
	if fn == nil {
		r.Undec(rule, "-", "anchor:maxUpdateMessageLength", "-", "not found")
		return
	}
	pk := c.P.Pkg("pkg/packet/bgp").Types.Scope()
	val := func(n string) int64 {
		if cobj, ok := pk.Lookup(n).(*types.Const); ok {
			v, _ := constInt(cobj.Val())
			return v
		}
		return -1
	}
	ext, std := val("BGP_MAX_EXTENDED_MESSAGE_LENGTH"), val("BGP_MAX_MESSAGE_LENGTH")
	ok := false
	for _, b := range fn.Blocks {
		iff, isIf := b.Instrs[len(b.Instrs)-1].(*ssa.If)
		if !isIf {
			continue
		}
		cc, isC := iff.Cond.(*ssa.Call)
		if !isC || cc.Call.StaticCallee() == nil || cc.Call.StaticCallee().Name() != "IsExtendedMessageSerialization" {
			continue
		}
		rv := func(bb *ssa.BasicBlock) int64 {
			if ret, isRet := bb.Instrs[len(bb.Instrs)-1].(*ssa.Return); isRet && len(ret.Results) == 1 {
				if k, isK := ret.Results[0].(*ssa.Const); isK {
					v, _ := constInt(k.Value)
					return v
				}
			}
			return -1
		}
		if rv(b.Succs[0]) == ext && rv(b.Succs[1]) == std {
			ok = true
		}
	}
	if ok {
		r.Ok(rule, ir.FuncKey(fn), "budget constants", c.P.Pos(fn.Pos()), fmt.Sprintf("%d under extended message, %d otherwise", ext, std))
	} else {
		r.Bad(rule, ir.FuncKey(fn), "budget constants", c.P.Pos(fn.Pos()), "the packers no longer budget with the protocol maxima under the extended-message predicate: messages are packed larger than the serialiser accepts (and dropped) or needlessly small")
	}
}

// ruleOversizeContained: a message that fails to serialise is skipped without touching the connection.
func (c *Ctx) ruleOversizeContained() {
	r := c.R
	rule := "E6.oversize-contained"
	r.Rule(rule, "in the sender, the path on which Serialize fails performs no write, does not close the connection or signal a state reason, bumps the discarded-message counter and returns nil — one oversize route does not disturb the session", 1)
	var send *ssa.Function
	if loop := c.P.Func("(*pkg/server.fsmHandler).sendMessageloop"); loop != nil {
		for _, an := range loop.AnonFuncs {
			for _, b := range an.Blocks {
				for _, in := range b.Instrs {
					if call, ok := in.(*ssa.Call); ok && call.Call.StaticCallee() != nil && call.Call.StaticCallee().Name() == "Serialize" && strings.Contains(call.Call.StaticCallee().String(), "BGPMessage") {
						send = an
					}
				}
			}
		}
	}
	if send == nil {
		r.Undec(rule, "-", "anchor:send closure", "-", "the closure that serialises and writes a message was not found")
		return
	}
	fk := ir.FuncKey(send)
	// the branch on the Serialize error
	for _, b := range send.Blocks {
		iff, ok := b.Instrs[len(b.Instrs)-1].(*ssa.If)
		if !ok {
			continue
		}
		bo, ok := iff.Cond.(*ssa.BinOp)
		if !ok || bo.Op.String() != "!=" || !isNilConst(bo.Y) {
			continue
		}
		ex, ok := bo.X.(*ssa.Extract)
		if !ok {
			continue
		}
		call, ok := ex.Tuple.(*ssa.Call)
		if !ok || call.Call.StaticCallee() == nil || call.Call.StaticCallee().Name() != "Serialize" {
			continue
		}
		// walk the error branch until return
		bad := ""
		counter := false
		retNil := false
		seen := map[*ssa.BasicBlock]bool{}
		work := []*ssa.BasicBlock{b.Succs[0]}
		for len(work) > 0 {
			x := work[0]
			work = work[1:]
			if seen[x] {
				continue
			}
			seen[x] = true
			for _, in := range x.Instrs {
				switch y := in.(type) {
				case *ssa.Call:
					name := ""
					if y.Call.StaticCallee() != nil {
						name = y.Call.StaticCallee().Name()
					} else if y.Call.IsInvoke() {
						name = y.Call.Method.Name()
					}
					switch name {
					case "Write", "Close", "nonblockSendChannel", "SetWriteDeadline":
						bad = "calls " + name
					case "bgpMessageStateUpdate":
						if k, ok := stripConv(y.Call.Args[1]).(*ssa.Const); ok {
							if kv, _ := constInt(k.Value); kv == 0 {
								counter = true
							}
						}
					}
				case *ssa.Return:
					if k, ok := y.Results[0].(*ssa.Const); ok && k.IsNil() {
						retNil = true
					} else {
						bad = "returns an error (the sender loop would tear the session down)"
					}
				}
			}
			if !ir.IsExit(x) {
				work = append(work, x.Succs...)
			}
		}
		switch {
		case bad != "":
			r.Bad(rule, fk, "serialize-failure path", c.P.Pos(iff.Pos()), "the oversize path "+bad)
		case !counter:
			r.Bad(rule, fk, "serialize-failure path", c.P.Pos(iff.Pos()), "the skipped message is not reported (discard counter not bumped)")
		case !retNil:
			r.Bad(rule, fk, "serialize-failure path", c.P.Pos(iff.Pos()), "the oversize path does not return nil")
		default:
			r.Ok(rule, fk, "serialize-failure path", c.P.Pos(iff.Pos()), "no write, no close, counter bumped, returns nil")
		}
		return
	}
	r.Undec(rule, fk, "anchor:branch on Serialize error", c.P.Pos(send.Pos()), "not found")
}

// ruleLastActionWins: de-duplication keys by the path's local key, EOR bypasses it.
func (c *Ctx) ruleLastActionWins() {
	r := c.R
	rule := "E6.last-action-wins"
	r.Rule(rule, "CreateUpdateMsgFromPaths keeps, per GetLocalKey(), the last path of the list (map overwrite in list order, then 'is this the recorded one' test), and End-of-RIB markers bypass the de-duplication", 1)
	fn := c.P.Func("internal/pkg/table.CreateUpdateMsgFromPaths")
	if fn == nil {
		r.Undec(rule, "-", "anchor:CreateUpdateMsgFromPaths", "-", "not found")
		return
	}
	fk := ir.FuncKey(fn)
	upd, cmp := false, false
	for _, b := range fn.Blocks {
		for _, in := range b.Instrs {
			switch x := in.(type) {
			case *ssa.MapUpdate:
				if call, ok := x.Key.(*ssa.Call); ok && call.Call.StaticCallee() != nil && call.Call.StaticCallee().Name() == "GetLocalKey" && x.Value == call.Call.Args[0] {
					upd = true
				}
			case *ssa.BinOp:
				if x.Op.String() == "!=" || x.Op.String() == "==" {
					if lk, ok := x.X.(*ssa.Lookup); ok {
						if call, ok := lk.Index.(*ssa.Call); ok && call.Call.StaticCallee() != nil && call.Call.StaticCallee().Name() == "GetLocalKey" && x.Y == call.Call.Args[0] {
							cmp = true
						}
					}
				}
			}
		}
	}
	// the recording is unconditional: on the way from the entry to the map update only the loop head, the nil test
	// and the End-of-RIB test may branch
	cond := ""
	for _, b := range fn.Blocks {
		for _, in := range b.Instrs {
			mu, ok := in.(*ssa.MapUpdate)
			if !ok {
				continue
			}
			call, ok := mu.Key.(*ssa.Call)
			if !ok || call.Call.StaticCallee() == nil || call.Call.StaticCallee().Name() != "GetLocalKey" {
				continue
			}
			for d := b.Idom(); d != nil; d = d.Idom() {
				iff, ok := d.Instrs[len(d.Instrs)-1].(*ssa.If)
				if !ok {
					continue
				}
				okCond := false
				switch x := iff.Cond.(type) {
				case *ssa.BinOp:
					if isNilConst(x.X) || isNilConst(x.Y) {
						okCond = true // path == nil
					}
					if _, isPhi := x.X.(*ssa.Phi); isPhi || lenOf(x.Y) != nil || lenOf(x.X) != nil {
						okCond = true // loop head: index < len
					}
				case *ssa.Call:
					if x.Call.StaticCallee() != nil && x.Call.StaticCallee().Name() == "IsEOR" {
						okCond = true
					}
				}
				if !okCond {
					cond = c.P.InstrPos(iff)
				}
			}
		}
	}
	if cond != "" {
		r.Bad(rule, fk, "recording is unconditional", c.P.Pos(fn.Pos()), "the pass that records the last action per key only runs under a condition (at "+cond+"): batches that do not satisfy it are not de-duplicated, and the packers emit groups in map order, so a superseded announcement can be sent after the current one")
	} else if upd {
		r.Ok(rule, fk, "recording is unconditional", c.P.Pos(fn.Pos()), "only the loop head, nil and End-of-RIB tests precede it")
	}
	if upd && cmp {
		r.Ok(rule, fk, "last[path.GetLocalKey()] = path; keep iff last[key] == path", c.P.Pos(fn.Pos()), "")
	} else {
		r.Bad(rule, fk, "last[path.GetLocalKey()] = path; keep iff last[key] == path", c.P.Pos(fn.Pos()), fmt.Sprintf("the last-action-wins de-duplication is no longer keyed by the path's own local key (record: %v, test: %v)", upd, cmp))
	}
}

func init() {
	register(&Check{
		ID: "C11",
		Expl: "(E6.session-options) the size limit and ADD-PATH modes the sender packs and serialises under are rewritten on every establishment. Decides the structural conditions of UPDATE packing: (E6.cage-reuse) routes share a message only after a byte comparison of their attribute sets and, for MP families, of the next-hop key; (E6.nexthop-key) that key covers every next hop written into the message; (E4.size-budget / E6.addpath-direction / E4.extended-message-types) the packers budget with the two protocol maxima, the send direction of ADD-PATH and the same message-type set as the serialiser; " +
			"(E6.oversize-contained) a message that fails to serialise is skipped, counted and does not touch the connection; (E6.last-action-wins) de-duplication is keyed by the path's local key and End-of-RIB bypasses it. Also: (E2.send-side-copy) the 2-octet-AS send conversion edits a private copy of the attribute list that the packer shares between the UPDATEs of one group; (E6.last-action-wins) the recording pass is unconditional.",
		Not: "Per-NLRI worst-case size arithmetic, boundary sizes and the equivalence of the packed messages with the change list over all inputs are not decided.",
		Run: func(c *Ctx) {
			c.ruleRatchets("C11")
			c.ruleSessionOptionsRefreshed("E6.session-options", map[string]bool{"extendedMessage": true, "familyMap": true}, 2)
			c.ruleCheckedIsEmitted("E3.checked-is-emitted")
			c.rulePackSerializeSameOptions("E6.pack-serialize-same-options", 2)
			c.ruleCageReuse()
			c.ruleNexthopKey()
			c.ruleSizeBudget()
			c.ruleAddPathDirection("E6.addpath-direction")
			c.ruleExtendedMessageTypes()
			c.ruleOversizeContained()
			c.ruleLastActionWins()
			c.ruleSendSideCopy()
		},
	})
}
