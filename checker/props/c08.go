package props

import (
	"fmt"
	"go/token"
	"go/types"
	"sort"
	"strings"

	"golang.org/x/tools/go/ssa"

	"gbverif/ir"
)

// ruleMinShape: NegotiatedHoldTime = min(local, remote): under "a > b" the smaller operand is stored.
func (c *Ctx) ruleHoldTimeMin() {
	r := c.R
	rule := "E6.holdtime-min"
	r.Rule(rule, "the negotiated hold time is the smaller operand of the comparison that guards its store (min shape), and the keepalive interval is a third of it exactly when it is smaller than the configured hold time (the guard compares the negotiated value with Timers.Config.HoldTime itself)", 2)
	fn := c.P.Func("(*pkg/server.fsm).stateChange")
	if fn == nil {
		r.Undec(rule, "-", "anchor:stateChange", "-", "not found")
		return
	}
	fk := ir.FuncKey(fn)
	n := 0
	// stateChange itself or a helper extracted from it
	family := c.withPrivateHelpers(fn, 2)
	for _, ff := range family {
		for _, b := range ff.Blocks {
			for _, in := range b.Instrs {
				st, ok := in.(*ssa.Store)
				if !ok {
					continue
				}
				fa, ok := st.Addr.(*ssa.FieldAddr)
				if !ok || ir.FieldOf(fa).Name() != "NegotiatedHoldTime" {
					continue
				}
				n++
				cons := fmt.Sprintf("store NegotiatedHoldTime #%d", n)
				if call, ok := st.Val.(*ssa.Call); ok {
					if bi, ok := call.Call.Value.(*ssa.Builtin); ok && bi.Name() == "min" && len(call.Call.Args) == 2 {
						r.Ok(rule, fk, cons, c.P.InstrPos(st), "stores min(a, b)")
						continue
					}
				}
				// the guarding branch
				if len(b.Preds) != 1 {
					r.Bad(rule, fk, cons, c.P.InstrPos(st), "the store is not directly under a comparison of the two hold times")
					continue
				}
				g := b.Preds[0]
				iff, ok := g.Instrs[len(g.Instrs)-1].(*ssa.If)
				if !ok {
					r.Bad(rule, fk, cons, c.P.InstrPos(st), "the store is not directly under a comparison of the two hold times")
					continue
				}
				bo, ok := iff.Cond.(*ssa.BinOp)
				if !ok {
					r.Bad(rule, fk, cons, c.P.InstrPos(st), "guard is not a comparison")
					continue
				}
				onTrue := g.Succs[0] == b
				var smaller ssa.Value
				switch bo.Op {
				case token.GTR, token.GEQ: // X > Y : true ⇒ Y smaller
					if onTrue {
						smaller = bo.Y
					} else {
						smaller = bo.X
					}
				case token.LSS, token.LEQ: // X < Y : true ⇒ X smaller
					if onTrue {
						smaller = bo.X
					} else {
						smaller = bo.Y
					}
				}
				if smaller != nil && sameSym(st.Val, smaller) {
					r.Ok(rule, fk, cons, c.P.InstrPos(st), "stores the smaller operand of the guarding comparison")
				} else {
					r.Bad(rule, fk, cons, c.P.InstrPos(st), "the value stored is not the smaller operand of the guarding comparison: the session would run with max(local, remote) or an unrelated value")
				}
			}
		}
	}
	if n < 1 {
		r.Undec(rule, fk, "anchor:stores of NegotiatedHoldTime", c.P.Pos(fn.Pos()), fmt.Sprintf("found %d", n))
	}
	// keepalive: a division by 3 of the negotiated hold time guarded by negotiated < configured
	ok3 := false
	for _, ff := range family {
		fn := ff
		for _, b := range fn.Blocks {
			for _, in := range b.Instrs {
				bo, ok := in.(*ssa.BinOp)
				if !ok || bo.Op != token.QUO {
					continue
				}
				k, ok := bo.Y.(*ssa.Const)
				if !ok || k.Value == nil || k.Value.String() != "3" {
					continue
				}
				if fieldLoadName(bo.X) != "NegotiatedHoldTime" {
					continue
				}
				for _, g := range fn.Blocks {
					iff, ok := g.Instrs[len(g.Instrs)-1].(*ssa.If)
					if !ok {
						continue
					}
					cmp, ok := iff.Cond.(*ssa.BinOp)
					if ok && cmp.Op == token.LSS && fieldLoadName(cmp.X) == "NegotiatedHoldTime" && edgeDominates(g, 0, b) && isConfiguredHoldTime(cmp.Y) {
						ok3 = true
					}
				}
			}
		}
	}
	if ok3 {
		r.Ok(rule, fk, "keepalive = negotiated/3 under negotiated < configured", c.P.Pos(fn.Pos()), "")
	} else {
		r.Bad(rule, fk, "keepalive = negotiated/3 under negotiated < configured", c.P.Pos(fn.Pos()), "the keepalive interval is no longer a third of the negotiated hold time under that guard")
	}
}

// isConfiguredHoldTime: v is (a copy of) Timers.Config.HoldTime — the field HoldTime of a TimersConfig.
func isConfiguredHoldTime(v ssa.Value) bool {
	v = stripConv(v)
	if ph, ok := v.(*ssa.Phi); ok {
		for _, e := range ph.Edges {
			if !isConfiguredHoldTime(e) {
				return false
			}
		}
		return len(ph.Edges) > 0
	}
	u, ok := v.(*ssa.UnOp)
	if !ok {
		return false
	}
	fa, ok := u.X.(*ssa.FieldAddr)
	if !ok || fieldOfName(fa) != "HoldTime" {
		return false
	}
	n := ir.NamedOf(ir.Deref(fa.X.Type()))
	return n != nil && n.Obj().Name() == "TimersConfig"
}

// ruleFamilyIntersection: negotiated[f] is only written for f taken from the local map and present in the remote map,
// and each ADD-PATH direction bit needs the local bit and the remote complementary bit.
func (c *Ctx) ruleFamilyIntersection() {
	r := c.R
	rule := "E6.negotiation-intersection"
	r.Rule(rule, "in open2Cap the negotiated map is written only inside the iteration over the locally configured families and under 'present in the remote map' (⊆ local ∩ remote); each ADD-PATH direction bit is set only under (local has that bit ∧ remote has the complementary bit); every received ADD-PATH capability instance contributes its tuples", 4)
	fn := c.P.Func("pkg/server.open2Cap")
	if fn == nil {
		r.Undec(rule, "-", "anchor:open2Cap", "-", "not found")
		return
	}
	fk := ir.FuncKey(fn)
	am := c.P.NamedType("pkg/packet/bgp", "BGPAddPathMode")
	modes := enumConsts(am)
	send, recv := modes["BGP_ADD_PATH_SEND"], modes["BGP_ADD_PATH_RECEIVE"]
	// locate the negotiated map: the second result
	var negotiated ssa.Value
	for _, b := range fn.Blocks {
		if ret, ok := b.Instrs[len(b.Instrs)-1].(*ssa.Return); ok && len(ret.Results) == 2 {
			negotiated = ret.Results[1]
		}
	}
	nUpd := 0
	for _, b := range fn.Blocks {
		for _, in := range b.Instrs {
			mu, ok := in.(*ssa.MapUpdate)
			if !ok || mu.Map != negotiated {
				continue
			}
			nUpd++
			// key comes from a range (Next) over a map that is a call result (CreateRfMap)
			keyFromLocal := false
			if ex, ok := mu.Key.(*ssa.Extract); ok {
				if nx, ok := ex.Tuple.(*ssa.Next); ok {
					if rg, ok := nx.Iter.(*ssa.Range); ok {
						if call, ok := rg.X.(*ssa.Call); ok && call.Call.StaticCallee() != nil && strings.Contains(call.Call.StaticCallee().Name(), "RfMap") {
							keyFromLocal = true
						}
					}
				}
			}
			// dominated by the ok-edge of a comma-ok lookup with the same key
			underRemote := false
			for _, g := range fn.Blocks {
				iff, ok := g.Instrs[len(g.Instrs)-1].(*ssa.If)
				if !ok {
					continue
				}
				ex, ok := iff.Cond.(*ssa.Extract)
				if !ok || ex.Index != 1 {
					continue
				}
				lk, ok := ex.Tuple.(*ssa.Lookup)
				if !ok || !lk.CommaOk || lk.Index != mu.Key {
					continue
				}
				if edgeDominates(g, 0, b) {
					underRemote = true
				}
			}
			if keyFromLocal && underRemote {
				r.Ok(rule, fk, "negotiated[f] ⊆ local ∩ remote", c.P.InstrPos(mu), "")
			} else {
				r.Bad(rule, fk, "negotiated[f] ⊆ local ∩ remote", c.P.InstrPos(mu), fmt.Sprintf("a family is entered into the negotiated set outside the intersection (key from local map: %v, under remote-presence test: %v)", keyFromLocal, underRemote))
			}
		}
	}
	if nUpd == 0 {
		r.Undec(rule, fk, "anchor:negotiated map update", c.P.Pos(fn.Pos()), "not found")
	}
	// direction bits
	for _, b := range fn.Blocks {
		for _, in := range b.Instrs {
			bo, ok := in.(*ssa.BinOp)
			if !ok || bo.Op != token.OR || !types.Identical(bo.Type(), am) {
				continue
			}
			k, ok := bo.Y.(*ssa.Const)
			if !ok {
				continue
			}
			bit, _ := constInt(k.Value)
			if bit != send && bit != recv {
				continue
			}
			want := map[int64]int64{send: recv, recv: send}[bit]
			// collect the AND-tests on the edges dominating this block
			var tests []struct {
				v   ssa.Value
				bit int64
			}
			for _, g := range fn.Blocks {
				iff, ok := g.Instrs[len(g.Instrs)-1].(*ssa.If)
				if !ok {
					continue
				}
				cmp, ok := iff.Cond.(*ssa.BinOp)
				if !ok || cmp.Op != token.GTR {
					continue
				}
				and, ok := cmp.X.(*ssa.BinOp)
				if !ok || and.Op != token.AND {
					continue
				}
				kk, ok := and.Y.(*ssa.Const)
				if !ok {
					continue
				}
				kv, _ := constInt(kk.Value)
				if edgeDominates(g, 0, b) {
					tests = append(tests, struct {
						v   ssa.Value
						bit int64
					}{and.X, kv})
				}
			}
			name := map[int64]string{send: "SEND", recv: "RECEIVE"}[bit]
			okBit := false
			if len(tests) == 2 && tests[0].v != tests[1].v {
				// one test is on the same bit (local), the other on the complement (remote, a map lookup result)
				for i := 0; i < 2; i++ {
					a, bb := tests[i], tests[1-i]
					_, remoteIsLookup := stripExtract(bb.v).(*ssa.Lookup)
					if a.bit == bit && bb.bit == want && remoteIsLookup {
						okBit = true
					}
				}
			}
			if okBit {
				r.Ok(rule, fk, "add-path "+name, c.P.InstrPos(bo), "local "+name+" ∧ remote complement")
			} else {
				r.Bad(rule, fk, "add-path "+name, c.P.InstrPos(bo), "the "+name+" direction is negotiated without requiring the local "+name+" bit together with the peer's complementary bit")
			}
		}
	}
	// every ADD-PATH capability instance contributes: the append of Tuples happens inside a loop over the capability list
	merged := false
	for _, ff := range c.withPrivateHelpers(fn, 1) { // open2Cap or a helper extracted from it
		for _, b := range ff.Blocks {
			for _, in := range b.Instrs {
				call, ok := in.(*ssa.Call)
				if !ok {
					continue
				}
				bi, ok := call.Call.Value.(*ssa.Builtin)
				if !ok || bi.Name() != "append" || len(call.Call.Args) < 2 {
					continue
				}
				if fieldLoadName(call.Call.Args[1]) == "Tuples" && inLoop(b) {
					merged = true
				}
			}
		}
	}
	if merged {
		r.Ok(rule, fk, "add-path instances merged", c.P.Pos(fn.Pos()), "tuples of every received ADD-PATH capability are appended in a loop")
	} else {
		r.Bad(rule, fk, "add-path instances merged", c.P.Pos(fn.Pos()), "the tuples of the received ADD-PATH capability instances are no longer accumulated over all instances: a peer that spreads its families over several capabilities loses some")
	}
}

func stripExtract(v ssa.Value) ssa.Value {
	if ex, ok := v.(*ssa.Extract); ok {
		return ex.Tuple
	}
	return v
}

// inLoop: the block lies on a CFG cycle.
func inLoop(b *ssa.BasicBlock) bool {
	seen := map[*ssa.BasicBlock]bool{}
	work := append([]*ssa.BasicBlock{}, b.Succs...)
	for len(work) > 0 {
		x := work[0]
		work = work[1:]
		if x == b {
			return true
		}
		if seen[x] {
			continue
		}
		seen[x] = true
		work = append(work, x.Succs...)
	}
	return false
}

// ruleMarshallingOptions: every MarshallingOption literal used on an established session takes its
// fields from the negotiated session state.
func (c *Ctx) ruleMarshallingOptions() {
	r := c.R
	rule := "E6.marshalling-options"
	r.Rule(rule, "every bgp.MarshallingOption built in the session's receive and send loops takes AddPath from the negotiated family map and ExtendedMessage from the negotiated flag; the receive side also takes Use2ByteAS from the negotiated 4-octet-AS result", 2)
	mo := c.P.NamedType("pkg/packet/bgp", "MarshallingOption")
	if mo == nil {
		r.Undec(rule, "-", "anchor:MarshallingOption", "-", "not found")
		return
	}
	n := 0
	// the two session loops, their closures and the helpers extracted from them
	type sided struct {
		fn   *ssa.Function
		recv bool
	}
	var fns []sided
	for _, k := range []string{"(*pkg/server.fsmHandler).recvMessageWithError", "(*pkg/server.fsmHandler).sendMessageloop"} {
		root := c.P.Func(k)
		if root == nil {
			r.Undec(rule, k, "anchor", "-", "not found")
			continue
		}
		for _, f := range c.withPrivateHelpers(root, 2) {
			fns = append(fns, sided{f, strings.Contains(k, "recvMessageWithError")})
		}
	}
	for _, sf := range fns {
		fn := sf.fn
		for _, b := range fn.Blocks {
			for _, in := range b.Instrs {
				al, ok := in.(*ssa.Alloc)
				if !ok || ir.NamedOf(al.Type()) != mo {
					continue
				}
				n++
				got := map[string]string{}
				for _, ref := range *al.Referrers() {
					fa, ok := ref.(*ssa.FieldAddr)
					if !ok {
						continue
					}
					for _, r2 := range *fa.Referrers() {
						if st, ok := r2.(*ssa.Store); ok && st.Addr == ssa.Value(fa) {
							got[ir.FieldOf(fa).Name()] = originOf(st.Val)
						}
					}
				}
				fk := ir.FuncKey(fn)
				recvSide := sf.recv
				problems := []string{}
				if got["AddPath"] != "familyMap.Load" {
					problems = append(problems, "AddPath from "+got["AddPath"])
				}
				if got["ExtendedMessage"] != "extendedMessage.Load" {
					problems = append(problems, "ExtendedMessage from "+got["ExtendedMessage"])
				}
				if recvSide && got["Use2ByteAS"] != "twoByteAsTrans" {
					problems = append(problems, "Use2ByteAS from "+got["Use2ByteAS"])
				}
				cons := fmt.Sprintf("MarshallingOption #%d", n)
				if len(problems) == 0 {
					r.Ok(rule, fk, cons, c.P.InstrPos(al), fmt.Sprint(got))
				} else {
					r.Bad(rule, fk, cons, c.P.InstrPos(al), "messages on an established session are parsed/emitted under options that do not come from the negotiation: "+strings.Join(problems, "; "))
				}
			}
		}
	}
	if n < 2 {
		r.Undec(rule, "-", "anchor", "-", fmt.Sprintf("found %d MarshallingOption literals in the session loops", n))
	}
}

// originOf names where a value comes from: "<field>.Load" for atomic loads, "<field>" for field loads.
func originOf(v ssa.Value) string {
	for i := 0; i < 6; i++ {
		switch x := v.(type) {
		case *ssa.TypeAssert:
			v = x.X
		case *ssa.ChangeType:
			v = x.X
		case *ssa.Call:
			if callee := x.Call.StaticCallee(); callee != nil && callee.Name() == "Load" && len(x.Call.Args) > 0 {
				if fa, ok := x.Call.Args[0].(*ssa.FieldAddr); ok {
					return ir.FieldOf(fa).Name() + ".Load"
				}
			}
			return "call"
		case *ssa.UnOp:
			if fa, ok := x.X.(*ssa.FieldAddr); ok {
				return ir.FieldOf(fa).Name()
			}
			return "load"
		case *ssa.Const:
			return "const " + x.Value.String()
		default:
			return fmt.Sprintf("%T", v)
		}
	}
	return "?"
}

// ruleExtendedMessageTypes: the message types allowed above 4096 octets agree between receiver and serialiser.
func (c *Ctx) ruleExtendedMessageTypes() {
	r := c.R
	rule := "E4.extended-message-types"
	r.Rule(rule, "the set of message types whose size cap rises to 65535 with Extended Message is the same in the receive path and in BGPMessage.Serialize and equals {UPDATE, NOTIFICATION, ROUTE-REFRESH} (RFC 8654: never OPEN or KEEPALIVE)", 2)
	pk := c.P.Pkg("pkg/packet/bgp")
	if pk == nil {
		return
	}
	// Evaluated on the SSA form for each message type 1..5, so that a switch, an ==/|| chain or a helper taking the
	// type as a parameter all read the same: is a block that selects the extended maximum reachable when the
	// message type is t?
	constOf := func(name string) int64 {
		if k, ok := pk.Types.Scope().Lookup(name).(*types.Const); ok {
			v, _ := constInt(k.Val())
			return v
		}
		return -1
	}
	ext := constOf("BGP_MAX_EXTENDED_MESSAGE_LENGTH")
	names := map[int64]string{}
	for _, n := range []string{"BGP_MSG_OPEN", "BGP_MSG_UPDATE", "BGP_MSG_NOTIFICATION", "BGP_MSG_KEEPALIVE", "BGP_MSG_ROUTE_REFRESH"} {
		names[constOf(n)] = n
	}
	want := map[string]bool{"BGP_MSG_UPDATE": true, "BGP_MSG_NOTIFICATION": true, "BGP_MSG_ROUTE_REFRESH": true}
	isExt := func(v ssa.Value) bool {
		k, ok := stripConv(v).(*ssa.Const)
		if !ok || k.Value == nil {
			return false
		}
		kv, ok := constInt(k.Value)
		return ok && kv == ext
	}
	// blocks of f that select the extended maximum (phi edges count for the predecessor they come from)
	selects := func(f *ssa.Function) []*ssa.BasicBlock {
		var out []*ssa.BasicBlock
		for _, b := range f.Blocks {
			for _, in := range b.Instrs {
				switch x := in.(type) {
				case *ssa.Phi:
					for i, e := range x.Edges {
						if isExt(e) {
							out = append(out, b.Preds[i])
						}
					}
				case *ssa.Store:
					if isExt(x.Val) {
						out = append(out, b)
					}
				case *ssa.Return:
					for _, rv := range x.Results {
						if isExt(rv) {
							out = append(out, b)
						}
					}
				}
			}
		}
		return out
	}
	// does f compare a uint8 value with a message-type constant at all?
	typeTests := func(f *ssa.Function) bool {
		for _, b := range f.Blocks {
			for _, in := range b.Instrs {
				if bo, ok := in.(*ssa.BinOp); ok && (bo.Op == token.EQL || bo.Op == token.NEQ) {
					for _, pr := range [][2]ssa.Value{{bo.X, bo.Y}, {bo.Y, bo.X}} {
						if k, ok := stripConv(pr[1]).(*ssa.Const); ok && k.Value != nil {
							if kv, ok := constInt(k.Value); ok && names[kv] != "" {
								if bt, ok := pr[0].Type().Underlying().(*types.Basic); ok && bt.Kind() == types.Uint8 {
									return true
								}
							}
						}
					}
				}
			}
		}
		return false
	}
	found := 0
	for _, key := range []string{"(*pkg/server.fsmHandler).recvMessageWithError", "(*pkg/packet/bgp.BGPMessage).Serialize"} {
		fn := c.P.Func(key)
		if fn == nil {
			r.Undec(rule, key, "anchor", "-", "not found")
			continue
		}
		family := c.withHelpers(fn, 2)
		for _, f := range family {
			targets := selects(f)
			if len(targets) == 0 {
				continue
			}
			if !typeTests(f) {
				// the maximum is selected by a helper that does not look at the type: judge its call sites
				continue
			}
			found++
			got := map[string]bool{}
			for t, name := range names {
				tt := t
				val := func(v ssa.Value) (bool, bool) {
					bo, ok := v.(*ssa.BinOp)
					if !ok || (bo.Op != token.EQL && bo.Op != token.NEQ) {
						return false, false
					}
					for _, pr := range [][2]ssa.Value{{bo.X, bo.Y}, {bo.Y, bo.X}} {
						k, ok := stripConv(pr[1]).(*ssa.Const)
						if !ok || k.Value == nil {
							continue
						}
						kv, ok := constInt(k.Value)
						if !ok || names[kv] == "" {
							continue
						}
						if bt, ok := pr[0].Type().Underlying().(*types.Basic); !ok || bt.Kind() != types.Uint8 {
							continue
						}
						return (kv == tt) == (bo.Op == token.EQL), true
					}
					return false, false
				}
				for _, tg := range targets {
					if reachBool(f, val, tg) {
						got[name] = true
					}
				}
			}
			var ks []string
			for k := range got {
				ks = append(ks, k)
			}
			sort.Strings(ks)
			same := len(got) == len(want)
			for k := range want {
				if !got[k] {
					same = false
				}
			}
			if same {
				r.Ok(rule, key, "extended types", c.P.Pos(f.Pos()), strings.Join(ks, ", "))
			} else {
				r.Bad(rule, key, "extended types", c.P.Pos(f.Pos()), "the types allowed to exceed 4096 octets are "+strings.Join(ks, ", ")+": receiver and serialiser must both allow exactly UPDATE, NOTIFICATION, ROUTE-REFRESH")
			}
		}
	}
	if found != 2 {
		r.Undec(rule, "-", "anchor:two type selections", "-", fmt.Sprintf("found %d places selecting the extended maximum by message type", found))
	}
}

// ruleASNReaders: the 2-octet My-AS field of an OPEN is only interpreted through the 4-octet-aware helper.
func (c *Ctx) ruleASNReaders() {
	r := c.R
	rule := "E6.as-trans"
	r.Rule(rule, "who-may-read: in pkg/server the 2-octet BGPOpen.MyAS field is read only by the helper that substitutes the 4-octet-AS capability value (getASN); buildopen substitutes AS_TRANS exactly when the local AS exceeds 65535", 2)
	open := c.P.NamedType("pkg/packet/bgp", "BGPOpen")
	f := ir.Field(open, "MyAS")
	if f == nil {
		r.Undec(rule, "-", "anchor:BGPOpen.MyAS", "-", "not found")
		return
	}
	n := 0
	for _, fn := range c.P.FuncsIn("pkg/server") {
		for _, b := range fn.Blocks {
			for _, in := range b.Instrs {
				fa, ok := in.(*ssa.FieldAddr)
				if !ok || ir.FieldOf(fa) != f {
					continue
				}
				n++
				fk := ir.OuterKey(fn)
				if c.familyKey(fn, []string{"pkg/server.getASN"}) != "" {
					r.Ok(rule, fk, "reads BGPOpen.MyAS", c.P.InstrPos(fa), "the 4-octet aware helper")
				} else {
					r.Bad(rule, fk, "reads BGPOpen.MyAS", c.P.InstrPos(fa), "the raw 2-octet AS of an OPEN is used directly: for a 4-octet-AS peer it is AS_TRANS (23456), not the peer's AS")
				}
			}
		}
	}
	if n == 0 {
		r.Undec(rule, "-", "anchor:reads of MyAS", "-", "no read of BGPOpen.MyAS in pkg/server (getASN moved?)")
	}
	// buildopen: as > 65535 ⇒ AS_TRANS
	bo := c.P.Func("pkg/server.buildopen")
	if bo == nil {
		r.Undec(rule, "pkg/server.buildopen", "anchor", "-", "not found")
		return
	}
	ok := false
	for _, b := range bo.Blocks {
		iff, isIf := b.Instrs[len(b.Instrs)-1].(*ssa.If)
		if !isIf {
			continue
		}
		cmp, isB := iff.Cond.(*ssa.BinOp)
		if !isB || cmp.Op != token.GTR {
			continue
		}
		k, isK := cmp.Y.(*ssa.Const)
		if !isK || k.Value == nil || k.Value.String() != "65535" {
			continue
		}
		if fieldLoadName(cmp.X) == "LocalAs" {
			// the phi after the branch takes AS_TRANS on the true edge
			for _, s := range b.Succs[0].Succs {
				for _, in := range s.Instrs {
					if phi, isPhi := in.(*ssa.Phi); isPhi {
						for _, e := range phi.Edges {
							if kk, isK := e.(*ssa.Const); isK && kk.Value != nil && kk.Value.String() == "23456" {
								ok = true
							}
						}
					}
				}
			}
			for _, in := range b.Succs[1].Instrs {
				if phi, isPhi := in.(*ssa.Phi); isPhi {
					for _, e := range phi.Edges {
						if kk, isK := e.(*ssa.Const); isK && kk.Value != nil && kk.Value.String() == "23456" {
							ok = true
						}
					}
				}
			}
		}
	}
	if ok {
		r.Ok(rule, ir.FuncKey(bo), "AS_TRANS iff local AS > 65535", c.P.Pos(bo.Pos()), "")
	} else {
		r.Bad(rule, ir.FuncKey(bo), "AS_TRANS iff local AS > 65535", c.P.Pos(bo.Pos()), "the OPEN no longer substitutes AS_TRANS exactly for local AS numbers above 65535")
	}
}

// ruleHoldTimeDomain: ValidateOpenMsg refuses hold times 1 and 2 and accepts 0 and ≥3 (enum-domain evaluation).
func (c *Ctx) ruleHoldTimeDomain() {
	r := c.R
	rule := "E6.holdtime-domain"
	r.Rule(rule, "ValidateOpenMsg evaluated over hold time ∈ {0,1,2,3}: the success return is unreachable for 1 and 2 and reachable for 0 and 3", 4)
	fn := c.P.Func("pkg/packet/bgp.ValidateOpenMsg")
	if fn == nil {
		r.Undec(rule, "-", "anchor:ValidateOpenMsg", "-", "not found")
		return
	}
	var hs []ssa.Value
	for _, b := range fn.Blocks {
		for _, in := range b.Instrs {
			if u, ok := in.(*ssa.UnOp); ok && fieldLoadName(u) == "HoldTime" {
				hs = append(hs, u)
			}
		}
	}
	if len(hs) == 0 {
		r.Undec(rule, ir.FuncKey(fn), "anchor:load of HoldTime", c.P.Pos(fn.Pos()), "not found")
		return
	}
	// every success return (an early one that skips the hold-time test is exactly what must not exist)
	var success []*ssa.BasicBlock
	for _, b := range fn.Blocks {
		if ret, ok := b.Instrs[len(b.Instrs)-1].(*ssa.Return); ok && len(ret.Results) == 2 {
			if k, ok := ret.Results[1].(*ssa.Const); ok && k.IsNil() {
				success = append(success, b)
			}
		}
	}
	if len(success) == 0 {
		r.Undec(rule, ir.FuncKey(fn), "anchor:success return", c.P.Pos(fn.Pos()), "not found")
		return
	}
	for _, d := range []int64{0, 1, 2, 3} {
		reach := false
		for _, sb := range success {
			if reachableUnderAll(fn, hs, d, sb) {
				reach = true
			}
		}
		want := d == 0 || d == 3
		cons := fmt.Sprintf("hold time %d", d)
		if reach == want {
			r.Ok(rule, ir.FuncKey(fn), cons, c.P.Pos(fn.Pos()), map[bool]string{true: "accepted", false: "refused"}[reach])
		} else {
			r.Bad(rule, ir.FuncKey(fn), cons, c.P.Pos(fn.Pos()), map[bool]string{true: "a hold time of 1 or 2 seconds is accepted", false: "a legal hold time (0 or ≥3) is refused"}[reach])
		}
	}
}

// reachableUnderAll: like reachableUnder but every load in hs denotes the same quantity d.
func reachableUnderAll(fn *ssa.Function, hs []ssa.Value, d int64, target *ssa.BasicBlock) bool {
	seen := map[*ssa.BasicBlock]bool{}
	work := []*ssa.BasicBlock{fn.Blocks[0]}
	for len(work) > 0 {
		b := work[0]
		work = work[1:]
		if seen[b] {
			continue
		}
		seen[b] = true
		if b == target {
			return true
		}
		if iff, ok := b.Instrs[len(b.Instrs)-1].(*ssa.If); ok {
			decided := false
			for _, h := range hs {
				if v, ok := decideIf(iff.Cond, h, d); ok {
					decided = true
					if v {
						work = append(work, b.Succs[0])
					} else {
						work = append(work, b.Succs[1])
					}
					break
				}
			}
			if decided {
				continue
			}
		}
		work = append(work, b.Succs...)
	}
	return false
}

func init() {
	register(&Check{
		ID: "C08",
		Expl: "Decides the shape of the negotiation code: (E6.session-options) every per-session option published on establishment is rewritten on every path (no value survives from the previous session); (E6.holdtime-min / holdtime-domain) the stored hold time is the smaller operand of its guarding comparison, keepalive is a third of it under the documented guard, and hold times 1–2 are refused while 0 and ≥3 are accepted (finite-domain evaluation); " +
			"(E6.negotiation-intersection) families are negotiated inside local ∩ remote, each ADD-PATH direction needs the local bit and the peer's complementary bit, and all received ADD-PATH capability instances are merged; (E6.marshalling-options) the options used to parse and emit on the session come from the negotiated state; (E4.extended-message-types) receiver and serialiser lift the 4096 cap for exactly UPDATE/NOTIFICATION/ROUTE-REFRESH; (E6.as-trans) the raw 2-octet My-AS is only read through the 4-octet-aware helper and AS_TRANS is substituted exactly above 65535; (E6.addpath-direction) serialisers use the send and decoders the receive direction. Also: (E6.option-scan-any) marshalling options combine by OR; (E6.hold-timer-source) only OPEN construction and negotiation read the configured hold time; (E6.per-family-independent) the local ADD-PATH mode of a family does not depend on the families before it.",
		Not: "The numeric results for all configurations and OPEN messages (which capability multiset yields which option values) are not decided beyond these shapes.",
		Run: func(c *Ctx) {
			c.ruleRatchets("C08")
			c.ruleValidatorTestsSubject("E6.validator-tests-message", map[string]int{"pkg/packet/bgp.ValidateOpenMsg": 0, "pkg/packet/bgp.ValidateUpdateMsg": 0, "pkg/packet/bgp.ValidateAttribute": 0}, 3)
			c.ruleSessionOptionsRefreshed("E6.session-options", nil, 7)
			c.ruleHoldTimeMin()
			c.ruleHoldTimeDomain()
			c.ruleFamilyIntersection()
			c.ruleMarshallingOptions()
			c.ruleExtendedMessageTypes()
			c.ruleASNReaders()
			c.ruleAddPathDirection("E6.addpath-direction")
			c.ruleOptionScanAny("E6.option-scan-any")
			c.ruleHoldTimerSource("E6.hold-timer-source")
			c.rulePerFamilyIndependent("E6.per-family-independent")
		},
	})
}
