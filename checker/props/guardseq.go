package props

import (
	"fmt"
	"go/ast"
	"go/constant"
	"go/token"
	"go/types"
	"sort"
	"strconv"
	"strings"

	"golang.org/x/tools/go/ssa"
)

// A guard is one conditional, wire-touching statement of a codec function: the package-level
// constants its condition names, and the conditions (its own and those of the enclosing ifs).
type guard struct {
	consts []string
	conds  []ast.Expr
	pos    token.Pos
}

// touchesWire: the node reads or writes wire bytes: indexes/slices a []byte, appends to one,
// or calls an encoding/binary accessor or a sibling codec method.
func touchesWire(info *types.Info, n ast.Node) bool {
	found := false
	isBytes := func(e ast.Expr) bool {
		t := info.TypeOf(e)
		if t == nil {
			return false
		}
		sl, ok := t.Underlying().(*types.Slice)
		if !ok {
			return false
		}
		b, ok := sl.Elem().Underlying().(*types.Basic)
		return ok && b.Kind() == types.Uint8
	}
	ast.Inspect(n, func(x ast.Node) bool {
		switch e := x.(type) {
		case *ast.FuncLit:
			return false
		case *ast.IndexExpr:
			if isBytes(e.X) {
				found = true
			}
		case *ast.SliceExpr:
			if isBytes(e.X) {
				found = true
			}
		case *ast.CallExpr:
			if id, ok := e.Fun.(*ast.Ident); ok && id.Name == "append" && len(e.Args) > 0 && isBytes(e.Args[0]) {
				found = true
			}
			if sel, ok := e.Fun.(*ast.SelectorExpr); ok {
				switch sel.Sel.Name {
				case "Serialize", "serialize", "encode", "DecodeFromBytes", "decodeFromBytes", "decode":
					found = true
				}
				if f, ok := info.Uses[sel.Sel].(*types.Func); ok && f.Pkg() != nil && f.Pkg().Path() == "encoding/binary" {
					found = true
				}
			}
		}
		return !found
	})
	return found
}

// guards: the conditional wire-touching statements of fn in source order.
func (c *Ctx) guards(fn *ssa.Function) []guard {
	info := c.infoFor(fn)
	body := funcBody(fn)
	if info == nil || body == nil {
		return nil
	}
	var seq []guard
	constsIn := func(e ast.Node) []string {
		set := map[string]bool{}
		if e == nil {
			return nil
		}
		ast.Inspect(e, func(n ast.Node) bool {
			if id, ok := n.(*ast.Ident); ok {
				if k, ok := info.Uses[id].(*types.Const); ok && k.Pkg() != nil && k.Parent() == k.Pkg().Scope() {
					set[k.Name()] = true
				}
			}
			return true
		})
		var out []string
		for k := range set {
			out = append(out, k)
		}
		sort.Strings(out)
		return out
	}
	var visit func(n ast.Node, inh []ast.Expr)
	visit = func(n ast.Node, inh []ast.Expr) {
		switch s := n.(type) {
		case nil:
			return
		case *ast.FuncLit:
			return
		case *ast.IfStmt:
			if ks := constsIn(s.Cond); len(ks) > 0 && touchesWire(info, s.Body) {
				seq = append(seq, guard{consts: ks, conds: append(append([]ast.Expr{}, inh...), s.Cond), pos: s.Pos()})
			}
			visit(s.Body, append(append([]ast.Expr{}, inh...), s.Cond))
			if s.Else != nil {
				visit(s.Else, inh)
			}
		case *ast.CaseClause:
			var ks []string
			for _, e := range s.List {
				ks = append(ks, constsIn(e)...)
			}
			wire := false
			for _, st := range s.Body {
				if touchesWire(info, st) {
					wire = true
				}
			}
			if len(ks) > 0 && wire {
				sort.Strings(ks)
				seq = append(seq, guard{consts: ks, conds: inh, pos: s.Pos()})
			}
			for _, st := range s.Body {
				visit(st, inh)
			}
		case *ast.BlockStmt:
			for _, st := range s.List {
				visit(st, inh)
			}
		case *ast.ForStmt:
			visit(s.Body, inh)
		case *ast.RangeStmt:
			visit(s.Body, inh)
		case *ast.SwitchStmt:
			visit(s.Body, inh)
		case *ast.TypeSwitchStmt:
			visit(s.Body, inh)
		case *ast.LabeledStmt:
			visit(s.Stmt, inh)
		}
	}
	visit(body, nil)
	return seq
}

// ---- evaluation of protocol-version conditions over a finite domain ---------------------

type verEnv struct {
	version int64
	name    string
	sw      float64
}

func (e verEnv) String() string {
	return fmt.Sprintf("version=%d software=%s%v", e.version, e.name, e.sw)
}

// versionDomain: every (ZAPI version, software name, software version) the conditions distinguish.
func versionDomain() []verEnv {
	var out []verEnv
	for _, v := range []int64{6, 5, 4, 3, 2} {
		for _, n := range []string{"frr", "cumulus", "quagga"} {
			for _, sv := range []float64{8.2, 8.1, 8, 7.5, 7.4, 7.3, 7.2, 7.1, 7, 6, 5, 4, 3, 0} {
				out = append(out, verEnv{v, n, sv})
			}
		}
	}
	return out
}

type tri int

const (
	triF tri = iota
	triT
	triU
)

// evalVer evaluates a condition under env; anything that is not a comparison of version /
// software.name / software.version with a literal is unknown.
func evalVer(e ast.Expr, env verEnv) tri {
	switch x := e.(type) {
	case *ast.ParenExpr:
		return evalVer(x.X, env)
	case *ast.UnaryExpr:
		if x.Op == token.NOT {
			switch evalVer(x.X, env) {
			case triT:
				return triF
			case triF:
				return triT
			}
		}
		return triU
	case *ast.BinaryExpr:
		switch x.Op {
		case token.LAND:
			a, b := evalVer(x.X, env), evalVer(x.Y, env)
			if a == triF || b == triF {
				return triF
			}
			if a == triT && b == triT {
				return triT
			}
			return triU
		case token.LOR:
			a, b := evalVer(x.X, env), evalVer(x.Y, env)
			if a == triT || b == triT {
				return triT
			}
			if a == triF && b == triF {
				return triF
			}
			return triU
		case token.EQL, token.NEQ, token.LSS, token.LEQ, token.GTR, token.GEQ:
			l, lok := verValue(x.X, env)
			r, rok := verValue(x.Y, env)
			if !lok || !rok {
				return triU
			}
			if l.Kind() == constant.String || r.Kind() == constant.String {
				if l.Kind() != r.Kind() {
					return triU
				}
			}
			if constant.Compare(l, x.Op, r) {
				return triT
			}
			return triF
		}
	}
	return triU
}

func verValue(e ast.Expr, env verEnv) (constant.Value, bool) {
	switch x := e.(type) {
	case *ast.ParenExpr:
		return verValue(x.X, env)
	case *ast.BasicLit:
		switch x.Kind {
		case token.INT, token.FLOAT:
			return constant.MakeFromLiteral(x.Value, x.Kind, 0), true
		case token.STRING:
			s, err := strconv.Unquote(x.Value)
			return constant.MakeString(s), err == nil
		}
	case *ast.Ident:
		if x.Name == "version" {
			return constant.MakeInt64(env.version), true
		}
	case *ast.SelectorExpr:
		if b, ok := x.X.(*ast.Ident); ok && b.Name == "software" {
			switch x.Sel.Name {
			case "version":
				return constant.MakeFloat64(env.sw), true
			case "name":
				return constant.MakeString(env.name), true
			}
		}
	}
	return nil, false
}

// active: under env, can the guarded statement run (flag bits assumed set)?
func (g guard) active(env verEnv) bool {
	for _, c := range g.conds {
		if evalVer(c, env) == triF {
			return false
		}
	}
	return true
}

type projGuard struct {
	key string
	gs  []guard
}

// projectGuards keeps only the constants in keep; consecutive guards with the same key are merged.
func projectGuards(seq []guard, keep map[string]bool) []projGuard {
	var out []projGuard
	for _, g := range seq {
		var k2 []string
		for _, k := range g.consts {
			if keep[k] {
				k2 = append(k2, k)
			}
		}
		if len(k2) == 0 {
			continue
		}
		key := strings.Join(k2, "+")
		if len(out) > 0 && out[len(out)-1].key == key {
			out[len(out)-1].gs = append(out[len(out)-1].gs, g)
			continue
		}
		out = append(out, projGuard{key: key, gs: []guard{g}})
	}
	return out
}

// guardDiff compares writer and reader: same guard constants in the same order, active under the same versions.
func guardDiff(w, r []guard) (common int, diff string) {
	cw, cr := map[string]bool{}, map[string]bool{}
	for _, g := range w {
		for _, k := range g.consts {
			cw[k] = true
		}
	}
	for _, g := range r {
		for _, k := range g.consts {
			cr[k] = true
		}
	}
	keep := map[string]bool{}
	for k := range cw {
		if cr[k] {
			keep[k] = true
		}
	}
	pw, pr := projectGuards(w, keep), projectGuards(r, keep)
	n := len(pw)
	if len(pr) < n {
		n = len(pr)
	}
	for i := 0; i < n; i++ {
		if pw[i].key != pr[i].key {
			return len(keep), fmt.Sprintf("position %d: writer tests %s, reader tests %s", i+1, pw[i].key, pr[i].key)
		}
	}
	if len(pw) != len(pr) {
		return len(keep), fmt.Sprintf("writer has %d guarded fields, reader %d", len(pw), len(pr))
	}
	dom := versionDomain()
	for i := range pw {
		for _, env := range dom {
			aw, ar := false, false
			for _, g := range pw[i].gs {
				aw = aw || g.active(env)
			}
			for _, g := range pr[i].gs {
				ar = ar || g.active(env)
			}
			if aw != ar {
				who := map[bool]string{true: "writes", false: "does not write"}[aw]
				whoR := map[bool]string{true: "reads", false: "does not read"}[ar]
				return len(keep), fmt.Sprintf("field guarded by %s: under %s the writer %s it and the reader %s it", pw[i].key, env, who, whoR)
			}
		}
	}
	return len(keep), ""
}

// ruleGuardOrder: writer and reader of one wire structure test the same flags in the same order, under the same protocol versions.
func (c *Ctx) ruleGuardOrder(rule string, pkgs []string, min int) {
	r := c.R
	r.Rule(rule, "for every type with both a writer (Serialize/serialize/encode) and a reader (DecodeFromBytes/decodeFromBytes/decode): the ordered sequence of flag/option constants that guard wire-touching statements (statements that append to, index, slice or binary-encode a []byte, or call a sibling codec) is the same in both, compared over the constants both mention; and each such optional field is active under exactly the same protocol versions in both (the version/software conditions of the guard and its enclosing ifs are evaluated over the finite domain of supported versions)", min)
	writers := map[string]bool{"Serialize": true, "serialize": true, "encode": true, "Encode": true}
	readers := map[string]bool{"DecodeFromBytes": true, "decodeFromBytes": true, "decode": true, "Decode": true}
	for _, short := range pkgs {
		byRecv := map[*types.Named][2]*ssa.Function{}
		for _, fn := range c.P.FuncsIn(short) {
			if fn.Parent() != nil || fn.Signature.Recv() == nil || fn.Blocks == nil {
				continue
			}
			t := fn.Signature.Recv().Type()
			if p, ok := t.(*types.Pointer); ok {
				t = p.Elem()
			}
			n, ok := t.(*types.Named)
			if !ok {
				continue
			}
			e := byRecv[n]
			if writers[fn.Name()] {
				e[0] = fn
			}
			if readers[fn.Name()] {
				e[1] = fn
			}
			byRecv[n] = e
		}
		var names []*types.Named
		for k := range byRecv {
			names = append(names, k)
		}
		sort.Slice(names, func(i, j int) bool { return names[i].Obj().Name() < names[j].Obj().Name() })
		for _, k := range names {
			e := byRecv[k]
			if e[0] == nil || e[1] == nil {
				continue
			}
			n, d := guardDiff(c.guards(e[0]), c.guards(e[1]))
			if n == 0 {
				continue
			}
			fk := short + "." + k.Obj().Name()
			cons := e[0].Name() + " vs " + e[1].Name()
			if d == "" {
				r.Ok(rule, fk, cons, c.P.Pos(e[0].Pos()), fmt.Sprintf("%d shared guard constants, same order, same versions", n))
			} else {
				r.Bad(rule, fk, cons, c.P.Pos(e[0].Pos()), "writer and reader disagree on optional fields — "+d+": such a message does not parse back")
			}
		}
	}
}
