package props

import (
	"encoding/json"
	"fmt"
	"go/ast"
	"go/types"
	"os"
	"path/filepath"
	"sort"
	"strings"

	"gbverif/ir"
)

// switchSig: one switch statement of a function: the type switched on and the named cases.
type switchSig struct {
	Func  string   `json:"func"`
	Tag   string   `json:"tag"`
	Cases []string `json:"cases"`
	File  string   `json:"file"`
}

// switchSigs collects, for every function of the packages, the value switches over named (enum-like) types
// and the type switches, with the constants / types their case clauses name.
func (c *Ctx) switchSigs(pkgs []string) []switchSig {
	var out []switchSig
	for _, short := range pkgs {
		for _, fn := range c.P.FuncsIn(short) {
			if fn.Parent() != nil {
				continue
			}
			info := c.infoFor(fn)
			body := funcBody(fn)
			if info == nil || body == nil {
				continue
			}
			file := c.P.Pos(fn.Pos())
			if i := strings.LastIndex(file, ":"); i > 0 {
				file = file[:i]
			}
			if strings.HasSuffix(file, ".pb.go") || strings.HasSuffix(file, "_string.go") {
				continue
			}
			fk := ir.FuncKey(fn)
			ast.Inspect(body, func(x ast.Node) bool {
				switch sw := x.(type) {
				case *ast.SwitchStmt:
					if sw.Tag == nil {
						return true
					}
					tt := info.TypeOf(sw.Tag)
					if tt == nil {
						return true
					}
					set := map[string]bool{}
					for _, st := range sw.Body.List {
						for _, e := range st.(*ast.CaseClause).List {
							ast.Inspect(e, func(y ast.Node) bool {
								if id, ok := y.(*ast.Ident); ok {
									if k, ok := info.Uses[id].(*types.Const); ok && k.Pkg() != nil && k.Parent() == k.Pkg().Scope() {
										set[k.Name()] = true
									}
								}
								return true
							})
						}
					}
					if len(set) < 2 {
						return true
					}
					out = append(out, switchSig{Func: fk, Tag: types.TypeString(tt, func(p *types.Package) string { return p.Name() }), Cases: sortedKeys(set), File: file})
				case *ast.TypeSwitchStmt:
					set := map[string]bool{}
					for _, st := range sw.Body.List {
						for _, e := range st.(*ast.CaseClause).List {
							if t := info.TypeOf(e); t != nil {
								set[types.TypeString(t, func(p *types.Package) string { return p.Name() })] = true
							}
						}
					}
					if len(set) < 2 {
						return true
					}
					out = append(out, switchSig{Func: fk, Tag: "type", Cases: sortedKeys(set), File: file})
				}
				return true
			})
		}
	}
	sort.SliceStable(out, func(i, j int) bool {
		if out[i].Func != out[j].Func {
			return out[i].Func < out[j].Func
		}
		return out[i].Tag < out[j].Tag
	})
	return out
}

func sortedKeys(m map[string]bool) []string {
	var s []string
	for k := range m {
		s = append(s, k)
	}
	sort.Strings(s)
	return s
}

var switchPkgs = []string{"pkg/packet/bgp", "pkg/packet/mrt", "pkg/packet/bmp", "pkg/packet/rtr", "pkg/packet/bfd", "pkg/zebra", "pkg/apiutil", "pkg/config/oc", "internal/pkg/table", "pkg/server"}

// ruleCaseRatchet: no case that the reviewed tree handles explicitly has dropped out of its switch.
func (c *Ctx) ruleCaseRatchet(rule string, pkgs []string, fileFilter func(file string) bool, baselineFile string, min int) {
	r := c.R
	r.Rule(rule, "dispatch-table ratchet: the committed baseline records, for every value switch over named constants and every type switch of the reviewed tree, the constants / types its case clauses name. A function that still has a switch over the same type but no switch that names everything the baseline switch named has lost a table row: the dropped constant or type now falls into the default branch (or nowhere). Functions and switches that no longer exist are not decided", min)
	var base []switchSig
	b, err := os.ReadFile(filepath.Join(homeDir(), baselineFile))
	if err != nil || json.Unmarshal(b, &base) != nil {
		r.Undec(rule, "-", "baseline:"+baselineFile, "-", "baseline file missing or unreadable")
		return
	}
	cur := map[string][]switchSig{}
	for _, s := range c.switchSigs(pkgs) {
		cur[s.Func+"|"+s.Tag] = append(cur[s.Func+"|"+s.Tag], s)
	}
	n := map[string]int{}
	for _, bs := range base {
		inPkgs := false
		for _, pk := range pkgs {
			if strings.Contains(bs.Func, pk+".") {
				inPkgs = true
			}
		}
		if !inPkgs || (fileFilter != nil && !fileFilter(bs.File)) {
			continue
		}
		n[bs.Func+bs.Tag]++
		cons := fmt.Sprintf("switch on %s #%d (%d cases)", bs.Tag, n[bs.Func+bs.Tag], len(bs.Cases))
		cands := cur[bs.Func+"|"+bs.Tag]
		if len(cands) == 0 {
			r.Add(oblT(rule, bs.Func, cons, bs.File, "ok", "the function or its switch over this type no longer exists: not decided", nil, true))
			continue
		}
		bestMissing := []string(nil)
		found := false
		for _, cs := range cands {
			have := map[string]bool{}
			for _, k := range cs.Cases {
				have[k] = true
			}
			var missing []string
			for _, k := range bs.Cases {
				if !have[k] {
					missing = append(missing, k)
				}
			}
			if len(missing) == 0 {
				found = true
				break
			}
			if bestMissing == nil || len(missing) < len(bestMissing) {
				bestMissing = missing
			}
		}
		if found {
			r.Ok(rule, bs.Func, cons, bs.File, "all named cases still present")
		} else {
			r.Bad(rule, bs.Func, cons, bs.File, "no switch over "+bs.Tag+" in this function names "+strings.Join(bestMissing, ", ")+" any more: the row was dropped from the dispatch table and the value is handled by the default branch or not at all")
		}
	}
}
