package props

import (
	"fmt"
	"go/ast"
	"go/constant"
	"go/token"
	"go/types"
	"sort"

	"golang.org/x/tools/go/ssa"

	"gbverif/ir"
)

// enumConsts returns name->int value for constants of a named integer type.
func enumConsts(n *types.Named) map[string]int64 {
	out := map[string]int64{}
	for k, v := range constsOf(n) {
		if i, ok := constInt(v); ok {
			out[k] = i
		}
	}
	return out
}

// ruleRFC7606 (E4): the per-attribute error class is never weaker than RFC 7606 §7 / RFC 6793 / RFC 8092.
func (c *Ctx) ruleRFC7606() {
	r := c.R
	rule := "E4.rfc7606"
	r.Rule(rule, "the attribute → error-handling table (the switch in the function of type func(BGPAttrType) ErrorHandling) is at least as strong as the RFC 7606 §7 minimum for every attribute, and its default is at least attribute-discard", 18)
	at := c.P.NamedType("pkg/packet/bgp", "BGPAttrType")
	eh := c.P.NamedType("pkg/packet/bgp", "ErrorHandling")
	if at == nil || eh == nil {
		r.Undec(rule, "-", "anchor", "-", "BGPAttrType / ErrorHandling not found")
		return
	}
	var fn *ssa.Function
	for _, f := range c.P.FuncsIn("pkg/packet/bgp") {
		s := f.Signature
		if f.Parent() == nil && s.Recv() == nil && s.Params().Len() == 1 && s.Results().Len() == 1 &&
			types.Identical(s.Params().At(0).Type(), at) && types.Identical(s.Results().At(0).Type(), eh) {
			fn = f
		}
	}
	if fn == nil {
		r.Undec(rule, "-", "anchor:func(BGPAttrType) ErrorHandling", "-", "classification function not found")
		return
	}
	ehv := enumConsts(eh)
	need := func(name string) int64 { return ehv[name] }
	const none, discard, taw, afisafi, reset = "ERROR_HANDLING_NONE", "ERROR_HANDLING_ATTRIBUTE_DISCARD", "ERROR_HANDLING_TREAT_AS_WITHDRAW", "ERROR_HANDLING_AFISAFI_DISABLE", "ERROR_HANDLING_SESSION_RESET"
	for _, k := range []string{none, discard, taw, afisafi, reset} {
		if _, ok := ehv[k]; !ok {
			r.Undec(rule, ir.FuncKey(fn), "anchor:"+k, "-", "error-handling constant not found")
			return
		}
	}
	if !(ehv[none] < ehv[discard] && ehv[discard] < ehv[taw] && ehv[taw] < ehv[afisafi] && ehv[afisafi] < ehv[reset]) {
		r.Bad(rule, ir.FuncKey(fn), "ErrorHandling order", c.P.Pos(eh.Obj().Pos()), "the numeric order of the ErrorHandling constants is not none < discard < treat-as-withdraw < afi/safi-disable < reset; 'Stronger' compares them numerically")
		return
	}
	r.Ok(rule, ir.FuncKey(fn), "ErrorHandling order", c.P.Pos(eh.Obj().Pos()), "none < discard < treat-as-withdraw < afi/safi disable < session reset")
	// RFC minimum per attribute (RFC 7606 §7.1–7.14, RFC 6793 §6, RFC 8092 §5, RFC 6514/7606 PMSI: treat-as-withdraw by §2 default for optional transitive w/ NLRI semantics kept as in gobgp)
	min := map[string]string{
		"BGP_ATTR_TYPE_ORIGIN": taw, "BGP_ATTR_TYPE_AS_PATH": taw, "BGP_ATTR_TYPE_NEXT_HOP": taw, "BGP_ATTR_TYPE_MULTI_EXIT_DISC": taw,
		"BGP_ATTR_TYPE_LOCAL_PREF": taw, "BGP_ATTR_TYPE_ATOMIC_AGGREGATE": discard, "BGP_ATTR_TYPE_AGGREGATOR": discard,
		"BGP_ATTR_TYPE_COMMUNITIES": taw, "BGP_ATTR_TYPE_ORIGINATOR_ID": taw, "BGP_ATTR_TYPE_CLUSTER_LIST": taw,
		"BGP_ATTR_TYPE_MP_REACH_NLRI": afisafi, "BGP_ATTR_TYPE_MP_UNREACH_NLRI": afisafi,
		"BGP_ATTR_TYPE_EXTENDED_COMMUNITIES": taw, "BGP_ATTR_TYPE_IP6_EXTENDED_COMMUNITIES": taw, "BGP_ATTR_TYPE_LARGE_COMMUNITY": taw,
		"BGP_ATTR_TYPE_AS4_PATH": discard, "BGP_ATTR_TYPE_AS4_AGGREGATOR": discard,
	}
	sws := c.valueSwitches(fn, at)
	if len(sws) != 1 {
		r.Undec(rule, ir.FuncKey(fn), "switch", c.P.Pos(fn.Pos()), fmt.Sprintf("expected one switch on BGPAttrType, found %d", len(sws)))
		return
	}
	info := c.infoFor(fn)
	retOf := func(cc *ast.CaseClause) (int64, bool) {
		if cc == nil || len(cc.Body) != 1 {
			return 0, false
		}
		rs, ok := cc.Body[0].(*ast.ReturnStmt)
		if !ok || len(rs.Results) != 1 {
			return 0, false
		}
		return constInt(info.Types[rs.Results[0]].Value)
	}
	fk := ir.FuncKey(fn)
	defv, defok := retOf(sws[0].Default)
	if !sws[0].HasDefault || !defok {
		r.Undec(rule, fk, "default", c.P.Pos(sws[0].Stmt.Pos()), "no default branch returning a constant: unknown attributes have no class")
	} else if defv < need(discard) {
		r.Bad(rule, fk, "default", c.P.Pos(sws[0].Default.Pos()), "default class is weaker than attribute-discard")
	} else {
		r.Ok(rule, fk, "default", c.P.Pos(sws[0].Default.Pos()), fmt.Sprintf("default class %d ≥ discard", defv))
	}
	var names []string
	for k := range min {
		names = append(names, k)
	}
	sort.Strings(names)
	for _, k := range names {
		cc, ok := sws[0].Cases[k]
		v, vok := defv, defok
		pos := c.P.Pos(sws[0].Stmt.Pos())
		if ok {
			v, vok = retOf(cc)
			pos = c.P.Pos(cc.Pos())
		}
		if !vok {
			r.Undec(rule, fk, k, pos, "case does not return a constant class")
			continue
		}
		if v < need(min[k]) {
			r.Bad(rule, fk, k, pos, fmt.Sprintf("class %d is weaker than the RFC minimum %s(%d)", v, min[k], need(min[k])))
		} else {
			r.Ok(rule, fk, k, pos, fmt.Sprintf("class %d ≥ RFC minimum %s", v, min[k]))
		}
	}
}

// ruleStrongestWins (E6): an accumulated "strongest error" variable is only overwritten under Stronger().
func (c *Ctx) ruleStrongestWins() {
	r := c.R
	rule := "E6.strongest-wins"
	r.Rule(rule, "in every function that accumulates a strongest error (a variable passed to (*MessageError).Stronger), each assignment to that variable is guarded by candidate.Stronger(variable) for the very candidate assigned", 8)
	pk := c.P.Pkg("pkg/packet/bgp")
	if pk == nil {
		r.Undec(rule, "-", "anchor", "-", "package not found")
		return
	}
	var stronger *types.Func
	if me := c.P.NamedType("pkg/packet/bgp", "MessageError"); me != nil {
		ms := types.NewMethodSet(types.NewPointer(me))
		if sel := ms.Lookup(pk.Types, "Stronger"); sel != nil {
			stronger = sel.Obj().(*types.Func)
		}
	}
	if stronger == nil {
		r.Undec(rule, "-", "anchor:MessageError.Stronger", "-", "method not found")
		return
	}
	// Stronger itself compares with '>'
	if sfn := c.P.SSA.FuncValue(stronger); sfn != nil {
		ok := false
		for _, b := range sfn.Blocks {
			for _, in := range b.Instrs {
				if bo, isB := in.(*ssa.BinOp); isB && bo.Op == token.GTR {
					fx, fy := fieldLoadName(bo.X), fieldLoadName(bo.Y)
					if fx == "ErrorHandling" && fy == "ErrorHandling" && isRecvDerived(bo.X, sfn) && !isRecvDerived(bo.Y, sfn) {
						ok = true
					}
				}
			}
		}
		if ok {
			r.Ok(rule, ir.FuncKey(sfn), "compares receiver.ErrorHandling > other.ErrorHandling", c.P.Pos(sfn.Pos()), "")
		} else {
			r.Bad(rule, ir.FuncKey(sfn), "compares receiver.ErrorHandling > other.ErrorHandling", c.P.Pos(sfn.Pos()), "Stronger no longer compares the receiver's class strictly greater than the argument's")
		}
	}
	sfn := c.P.SSA.FuncValue(stronger)
	// On the SSA form, so that naming the asserted error in a local, or asserting it once instead of at every
	// use, changes nothing: the value written to the accumulator and the receiver of the guarding Stronger call
	// must be the same object once interface conversions and type assertions are stripped.
	root := func(v ssa.Value) ssa.Value {
		for {
			switch x := v.(type) {
			case *ssa.MakeInterface:
				v = x.X
			case *ssa.ChangeInterface:
				v = x.X
			case *ssa.ChangeType:
				v = x.X
			case *ssa.TypeAssert:
				v = x.X
			case *ssa.Extract:
				if ta, ok := x.Tuple.(*ssa.TypeAssert); ok && x.Index == 0 {
					v = ta.X
				} else {
					return v
				}
			default:
				return v
			}
		}
	}
	for _, fn := range c.P.Funcs {
		if !c.P.InModule(fn) || fn.Blocks == nil || fn == sfn {
			continue
		}
		var calls []*ssa.Call
		for _, b := range fn.Blocks {
			for _, in := range b.Instrs {
				if call, ok := in.(*ssa.Call); ok && call.Call.StaticCallee() == sfn && len(call.Call.Args) == 2 {
					calls = append(calls, call)
				}
			}
		}
		if len(calls) == 0 {
			continue
		}
		fk := ir.FuncKey(fn)
		// the accumulator: a phi web (register variable) or an Alloc cell (captured / address taken)
		web := map[ssa.Value]bool{}
		var cells []*ssa.Alloc
		var grow func(v ssa.Value)
		grow = func(v ssa.Value) {
			v = root(v)
			if web[v] {
				return
			}
			switch x := v.(type) {
			case *ssa.Phi:
				web[x] = true
				for _, e := range x.Edges {
					if _, isPhi := root(e).(*ssa.Phi); isPhi {
						grow(e)
					}
				}
				if x.Referrers() != nil {
					for _, ref := range *x.Referrers() {
						if ph, ok := ref.(*ssa.Phi); ok {
							grow(ph)
						}
					}
				}
			case *ssa.UnOp:
				if al, ok := x.X.(*ssa.Alloc); ok && x.Op == token.MUL {
					for _, cl := range cells {
						if cl == al {
							return
						}
					}
					cells = append(cells, al)
				}
			}
		}
		for _, call := range calls {
			grow(call.Call.Args[1])
		}
		// the variable the candidates are assigned to: phis that merge a Stronger receiver (same interface type)
		for _, call := range calls {
			rv := root(call.Call.Args[0])
			for _, b := range fn.Blocks {
				for _, in := range b.Instrs {
					ph, ok := in.(*ssa.Phi)
					if !ok || !types.Identical(ph.Type(), call.Call.Args[1].Type()) {
						continue
					}
					for _, e := range ph.Edges {
						if root(e) == rv {
							grow(ph)
						}
					}
				}
			}
		}
		// what the accumulator may hold: a web phi, the initial nil, or a value some web phi merges in
		feeds := map[ssa.Value]bool{}
		for v := range web {
			for _, e := range v.(*ssa.Phi).Edges {
				feeds[root(e)] = true
			}
		}
		isAcc := func(v ssa.Value) bool {
			v = root(v)
			if web[v] {
				return true
			}
			if k, ok := v.(*ssa.Const); ok && k.Value == nil {
				return true
			}
			if u, ok := v.(*ssa.UnOp); ok && u.Op == token.MUL {
				for _, cl := range cells {
					if u.X == ssa.Value(cl) {
						return true
					}
				}
			}
			return false
		}
		// guarded(v, at): some Stronger(recv, acc) with root(recv) == root(v) whose true edge dominates `at`
		guarded := func(v ssa.Value, at *ssa.BasicBlock) bool {
			rv := root(v)
			for _, call := range calls {
				if root(call.Call.Args[0]) != rv || !(isAcc(call.Call.Args[1]) || feeds[root(call.Call.Args[1])]) || call.Referrers() == nil {
					continue
				}
				for _, ref := range *call.Referrers() {
					iff, ok := ref.(*ssa.If)
					if !ok || iff.Cond != ssa.Value(call) {
						continue
					}
					t := iff.Block().Succs[0]
					if len(t.Preds) == 1 && (t == at || t.Dominates(at)) {
						return true
					}
				}
			}
			return false
		}
		n := 0
		check := func(v ssa.Value, at *ssa.BasicBlock, pos ssa.Instruction) {
			if k, ok := root(v).(*ssa.Const); ok && k.Value == nil {
				return // initial nil
			}
			if web[root(v)] {
				return
			}
			n++
			cons := fmt.Sprintf("strongest error assigned #%d", n)
			where := c.P.Pos(fn.Pos())
			if pos != nil {
				where = c.P.InstrPos(pos)
			} else if in, ok := root(v).(ssa.Instruction); ok && in.Pos().IsValid() {
				where = c.P.InstrPos(in)
			}
			if guarded(v, at) {
				r.Ok(rule, fk, cons, where, "guarded by candidate.Stronger(accumulator)")
			} else {
				r.Bad(rule, fk, cons, where, "the accumulated strongest error is overwritten without testing that the new error is stronger: a weaker error arriving later downgrades the reaction")
			}
		}
		var phis []*ssa.Phi
		for v := range web {
			phis = append(phis, v.(*ssa.Phi))
		}
		sort.Slice(phis, func(i, j int) bool {
			if phis[i].Block().Index != phis[j].Block().Index {
				return phis[i].Block().Index < phis[j].Block().Index
			}
			return phis[i].Pos() < phis[j].Pos()
		})
		seenVal := map[ssa.Value]bool{}
		for _, ph := range phis {
			for i, e := range ph.Edges {
				if seenVal[root(e)] {
					continue
				}
				seenVal[root(e)] = true
				check(e, ph.Block().Preds[i], nil)
			}
		}
		for _, cl := range cells {
			if cl.Referrers() == nil {
				continue
			}
			for _, ref := range *cl.Referrers() {
				if st, ok := ref.(*ssa.Store); ok && st.Addr == ssa.Value(cl) {
					check(st.Val, st.Block(), st)
				}
			}
		}
	}
}

// canon resolves local aliases (set per function by ruleStrongestWins).
var canon = func(o types.Object) types.Object { return o }

func fieldLoadName(v ssa.Value) string {
	if u, ok := stripConv(v).(*ssa.UnOp); ok {
		if fa, ok := u.X.(*ssa.FieldAddr); ok {
			return ir.FieldOf(fa).Name()
		}
	}
	return ""
}

func isRecvDerived(v ssa.Value, fn *ssa.Function) bool {
	if u, ok := stripConv(v).(*ssa.UnOp); ok {
		if fa, ok := u.X.(*ssa.FieldAddr); ok {
			return len(fn.Params) > 0 && fa.X == ssa.Value(fn.Params[0])
		}
	}
	return false
}

func rootIdentObj(info *types.Info, e ast.Expr) types.Object {
	for {
		switch x := e.(type) {
		case *ast.Ident:
			return info.Uses[x]
		case *ast.TypeAssertExpr:
			e = x.X
		case *ast.ParenExpr:
			e = x.X
		case *ast.StarExpr:
			e = x.X
		case *ast.UnaryExpr:
			e = x.X
		default:
			return nil
		}
	}
}

// guardedByStronger: the innermost enclosing if (then-branch) tests cand.Stronger(acc).
func guardedByStronger(info *types.Info, stack []ast.Node, as *ast.AssignStmt, stronger *types.Func, acc *types.Var, cand types.Object) bool {
	for i := len(stack) - 2; i >= 0; i-- {
		ifs, ok := stack[i].(*ast.IfStmt)
		if !ok {
			if _, isFn := stack[i].(*ast.FuncLit); isFn {
				return false
			}
			continue
		}
		// must be in the then-branch
		if i+1 < len(stack) && stack[i+1] != ast.Node(ifs.Body) {
			continue
		}
		ok2 := false
		ast.Inspect(ifs.Cond, func(n ast.Node) bool {
			call, ok := n.(*ast.CallExpr)
			if !ok || len(call.Args) != 1 {
				return true
			}
			sel, ok := call.Fun.(*ast.SelectorExpr)
			if !ok || info.Uses[sel.Sel] != types.Object(stronger) {
				return true
			}
			if id, ok := call.Args[0].(*ast.Ident); !ok || info.Uses[id] != types.Object(acc) {
				return true
			}
			if cand != nil && canon(rootIdentObj(info, sel.X)) == cand {
				ok2 = true
			}
			return true
		})
		// the condition must not be negated or disjunctive
		if ok2 {
			if be, isB := ifs.Cond.(*ast.BinaryExpr); isB && be.Op == token.LOR {
				return false
			}
			if ue, isU := ifs.Cond.(*ast.UnaryExpr); isU && ue.Op == token.NOT {
				return false
			}
			return true
		}
		return false // innermost enclosing if is some other condition: accept only a direct guard
	}
	return false
}

// ---- enum-domain evaluation ---------------------------------------------------

// feasibleEdge decides an If on value h under the assumption h == d (domain value).
// ok=false means the condition does not (only) depend on h.
func decideIf(cond ssa.Value, h ssa.Value, d int64) (val bool, ok bool) {
	bo, isB := cond.(*ssa.BinOp)
	if !isB {
		return false, false
	}
	var k *ssa.Const
	var left bool
	if sameSym(bo.X, h) {
		k, _ = stripConv(bo.Y).(*ssa.Const)
		left = true
	} else if sameSym(bo.Y, h) {
		k, _ = stripConv(bo.X).(*ssa.Const)
	}
	if k == nil || k.Value == nil {
		return false, false
	}
	kv, isInt := constInt(k.Value)
	if !isInt {
		return false, false
	}
	a, b := d, kv
	if !left {
		a, b = kv, d
	}
	return constant.Compare(constant.MakeInt64(a), bo.Op, constant.MakeInt64(b)), true
}

// reachableUnder: can block target be reached from entry when h == d?
func reachableUnder(fn *ssa.Function, h ssa.Value, d int64, target *ssa.BasicBlock) bool {
	seen := map[*ssa.BasicBlock]bool{}
	work := []*ssa.BasicBlock{fn.Blocks[0]}
	for len(work) > 0 {
		b := work[0]
		work = work[1:]
		if seen[b] {
			continue
		}
		seen[b] = true
		if b == target {
			return true
		}
		if len(b.Instrs) > 0 {
			if iff, ok := b.Instrs[len(b.Instrs)-1].(*ssa.If); ok {
				if v, ok := decideIf(iff.Cond, h, d); ok {
					if v {
						work = append(work, b.Succs[0])
					} else {
						work = append(work, b.Succs[1])
					}
					continue
				}
			}
		}
		work = append(work, b.Succs...)
	}
	return false
}

// ruleValidationGate: every handling class under which the UPDATE goes on to be used as received
// (none, attribute-discard) still passes semantic validation.
func (c *Ctx) ruleValidationGate() {
	r := c.R
	rule := "E6.validation-gate"
	r.Rule(rule, "in the receive loop, ValidateUpdateMsg is reachable for every decoder verdict under which the UPDATE is still going to be installed (none, attribute-discard): evaluated over the finite domain of ErrorHandling", 2)
	eh := c.P.NamedType("pkg/packet/bgp", "ErrorHandling")
	val := c.P.Func("pkg/packet/bgp.ValidateUpdateMsg")
	if eh == nil || val == nil {
		r.Undec(rule, "-", "anchor", "-", "ErrorHandling / ValidateUpdateMsg not found")
		return
	}
	ehv := enumConsts(eh)
	found := 0
	for _, fn := range c.P.FuncsIn("pkg/server") {
		for _, b := range fn.Blocks {
			for _, in := range b.Instrs {
				call, ok := in.(*ssa.Call)
				if !ok || call.Call.StaticCallee() != val {
					continue
				}
				found++
				fk := ir.FuncKey(fn)
				// candidate h values: operands of comparisons with ErrorHandling constants
				hs := map[ssa.Value]bool{}
				for _, bb := range fn.Blocks {
					for _, i2 := range bb.Instrs {
						if bo, ok := i2.(*ssa.BinOp); ok {
							if types.Identical(bo.X.Type(), eh) {
								if _, isC := bo.X.(*ssa.Const); !isC {
									hs[bo.X] = true
								}
								if _, isC := bo.Y.(*ssa.Const); !isC {
									hs[bo.Y] = true
								}
							}
						}
					}
				}
				for _, name := range []string{"ERROR_HANDLING_NONE", "ERROR_HANDLING_ATTRIBUTE_DISCARD"} {
					d := ehv[name]
					okAll := true
					for h := range hs {
						if !reachableUnder(fn, h, d, b) {
							okAll = false
						}
					}
					if okAll {
						r.Ok(rule, fk, "validate when handling="+name, c.P.InstrPos(call), "ValidateUpdateMsg reachable under this verdict")
					} else {
						r.Bad(rule, fk, "validate when handling="+name, c.P.InstrPos(call), "semantic validation is skipped for this decoder verdict although the UPDATE is then installed: a message that is also missing a mandatory attribute would pass")
					}
				}
			}
		}
	}
	if found == 0 {
		r.Undec(rule, "-", "anchor:call ValidateUpdateMsg", "-", "no call of ValidateUpdateMsg in pkg/server")
	}
}

// ruleAfiSafiTotal: the mapping from an error to the session action never yields AFI/SAFI disable.
func (c *Ctx) ruleAfiSafiTotal() {
	r := c.R
	rule := "E6.afisafi-rewritten"
	r.Rule(rule, "every function of pkg/server returning an ErrorHandling (handlingError) maps AFI/SAFI-disable to session reset: evaluated path by path over the finite domain of the error's class", 1)
	eh := c.P.NamedType("pkg/packet/bgp", "ErrorHandling")
	if eh == nil {
		r.Undec(rule, "-", "anchor", "-", "ErrorHandling not found")
		return
	}
	ehv := enumConsts(eh)
	n := 0
	for _, fn := range c.P.FuncsIn("pkg/server") {
		s := fn.Signature
		if fn.Parent() != nil || s.Results().Len() != 1 || !types.Identical(s.Results().At(0).Type(), eh) {
			continue
		}
		n++
		fk := ir.FuncKey(fn)
		// the class loaded from the error (any load of a field of type ErrorHandling)
		var hs []ssa.Value
		for _, b := range fn.Blocks {
			for _, in := range b.Instrs {
				if u, ok := in.(*ssa.UnOp); ok && u.Op == token.MUL && types.Identical(u.Type(), eh) {
					if _, isF := u.X.(*ssa.FieldAddr); isF {
						hs = append(hs, u)
					}
				}
			}
		}
		bad := false
		for _, h := range hs {
			for name, d := range ehv {
				for _, rv := range returnsUnder(fn, h, d) {
					if rv == ehv["ERROR_HANDLING_AFISAFI_DISABLE"] {
						bad = true
						r.Bad(rule, fk, "returns AFISAFI_DISABLE when class="+name, c.P.Pos(fn.Pos()), "AFI/SAFI disable is not implemented by the receive path (it panics on it): it must be converted to session reset here")
					}
				}
			}
		}
		if !bad {
			r.Ok(rule, fk, "never returns AFISAFI_DISABLE", c.P.Pos(fn.Pos()), fmt.Sprintf("evaluated %d class loads × %d domain values", len(hs), len(ehv)))
		}
	}
	if n == 0 {
		r.Undec(rule, "-", "anchor", "-", "no function returning ErrorHandling in pkg/server")
	}
}

// returnsUnder enumerates the integer values fn may return when h == d (loop-free path walk;
// phis resolved by the edge taken; unknown values reported as -1).
func returnsUnder(fn *ssa.Function, h ssa.Value, d int64) []int64 {
	var out []int64
	seen := map[[2]int]int{}
	var eval func(v ssa.Value, pred, cur *ssa.BasicBlock, depth int) int64
	eval = func(v ssa.Value, pred, cur *ssa.BasicBlock, depth int) int64 {
		if depth > 8 {
			return -1
		}
		v = stripConv(v)
		if sameSym(v, h) {
			return d
		}
		switch x := v.(type) {
		case *ssa.Const:
			if i, ok := constInt(x.Value); ok {
				return i
			}
		}
		return -1
	}
	var walk func(b, pred *ssa.BasicBlock, env map[*ssa.Phi]int64, depth int)
	walk = func(b, pred *ssa.BasicBlock, env map[*ssa.Phi]int64, depth int) {
		key := [2]int{b.Index, -1}
		if pred != nil {
			key[1] = pred.Index
		}
		if seen[key] > 3 || depth > 200 {
			return
		}
		seen[key]++
		defer func() { seen[key]-- }()
		env2 := map[*ssa.Phi]int64{}
		for k, v := range env {
			env2[k] = v
		}
		for _, in := range b.Instrs {
			if phi, ok := in.(*ssa.Phi); ok && pred != nil {
				for i, p := range b.Preds {
					if p == pred {
						e := phi.Edges[i]
						if pv, isPhi := stripConv(e).(*ssa.Phi); isPhi {
							if val, ok := env[pv]; ok {
								env2[phi] = val
								continue
							}
						}
						env2[phi] = eval(e, pred, b, 0)
					}
				}
			}
		}
		last := b.Instrs[len(b.Instrs)-1]
		switch x := last.(type) {
		case *ssa.Return:
			if len(x.Results) == 1 {
				rv := stripConv(x.Results[0])
				if phi, ok := rv.(*ssa.Phi); ok {
					if val, ok := env2[phi]; ok {
						out = append(out, val)
						return
					}
				}
				out = append(out, eval(rv, pred, b, 0))
			}
		case *ssa.If:
			if v, ok := decideIf(x.Cond, h, d); ok {
				if v {
					walk(b.Succs[0], b, env2, depth+1)
				} else {
					walk(b.Succs[1], b, env2, depth+1)
				}
				return
			}
			walk(b.Succs[0], b, env2, depth+1)
			walk(b.Succs[1], b, env2, depth+1)
		default:
			for _, s := range b.Succs {
				walk(s, b, env2, depth+1)
			}
		}
	}
	walk(fn.Blocks[0], nil, map[*ssa.Phi]int64{}, 0)
	return out
}

// ruleDiscardDropped: attributes whose decoding failed with discard class are not kept.
func (c *Ctx) ruleDiscardDropped() {
	r := c.R
	rule := "E6.discard-dropped"
	r.Rule(rule, "in BGPUpdate.DecodeFromBytes the append to PathAttributes inside the attribute loop is only reachable over edges that establish 'no error' or 'class != attribute-discard'", 1)
	fn := c.P.Func("(*pkg/packet/bgp.BGPUpdate).DecodeFromBytes")
	eh := c.P.NamedType("pkg/packet/bgp", "ErrorHandling")
	if fn == nil || eh == nil {
		r.Undec(rule, "-", "anchor", "-", "BGPUpdate.DecodeFromBytes not found")
		return
	}
	discard := enumConsts(eh)["ERROR_HANDLING_ATTRIBUTE_DISCARD"]
	found := 0
	for _, b := range fn.Blocks {
		for _, in := range b.Instrs {
			st, ok := in.(*ssa.Store)
			if !ok {
				continue
			}
			fa, ok := st.Addr.(*ssa.FieldAddr)
			if !ok || ir.FieldOf(fa).Name() != "PathAttributes" {
				continue
			}
			call, ok := st.Val.(*ssa.Call)
			if !ok {
				continue
			}
			if bi, ok := call.Call.Value.(*ssa.Builtin); !ok || bi.Name() != "append" {
				continue
			}
			found++
			if edgesJustified(call.Block(), discard, map[*ssa.BasicBlock]bool{}) {
				r.Ok(rule, ir.FuncKey(fn), "append PathAttributes", c.P.InstrPos(call), "every incoming edge tests e == nil or e.ErrorHandling != ATTRIBUTE_DISCARD")
			} else {
				r.Bad(rule, ir.FuncKey(fn), "append PathAttributes", c.P.InstrPos(call), "an attribute that failed to decode with attribute-discard class can still be appended to the message")
			}
		}
	}
	if found == 0 {
		r.Undec(rule, ir.FuncKey(fn), "anchor:append PathAttributes", "-", "append of decoded attributes not found")
	}
}

func edgesJustified(b *ssa.BasicBlock, discard int64, seen map[*ssa.BasicBlock]bool) bool {
	if seen[b] {
		return true
	}
	seen[b] = true
	if len(b.Preds) == 0 {
		return false
	}
	for _, p := range b.Preds {
		last := p.Instrs[len(p.Instrs)-1]
		iff, ok := last.(*ssa.If)
		if !ok {
			if !edgesJustified(p, discard, seen) {
				return false
			}
			continue
		}
		si := 0
		if p.Succs[1] == b {
			si = 1
		}
		bo, ok := iff.Cond.(*ssa.BinOp)
		if !ok {
			return false
		}
		just := false
		// e == nil  (true edge)   /  e != nil (false edge)
		if isNilConst(bo.X) || isNilConst(bo.Y) {
			if (bo.Op == token.EQL && si == 0) || (bo.Op == token.NEQ && si == 1) {
				just = true
			}
		}
		// class != discard (true edge) / class == discard (false edge)
		var k *ssa.Const
		other := bo.X
		if kc, ok := stripConv(bo.Y).(*ssa.Const); ok {
			k = kc
		} else if kc, ok := stripConv(bo.X).(*ssa.Const); ok {
			k, other = kc, bo.Y
		}
		if k != nil && k.Value != nil && fieldLoadName(other) == "ErrorHandling" {
			if kv, ok := constInt(k.Value); ok && kv == discard {
				if (bo.Op == token.NEQ && si == 0) || (bo.Op == token.EQL && si == 1) {
					just = true
				}
			}
		}
		if !just {
			return false
		}
	}
	return true
}

func isNilConst(v ssa.Value) bool {
	k, ok := v.(*ssa.Const)
	return ok && k.IsNil()
}

// ruleTreatAsWithdrawFlow: the treat-as-withdraw verdict reaches every route built from the message.
func (c *Ctx) ruleTreatAsWithdrawFlow() {
	r := c.R
	rule := "E6.treat-as-withdraw-flow"
	r.Rule(rule, "the flag handed to ProcessMessage is 'handling == TREAT_AS_WITHDRAW', and inside ProcessMessage every NewPath receives as isWithdraw either that parameter or constant true; the attribute list is emptied under it", 4)
	pm := c.P.Func("internal/pkg/table.ProcessMessage")
	np := c.P.Func("internal/pkg/table.NewPath")
	eh := c.P.NamedType("pkg/packet/bgp", "ErrorHandling")
	if pm == nil || np == nil || eh == nil {
		r.Undec(rule, "-", "anchor", "-", "ProcessMessage / NewPath not found")
		return
	}
	taw := enumConsts(eh)["ERROR_HANDLING_TREAT_AS_WITHDRAW"]
	var flag *ssa.Parameter
	for _, p := range pm.Params {
		if b, ok := p.Type().Underlying().(*types.Basic); ok && b.Kind() == types.Bool {
			flag = p
		}
	}
	if flag == nil {
		r.Undec(rule, ir.FuncKey(pm), "anchor:bool parameter", "-", "treat-as-withdraw parameter not found")
		return
	}
	wi := -1
	// the parameter that NewPath stores into Path.IsWithdraw (found by what is done with it, not by its name)
	for _, b := range np.Blocks {
		for _, in := range b.Instrs {
			if st, ok := in.(*ssa.Store); ok {
				if fa, ok := st.Addr.(*ssa.FieldAddr); ok && fieldOfName(fa) == "IsWithdraw" {
					for i, p := range np.Params {
						if st.Val == ssa.Value(p) {
							wi = i
						}
					}
				}
			}
		}
	}
	if wi < 0 {
		r.Undec(rule, ir.FuncKey(np), "anchor:isWithdraw", "-", "isWithdraw parameter of NewPath not found")
		return
	}
	n := 0
	for _, b := range pm.Blocks {
		for _, in := range b.Instrs {
			call, ok := in.(*ssa.Call)
			if !ok || call.Call.StaticCallee() != np {
				continue
			}
			n++
			arg := call.Call.Args[wi]
			cons := fmt.Sprintf("NewPath #%d isWithdraw", n)
			if arg == ssa.Value(flag) {
				r.Ok(rule, ir.FuncKey(pm), cons, c.P.InstrPos(call), "the treat-as-withdraw parameter")
			} else if k, ok := arg.(*ssa.Const); ok && k.Value != nil && constant.BoolVal(k.Value) {
				r.Ok(rule, ir.FuncKey(pm), cons, c.P.InstrPos(call), "constant true (withdrawn routes)")
			} else {
				r.Bad(rule, ir.FuncKey(pm), cons, c.P.InstrPos(call), "a route built from the message ignores the treat-as-withdraw verdict")
			}
		}
	}
	// call sites of ProcessMessage in pkg/server
	for _, fn := range c.P.FuncsIn("pkg/server") {
		for _, b := range fn.Blocks {
			for _, in := range b.Instrs {
				call, ok := in.(*ssa.Call)
				if !ok || call.Call.StaticCallee() != pm {
					continue
				}
				var arg ssa.Value
				for i, p := range pm.Params {
					if p == flag {
						arg = call.Call.Args[i]
					}
				}
				bo, isB := arg.(*ssa.BinOp)
				good := false
				if isB && bo.Op == token.EQL {
					for _, pair := range [][2]ssa.Value{{bo.X, bo.Y}, {bo.Y, bo.X}} {
						if k, ok := stripConv(pair[1]).(*ssa.Const); ok && k.Value != nil {
							if kv, ok := constInt(k.Value); ok && kv == taw && fieldLoadName(pair[0]) == "handling" {
								good = true
							}
						}
					}
				}
				if good {
					r.Ok(rule, ir.FuncKey(fn), "ProcessMessage flag", c.P.InstrPos(call), "handling == TREAT_AS_WITHDRAW")
				} else {
					r.Bad(rule, ir.FuncKey(fn), "ProcessMessage flag", c.P.InstrPos(call), "the treat-as-withdraw flag is not computed from the message's handling verdict")
				}
			}
		}
	}
}

func init() {
	register(&Check{
		ID: "C06",
		Expl: "Decides the containment disciplines for malformed UPDATEs that are visible in the code's shape: (E4.rfc7606) the attribute→reaction table is never weaker than RFC 7606/6793/8092 and the reaction constants are ordered as 'Stronger' assumes; (E6.strongest-wins) every assignment to an accumulated strongest error is guarded by candidate.Stronger(accumulator); " +
			"(E6.discard-dropped) discard-class attributes are not kept in the decoded message; (E6.validation-gate) semantic validation runs for every decoder verdict under which the message is still installed (enum-domain evaluation); (E6.afisafi-rewritten) AFI/SAFI disable is always rewritten to session reset; " +
			"(E6.treat-as-withdraw-flow) the treat-as-withdraw verdict is what every route built from the message receives as its withdraw flag; (E6.session-options) the error-handling regime and peer-type flags the receive path consults are refreshed on every path when a session is established. Also: (E4.error-code-kinds) code constants are only used as codes and subcode constants as subcodes in comparisons and constructors; (E5.next-hop-validity) the NEXT_HOP refusal condition over all 16 valuations of its four tests. (E4.case-ratchet) against a committed baseline, no switch of the code this property is anchored in has lost a named case. (E6.call-ratchet) against a committed baseline, no function of that code has stopped calling (directly or through helpers) a non-trivial callee it called on the reviewed tree.",
		Not: "That each decoder classifies each malformation correctly, NOTIFICATION code/subcode values, and the absence of malformed attributes on installed routes for all inputs are value-level and not decided.",
		Run: func(c *Ctx) {
			c.ruleRatchets("C06")
			c.ruleNarrowGuard("E5.narrow-guard", []string{"pkg/packet/bgp"}, 2)
			c.ruleErrorCodeKinds("E4.error-code-kinds", []string{"pkg/packet/bgp", "pkg/server"}, 40)
			c.ruleNextHopValidity("E5.next-hop-validity")
			c.ruleRFC7606()
			c.ruleStrongestWins()
			c.ruleDiscardDropped()
			c.ruleValidationGate()
			c.ruleAfiSafiTotal()
			c.ruleTreatAsWithdrawFlow()
			c.ruleSessionOptionsRefreshed("E6.session-options", map[string]bool{"isTreatAsWithdraw": true, "isEBGP": true, "isConfed": true, "familyMap": true}, 4)
		},
	})
}
